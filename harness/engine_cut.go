package main

// Engine "cut" (property C05): a real client channel makes a call with a deadline while the
// transport fails at a chosen byte offset of the request or of the response stream.
//
//   cut      model correspondence + oracle.  A loopback proxy sits between client and
//            server and, at byte offset n of one direction, closes both sockets / half-closes
//            towards the receiver / stalls that direction (other direction keeps flowing) /
//            closes eagerly right after byte n.  Mode "api" instead wraps the client's
//            socket through ChannelOptions.Dialer and makes Read/Write fail after n bytes.
//              dir 0: the server is a raw, specification-built peer answering with a
//                     multi-frame response of small frames; EVERY offset of the response
//                     stream (handshake bytes included).  Observable: what raw.ReadArgsV2
//                     returned to the caller.  Model: Model/Cut.v run_cut on the same bytes.
//              dir 1: the server is a real channel; the client writes a multi-frame request
//                     (ArgWriter.Flush); EVERY offset of the request stream.  Observable:
//                     what the handler read.  Model: run_cut on the bytes the server got.
//            Oracle (from the property statement): the caller has control back by
//            deadline + 250 ms (re-run 3 times before alarming) and holds either exactly the
//            expected response or an error; a handler that read its arguments without
//            error read exactly what was sent.
//   big      the same with full-size (64 KiB) frames between two real channels, offsets
//            around frame boundaries and random ones.
//   relay    client -> relay -> server, the fault on either hop (oracle only).
//   dialq    peer unreachable while other callers are connecting: a listener that never
//            answers the handshake (or a dialer that hangs until its context ends); a
//            caller with a short deadline queued behind callers with long ones.
//   noanswer peer completes the handshake, reads the request and never answers.
//   cancel   the caller cancels at a random moment of a slow exchange.

import (
	"bytes"
	"encoding/binary"
	"errors"
	"fmt"
	"math/rand"
	"net"
	"sort"
	"sync"
	"sync/atomic"
	"time"

	tchannel "github.com/uber/tchannel-go"
	"github.com/uber/tchannel-go/raw"
	"golang.org/x/net/context"
)

func init() { engines["cut"] = engineCut }

const (
	cutDeadline = 300 * time.Millisecond
	cutSlack    = 250 * time.Millisecond
)

const (
	modeClose = iota
	modeHalfClose
	modeStall
	modeCloseEager
	modeAPI
)

var modeNames = []string{"close", "half-close", "stall", "close-eager", "api-error"}

// ---------------------------------------------------------------- fault proxy

type faultSpec struct {
	dir  int // 0 = server->client stream, 1 = client->server stream
	off  int // absolute byte offset in that stream; <0 = no fault
	mode int
}

type faultProxy struct {
	ln     net.Listener
	target string
	spec   faultSpec
	mu     sync.Mutex
	rec    [2][]byte // bytes forwarded per direction
	conns  []net.Conn
	fired  int32
}

func newFaultProxy(target string, spec faultSpec) (*faultProxy, error) {
	ln, err := net.Listen("tcp", "127.0.0.1:0")
	if err != nil {
		return nil, err
	}
	p := &faultProxy{ln: ln, target: target, spec: spec}
	go p.serve()
	return p, nil
}

func (p *faultProxy) addr() string { return p.ln.Addr().String() }

func (p *faultProxy) close() {
	p.ln.Close()
	p.mu.Lock()
	for _, c := range p.conns {
		c.Close()
	}
	p.mu.Unlock()
}

func (p *faultProxy) recorded(dir int) []byte {
	p.mu.Lock()
	defer p.mu.Unlock()
	return append([]byte(nil), p.rec[dir]...)
}

func (p *faultProxy) serve() {
	for {
		c, err := p.ln.Accept()
		if err != nil {
			return
		}
		s, err := net.DialTimeout("tcp", p.target, time.Second)
		if err != nil {
			c.Close()
			continue
		}
		p.mu.Lock()
		p.conns = append(p.conns, c, s)
		p.mu.Unlock()
		go p.pump(1, c, s) // client -> server
		go p.pump(0, s, c) // server -> client
	}
}

// pump forwards src -> dst.  The fault fires when a byte beyond spec.off is about to be
// forwarded (so the receiver has got exactly spec.off bytes), or -- close-eager -- as soon
// as spec.off bytes have been forwarded.
func (p *faultProxy) pump(dir int, src, dst net.Conn) {
	buf := make([]byte, 32*1024)
	sent := 0
	faulty := p.spec.off >= 0 && p.spec.dir == dir
	discard := false
	fire := func() {
		atomic.StoreInt32(&p.fired, 1)
		switch p.spec.mode {
		case modeClose, modeCloseEager:
			src.Close()
			dst.Close()
		case modeHalfClose:
			if t, ok := dst.(*net.TCPConn); ok {
				t.CloseWrite()
			}
			discard = true
		case modeStall:
			discard = true
		}
	}
	if faulty && p.spec.mode == modeCloseEager && p.spec.off == 0 {
		fire()
		return
	}
	for {
		n, err := src.Read(buf)
		if n > 0 && !discard {
			chunk := buf[:n]
			if faulty && sent+len(chunk) > p.spec.off {
				chunk = chunk[:p.spec.off-sent]
			}
			if len(chunk) > 0 {
				if _, werr := dst.Write(chunk); werr != nil {
					return
				}
				p.mu.Lock()
				p.rec[dir] = append(p.rec[dir], chunk...)
				p.mu.Unlock()
				sent += len(chunk)
			}
			if faulty && (len(chunk) < n || (p.spec.mode == modeCloseEager && sent == p.spec.off)) {
				fire()
				if p.spec.mode == modeClose || p.spec.mode == modeCloseEager {
					return
				}
			}
		}
		if err != nil {
			if !discard {
				// the sender closed: pass the end of stream on
				if t, ok := dst.(*net.TCPConn); ok {
					t.CloseWrite()
				}
			}
			return
		}
	}
}

// faultConn: the client's socket as handed out by ChannelOptions.Dialer; after `off`
// bytes of one direction the corresponding call fails (bytes before are delivered).
type faultConn struct {
	net.Conn
	spec faultSpec
	mu   sync.Mutex
	n    [2]int
	rec  [2][]byte
}

var errInjected = errors.New("verif: injected socket error")

func (c *faultConn) Read(b []byte) (int, error) {
	if c.spec.off >= 0 && c.spec.dir == 0 {
		c.mu.Lock()
		left := c.spec.off - c.n[0]
		c.mu.Unlock()
		if left <= 0 {
			c.Conn.Close()
			return 0, errInjected
		}
		if len(b) > left {
			b = b[:left]
		}
	}
	n, err := c.Conn.Read(b)
	c.mu.Lock()
	c.n[0] += n
	c.rec[0] = append(c.rec[0], b[:n]...)
	c.mu.Unlock()
	return n, err
}

func (c *faultConn) Write(b []byte) (int, error) {
	if c.spec.off >= 0 && c.spec.dir == 1 {
		c.mu.Lock()
		left := c.spec.off - c.n[1]
		c.mu.Unlock()
		if len(b) > left {
			n := 0
			if left > 0 {
				n, _ = c.Conn.Write(b[:left])
			}
			c.mu.Lock()
			c.n[1] += n
			c.rec[1] = append(c.rec[1], b[:n]...)
			c.mu.Unlock()
			c.Conn.Close()
			return n, errInjected
		}
	}
	n, err := c.Conn.Write(b)
	c.mu.Lock()
	c.n[1] += n
	c.rec[1] = append(c.rec[1], b[:n]...)
	c.mu.Unlock()
	return n, err
}

// ---------------------------------------------------------------- exchanges

type cutExchange struct {
	dir        int
	name       string
	service    string
	method     string
	arg2, arg3 []byte // request
	res2, res3 []byte // response
	csum       byte   // raw peer's checksum type (dir 0)
	maxPayload int    // raw peer's frame payload limit (dir 0)
	flush2     []int  // split points of arg2 / arg3 (dir 1: ArgWriter.Flush between parts)
	flush3     []int
	big        bool
}

type cutResult struct {
	elapsed    time.Duration
	err        error
	got2, got3 []byte
	// server side (dir 1)
	handlerStarted bool
	handlerOK      bool
	hMethod        string
	h2, h3         []byte
	fwd            [2][]byte // bytes that reached the other side, per direction
	harness        string    // harness-level problem (not a verdict about the library)
}

func splitWrite(w tchannel.ArgWriter, err error, data []byte, cuts []int) error {
	if err != nil {
		return err
	}
	prev := 0
	for _, c := range cuts {
		if c < prev || c > len(data) {
			continue
		}
		if _, err := w.Write(data[prev:c]); err != nil {
			return err
		}
		if err := w.Flush(); err != nil {
			return err
		}
		prev = c
	}
	if _, err := w.Write(data[prev:]); err != nil {
		return err
	}
	return w.Close()
}

// hangGrace: how long after the deadline a call is given before it is declared hung
const hangGrace = 2500 * time.Millisecond

var errHung = errors.New("verif: the call did not return")

// cutAbort: after a handful of verdicts the remaining fault runs are skipped (a broken
// tree can make every stalled run hang for the full grace period)
var cutVerdicts int32

// clientCall: BeginCall + argument writers (with flushes) + ReadArgsV2, under the deadline.
// A watchdog declares the call hung when it has not returned hangGrace after its deadline.
func clientCall(ch *tchannel.Channel, hostPort string, ex *cutExchange, deadline time.Duration, cancelAfter time.Duration) cutResult {
	start := time.Now()
	done := make(chan cutResult, 1)
	go func() { done <- clientCallInner(ch, hostPort, ex, deadline, cancelAfter) }()
	select {
	case r := <-done:
		return r
	case <-time.After(deadline + hangGrace):
		return cutResult{elapsed: time.Since(start), err: errHung}
	}
}

func clientCallInner(ch *tchannel.Channel, hostPort string, ex *cutExchange, deadline time.Duration, cancelAfter time.Duration) (r cutResult) {
	ctx, cancel := tchannel.NewContext(deadline)
	defer cancel()
	if cancelAfter > 0 {
		t := time.AfterFunc(cancelAfter, cancel)
		defer t.Stop()
	}
	start := time.Now()
	defer func() {
		if p := recover(); p != nil {
			r.err = fmt.Errorf("PANIC: %v", p)
		}
		r.elapsed = time.Since(start)
	}()
	call, err := ch.BeginCall(ctx, hostPort, ex.service, ex.method, nil)
	if err != nil {
		r.err = err
		return
	}
	w2, err := call.Arg2Writer()
	if err = splitWrite(w2, err, ex.arg2, ex.flush2); err != nil {
		r.err = err
		return
	}
	w3, err := call.Arg3Writer()
	if err = splitWrite(w3, err, ex.arg3, ex.flush3); err != nil {
		r.err = err
		return
	}
	r.got2, r.got3, r.err = raw.ReadArgsV2(call.Response())
	return
}

// rawResponder: a specification-built server: handshake, read one complete call req,
// answer with small frames; keeps the connection open until stop is closed.
func rawResponder(ln net.Listener, ex *cutExchange, answer bool, stop chan struct{}) {
	for {
		conn, err := ln.Accept()
		if err != nil {
			return
		}
		go func(conn net.Conn) {
			defer conn.Close()
			if _, _, err := rawServerHandshake(conn); err != nil {
				return
			}
			var id uint32
			for {
				f, err := readRawFrame(conn, 3*time.Second)
				if err != nil {
					return
				}
				if f.Type != 0x03 && f.Type != 0x13 {
					continue
				}
				id = f.ID
				pc, err := parseRawCall(f.Type, f.Payload)
				if err != nil {
					return
				}
				if pc.Flags&1 == 0 {
					break
				}
			}
			if answer {
				hdr := rawCallResHeader(0, make([]byte, 25), [][2]string{{"as", "raw"}})
				for _, fr := range buildRawCallFrames(false, id, hdr, ex.csum, [3][]byte{{}, ex.res2, ex.res3}, ex.maxPayload) {
					conn.SetWriteDeadline(time.Now().Add(2 * time.Second))
					if _, err := conn.Write(fr); err != nil {
						return
					}
				}
			}
			<-stop
		}(conn)
	}
}

type cutHandlerState struct {
	mu      sync.Mutex
	started bool
	done    chan struct{}
	ok      bool
	method  string
	a2, a3  []byte
}

// realServer: a real channel whose handler reads its arguments and echoes the exchange's response.
func realServer(ex *cutExchange, relayHosts tchannel.RelayHost) (*tchannel.Channel, *cutHandlerState, error) {
	hs := &cutHandlerState{done: make(chan struct{})}
	opts := &tchannel.ChannelOptions{}
	if relayHosts != nil {
		opts.RelayHost = relayHosts
	}
	ch, err := tchannel.NewChannel(ex.service, opts)
	if err != nil {
		return nil, nil, err
	}
	var once sync.Once
	ch.Register(tchannel.HandlerFunc(func(ctx context.Context, call *tchannel.InboundCall) {
		hs.mu.Lock()
		hs.started = true
		hs.method = call.MethodString()
		hs.mu.Unlock()
		defer once.Do(func() { close(hs.done) })
		var a2, a3 []byte
		if err := tchannel.NewArgReader(call.Arg2Reader()).Read(&a2); err != nil {
			return
		}
		if err := tchannel.NewArgReader(call.Arg3Reader()).Read(&a3); err != nil {
			return
		}
		hs.mu.Lock()
		hs.ok, hs.a2, hs.a3 = true, a2, a3
		hs.mu.Unlock()
		resp := call.Response()
		if err := tchannel.NewArgWriter(resp.Arg2Writer()).Write(ex.res2); err != nil {
			return
		}
		tchannel.NewArgWriter(resp.Arg3Writer()).Write(ex.res3)
	}), ex.method)
	if err := ch.ListenAndServe("127.0.0.1:0"); err != nil {
		return nil, nil, err
	}
	return ch, hs, nil
}

// runCut performs one exchange with one fault.
func runCut(ex *cutExchange, spec faultSpec) (r cutResult) {
	stop := make(chan struct{})
	defer close(stop)
	var target string
	var hs *cutHandlerState
	if ex.dir == 0 && !ex.big {
		ln, err := net.Listen("tcp", "127.0.0.1:0")
		if err != nil {
			r.harness = "listen: " + err.Error()
			return
		}
		defer ln.Close()
		go rawResponder(ln, ex, true, stop)
		target = ln.Addr().String()
	} else {
		srv, h, err := realServer(ex, nil)
		if err != nil {
			r.harness = "server: " + err.Error()
			return
		}
		defer srv.Close()
		hs = h
		target = srv.PeerInfo().HostPort
	}
	pspec := spec
	if spec.mode == modeAPI {
		pspec.off = -1
	}
	px, err := newFaultProxy(target, pspec)
	if err != nil {
		r.harness = "proxy: " + err.Error()
		return
	}
	defer px.close()

	copts := &tchannel.ChannelOptions{}
	var fc *faultConn
	if spec.mode == modeAPI {
		copts.Dialer = func(ctx context.Context, network, hostPort string) (net.Conn, error) {
			d := net.Dialer{}
			c, err := d.DialContext(ctx, network, hostPort)
			if err != nil {
				return nil, err
			}
			fc = &faultConn{Conn: c, spec: spec}
			return fc, nil
		}
	}
	client, err := tchannel.NewChannel("c05-client", copts)
	if err != nil {
		r.harness = "client: " + err.Error()
		return
	}
	defer client.Close()

	r = clientCall(client, px.addr(), ex, cutDeadline, 0)

	if hs != nil {
		// nothing more can reach the server once the fault fired; dispatch of what did
		// arrive happens within milliseconds: wait for the handler to start, then to finish
		started := false
		for k := 0; k < 15 && !started; k++ {
			hs.mu.Lock()
			started = hs.started
			hs.mu.Unlock()
			if !started {
				time.Sleep(10 * time.Millisecond)
			}
		}
		if started {
			select {
			case <-hs.done:
			case <-time.After(cutDeadline + time.Second):
			}
		}
		hs.mu.Lock()
		r.handlerStarted, r.handlerOK, r.hMethod, r.h2, r.h3 = hs.started, hs.ok, hs.method, hs.a2, hs.a3
		hs.mu.Unlock()
	}
	if spec.mode == modeAPI && fc != nil {
		fc.mu.Lock()
		r.fwd[0], r.fwd[1] = append([]byte(nil), fc.rec[0]...), append([]byte(nil), fc.rec[1]...)
		fc.mu.Unlock()
	} else {
		r.fwd[0], r.fwd[1] = px.recorded(0), px.recorded(1)
	}
	return
}

// firstFrameLen: length of the first frame of a recorded stream (the init message)
func firstFrameLen(b []byte) int {
	if len(b) < 2 {
		return len(b)
	}
	n := int(binary.BigEndian.Uint16(b))
	if n > len(b) {
		return len(b)
	}
	return n
}

// callID: message id of the first call frame of a stream
func callID(callStream []byte) int64 {
	if len(callStream) < 8 {
		return 0
	}
	return int64(binary.BigEndian.Uint32(callStream[4:8]))
}

func bytesToInts(dst []int64, b []byte) []int64 {
	for _, c := range b {
		dst = append(dst, int64(c))
	}
	return dst
}

// ---------------------------------------------------------------- oracle

// judge: the property statement applied to one run.
func judgeCut(ex *cutExchange, r *cutResult, deadline time.Duration) string {
	if r.err != nil && len(r.err.Error()) >= 5 && r.err.Error()[:5] == "PANIC" {
		return "the call panicked: " + r.err.Error()
	}
	if r.err == nil {
		if !bytes.Equal(r.got2, ex.res2) || !bytes.Equal(r.got3, ex.res3) {
			return fmt.Sprintf("the call reported success with a response that is not the one sent (arg2 %d/%d bytes, arg3 %d/%d bytes)",
				len(r.got2), len(ex.res2), len(r.got3), len(ex.res3))
		}
	}
	if r.handlerOK {
		if r.hMethod != ex.method || !bytes.Equal(r.h2, ex.arg2) || !bytes.Equal(r.h3, ex.arg3) {
			return fmt.Sprintf("the handler read its arguments without error but they are not the ones sent (arg2 %d/%d bytes, arg3 %d/%d bytes)",
				len(r.h2), len(ex.arg2), len(r.h3), len(ex.arg3))
		}
	}
	return ""
}

func overrun(r *cutResult, deadline time.Duration) bool { return r.elapsed > deadline+cutSlack }

// ---------------------------------------------------------------- engine

type cutJob struct {
	sub   string
	id    string
	ex    *cutExchange
	spec  faultSpec
	n     int // offset relative to the call stream (model input)
	ref   []byte
	initL int
	// results
	in, obs    []int64
	verdict    string
	nontrivial bool
	oracleOnly bool
	skipped    bool
	key        string
}

func genExchanges(rng *rand.Rand, count int) []*cutExchange {
	var out []*cutExchange
	for i := 0; i < count; i++ {
		dir := i % 2
		ex := &cutExchange{dir: dir, name: fmt.Sprintf("x%d", i), service: fmt.Sprintf("svc%d", rng.Intn(10)),
			method: "m" + fmt.Sprint(rng.Intn(100)), csum: byte(pick(rng, 0, 1, 3)), maxPayload: 64}
		if dir == 0 {
			ex.arg2 = []byte(randBytes(rng, pick(rng, 0, 3, 20)))
			ex.arg3 = []byte(randBytes(rng, pick(rng, 0, 5, 40)))
			ex.res2 = []byte(randBytes(rng, pick(rng, 0, 1, 30, 70)))
			ex.res3 = []byte(randBytes(rng, pick(rng, 90, 150, 260, 400)))
			ex.maxPayload = pick(rng, 48, 64, 100)
		} else {
			ex.arg2 = []byte(randBytes(rng, pick(rng, 0, 10, 40)))
			ex.arg3 = []byte(randBytes(rng, pick(rng, 60, 120, 250)))
			ex.res2 = []byte(randBytes(rng, pick(rng, 0, 4)))
			ex.res3 = []byte(randBytes(rng, pick(rng, 1, 20)))
			if len(ex.arg2) > 2 {
				ex.flush2 = []int{1 + rng.Intn(len(ex.arg2)-1)}
			}
			k := 2 + rng.Intn(3)
			for j := 0; j < k; j++ {
				ex.flush3 = append(ex.flush3, rng.Intn(len(ex.arg3)+1))
			}
			sort.Ints(ex.flush3)
		}
		out = append(out, ex)
	}
	return out
}

func engineCut(rng *rand.Rand, n int, tier string, o *Out) {
	var jobs []*cutJob
	add := func(j *cutJob) { jobs = append(jobs, j) }

	// ---- sub-engine cut: every byte offset of small multi-frame exchanges
	for _, ex := range genExchanges(rng, n) {
		ref := runCut(ex, faultSpec{off: -1})
		if ref.harness != "" || ref.err != nil {
			o.Oracle("cut", ex.name+"-ref", false, ex.name, fmt.Sprintf("[harness-crash] reference run of %s failed: %v %s", ex.name, ref.err, ref.harness))
			continue
		}
		if v := judgeCut(ex, &ref, cutDeadline); v != "" || overrun(&ref, cutDeadline) {
			o.Oracle("cut", ex.name+"-ref", true, ex.name, "fault-free exchange: "+v+fmt.Sprintf(" (returned after %v)", ref.elapsed))
			continue
		}
		stream := ref.fwd[ex.dir]
		initL := firstFrameLen(stream)
		frames := 0
		for p := initL; p+2 <= len(stream); frames++ {
			p += int(binary.BigEndian.Uint16(stream[p:]))
		}
		o.Hist(fmt.Sprintf("cut:dir=%d frames=%d", ex.dir, frames))
		o.Hist(fmt.Sprintf("cut:dir=%d streamlen~%d", ex.dir, (len(stream)-initL)/100*100))
		if len(jobs) < 2000 {
			o.Sample(map[string]interface{}{"sub": "cut", "exchange": ex.name, "dir": ex.dir, "call_frames": frames,
				"call_stream_bytes": len(stream) - initL, "handshake_bytes": initL, "arg3": len(ex.arg3), "res3": len(ex.res3),
				"offsets": "every byte 0.." + fmt.Sprint(len(stream)), "modes": modeNames})
		}
		for off := 0; off <= len(stream); off++ {
			modes := []int{modeClose, modeHalfClose, modeStall}
			if tier == "quick" {
				// all three at every offset of the call frames; one (rotating) inside the handshake
				if off < initL {
					modes = []int{off % 3}
				}
			}
			// eager close and API errors: frame boundaries, first/last bytes, and a sample
			boundary := off == initL || off == len(stream)
			for p := initL; p < len(stream); {
				p += int(binary.BigEndian.Uint16(stream[p:]))
				if off == p || off == p-1 || off == p+1 || off == p+16 {
					boundary = true
				}
			}
			if boundary || rng.Intn(8) == 0 {
				modes = append(modes, modeCloseEager, modeAPI)
			}
			for _, m := range modes {
				rel := off - initL
				if rel < 0 {
					rel = 0
				}
				add(&cutJob{sub: "cut", id: fmt.Sprintf("%s-d%d-o%d-%s", ex.name, ex.dir, off, modeNames[m]), ex: ex,
					spec: faultSpec{dir: ex.dir, off: off, mode: m}, n: rel, ref: stream, initL: initL})
			}
		}
	}

	// ---- sub-engine big: full-size frames, both directions, sampled offsets
	nbig := 1
	if tier != "quick" {
		nbig = 4
	}
	for i := 0; i < nbig; i++ {
		ex := &cutExchange{dir: i % 2, big: true, name: fmt.Sprintf("big%d", i), service: "bigsvc", method: "echo",
			arg2: []byte(randBytes(rng, pick(rng, 10, 500))), res2: []byte(randBytes(rng, pick(rng, 0, 100)))}
		if ex.dir == 1 {
			ex.arg3 = []byte(randBytes(rng, pick(rng, 66000, 70000, 131500)))
			ex.res3 = []byte(randBytes(rng, 10))
		} else {
			ex.arg3 = []byte(randBytes(rng, 10))
			ex.res3 = []byte(randBytes(rng, pick(rng, 66000, 70000, 131500)))
		}
		ref := runCut(ex, faultSpec{off: -1})
		if ref.harness != "" || ref.err != nil {
			o.Oracle("big", ex.name+"-ref", false, ex.name, fmt.Sprintf("[harness-crash] reference run of %s failed: %v %s", ex.name, ref.err, ref.harness))
			continue
		}
		stream := ref.fwd[ex.dir]
		initL := firstFrameLen(stream)
		var offs []int
		for p := initL; p < len(stream); {
			for _, d := range []int{-1, 0, 1, 15, 16, 17, 100} {
				offs = append(offs, p+d)
			}
			p += int(binary.BigEndian.Uint16(stream[p:]))
		}
		offs = append(offs, len(stream)-1, len(stream))
		for k := 0; k < 6; k++ {
			offs = append(offs, initL+rng.Intn(len(stream)-initL))
		}
		o.Hist(fmt.Sprintf("big:dir=%d streamlen~%dK", ex.dir, (len(stream)-initL)/1024))
		o.Sample(map[string]interface{}{"sub": "big", "exchange": ex.name, "dir": ex.dir, "call_stream_bytes": len(stream) - initL, "offsets": len(offs)})
		for k, off := range offs {
			if off < 0 || off > len(stream) {
				continue
			}
			m := []int{modeClose, modeHalfClose, modeStall}[k%3]
			rel := off - initL
			if rel < 0 {
				rel = 0
			}
			add(&cutJob{sub: "big", id: fmt.Sprintf("%s-d%d-o%d-%s", ex.name, ex.dir, off, modeNames[m]), ex: ex,
				spec: faultSpec{dir: ex.dir, off: off, mode: m}, n: rel, ref: stream, initL: initL})
		}
	}

	// ---- run the jobs on a worker pool; results are emitted in generation order
	work := make(chan *cutJob)
	var wg sync.WaitGroup
	workers := 24
	for w := 0; w < workers; w++ {
		wg.Add(1)
		go func() {
			defer wg.Done()
			for j := range work {
				runCutJob(j)
			}
		}()
	}
	for _, j := range jobs {
		work <- j
	}
	close(work)
	wg.Wait()
	for _, j := range jobs {
		if j.skipped {
			o.Hist("skipped-after-verdicts")
			continue
		}
		o.Hist(fmt.Sprintf("%s:dir=%d mode=%s", j.sub, j.ex.dir, modeNames[j.spec.mode]))
		if j.spec.off < j.initL {
			o.Hist(fmt.Sprintf("%s:dir=%d cut-in-handshake", j.sub, j.ex.dir))
		}
		if j.oracleOnly {
			o.Oracle(j.sub, j.id, j.nontrivial, j.key, j.verdict)
		} else {
			o.Case("cut", j.id, j.in, j.obs, j.nontrivial, j.verdict)
		}
	}

	// ---- scenario sub-engines (structured inputs, Model/CallScen.v)
	engineCutScenarios(rng, n, tier, o)

	// ---- connect / handshake budgets against Model/Budget.v
	engineCutBudget(rng, n, tier, o)

	// ---- hostile fragment lists under arbitrary scripts against the reader model (fragr)
	engineCutHostile(rng, n, tier, o)
}

// runCutJob: one faulted run + model input/observable + oracle (timing re-checked 3 times)
func runCutJob(j *cutJob) {
	if atomic.LoadInt32(&cutVerdicts) >= 6 {
		j.skipped = true
		return
	}
	r := runCut(j.ex, j.spec)
	if r.harness != "" {
		j.oracleOnly, j.key = true, j.id
		j.verdict = "[harness-crash] " + r.harness
		return
	}
	v := judgeCut(j.ex, &r, cutDeadline)
	if v == "" && overrun(&r, cutDeadline) {
		// timing: alarm only if it reproduces 3 out of 3 times, run alone
		late := []time.Duration{r.elapsed}
		for k := 0; k < 3; k++ {
			r2 := runCut(j.ex, j.spec)
			if r2.harness != "" || !overrun(&r2, cutDeadline) {
				late = nil
				break
			}
			late = append(late, r2.elapsed)
		}
		if late != nil {
			v = fmt.Sprintf("the caller did not get control back by its deadline: %v deadline, returned after %v (4 of 4 runs), err=%v", cutDeadline, late, r.err)
		}
	}
	if v != "" {
		v += fmt.Sprintf(" [exchange %s dir=%d mode=%s offset=%d of %d]", j.ex.name, j.ex.dir, modeNames[j.spec.mode], j.spec.off, len(j.ref))
	}
	j.verdict = v
	j.nontrivial = true
	if v != "" {
		atomic.AddInt32(&cutVerdicts, 1)
	}

	// model input: the bytes of the call stream and the offset up to which the receiver got them.
	// dir 0: the reference stream is what the raw peer sends (deterministic); dir 1: the request
	// bytes differ per run (ttl, tracing): use what actually reached the server.
	got := r.fwd[j.ex.dir]
	var stream []byte
	n := j.n
	if j.ex.dir == 0 && !j.ex.big {
		stream = j.ref[j.initL:]
		want := j.ref
		if j.spec.off < len(want) {
			want = want[:j.spec.off]
		}
		if !bytes.Equal(got, want) && !(j.spec.mode == modeAPI && len(got) <= len(want) && bytes.Equal(got, want[:len(got)])) {
			// the raw peer's stream is expected to be reproducible; fall back to what was delivered
			stream, n = nil, -2
		}
		if j.spec.mode == modeAPI && len(got) < len(want) {
			// the client stopped reading before the budget was used up (it had failed already)
			n = len(got) - j.initL
			if n < 0 {
				n = 0
			}
		}
	}
	if stream == nil && j.ex.dir == 0 && !j.ex.big {
		// the proxy's record is not a prefix of the raw peer's reference stream (seen once in
		// 136000 thorough-tier cases under load: the record was shorter than the handshake
		// although the caller held the complete response).  The model's premise -- "the
		// receiver got exactly the first n bytes of this stream" -- is then not established by
		// the harness, so the case is judged by the statement-level oracle only.
		j.oracleOnly, j.key = true, j.id
		return
	}
	if stream == nil {
		// the model input is what the proxy recorded as delivered.  The record must be consistent
		// with what the receiver demonstrably got: a receiver that completed (the handler read all
		// its arguments, dir 1; the caller holds the whole response, dir 0 big) got the whole
		// stream, whose length does not vary between runs; a handler that started got at least
		// the first call frame.  A shorter record (seen in thorough-tier rounds under load:
		// an empty record although the handler had read its arguments) is a recording artifact of
		// the harness: the model's premise -- "the receiver got exactly these bytes" -- is not
		// established, and the case is judged by the statement-level oracle only (which still
		// requires arguments read without error to be exactly the ones sent).
		complete := (j.ex.dir == 1 && r.handlerOK) || (j.ex.dir == 0 && r.err == nil)
		started := j.ex.dir == 1 && r.handlerStarted
		if (complete && len(got) < len(j.ref)) || (started && len(got) <= j.initL) {
			j.oracleOnly, j.key = true, j.id
			return
		}
		if len(got) > j.initL {
			stream = got[j.initL:]
		} else {
			stream = []byte{}
		}
		n = len(stream)
	}
	if j.spec.mode == modeCloseEager && j.spec.off >= len(j.ref) {
		// everything was forwarded and both sockets closed at once: whether the receiver
		// still reads the last bytes or the kernel resets the connection first is outside
		// the model (its premise is "the receiver gets exactly the first n bytes"): judged
		// by the oracle only (exact response or error, in time)
		j.oracleOnly, j.key = true, j.id
		return
	}
	id := callID(j.ref[j.initL:])
	j.in = bytesToInts([]int64{int64(j.ex.dir), id, int64(n)}, stream)
	if j.ex.dir == 0 {
		if r.err == nil {
			j.obs = putBytes(putBytes([]int64{1, 2}, r.got2), r.got3)
		} else {
			j.obs = []int64{0}
		}
	} else {
		if r.handlerOK {
			j.obs = putBytes(putBytes(putBytes([]int64{1, 3}, []byte(r.hMethod)), r.h2), r.h3)
		} else {
			j.obs = []int64{0}
		}
	}
}
