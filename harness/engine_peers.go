package main

// Engine "peers" (property C15): histories of Add / Remove / Get / GetNew / load changes /
// SetStrategy on the REAL PeerList of a channel and of its isolated sub-channel lists, with
// peerHeap.rng replaced by a scripted, logged source.  The same history (with the draws the
// code consumed and the map iteration order it used) is run through the extracted model
// (run_peers); the observable is the result of every operation plus the heap array, order
// counter and key set after it.  The oracles below are written from the statement of C15
// and use a trivial reference (a Go map of members and a ranking key per peer).

import (
	"fmt"
	"math"
	"math/rand"
	"sort"
	"strings"

	tchannel "github.com/uber/tchannel-go"
)

// c15Src: rand.Source whose Int63 makes (*rand.Rand).Intn(k) return raw mod k for small raws.
type c15Src struct {
	q    []int64
	used int
}

func (s *c15Src) Int63() int64 {
	s.used++
	if len(s.q) == 0 {
		return 0
	}
	v := s.q[0]
	s.q = s.q[1:]
	return v << 32
}
func (s *c15Src) Seed(int64) {}

type c15Load struct {
	in, out, pend int
	custom        uint64
}

// ranking key of a peer under a strategy, from the statement: (tier, value), smaller first.
func c15Key(strat int, a c15Load) [2]uint64 {
	connected := a.in+a.out > 0
	switch strat {
	case 0: // default: inbound-connected < connected < unconnected, fewer pending first
		if !connected {
			return [2]uint64{2, 0}
		}
		if a.in > 0 {
			return [2]uint64{0, uint64(a.pend)}
		}
		return [2]uint64{1, uint64(a.pend)}
	case 1: // isolated lists: connected < unconnected, fewer pending first
		if !connected {
			return [2]uint64{1, 0}
		}
		return [2]uint64{0, uint64(a.pend)}
	case 2:
		return [2]uint64{0, 0}
	default:
		return [2]uint64{0, a.custom}
	}
}

func c15KeyLess(a, b [2]uint64) bool {
	if a[0] != b[0] {
		return a[0] < b[0]
	}
	return a[1] < b[1]
}

func c15Host(hp string) string {
	// the port follows the LAST ':' ("[::1]:80" is on host "[::1]")
	if i := strings.LastIndexByte(hp, ':'); i >= 0 {
		return hp[:i]
	}
	return hp
}

type c15List struct {
	pl      *tchannel.PeerList
	src     *c15Src
	members map[string]bool
	strat   int
	shrunk  bool // a Remove has succeeded on this list
}

type c15Case struct {
	ch      *tchannel.Channel
	lists   []*c15List
	load    map[string]c15Load
	in      []int64
	obs     []int64
	nops    int
	verdict string
	logging bool
	order   []string
	o       *Out
	rng     *rand.Rand // when set, load changes spread the pending calls at random over the connections
	dead    bool       // an operation of the implementation panicked; the rest of the history is skipped
}

// recoverOp is deferred by every operation: a panic of the library is an observation (99) and a verdict.
func (cs *c15Case) recoverOp(name string) {
	if r := recover(); r != nil {
		cs.dead = true
		cs.fail("panic in %s: %v", name, r)
		cs.obs = append(cs.obs, 99)
	}
}

func (cs *c15Case) fail(format string, args ...interface{}) {
	if cs.verdict == "" {
		msg := fmt.Sprintf(format, args...)
		if strings.HasPrefix(msg, "[") { // known-finding tag stays in front
			if i := strings.Index(msg, "] "); i > 0 {
				cs.verdict = msg[:i+2] + fmt.Sprintf("op %d: ", cs.nops) + msg[i+2:]
				return
			}
		}
		cs.verdict = fmt.Sprintf("op %d: ", cs.nops) + msg
	}
}

func newC15Case(name string, niso int, o *Out) *c15Case {
	ch, err := tchannel.NewChannel(name, nil)
	if err != nil {
		panic(err)
	}
	cs := &c15Case{ch: ch, load: map[string]c15Load{}, o: o}
	pls := []*tchannel.PeerList{ch.Peers()}
	for i := 0; i < niso; i++ {
		pls = append(pls, ch.GetSubChannel(fmt.Sprintf("iso-%d", i), tchannel.Isolated).Peers())
	}
	for i, pl := range pls {
		l := &c15List{pl: pl, src: &c15Src{}, members: map[string]bool{}}
		if i > 0 {
			l.strat = 1
		}
		tchannel.VerifSetPeerListRng(pl, l.src)
		cs.lists = append(cs.lists, l)
	}
	cs.in = []int64{int64(niso), 0} // op count patched at the end
	return cs
}

func (cs *c15Case) calculator(strat int) tchannel.ScoreCalculator {
	return tchannel.ScoreCalculatorFunc(func(p *tchannel.Peer) uint64 {
		if cs.logging {
			cs.order = append(cs.order, p.HostPort())
		}
		if strat <= 2 {
			return tchannel.VerifScoreCalculator(strat).GetScore(p)
		}
		return cs.load[p.HostPort()].custom
	})
}

func (cs *c15Case) dump(l *c15List) tchannel.VerifPeerListState {
	st := tchannel.VerifPeerListSnapshot(l.pl)
	cs.obs = append(cs.obs, int64(len(st.Heap)))
	for _, e := range st.Heap {
		cs.obs = putBytes(cs.obs, []byte(e.HostPort))
		cs.obs = append(cs.obs, int64(e.Score), int64(e.Order), int64(e.Index))
	}
	cs.obs = append(cs.obs, int64(st.Counter))
	keys := append([]string{}, st.Keys...)
	sort.Strings(keys)
	cs.obs = append(cs.obs, int64(len(keys)))
	for _, k := range keys {
		cs.obs = putBytes(cs.obs, []byte(k))
	}
	return st
}

// structural oracle after every operation: membership, Len, Copy, IntrospectList, back-pointers,
// map/heap agreement, heap order on the score, score ranking = statement's ranking.
func (cs *c15Case) checkList(j int, l *c15List, st tchannel.VerifPeerListState) {
	if l.pl.Len() != len(l.members) {
		cs.fail("list %d: Len()=%d, reference has %d members", j, l.pl.Len(), len(l.members))
	}
	cp := l.pl.Copy()
	if len(cp) != len(l.members) {
		cs.fail("list %d: Copy() has %d entries, reference %d", j, len(cp), len(l.members))
	}
	for k, p := range cp {
		if !l.members[k] || p.HostPort() != k {
			cs.fail("list %d: Copy() holds %q which is not a member", j, k)
		}
		if rp, ok := cs.ch.RootPeers().Get(k); !ok || rp != p {
			cs.fail("list %d: peer %q is not the root list's peer object", j, k)
		}
	}
	intro := l.pl.IntrospectList(nil)
	if len(intro) != len(l.members) {
		cs.fail("list %d: IntrospectList has %d entries, reference %d", j, len(intro), len(l.members))
	}
	seen := map[string]bool{}
	for _, e := range intro {
		if !l.members[e.HostPort] || seen[e.HostPort] {
			cs.fail("list %d: IntrospectList entry %q not a member / duplicated", j, e.HostPort)
		}
		seen[e.HostPort] = true
	}
	for a := range intro {
		for b := range intro {
			ka, kb := c15Key(l.strat, cs.load[intro[a].HostPort]), c15Key(l.strat, cs.load[intro[b].HostPort])
			if c15KeyLess(ka, kb) != (intro[a].Score < intro[b].Score) {
				cs.fail("list %d: score order of %q (%d) and %q (%d) contradicts the strategy's ranking %v vs %v",
					j, intro[a].HostPort, intro[a].Score, intro[b].HostPort, intro[b].Score, ka, kb)
			}
		}
	}
	if !st.MapAgrees {
		cs.fail("list %d: peersByHostPort and the heap disagree (a map value is not heap[value.index])", j)
	}
	if len(st.Keys) != len(st.Heap) {
		cs.fail("list %d: map has %d keys, heap %d elements", j, len(st.Keys), len(st.Heap))
	}
	for i, e := range st.Heap {
		if e.Index != i {
			cs.fail("list %d: heap[%d].index = %d", j, i, e.Index)
		}
		if i > 0 && st.Heap[(i-1)/2].Score > e.Score {
			cs.fail("list %d: heap order broken on score at %d", j, i)
		}
	}
}

func (cs *c15Case) finishOp(j int) {
	if j >= 0 {
		cs.obs = append(cs.obs, 1)
		st := cs.dump(cs.lists[j])
		cs.checkList(j, cs.lists[j], st)
	} else {
		cs.obs = append(cs.obs, int64(len(cs.lists)))
		for i, l := range cs.lists {
			st := cs.dump(l)
			cs.checkList(i, l, st)
		}
	}
	cs.nops++
}

func (cs *c15Case) opAdd(j int, hp string, d1, d2 int64) {
	if cs.dead {
		return
	}
	defer cs.recoverOp("Add")
	l := cs.lists[j]
	cs.in = append(cs.in, 0, int64(j))
	cs.in = putBytes(cs.in, []byte(hp))
	cs.in = append(cs.in, d1, d2)
	l.src.q, l.src.used = []int64{d1, d2}, 0
	p := l.pl.Add(hp)
	if p == nil || p.HostPort() != hp {
		cs.fail("Add(%q) returned a peer for another host:port", hp)
	}
	l.members[hp] = true
	cs.obs = append(cs.obs, 0)
	cs.obs = putBytes(cs.obs, []byte(hp))
	cs.obs = append(cs.obs, int64(l.src.used), int64(tchannel.VerifPeerChosenCount(p)))
	cs.finishOp(j)
}

func (cs *c15Case) opRemove(j int, hp string) {
	if cs.dead {
		return
	}
	defer cs.recoverOp("Remove")
	l := cs.lists[j]
	cs.in = append(cs.in, 1, int64(j))
	cs.in = putBytes(cs.in, []byte(hp))
	l.src.q, l.src.used = nil, 0
	err := l.pl.Remove(hp)
	code := int64(0)
	switch {
	case err == nil:
		if !l.members[hp] {
			cs.fail("Remove(%q) succeeded on a non-member", hp)
		}
		delete(l.members, hp)
		l.shrunk = true
	case err == tchannel.ErrPeerNotFound:
		code = 3
		if l.members[hp] {
			cs.fail("Remove(%q) = ErrPeerNotFound for a member", hp)
		}
	default:
		code = 7
		cs.fail("Remove(%q) unexpected error %v", hp, err)
	}
	cs.obs = append(cs.obs, code, 0, int64(l.src.used), 0)
	cs.finishOp(j)
}

// opGet runs Get (getNew=false) or GetNew; returns the selected host:port ("" on error).
func (cs *c15Case) opGet(j int, getNew bool, prev []string, d int64) string {
	if cs.dead {
		return ""
	}
	defer cs.recoverOp("Get/GetNew")
	l := cs.lists[j]
	kind := int64(2)
	if getNew {
		kind = 3
	}
	cs.in = append(cs.in, kind, int64(j), int64(len(prev)))
	for _, p := range prev {
		cs.in = putBytes(cs.in, []byte(p))
	}
	cs.in = append(cs.in, d)
	var pm map[string]struct{}
	if len(prev) > 0 {
		pm = map[string]struct{}{}
		for _, p := range prev {
			pm[p] = struct{}{}
		}
	}
	l.src.q, l.src.used = []int64{d}, 0
	before := map[string]uint64{}
	for k, p := range l.pl.Copy() {
		before[k] = tchannel.VerifPeerChosenCount(p)
	}
	var p *tchannel.Peer
	var err error
	if getNew {
		p, err = l.pl.GetNew(pm)
	} else {
		p, err = l.pl.Get(pm)
	}

	// eligibility tiers of the statement
	var t1, t2, all []string
	for k := range l.members {
		all = append(all, k)
		if _, ok := pm[k]; ok {
			continue
		}
		t2 = append(t2, k)
		if _, ok := pm[c15Host(k)]; !ok {
			t1 = append(t1, k)
		}
	}
	tier := t1
	if len(tier) == 0 {
		tier = t2
	}
	if len(tier) == 0 && !getNew {
		tier = all
	}
	res := ""
	switch {
	case err == nil && p != nil:
		res = p.HostPort()
		cs.obs = append(cs.obs, 0)
		cs.obs = putBytes(cs.obs, []byte(res))
		cs.obs = append(cs.obs, int64(l.src.used), int64(tchannel.VerifPeerChosenCount(p)))
		if !l.members[res] {
			cs.fail("selected %q which is not in the list", res)
		} else {
			ok := false
			for _, k := range tier {
				ok = ok || k == res
			}
			if !ok {
				cs.fail("selected %q although %d peers of a stricter eligibility tier exist (prev=%v)", res, len(tier), prev)
			}
			kr := c15Key(l.strat, cs.load[res])
			for _, k := range tier {
				if c15KeyLess(c15Key(l.strat, cs.load[k]), kr) {
					cs.fail("selected %q (rank %v) although eligible %q ranks lower (%v)", res, kr, k, c15Key(l.strat, cs.load[k]))
				}
			}
			if tchannel.VerifPeerChosenCount(p) != before[res]+1 {
				cs.fail("chosenCount of %q went %d -> %d", res, before[res], tchannel.VerifPeerChosenCount(p))
			}
		}
	case err == tchannel.ErrNoPeers:
		cs.obs = append(cs.obs, 1, 0, int64(l.src.used), 0)
		if len(l.members) != 0 {
			cs.fail("no-peers reported for a list of %d peers", len(l.members))
		}
	case err == tchannel.ErrNoNewPeers:
		cs.obs = append(cs.obs, 2, 0, int64(l.src.used), 0)
		if !getNew {
			cs.fail("Get returned ErrNoNewPeers")
		}
		if len(l.members) == 0 || len(t2) != 0 {
			cs.fail("ErrNoNewPeers with %d members, %d of them not previously selected", len(l.members), len(t2))
		}
	default:
		cs.obs = append(cs.obs, 7, 0, int64(l.src.used), 0)
		cs.fail("selection returned (%v, %v)", p, err)
	}
	if err != nil && len(tier) > 0 {
		cs.fail("selection failed (%v) although %d peers were eligible", err, len(tier))
	}
	cs.finishOp(j)
	return res
}

func (cs *c15Case) opSetLoad(hp string, a c15Load) {
	if cs.dead {
		return
	}
	defer cs.recoverOp("load change / Channel.updatePeer")
	cs.in = append(cs.in, 4)
	cs.in = putBytes(cs.in, []byte(hp))
	cs.in = append(cs.in, int64(a.in), int64(a.out), int64(a.pend), int64(a.custom))
	for _, l := range cs.lists {
		l.src.q, l.src.used = nil, 0
	}
	p := cs.ch.RootPeers().GetOrAdd(hp)
	cs.load[hp] = a
	// the pending calls are spread over the inert connections of BOTH directions (all of them on
	// connections the peer dialled in every third case); every connection also carries 0..3
	// calls of the peer's own (inbound exchanges), which are not load
	in, out := make([]tchannel.VerifConnLoad, a.in), make([]tchannel.VerifConnLoad, a.out)
	onInbound, theirs := 0, 0
	if cs.rng != nil && a.in+a.out > 0 {
		mode := cs.rng.Intn(3)
		for i := 0; i < a.pend; i++ {
			k := cs.rng.Intn(a.in + a.out)
			if mode == 0 && a.in > 0 {
				k = cs.rng.Intn(a.in)
			}
			if k < a.in {
				in[k].Out++
				onInbound++
			} else {
				out[k-a.in].Out++
			}
		}
		for i := range in {
			in[i].In = cs.rng.Intn(4)
			theirs += in[i].In
		}
		for i := range out {
			out[i].In = cs.rng.Intn(4)
			theirs += out[i].In
		}
		tchannel.VerifSetPeerConns(p, in, out)
	} else {
		tchannel.VerifSetPeerLoad(p, a.in, a.out, a.pend)
	}
	if a.in+a.out > 0 {
		if got := p.NumPendingOutbound(); got != a.pend {
			cs.fail("NumPendingOutbound(%q) = %d but %d of our calls are pending to it (%d of them over connections the peer dialled; the peer has %d calls of its own in flight to us)", hp, got, a.pend, onInbound, theirs)
		}
	}
	if gi, go_ := p.NumConnections(); gi != a.in || go_ != a.out {
		cs.fail("NumConnections(%q) = (%d, %d), the peer has %d inbound and %d outbound connections", hp, gi, go_, a.in, a.out)
	}
	if onInbound > 0 {
		cs.o.Hist("load-on-inbound-conns")
	}
	tchannel.VerifChannelUpdatePeer(cs.ch, p)
	used := 0
	for _, l := range cs.lists {
		used += l.src.used
	}
	cs.obs = append(cs.obs, 0, 0, int64(used), 0)
	cs.finishOp(-1)
}

func (cs *c15Case) opSetStrategy(j, strat int) {
	if cs.dead {
		return
	}
	defer cs.recoverOp("SetStrategy")
	l := cs.lists[j]
	l.src.q, l.src.used = nil, 0
	cs.order = nil
	cs.logging = true
	l.pl.SetStrategy(cs.calculator(strat))
	cs.logging = false
	l.strat = strat
	if strat > 3 {
		l.strat = 3
	}
	cs.in = append(cs.in, 5, int64(j), int64(strat), int64(len(cs.order)))
	for _, k := range cs.order {
		cs.in = putBytes(cs.in, []byte(k))
	}
	cs.obs = append(cs.obs, 0, 0, int64(l.src.used), 0)
	cs.finishOp(j)
}

func (cs *c15Case) done(sub, id string, nontrivial bool) {
	defer func() { recover() }() // Close of a channel whose list is corrupt must not end the engine
	cs.in[1] = int64(cs.nops)
	cs.o.Case(sub, id, cs.in, cs.obs, nontrivial, cs.verdict)
	cs.ch.Close()
}

// fairness window: 3n consecutive Get(nil) with no other operation; every member must be chosen.
func (cs *c15Case) fairWindow(j int, draw func(n int) int64) {
	l := cs.lists[j]
	n := len(l.members)
	if n == 0 {
		return
	}
	// trigger of the recorded finding: a stamp further ahead of the counter than any push
	// into a list of this size can put it (order > counter + n/2 + 1)
	ahead := false
	st0 := tchannel.VerifPeerListSnapshot(l.pl)
	for _, e := range st0.Heap {
		if e.Order > st0.Counter+uint64(n/2)+1 {
			ahead = true
		}
	}
	chosen := map[string]bool{}
	first := 0
	for k := 0; k < 3*n; k++ {
		r := cs.opGet(j, false, nil, draw(n))
		chosen[r] = true
		if len(chosen) == n && first == 0 {
			first = k + 1
		}
	}
	cs.o.Hist(fmt.Sprintf("fair-window-n=%s stamps-ahead=%v", bucket(n), ahead))
	if len(chosen) < n {
		var missing []string
		for k := range l.members {
			if !chosen[k] {
				missing = append(missing, k)
			}
		}
		sort.Strings(missing)
		msg := fmt.Sprintf("equal scores, no membership change: %d of %d peers (%v) not chosen in %d consecutive selections", len(missing), n, missing, 3*n)
		if l.shrunk && ahead {
			// known finding: stamps of the survivors of a Remove are ahead of the counter
			cs.fail("%s", "[peerlist:fairness-after-shrink] "+msg+" (the list shrank before the window; survivors carry stamps ahead of the counter)")
		} else {
			cs.fail("%s", msg)
		}
	}
}

func c15min(a, b int) int {
	if a < b {
		return a
	}
	return b
}

func bucket(n int) string {
	switch {
	case n == 0:
		return "0"
	case n == 1:
		return "1"
	case n <= 4:
		return "2-4"
	case n <= 12:
		return "5-12"
	default:
		return ">12"
	}
}

func init() { engines["peers"] = enginePeers }

func enginePeers(rng *rand.Rand, n int, tier string, o *Out) {
	hostsPool := []string{"a", "b", "c", "d"}
	mkPool := func(size int) []string {
		pool := []string{}
		for len(pool) < size {
			var hp string
			switch rng.Intn(12) {
			case 0:
				hp = fmt.Sprintf("n%d", rng.Intn(3)) // no port: the host is the whole string
			case 1:
				hp = fmt.Sprintf(":%d", 1+rng.Intn(3)) // empty host
			default:
				hp = fmt.Sprintf("%s:%d", hostsPool[rng.Intn(len(hostsPool))], 1+rng.Intn(4))
			}
			dup := false
			for _, q := range pool {
				dup = dup || q == hp
			}
			if !dup {
				pool = append(pool, hp)
			}
		}
		return pool
	}
	members := func(l *c15List) []string {
		var ms []string
		for k := range l.members {
			ms = append(ms, k)
		}
		sort.Strings(ms)
		return ms
	}
	genPrev := func(l *c15List, pool []string) []string {
		ms := members(l)
		var prev []string
		add := func(s string) {
			for _, q := range prev {
				if q == s {
					return
				}
			}
			prev = append(prev, s)
		}
		switch rng.Intn(7) {
		case 0:
		case 1, 2: // as AddSelectedPeer does: host:port and host of some tried peers
			for _, m := range ms {
				if rng.Intn(3) == 0 {
					add(m)
					add(c15Host(m))
				}
			}
		case 3: // host:ports only
			for _, m := range ms {
				if rng.Intn(2) == 0 {
					add(m)
				}
			}
		case 4: // every member tried
			for _, m := range ms {
				add(m)
				if rng.Intn(2) == 0 {
					add(c15Host(m))
				}
			}
		case 5: // hosts only
			for _, m := range ms {
				if rng.Intn(2) == 0 {
					add(c15Host(m))
				}
			}
		default: // arbitrary strings of the pool, non-members included
			for k := rng.Intn(4); k > 0; k-- {
				add(pool[rng.Intn(len(pool))])
			}
			if rng.Intn(3) == 0 {
				add("")
			}
		}
		return prev
	}
	genLoad := func() c15Load {
		a := c15Load{}
		switch rng.Intn(5) {
		case 0: // unconnected
		case 1:
			a.in, a.pend = 1+rng.Intn(2), rng.Intn(4)
		case 2:
			a.out, a.pend = 1+rng.Intn(2), rng.Intn(4)
		default:
			a.in, a.out, a.pend = rng.Intn(3), rng.Intn(3), rng.Intn(6)
			if a.in+a.out == 0 {
				a.pend = 0
			}
		}
		a.custom = []uint64{0, 1, 2, 3, 7, math.MaxInt32, 1 << 31, 1 << 63, math.MaxUint64 - 1, math.MaxUint64}[rng.Intn(10)]
		return a
	}
	raw := func() int64 { return int64(rng.Intn(1000)) }

	// 0. deterministic reproduction of the recorded finding: steady state of 40 peers with the
	// largest jitter, 38 removed, then 3n = 6 selections on the two survivors.
	{
		cs := newC15Case("c15-shrink40", 0, o)
		for i := 0; i < 40; i++ {
			cs.opAdd(0, fmt.Sprintf("s%d:1", i), int64(i/2), int64(i)) // largest jitter, swap with itself
		}
		last := ""
		for i := 0; i < 40; i++ {
			last = cs.opGet(0, false, nil, 19) // 39/2+1 = 20: largest jitter 19
		}
		kept := 0
		for _, m := range members(cs.lists[0]) {
			if m != last && kept == 0 {
				kept++
				continue
			}
			if m != last {
				cs.opRemove(0, m)
			}
		}
		cs.fairWindow(0, func(int) int64 { return 0 })
		o.Sample(map[string]interface{}{"case": "shrink40", "ops": cs.nops, "verdict": cs.verdict})
		cs.done("peers", "shrink40", true)
	}

	for c := 0; c < n; c++ {
		kind := c % 10
		switch {
		case kind <= 6: // mixed histories
			niso := rng.Intn(3)
			cs := newC15Case(fmt.Sprintf("c15-m%d", c), niso, o)
			cs.rng = rng
			pool := mkPool(3 + rng.Intn(10))
			nops := 10 + rng.Intn(40)
			if tier != "quick" {
				nops += rng.Intn(60)
			}
			for k := 0; k < nops; k++ {
				j := rng.Intn(len(cs.lists))
				l := cs.lists[j]
				hp := pool[rng.Intn(len(pool))]
				switch x := rng.Intn(100); {
				case x < 30:
					cs.opAdd(j, hp, raw(), raw())
					o.Hist("op=add")
				case x < 42:
					if ms := members(l); len(ms) > 0 && rng.Intn(4) != 0 {
						hp = ms[rng.Intn(len(ms))]
					}
					cs.opRemove(j, hp)
					o.Hist("op=remove")
				case x < 67:
					prev := genPrev(l, pool)
					cs.opGet(j, false, prev, raw())
					o.Hist("op=get")
					o.Hist("prev-size=" + bucket(len(prev)))
				case x < 77:
					cs.opGet(j, true, genPrev(l, pool), raw())
					o.Hist("op=getnew")
				case x < 92:
					cs.opSetLoad(hp, genLoad())
					o.Hist("op=load-change")
				default:
					cs.opSetStrategy(j, rng.Intn(4))
					o.Hist("op=set-strategy")
				}
			}
			total := 0
			for _, l := range cs.lists {
				total += len(l.members)
			}
			o.Hist("mixed-lists=" + fmt.Sprint(len(cs.lists)))
			o.Hist("mixed-final-peers=" + bucket(total))
			if c < 2 {
				o.Sample(map[string]interface{}{"case": fmt.Sprintf("m%d", c), "pool": pool, "ops": cs.nops, "input_prefix": cs.in[:c15min(len(cs.in), 60)]})
			}
			cs.done("peers", fmt.Sprintf("m%d", c), total > 1)

		case kind == 7 || kind == 8: // fairness windows (8: after the list shrank)
			cs := newC15Case(fmt.Sprintf("c15-f%d", c), 0, o)
			npeers := 1 + rng.Intn(14)
			if kind == 8 {
				npeers = 6 + rng.Intn(30)
			}
			mode := rng.Intn(3) // draws: random / largest jitter / zero
			draw := func(len_ int) int64 {
				switch mode {
				case 0:
					return raw()
				case 1:
					return int64((len_ - 1) / 2)
				}
				return 0
			}
			switch rng.Intn(3) {
			case 1:
				cs.opSetStrategy(0, 2)
			case 2:
				cs.opSetStrategy(0, 3) // custom, all zero
			}
			for i := 0; i < npeers; i++ {
				cs.opAdd(0, fmt.Sprintf("%s:%d", hostsPool[i%4], i), raw(), raw())
				if rng.Intn(3) == 0 {
					cs.opGet(0, false, nil, draw(i+1))
				}
			}
			for k := rng.Intn(2 * npeers); k > 0; k-- {
				cs.opGet(0, false, nil, draw(npeers))
			}
			if kind == 8 {
				ms := members(cs.lists[0])
				rng.Shuffle(len(ms), func(a, b int) { ms[a], ms[b] = ms[b], ms[a] })
				keep := 1 + rng.Intn(3)
				for _, m := range ms[keep:] {
					cs.opRemove(0, m)
				}
			}
			cs.fairWindow(0, draw)
			if rng.Intn(2) == 0 { // a second window right after the first
				cs.fairWindow(0, draw)
			}
			cs.done("peers", fmt.Sprintf("f%d", c), true)

		default: // boundary / hostile
			cs := newC15Case(fmt.Sprintf("c15-b%d", c), 1, o)
			cs.rng = rng
			pool := mkPool(4)
			cs.opGet(0, false, nil, raw())              // empty list
			cs.opGet(1, true, []string{pool[0]}, raw()) // empty list, GetNew
			cs.opRemove(0, pool[0])                     // not found
			cs.opSetLoad(pool[1], genLoad())            // load change for a peer in no list
			cs.opAdd(0, pool[0], raw(), raw())
			cs.opAdd(0, pool[0], raw(), raw())                             // duplicate Add
			cs.opGet(0, false, []string{pool[0], c15Host(pool[0])}, raw()) // the only peer was tried
			cs.opGet(0, true, []string{pool[0]}, raw())                    // GetNew: no new peer
			cs.opAdd(1, pool[0], raw(), raw())                             // same peer in the isolated list
			cs.opAdd(0, pool[1], raw(), raw())
			cs.opAdd(0, pool[2], raw(), raw())
			cs.opSetStrategy(0, 3)
			for _, hp := range pool[:3] {
				cs.opSetLoad(hp, genLoad())
			}
			cs.opGet(0, false, nil, raw())
			cs.opRemove(0, pool[0])
			cs.opRemove(0, pool[0])
			cs.opAdd(0, pool[0], raw(), raw()) // re-Add after Remove
			cs.opSetStrategy(0, 0)
			for k := 0; k < 6; k++ {
				cs.opGet(0, rng.Intn(2) == 0, genPrev(cs.lists[0], pool), raw())
			}
			for _, hp := range members(cs.lists[0]) {
				cs.opRemove(0, hp)
			}
			cs.opGet(0, false, nil, raw())
			o.Hist("boundary-script")
			cs.done("peers", fmt.Sprintf("b%d", c), true)
		}
	}
}
