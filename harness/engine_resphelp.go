package main

// resphelp (C10, "helper layers above the arg writers that can complete a response on an error
// path"): the raw observer of engine respwire in front of REAL channels whose handlers are built
// with the library's own helpers, the way applications are written:
//
//	efh     tchannel.ErrorHandlerFunc: reads with NewArgReader(..).Read, answers with
//	        NewArgWriter(resp.Arg2Writer()).Write / WriteJSON and NewArgWriter(resp.Arg3Writer()).WriteJSON
//	        and returns the first error (the library answers it with ONE system error).  The value to
//	        encode is fine / NaN / +Inf / a json.Marshaler that fails / a struct with a channel; the
//	        failing value is arg2 or arg3; optionally 1..3 fragments of arg3 are written and flushed
//	        by hand before the helper gets the writer; optionally the handler retries with a
//	        fallback body on the SAME writer after the failure; optionally the deadline passes first
//	raw     raw.Wrap: Handle returns a response / an application error / an error / Res.SystemErr
//	json    json.Register: the handler returns a value / NaN / a failing Marshaler / an error /
//	        a tchannel.SystemError
//	thrift  thrift.NewServer with a hand-written TChanServer: the result struct serializes / fails at
//	        once / fails after some fields / fails after more than one fragment was flushed
//
// over the option sets under which these handlers are reached differently: default channel,
// ChannelOptions.Handler + SkipHandlerMethods (the helper-built handlers are the skipped, natively
// registered methods), PropagateCancel.
//
// Oracles (from the statement, not from the model):
//   - the wire grammar of respwire (exactly one terminal frame, nothing after it);
//   - "a handler error is reported as an error frame, not as an (empty) success": a call whose handler
//     could not encode its result must not get a terminal call-res frame; where the layer sends a
//     system error for it (ErrorHandlerFunc, thrift, raw SystemErr, json SystemError) the caller gets
//     exactly one error frame, and it is the last frame; where the layer only logs (json.Register,
//     raw.Wrap -> OnError) nothing terminal is sent at all;
//   - a handler that succeeds gets a complete response that is not an error frame.

import (
	"errors"
	"fmt"
	"math"
	"math/rand"
	"strings"
	"time"

	tchannel "github.com/uber/tchannel-go"
	tjson "github.com/uber/tchannel-go/json"
	"github.com/uber/tchannel-go/raw"
	athrift "github.com/uber/tchannel-go/thirdparty/github.com/apache/thrift/lib/go/thrift"
	"github.com/uber/tchannel-go/thrift"
	xcontext "golang.org/x/net/context"
)

func init() { engines["resphelp"] = engineRespHelp }

// ---------------------------------------------------------------- values that cannot be encoded

type rhBadMarshaler struct{ Name string }

func (rhBadMarshaler) MarshalJSON() ([]byte, error) {
	return nil, errors.New("rh: this value refuses to be marshalled")
}

type rhChanField struct {
	Name string
	C    chan int
}

type rhResult struct {
	Ratio float64 `json:"ratio"`
	Pad   string  `json:"pad,omitempty"`
}

// rhValue: mode 0 fine, 1 NaN, 2 +Inf, 3 failing Marshaler, 4 unsupported type (channel)
func rhValue(mode int, pad int) interface{} {
	switch mode {
	case 1:
		return &rhResult{Ratio: math.NaN()}
	case 2:
		return &rhResult{Ratio: math.Inf(1)}
	case 3:
		return &rhBadMarshaler{"x"}
	case 4:
		return &rhChanField{"x", make(chan int)}
	}
	return &rhResult{Ratio: 0.5, Pad: strings.Repeat("p", pad)}
}

// ---------------------------------------------------------------- ErrorHandlerFunc + helpers

// arg2 of the request: [mode, where, preflush, fallback, sleep10ms, big]
func rhEFH(ctx xcontext.Context, call *tchannel.InboundCall) error {
	var a2, a3 []byte
	if err := tchannel.NewArgReader(call.Arg2Reader()).Read(&a2); err != nil {
		return err
	}
	if err := tchannel.NewArgReader(call.Arg3Reader()).Read(&a3); err != nil {
		return err
	}
	if len(a2) < 6 {
		return errors.New("rh: short arg2")
	}
	mode, where, preflush, fallback, sleep, big := int(a2[0]), int(a2[1]), int(a2[2]), int(a2[3]), time.Duration(a2[4])*10*time.Millisecond, int(a2[5])
	if sleep > 0 {
		select {
		case <-ctx.Done():
		case <-time.After(sleep):
		}
	}
	resp := call.Response()
	m2, m3 := 0, mode
	if where == 2 {
		m2, m3 = mode, 0
	}
	if m2 == 0 {
		if err := tchannel.NewArgWriter(resp.Arg2Writer()).Write([]byte("who:efh")); err != nil {
			return err
		}
	} else if err := tchannel.NewArgWriter(resp.Arg2Writer()).WriteJSON(rhValue(m2, 0)); err != nil {
		return err
	}
	w, err := resp.Arg3Writer()
	if err != nil {
		return err
	}
	for i := 0; i < preflush; i++ {
		if _, err := w.Write([]byte(strings.Repeat("f", 80))); err != nil {
			return err
		}
		if err := w.Flush(); err != nil {
			return err
		}
	}
	pad := 0
	if big > 0 {
		pad = 70000 * big // the helper's single Write overflows the fragment: it flushes on its way
	}
	err = tchannel.NewArgWriter(w, nil).WriteJSON(rhValue(m3, pad))
	if err != nil && fallback == 1 {
		// the application falls back to a plain body on the writer it still holds
		return tchannel.NewArgWriter(w, nil).Write([]byte(`{"error":"could not encode"}`))
	}
	return err
}

// ---------------------------------------------------------------- raw.Wrap

type rhRaw struct{}

func (rhRaw) OnError(ctx xcontext.Context, err error) {}

// arg2: [kind, big]: 0 response, 1 application error, 2 Handle returns an error, 3 Res.SystemErr
func (rhRaw) Handle(ctx xcontext.Context, args *raw.Args) (*raw.Res, error) {
	kind, big := 0, 0
	if len(args.Arg2) >= 2 {
		kind, big = int(args.Arg2[0]), int(args.Arg2[1])
	}
	body := []byte(strings.Repeat("r", 40+70000*big))
	switch kind {
	case 1:
		return &raw.Res{IsErr: true, Arg2: []byte("who:raw"), Arg3: body}, nil
	case 2:
		return nil, errors.New("rh: raw handler failed")
	case 3:
		return &raw.Res{SystemErr: tchannel.NewSystemError(tchannel.ErrCodeBusy, "rh: raw busy"), Arg2: []byte("ignored"), Arg3: body}, nil
	}
	return &raw.Res{Arg2: []byte("who:raw"), Arg3: body}, nil
}

// ---------------------------------------------------------------- json.Register

type rhJArg struct {
	Mode int `json:"mode"`
}

// mode 0..4 as rhValue; 5 the handler returns an error; 6 a tchannel.SystemError
func rhJSONValue(ctx tjson.Context, arg *rhJArg) (*rhResult, error) {
	switch arg.Mode {
	case 1:
		return &rhResult{Ratio: math.NaN()}, nil
	case 2:
		return &rhResult{Ratio: math.Inf(-1)}, nil
	case 5:
		return nil, errors.New("rh: json handler failed")
	case 6:
		return nil, tchannel.NewSystemError(tchannel.ErrCodeBusy, "rh: json busy")
	}
	return &rhResult{Ratio: 0.25}, nil
}

func rhJSONMarshaler(ctx tjson.Context, arg *rhJArg) (*rhBadMarshaler, error) {
	return &rhBadMarshaler{"m"}, nil
}

// ---------------------------------------------------------------- thrift

type rhThriftRes struct{ mode string }

func (r *rhThriftRes) Read(p athrift.TProtocol) error { return nil }
func (r *rhThriftRes) String() string                 { return "rhThriftRes(" + r.mode + ")" }

// the way generated code writes a result struct, failing where told to
func (r *rhThriftRes) Write(p athrift.TProtocol) error {
	if r.mode == "failstart" {
		return errors.New("rh: result struct cannot be written")
	}
	if err := p.WriteStructBegin("rh_result"); err != nil {
		return err
	}
	if err := p.WriteFieldBegin("success", athrift.STRING, 0); err != nil {
		return err
	}
	n := 30
	if r.mode == "failbig" || r.mode == "okbig" {
		n = 80000
	}
	if err := p.WriteString(strings.Repeat("t", n)); err != nil {
		return err
	}
	if err := p.WriteFieldEnd(); err != nil {
		return err
	}
	if r.mode == "failmid" || r.mode == "failbig" {
		return errors.New("rh: required field of the result is unset")
	}
	if err := p.WriteFieldStop(); err != nil {
		return err
	}
	return p.WriteStructEnd()
}

type rhThriftServer struct{}

func (rhThriftServer) Service() string { return "Rh" }
func (rhThriftServer) Methods() []string {
	return []string{"ok", "okbig", "apperr", "failstart", "failmid", "failbig", "herr"}
}
func (rhThriftServer) Handle(ctx thrift.Context, method string, p athrift.TProtocol) (bool, athrift.TStruct, error) {
	// the request struct is empty: one STOP byte
	if _, err := p.ReadStructBegin(); err != nil {
		return false, nil, err
	}
	if _, _, _, err := p.ReadFieldBegin(); err != nil {
		return false, nil, err
	}
	if err := p.ReadStructEnd(); err != nil {
		return false, nil, err
	}
	switch method {
	case "herr":
		return false, nil, errors.New("rh: thrift handler failed")
	case "apperr":
		return false, &rhThriftRes{"ok"}, nil
	}
	return true, &rhThriftRes{method}, nil
}

// the alternate root handler of the Handler + SkipHandlerMethods option set
type rhAlt struct{ m map[string]tchannel.Handler }

func (h *rhAlt) Handle(ctx xcontext.Context, call *tchannel.InboundCall) {
	if hd := h.m[call.MethodString()]; hd != nil {
		hd.Handle(ctx, call)
		return
	}
	call.Response().SendSystemError(tchannel.NewSystemError(tchannel.ErrCodeBadRequest, "rh: alternate handler rejects %q", call.MethodString()))
}

// rhCapture: a Registrar that hands the registered handlers to the alternate handler instead
type rhCapture struct {
	tchannel.Registrar
	m map[string]tchannel.Handler
}

func (r rhCapture) Register(h tchannel.Handler, methodName string) { r.m[methodName] = h }

// ---------------------------------------------------------------- requests and expectations

type rhReq struct {
	id      uint32
	layer   string // efh raw json jsonm thrift
	method  string
	as      string
	arg2    []byte
	arg3    []byte
	ttlMs   uint32
	nframes int
	desc    string
	// expectation: "ok" a complete non-error response; "err" exactly one error frame, last;
	// "silent" no terminal frame at all (the layer only logs); "any" only the grammar (deadline races)
	expect string
}

func (q rhReq) String() string {
	return fmt.Sprintf("{id %d %s %s ttl %dms reqframes %d expect %s}", q.id, q.layer, q.desc, q.ttlMs, q.nframes, q.expect)
}

func rhGen(rng *rand.Rand, id uint32, layer int) rhReq {
	q := rhReq{id: id, ttlMs: 5000, nframes: pick(rng, 1, 1, 2), as: "raw"}
	switch layer {
	case 0: // ErrorHandlerFunc
		mode := pick(rng, 0, 1, 1, 2, 3, 4)
		where := pick(rng, 3, 3, 3, 2)
		preflush := pick(rng, 0, 0, 1, 3)
		fallback := pick(rng, 0, 0, 0, 1)
		sleep, big := 0, 0
		if rng.Intn(5) == 0 {
			big = 1
		}
		if where == 2 {
			preflush, fallback = 0, 0
		}
		q.layer, q.method = "efh", "efh"
		q.expect = "err"
		if mode == 0 || (fallback == 1 && where == 3) {
			q.expect = "ok"
		}
		if rng.Intn(7) == 0 { // the deadline passes before / while the handler writes
			q.ttlMs = uint32(pick(rng, 30, 50))
			sleep = pick(rng, 2, 3, 5, 6)
			q.expect = "any"
		}
		q.arg2 = []byte{byte(mode), byte(where), byte(preflush), byte(fallback), byte(sleep), byte(big)}
		q.arg3 = []byte("q")
		q.desc = fmt.Sprintf("value=%d failing-arg=%d preflush=%d fallback=%d sleep=%dms big=%d", mode, where, preflush, fallback, sleep*10, big)
	case 1: // raw.Wrap
		kind := pick(rng, 0, 1, 2, 2, 3, 3)
		big := pick(rng, 0, 0, 0, 1)
		q.layer, q.method = "raw", "raw"
		q.arg2, q.arg3 = []byte{byte(kind), byte(big)}, []byte("q")
		q.expect = "ok"
		if kind >= 2 {
			q.expect = "err"
		}
		q.desc = fmt.Sprintf("kind=%d big=%d", kind, big)
	case 2: // json.Register
		mode := pick(rng, 0, 1, 1, 2, 5, 6, 7)
		q.layer, q.method, q.as = "json", "jsonv", "json"
		q.arg2 = []byte(`{"k":"v"}`)
		if rng.Intn(2) == 0 {
			q.arg2 = nil
		}
		q.arg3 = []byte(fmt.Sprintf(`{"mode":%d}`, mode))
		switch mode {
		case 0, 5:
			q.expect = "ok" // 5: an application error response carrying the message
		case 6:
			q.expect = "err"
		case 7:
			q.method, q.expect = "jsonm", "silent"
		default:
			q.expect = "silent"
		}
		if q.expect == "silent" {
			q.ttlMs = 250 // the library sends nothing: the call just expires
		}
		q.desc = fmt.Sprintf("mode=%d headers=%v", mode, q.arg2 != nil)
	default: // thrift
		m := pickStr(rng, "ok", "okbig", "apperr", "failstart", "failstart", "failmid", "failmid", "failbig", "failbig", "herr")
		q.layer, q.method, q.as = "thrift", "Rh::"+m, "thrift"
		q.arg2 = []byte{0, 0}
		q.arg3 = []byte{0}
		q.expect = "err"
		if m == "ok" || m == "okbig" || m == "apperr" {
			q.expect = "ok"
		}
		q.desc = m
	}
	return q
}

func (r *rwConn) rhSendCall(q rhReq, service string) error {
	hdr := rawCallReqHeader(q.ttlMs, rwTracing, service, [][2]string{{"as", q.as}, {"cn", "verif-raw"}})
	maxPayload := 65519
	if q.nframes > 1 {
		total := 1 + len(hdr) + 5 + 6 + len(q.method) + len(q.arg2) + len(q.arg3)
		maxPayload = total/q.nframes + 24
		if min := 1 + len(hdr) + 5 + 2 + len(q.method) + 8; maxPayload < min {
			maxPayload = min
		}
	}
	var all []byte
	for _, fr := range buildRawCallFrames(true, q.id, hdr, 1, [3][]byte{[]byte(q.method), q.arg2, q.arg3}, maxPayload) {
		all = append(all, fr...)
	}
	return r.write(all)
}

// rhVerdict: the oracles of the header comment for one request
func rhVerdict(q rhReq, fs []rwFrame) string {
	if v := wireVerdict(q.id, fs, false); v != "" {
		return v
	}
	nerr, termRes := 0, false
	for _, f := range fs {
		if f.typ == 0xff {
			nerr++
		} else if !f.more {
			termRes = true
		}
	}
	switch q.expect {
	case "ok":
		if !complete(fs) || nerr != 0 {
			return fmt.Sprintf("id %d: the handler succeeded but the caller-side wire is not one complete response: %v", q.id, fs)
		}
	case "err":
		if termRes {
			return fmt.Sprintf("id %d: the handler failed (its error is answered with a system error) but the caller received a COMPLETE call response %v: the failure is reported as a success", q.id, fs)
		}
		if nerr != 1 || fs[len(fs)-1].typ != 0xff {
			return fmt.Sprintf("id %d: the handler's error must reach the caller as exactly one error frame, last for the id; got %v", q.id, fs)
		}
	case "silent":
		if termRes {
			return fmt.Sprintf("id %d: the handler could not encode its result (the layer only logs that) but the caller received a COMPLETE call response %v: an empty success instead of a failure", q.id, fs)
		}
	}
	return ""
}

// ---------------------------------------------------------------- engine

func engineRespHelp(rng *rand.Rand, n int, tier string, o *Out) {
	const svc = "svc"
	type cfg struct {
		name string
		opts *tchannel.ChannelOptions
	}
	// Handler + SkipHandlerMethods: the skip set names arg1 values of service::Method format, i.e.
	// the thrift methods: they go to the natively registered thrift server, every other method to
	// the alternate handler, which serves efh / raw / json with the same helper-built handlers
	var skip []string
	for _, m := range (rhThriftServer{}).Methods() {
		skip = append(skip, "Rh::"+m)
	}
	alt := &rhAlt{m: map[string]tchannel.Handler{}}
	cfgs := []cfg{
		{"default", nil},
		{"handler+skip", &tchannel.ChannelOptions{Handler: alt, SkipHandlerMethods: skip}},
		{"propagate-cancel", &tchannel.ChannelOptions{DefaultConnectionOptions: tchannel.ConnectionOptions{PropagateCancel: true}}},
	}
	var servers []*tchannel.Channel
	for _, c := range cfgs {
		ch, err := tchannel.NewChannel(svc, c.opts)
		if err != nil {
			panic(err)
		}
		sc := ch.GetSubChannel(svc)
		var reg tchannel.Registrar = sc
		if c.name == "handler+skip" {
			reg = rhCapture{sc, alt.m}
		}
		reg.Register(tchannel.ErrorHandlerFunc(rhEFH), "efh")
		reg.Register(raw.Wrap(rhRaw{}), "raw")
		if err := tjson.Register(reg, tjson.Handlers{"jsonv": rhJSONValue, "jsonm": rhJSONMarshaler}, func(xcontext.Context, error) {}); err != nil {
			panic(err)
		}
		thrift.NewServer(sc).Register(rhThriftServer{})
		if err := ch.ListenAndServe("127.0.0.1:0"); err != nil {
			panic(err)
		}
		defer ch.Close()
		servers = append(servers, ch)
	}

	perConn := 12
	sampled := false
	for b := 0; n > 0; b++ {
		k := imin(perConn, n)
		n -= k
		ci := b % len(cfgs)
		var reqs []rhReq
		ids := rng.Perm(4 * k)
		for i := 0; i < k; i++ {
			reqs = append(reqs, rhGen(rng, uint32(10+ids[i]), (b/len(cfgs)+i)%4))
		}
		if b < 2*len(cfgs) {
			// the exact scenarios of the task on every option set, whatever the draws: arg2 written,
			// arg3 cannot be encoded (NaN / failing Marshaler), with and without fragments flushed before
			for j, a2 := range [][]byte{{1, 3, 0, 0, 0, 0}, {3, 3, 2, 0, 0, 0}, {1, 2, 0, 0, 0, 0}, {4, 3, 1, 1, 0, 0}} {
				q := rhReq{id: uint32(1000 + j), layer: "efh", method: "efh", as: "raw", arg2: a2, arg3: []byte("q"), ttlMs: 5000, nframes: 1, expect: "err",
					desc: fmt.Sprintf("fixed value=%d failing-arg=%d preflush=%d fallback=%d", a2[0], a2[1], a2[2], a2[3])}
				if a2[3] == 1 {
					q.expect = "ok"
				}
				reqs = append(reqs, q)
			}
			reqs = append(reqs,
				rhReq{id: 1010, layer: "json", method: "jsonv", as: "json", arg3: []byte(`{"mode":1}`), ttlMs: 250, nframes: 1, expect: "silent", desc: "fixed mode=1"},
				rhReq{id: 1011, layer: "thrift", method: "Rh::failbig", as: "thrift", arg2: []byte{0, 0}, arg3: []byte{0}, ttlMs: 5000, nframes: 1, expect: "err", desc: "fixed failbig"},
				rhReq{id: 1012, layer: "thrift", method: "Rh::failstart", as: "thrift", arg2: []byte{0, 0}, arg3: []byte{0}, ttlMs: 5000, nframes: 1, expect: "err", desc: "fixed failstart"})
		}
		rw, err := dialRW(servers[ci].PeerInfo().HostPort)
		if err != nil {
			o.Oracle("resphelp", fmt.Sprintf("h%d", b), false, "", "harness: dial: "+err.Error())
			continue
		}
		herr := ""
		for _, q := range reqs {
			if err := rw.rhSendCall(q, svc); err != nil {
				herr = "harness: write: " + err.Error()
				break
			}
		}
		if herr != "" {
			o.Oracle("resphelp", fmt.Sprintf("h%d", b), false, "", herr)
			rw.c.Close()
			continue
		}
		deadline := time.Now().Add(2500 * time.Millisecond)
		for time.Now().Before(deadline) {
			all := true
			for _, q := range reqs {
				if (q.expect == "ok" || q.expect == "err") && !complete(rw.snapshot(q.id)) {
					all = false
				}
			}
			if all {
				break
			}
			time.Sleep(3 * time.Millisecond)
		}
		// past the ttl of the calls the library answers with nothing, plus the time in which a
		// second terminal frame would follow the first
		time.Sleep(330 * time.Millisecond)
		rw.barrier()
		rw.settle(30 * time.Millisecond)
		if !sampled {
			sampled = true
			o.Sample(map[string]interface{}{"sub": "resphelp", "options": cfgs[ci].name, "first_requests": fmt.Sprint(reqs[:imin(4, len(reqs))])})
		}
		o.Hist("resphelp:options=" + cfgs[ci].name)
		requested := map[uint32]bool{}
		for _, q := range reqs {
			requested[q.id] = true
			fs := rw.snapshot(q.id)
			v := rhVerdict(q, fs)
			if v != "" {
				v = fmt.Sprintf("%s; request %v on a channel with options %s", v, q, cfgs[ci].name)
			}
			shape := "none"
			if len(fs) > 0 {
				shape = fmt.Sprintf("%d-frames-last=%v", imin(len(fs), 4), fs[len(fs)-1])
			}
			o.Hist(fmt.Sprintf("resphelp:%s expect=%s", q.layer, q.expect))
			o.Hist(fmt.Sprintf("resphelp:%s expect=%s wire=%s", q.layer, q.expect, shape))
			o.Oracle("resphelp", fmt.Sprintf("h%d-%s-%d", b, cfgs[ci].name, q.id), true, fmt.Sprint(cfgs[ci].name, q.layer, q.method, q.desc, q.nframes), v)
		}
		for _, id := range rw.ids() {
			if !requested[id] && id != 0xffffffff {
				o.Oracle("resphelp", fmt.Sprintf("h%d-unrequested-%d", b, id), true, "", fmt.Sprintf("frames %v for id %d which was never requested on this connection", rw.snapshot(id), id))
			}
		}
		rw.c.Close()
	}
}
