package main

// C07 engine "closerace": forced schedules of Close against ONE request on a real connection of a
// real listening channel (its remote end a raw peer), with k further inbound calls in flight
// (k = 0: the request is the only thing that keeps the connection open -- its own removal is what
// closes the connection).  Scenario kinds (model: Model/CloseRace.v, run_closerace):
//
//	0  a call req is parked at inbound.afterNewExchange (exchange registered, re-check not yet
//	   made); Close; release.
//	1  the same parked at inbound.afterStateCheck (before the exchange is registered); with k = 0
//	   Close runs to completion (the connection reports Closed) before the release.
//	2  k+1 calls are dispatched; Close; the handlers return in a chosen order, one of them (the
//	   target, at position pos) with InboundCallResponse.SendSystemError(code) (code 0: a normal
//	   response).
//	3  k >= 1 calls are dispatched; Close (state StartClose); the peer sends a ping req; the
//	   handlers return.
//	4  one outbound call is begun; Close (state InboundClosed, held by the outbound call); the
//	   peer sends a ping req; the peer answers the call.
//	5  no Close: the peer pings an Active connection with k calls in flight.
//	6  (V07) k outbound calls are begun and in flight; a further beginCall is parked at
//	   outbound.afterStateCheck (it has seen an Active connection, its exchange is not registered
//	   yet); Close -- NO inbound call is in flight, so the connection walks on to InboundClosed
//	   (k >= 1) or all the way to Closed (k = 0) inside that Close; release; the peer answers the
//	   others.  The raced call must fail locally at once with ErrConnectionClosed, leave no
//	   exchange and put nothing on the wire.
//	7  (V07) the same with k >= 1 inbound calls dispatched (the connection stops in StartClose).
//	8, 9  (V07) as 6, 7 with the beginCall parked at outbound.afterNewExchange (registered, re-check
//	   still to come).
//
// Observable (same encoding as the model): final connection state, stopCh closed, the error
// frames that reached the peer (id, code) in order, ping res received; kinds 6, 7 add the outcome
// of the raced beginCall (20 a call was returned, 22 ErrConnectionClosed from the re-check) and the
// number of outbound exchanges left at the end.
// Oracle (from the statement): the raced request is answered with exactly one declined frame
// while the connection is open (kinds 0, 1) -- or, when Close had already completed, the peer sees
// the end of the stream (not silence); an accepted call runs to completion and its result -- a
// response OR a system error -- reaches the peer (kinds 2, 3, 4); a ping on a draining connection
// is answered and does not disturb the calls being drained; the connection then reaches Closed
// and the channel reaches ChannelClosed and signals it.

import (
	"fmt"
	"math/rand"
	"strconv"
	"sync"
	"time"

	tchannel "github.com/uber/tchannel-go"
	"golang.org/x/net/context"
)

func init() { engines["closerace"] = engineCloseRace }

const cr07Target = 200

type cr07Plan struct {
	entered chan struct{}
	release chan struct{}
	done    chan struct{}
	code    int
	werr    error
}

type cr07Handlers struct {
	mu sync.Mutex
	m  map[uint32]*cr07Plan
}

func (hs *cr07Handlers) plan(id uint32, code int) *cr07Plan {
	p := &cr07Plan{entered: make(chan struct{}), release: make(chan struct{}), done: make(chan struct{}), code: code}
	hs.mu.Lock()
	hs.m[id] = p
	hs.mu.Unlock()
	return p
}

func (hs *cr07Handlers) handle(ctx context.Context, call *tchannel.InboundCall) {
	var a2, a3 []byte
	if err := tchannel.NewArgReader(call.Arg2Reader()).Read(&a2); err != nil {
		return
	}
	if err := tchannel.NewArgReader(call.Arg3Reader()).Read(&a3); err != nil {
		return
	}
	id64, _ := strconv.ParseUint(string(a2), 10, 32)
	hs.mu.Lock()
	p := hs.m[uint32(id64)]
	hs.mu.Unlock()
	if p == nil {
		return
	}
	close(p.entered)
	<-p.release
	if p.code != 0 {
		p.werr = call.Response().SendSystemError(tchannel.NewSystemError(tchannel.SystemErrCode(p.code), "cr07 handler error"))
	} else {
		err := tchannel.NewArgWriter(call.Response().Arg2Writer()).Write(a2)
		if err == nil {
			err = tchannel.NewArgWriter(call.Response().Arg3Writer()).Write(a3)
		}
		p.werr = err
	}
	close(p.done)
}

type cr07World struct {
	ch    *tchannel.Channel
	conn  *tchannel.Connection
	peer  *c07Peer
	ctl   *c07Ctl
	hs    *cr07Handlers
	plans map[uint32]*cr07Plan
}

func cr07New() (*cr07World, error) {
	w := &cr07World{hs: &cr07Handlers{m: map[uint32]*cr07Plan{}}, plans: map[uint32]*cr07Plan{}}
	ch, err := tchannel.NewChannel("svc", &tchannel.ChannelOptions{Logger: tchannel.NullLogger})
	if err != nil {
		return nil, err
	}
	ch.Register(tchannel.HandlerFunc(w.hs.handle), "echo")
	if err := ch.ListenAndServe("127.0.0.1:0"); err != nil {
		return nil, err
	}
	w.ch = ch
	w.ctl = newC07Ctl()
	peer, conn, err := c07Dial(ch, map[uint32]bool{})
	if err != nil {
		w.ctl.close()
		ch.Close()
		return nil, err
	}
	w.peer, w.conn = peer, conn
	return w, nil
}

func (w *cr07World) cleanup() {
	w.ctl.disarm()
	w.ctl.drain()
	for _, p := range w.plans {
		select {
		case <-p.release:
		default:
			close(p.release)
		}
	}
	w.peer.conn.Close()
	w.ch.Close()
	select {
	case <-w.ch.ClosedChan():
	case <-time.After(300 * time.Millisecond):
	}
	w.ctl.close()
}

// dispatch sends call req id and waits until its handler is entered.
func (w *cr07World) dispatch(id uint32, code int) bool {
	p := w.hs.plan(id, code)
	w.plans[id] = p
	if w.peer.sendCallReq(id, 60000) != nil {
		return false
	}
	select {
	case <-p.entered:
		return true
	case <-time.After(2 * time.Second):
		return false
	}
}

// closeIt runs Channel.Close / Connection.Close to its return and waits until the connection
// has left Active (wantClosed: until it reports Closed).
func (w *cr07World) closeIt(byChannel bool, wantClosed bool) bool {
	done := make(chan struct{})
	go func() {
		if byChannel {
			w.ch.Close()
		} else {
			w.conn.Close()
		}
		close(done)
	}()
	select {
	case <-done:
	case <-time.After(2 * time.Second):
		return false
	}
	deadline := time.Now().Add(2 * time.Second)
	for time.Now().Before(deadline) {
		st := tchannel.VerifC07State(w.conn)
		if (wantClosed && st == 4) || (!wantClosed && st != 1) {
			return true
		}
		time.Sleep(100 * time.Microsecond)
	}
	return false
}

func (w *cr07World) errsFor(id uint32) (n int, code int64) {
	code = -1
	for _, e := range w.peer.errFrames() {
		if uint32(e[0]) == id {
			n++
			code = e[1]
		}
	}
	return
}

func (w *cr07World) eofWithin(d time.Duration) bool {
	select {
	case <-w.peer.eof:
		return true
	case <-time.After(d):
		return false
	}
}

// answered waits until the peer has something for id: a complete call res, an error frame, or
// the end of the stream.
func (w *cr07World) answered(id uint32, d time.Duration) {
	deadline := time.Now().Add(d)
	for time.Now().Before(deadline) {
		if n, _ := w.errsFor(id); n > 0 || w.peer.gotRes(id) {
			return
		}
		select {
		case <-w.peer.eof:
			return
		default:
		}
		time.Sleep(100 * time.Microsecond)
	}
}

// finish lets the handler of id return and waits for its result at the peer.
func (w *cr07World) finish(id uint32) bool {
	p := w.plans[id]
	close(p.release)
	select {
	case <-p.done:
	case <-time.After(2 * time.Second):
		return false
	}
	w.answered(id, 2*time.Second)
	return true
}

// delivered checks clause (a) for an accepted call: its result reached the peer.
func (w *cr07World) delivered(id uint32, code int, tag string) string {
	n, c := w.errsFor(id)
	if code == 0 {
		if !w.peer.gotRes(id) || n != 0 {
			return fmt.Sprintf("%sinbound call %d was accepted before Close and its handler returned a response, but the peer got %d error frame(s) (last code %d) and complete call res = %v (handler write error: %v)", tag, id, n, c, w.peer.gotRes(id), w.plans[id].werr)
		}
		return ""
	}
	if n != 1 || c != int64(code) || w.peer.gotRes(id) {
		return fmt.Sprintf("%sinbound call %d was accepted before Close and its handler answered with system error code %d, but the peer got %d error frame(s) for it (last code %d, call res %v; SendSystemError returned %v): the result of an accepted call was not delivered", tag, id, code, n, c, w.peer.gotRes(id), w.plans[id].werr)
	}
	return ""
}

// cr07Case runs one scenario; returns the observable, the verdict and ok=false when the forced
// schedule could not be followed (infeasible).
func cr07Case(kind, k, code, pos int, byChannel bool) (obs []int64, verdict string, ok bool) {
	w, err := cr07New()
	if err != nil {
		return nil, "harness: " + err.Error(), false
	}
	defer w.cleanup()
	fail := func(v string) {
		if verdict == "" {
			verdict = v
		}
	}
	pong := int64(0)
	var extra []int64
	others := make([]uint32, 0, k)
	for i := 1; i <= k; i++ {
		others = append(others, uint32(100+i))
	}
	expectClosed := true
	switch kind {
	case 0, 1:
		for _, id := range others {
			if !w.dispatch(id, 0) {
				return nil, "", false
			}
		}
		name := ptInNewEx
		if kind == 1 {
			name = ptInCheck
		}
		w.ctl.arm()
		w.ctl.armID(name, cr07Target)
		tp := w.hs.plan(cr07Target, 0) // if it were served (it must not be), the handler echoes at once
		w.plans[cr07Target] = tp
		close(tp.release)
		if w.peer.sendCallReq(cr07Target, 60000) != nil {
			return nil, "", false
		}
		park, got := w.ctl.await(nil, 2*time.Second)
		if !got || park == nil {
			return nil, "", false
		}
		w.ctl.disarm()
		if !w.closeIt(byChannel, kind == 1 && k == 0) {
			close(park.resume)
			return nil, "", false
		}
		stateAtRelease := tchannel.VerifC07State(w.conn)
		close(park.resume)
		w.answered(cr07Target, 2*time.Second)
		time.Sleep(300 * time.Microsecond)
		n, c := w.errsFor(cr07Target)
		served := false
		select {
		case <-w.plans[cr07Target].entered:
			served = true
		default:
		}
		switch {
		case served:
			fail(fmt.Sprintf("call req %d raced with Close (parked at %s, connection state %d at its release) and was served", cr07Target, name, stateAtRelease))
		case stateAtRelease != 4 && (n != 1 || c != 4):
			fail(fmt.Sprintf("call req %d raced with Close (parked at %s; connection state %d at its release, %d other call(s) in flight): the peer got %d error frame(s) for it (last code %d), want exactly one declined (4) -- the request was not answered although the connection was still open", cr07Target, name, stateAtRelease, k, n, c))
		case stateAtRelease == 4 && n == 0:
			// Close had completed before the exchange was registered: no frame can be sent any more;
			// "not silently dropped" = the peer sees the end of the stream instead of silence
			if !w.eofWithin(2 * time.Second) {
				fail(fmt.Sprintf("call req %d arrived while Close completed (connection Closed at its release): no frame and no end of stream within 2s -- silently dropped", cr07Target))
			}
		case n > 1 || (n == 1 && c != 4):
			fail(fmt.Sprintf("call req %d raced with Close: %d error frames, last code %d", cr07Target, n, c))
		}
		for _, id := range others {
			if !w.finish(id) {
				return nil, "", false
			}
			if v := w.delivered(id, 0, ""); v != "" {
				fail(v)
			}
		}
	case 2:
		ids := append([]uint32{}, others...)
		// target at position pos of the completion order
		order := make([]uint32, 0, k+1)
		order = append(order, ids[:pos]...)
		order = append(order, cr07Target)
		order = append(order, ids[pos:]...)
		for _, id := range order {
			c := 0
			if id == cr07Target {
				c = code
			}
			if !w.dispatch(id, c) {
				return nil, "", false
			}
		}
		if !w.closeIt(byChannel, false) {
			return nil, "", false
		}
		for _, id := range order {
			if !w.finish(id) {
				return nil, "", false
			}
			c, tag := 0, ""
			if id == cr07Target {
				c = code
				if code != 0 {
					tag = "[c07:handler-error-lost-on-drain] "
				}
			}
			if v := w.delivered(id, c, tag); v != "" {
				fail(v)
			}
		}
	case 3, 5:
		for _, id := range others {
			if !w.dispatch(id, 0) {
				return nil, "", false
			}
		}
		if kind == 3 {
			if !w.closeIt(byChannel, false) {
				return nil, "", false
			}
		} else {
			expectClosed = false
		}
		st := tchannel.VerifC07State(w.conn)
		select {
		case <-w.peer.ping(0x7f000001):
			pong = 1
		case <-w.peer.eof:
		case <-time.After(time.Second):
		}
		if pong == 0 {
			fail(fmt.Sprintf("[c07:ping-on-draining-connection] a ping req on a connection in state %d with %d accepted call(s) in flight was not answered with a ping res (error frames at the peer: %v)", st, k, w.peer.errFrames()))
		}
		for _, id := range others {
			if !w.finish(id) {
				return nil, "", false
			}
			if v := w.delivered(id, 0, "[c07:ping-on-draining-connection] after a ping req on the draining connection: "); v != "" {
				fail(v)
			}
		}
	case 4:
		ctx, cancel := context.WithTimeout(context.Background(), 30*time.Second)
		defer cancel()
		call, id, err := tchannel.VerifC07BeginCall(ctx, w.conn, "peer", "m")
		if err != nil {
			return nil, "", false
		}
		e := tchannel.NewArgWriter(call.Arg2Writer()).Write([]byte("a2"))
		if e == nil {
			e = tchannel.NewArgWriter(call.Arg3Writer()).Write([]byte("a3"))
		}
		if e != nil {
			return nil, "", false
		}
		resDone := make(chan error, 1)
		go func() {
			var r2, r3 []byte
			e := tchannel.NewArgReader(call.Response().Arg2Reader()).Read(&r2)
			if e == nil {
				e = tchannel.NewArgReader(call.Response().Arg3Reader()).Read(&r3)
			}
			if e == nil && string(r3) != fmt.Sprintf("r3-%d", id) {
				e = fmt.Errorf("wrong response %q", r3)
			}
			resDone <- e
		}()
		if !w.closeIt(byChannel, false) {
			return nil, "", false
		}
		st := tchannel.VerifC07State(w.conn)
		select {
		case <-w.peer.ping(0x7f000001):
			pong = 1
		case <-w.peer.eof:
		case <-time.After(time.Second):
		}
		if pong == 0 {
			fail(fmt.Sprintf("[c07:ping-on-draining-connection] a ping req on a connection in state %d with an outbound call in flight was not answered with a ping res (error frames at the peer: %v)", st, w.peer.errFrames()))
		}
		w.peer.sendCallRes(id)
		select {
		case e := <-resDone:
			if e != nil {
				fail(fmt.Sprintf("[c07:ping-on-draining-connection] outbound call %d was begun before Close; after a ping req on the draining connection the peer's response was not delivered to the caller: %v", id, e))
			}
		case <-time.After(2 * time.Second):
			fail(fmt.Sprintf("outbound call %d begun before Close: no result within 2s of the peer's response", id))
		}
	case 6, 7, 8, 9:
		extra = cr07OutRace(w, kind, k, others, byChannel, fail)
		if extra == nil {
			return nil, "", false
		}
	}
	if expectClosed {
		if !w.eofWithin(2 * time.Second) {
			fail(fmt.Sprintf("nothing is in flight any more after Close but the peer did not see the end of the stream within 2s (connection state %d)", tchannel.VerifC07State(w.conn)))
		}
		if byChannel {
			select {
			case <-w.ch.ClosedChan():
				if w.ch.State() != tchannel.ChannelClosed {
					fail(fmt.Sprintf("ClosedChan is closed but State() = %v", w.ch.State()))
				}
			case <-time.After(2 * time.Second):
				fail(fmt.Sprintf("nothing is in flight any more but the channel did not reach ChannelClosed within 2s (state %v)", w.ch.State()))
			}
		}
	} else {
		// the connection stays Active: flush the error-frame stream with a ping round trip
		select {
		case <-w.peer.ping(0x7f000002):
		case <-time.After(time.Second):
		}
	}
	o := tchannel.VerifC07Observe(w.conn)
	errs := w.peer.errFrames()
	obs = []int64{int64(o.State), b2i(o.StopClosed), int64(len(errs))}
	for _, e := range errs {
		obs = append(obs, e[0], e[1])
	}
	obs = append(obs, pong)
	if extra != nil {
		obs = append(obs, extra[0], int64(tchannel.VerifC07Observe(w.conn).Outbound))
	}
	return obs, verdict, true
}

type cr07OutCall struct {
	id      uint32
	resDone chan error
}

// cr07Begin begins an outbound call on the connection, writes its arguments and reads the
// response in the background.
func cr07Begin(ctx context.Context, w *cr07World) (*cr07OutCall, error) {
	call, id, err := tchannel.VerifC07BeginCall(ctx, w.conn, "peer", "m")
	if err != nil {
		return nil, err
	}
	oc := &cr07OutCall{id: id, resDone: make(chan error, 1)}
	e := tchannel.NewArgWriter(call.Arg2Writer()).Write([]byte("a2"))
	if e == nil {
		e = tchannel.NewArgWriter(call.Arg3Writer()).Write([]byte("a3"))
	}
	if e != nil {
		oc.resDone <- e
		return oc, nil
	}
	go func() {
		var r2, r3 []byte
		e := tchannel.NewArgReader(call.Response().Arg2Reader()).Read(&r2)
		if e == nil {
			e = tchannel.NewArgReader(call.Response().Arg3Reader()).Read(&r3)
		}
		if e == nil && string(r3) != fmt.Sprintf("r3-%d", id) {
			e = fmt.Errorf("wrong response %q", r3)
		}
		oc.resDone <- e
	}()
	return oc, nil
}

func (p *c07Peer) cr07CallReqs() []uint32 {
	p.mu.Lock()
	defer p.mu.Unlock()
	return append([]uint32(nil), p.callReqs...)
}

// cr07OutRace: kinds 6 and 7 -- a call start between its state check and its registration while
// Close lands.  Returns [outcome] (nil: the forced schedule could not be followed).
func cr07OutRace(w *cr07World, kind, k int, others []uint32, byChannel bool, fail func(string)) []int64 {
	ctx, cancel := context.WithTimeout(context.Background(), 30*time.Second)
	defer cancel()
	var outs []*cr07OutCall
	point := ptOutCheck
	if kind >= 8 {
		point = ptOutNewEx
	}
	outbound := kind == 6 || kind == 8
	if outbound {
		for i := 0; i < k; i++ {
			oc, err := cr07Begin(ctx, w)
			if err != nil {
				return nil
			}
			outs = append(outs, oc)
		}
		// the call reqs of the calls in flight have reached the peer
		deadline := time.Now().Add(2 * time.Second)
		for len(w.peer.cr07CallReqs()) < k && time.Now().Before(deadline) {
			time.Sleep(100 * time.Microsecond)
		}
		if len(w.peer.cr07CallReqs()) < k {
			return nil
		}
	} else {
		for _, id := range others {
			if !w.dispatch(id, 0) {
				return nil
			}
		}
	}
	sentBefore := len(w.peer.cr07CallReqs())
	type res struct {
		oc  *cr07OutCall
		err error
	}
	resC := make(chan res, 1)
	w.ctl.arm(point)
	go func() {
		oc, err := cr07Begin(ctx, w)
		resC <- res{oc, err}
	}()
	park, got := w.ctl.await(nil, 2*time.Second)
	if !got || park == nil {
		return nil
	}
	w.ctl.disarm()
	if !w.closeIt(byChannel, k == 0 && kind < 8) {
		close(park.resume)
		return nil
	}
	stateAtRelease := tchannel.VerifC07State(w.conn)
	t0 := time.Now()
	close(park.resume)
	outcome := int64(-1)
	var raced *cr07OutCall
	var where string
	if outbound {
		where = fmt.Sprintf("a new outbound call whose start was parked at %s while Close ran (connection state %d at its release, %d outbound call(s) in flight, no inbound call)", point, stateAtRelease, k)
	} else {
		where = fmt.Sprintf("a new outbound call whose start was parked at %s while Close ran (connection state %d at its release, %d inbound call(s) in flight)", point, stateAtRelease, k)
	}
	select {
	case r := <-resC:
		el := time.Since(t0)
		switch {
		case r.err == nil:
			outcome, raced = 20, r.oc
			fail(where + " was ADMITTED: beginCall returned a call, want the local error ErrConnectionClosed (new outbound calls fail locally)")
		case tchannel.VerifC07ErrKind(r.err) == 1:
			outcome = 22
			if el > time.Second {
				fail(fmt.Sprintf("%s failed with ErrConnectionClosed only after %v: not at once", where, el))
			}
		default:
			outcome = -3
			fail(fmt.Sprintf("%s failed with %v, want ErrConnectionClosed", where, r.err))
		}
	case <-time.After(2 * time.Second):
		fail(where + " did not return within 2s of its release: it did not fail locally")
		return []int64{-2}
	}
	// nothing of the raced call is on the wire: flush with a ping round trip while the connection is open
	if tchannel.VerifC07State(w.conn) != 4 {
		select {
		case <-w.peer.ping(0x7f000003):
		case <-w.peer.eof:
		case <-time.After(time.Second):
		}
	} else {
		w.eofWithin(time.Second)
	}
	if n := len(w.peer.cr07CallReqs()) - sentBefore; n != 0 {
		fail(fmt.Sprintf("%s: %d call req frame(s) of it reached the peer after Close had returned", where, n))
	}
	// the accepted calls drain
	for _, oc := range outs {
		w.peer.sendCallRes(oc.id)
		select {
		case e := <-oc.resDone:
			if e != nil {
				fail(fmt.Sprintf("outbound call %d was begun before Close; the peer's response was not delivered to the caller: %v", oc.id, e))
			}
		case <-time.After(2 * time.Second):
			fail(fmt.Sprintf("outbound call %d begun before Close: no result within 2s of the peer's response", oc.id))
		}
	}
	if !outbound {
		for _, id := range others {
			if !w.finish(id) {
				return nil
			}
			if v := w.delivered(id, 0, ""); v != "" {
				fail(v)
			}
		}
	}
	if raced != nil && tchannel.VerifC07State(w.conn) != 4 {
		// the wrongly admitted call was sent on an open connection: answer it so that the connection drains
		w.peer.sendCallRes(raced.id)
		select {
		case <-raced.resDone:
		case <-time.After(time.Second):
		}
	}
	return []int64{outcome}
}

func engineCloseRace(rng *rand.Rand, n int, tier string, o *Out) {
	infeasible := 0
	codes := []int{0, 3, 5, 6, 2, 8}
	for c := 0; c < n; c++ {
		if o.fails >= 8 || infeasible >= 10 {
			break
		}
		// the first cases walk through every kind with k = 0 (the sole-exchange schedules)
		kind := c % 10
		k := 0
		if c >= 20 {
			kind = rng.Intn(10)
			k = rng.Intn(3)
		} else if c >= 10 {
			k = 1
		}
		if (kind == 3 || kind == 7 || kind == 9) && k == 0 {
			k = 1
		}
		if kind == 4 {
			k = 0
		}
		code, pos := 0, 0
		if kind == 2 {
			code = codes[rng.Intn(len(codes))]
			if c < 20 {
				code = codes[1+rng.Intn(len(codes)-1)]
			}
			pos = rng.Intn(k + 1)
			if c < 20 {
				pos = k // the target is the last exchange in flight
			}
		}
		byChannel := rng.Intn(2) == 0
		in := []int64{int64(kind), int64(k), int64(code), int64(pos), b2i(byChannel)}
		var obs []int64
		var verdict string
		ok := false
		for attempt := 0; attempt < 2 && !ok; attempt++ {
			obs, verdict, ok = cr07Case(kind, k, code, pos, byChannel)
		}
		id := fmt.Sprintf("r%d", c)
		if !ok {
			infeasible++
			o.Hist(fmt.Sprintf("infeasible kind=%d", kind))
			continue
		}
		o.Hist(fmt.Sprintf("kind=%d", kind))
		o.Hist(fmt.Sprintf("inflight=%d", k))
		if c < 2 {
			o.Sample(map[string]interface{}{"sub": "closerace", "kind": kind, "others_in_flight": k, "code": code, "pos": pos, "close_by_channel": byChannel, "observed": obs})
		}
		if verdict != "" {
			verdict += fmt.Sprintf(" [closerace kind %d, %d other call(s) in flight, code %d, position %d, Close on the %s]", kind, k, code, pos, map[bool]string{true: "channel", false: "connection"}[byChannel])
		}
		o.Case("closerace", id, in, obs, true, verdict)
	}
	if infeasible >= 10 || (n >= 10 && infeasible*5 > n) {
		o.Oracle("closerace", "infeasible", false, "infeasible", fmt.Sprintf("harness: %d of %d forced schedules could not be followed by the implementation", infeasible, n))
	}
}
