package main

// Engine "retryopts" (property C17): the OPTIONS path and the error CLASSES.
//
//   errcode    every error shape family -> the real getErrCode (overlay wrapper)
//   canretrys  7 policies x 256 codes x {SystemError wrapping net.Error timeout / non-timeout /
//              plain / nil} + bare and nested shapes -> the real RetryOn.CanRetry
//   retrycb    random ContextBuilder setter sequences (SetRetryOptions(nil | fresh struct | a
//              struct passed before), SetTimeoutPerAttempt; any order, repeated) -> Build ->
//              the real getRetryOptions (overlay wrapper) and the real Channel.RunWithRetry with
//              scripted outcomes of every shape.
//
// Oracles are written from the statement of C17 (last value given per field, default 5, the
// documented policy table, a SystemError's own code wins), not from the model.

import (
	"errors"
	"fmt"
	"io"
	"math/rand"
	"net"
	"sort"
	"strings"
	"time"

	tchannel "github.com/uber/tchannel-go"
	"golang.org/x/net/context"
)

// c17Shape: an error value to build. kind 0 nil, 1 plain (inner = what it wraps, nil: nothing;
// then code = flavour: 0 errors.New, 1 the bare context.Canceled, 2 io.EOF, 3 tchannel.ErrNoPeers --
// sentinel VALUES that are neither a SystemError nor a net.Error: class "unexpected"),
// 2 net.Error (code = flavour), 3 SystemError(code) wrapping inner.
type c17Shape struct {
	kind  int
	code  int
	inner *c17Shape
}

func (s *c17Shape) err() error {
	if s == nil {
		return nil
	}
	switch s.kind {
	case 0:
		return nil
	case 1:
		if in := s.inner.err(); in != nil {
			return fmt.Errorf("c17 plain wrapping: %w", in)
		}
		switch s.code % 4 {
		case 1:
			return context.Canceled
		case 2:
			return io.EOF
		case 3:
			return tchannel.ErrNoPeers
		}
		return errors.New("c17 plain")
	case 2:
		switch s.code % 4 {
		case 0:
			return netErr{timeout: true}
		case 1:
			return netErr{timeout: false}
		case 2:
			return &net.OpError{Op: "dial", Net: "tcp", Err: errors.New("c17 refused")} // Timeout() false
		default:
			return context.DeadlineExceeded // implements net.Error, Timeout() true
		}
	default:
		in := s.inner.err()
		if _, isSys := in.(tchannel.SystemError); isSys || in == nil || s.code%3 == 0 {
			// the public constructor returns an inner SystemError unchanged: build the literal
			return tchannel.VerifC17SystemError(s.code, in)
		}
		return tchannel.NewWrappedSystemError(tchannel.SystemErrCode(s.code), in)
	}
}

// c17EncShape decodes a real error value into the model's shape encoding, by type
// assertions only: nLayers (kind arg)* baseKind baseArg.
func c17EncShape(err error) []int64 {
	var layers []int64
	n := 0
	for {
		if err == nil {
			return append(append([]int64{int64(n)}, layers...), 0, 0)
		}
		if se, ok := err.(tchannel.SystemError); ok {
			layers = append(layers, 3, int64(se.Code()))
			n++
			err = se.Wrapped()
			continue
		}
		if ne, ok := err.(net.Error); ok {
			return append(append([]int64{int64(n)}, layers...), 2, b2i(ne.Timeout()))
		}
		layers = append(layers, 1, 0)
		n++
		err = errors.Unwrap(err)
	}
}

// c17SpecCode: the code the policy must look at, from the statement: a SystemError's own
// code wins, only a bare net.Error is a network error, anything else is unexpected.
func c17SpecCode(err error) int {
	if err == nil {
		return 0
	}
	if se, ok := err.(tchannel.SystemError); ok {
		return int(se.Code())
	}
	if _, ok := err.(net.Error); ok {
		return 7
	}
	return 5
}

// c17SpecRetryable: the documented table, by code.
func c17SpecRetryable(policy int, code int) bool {
	if policy == 2 {
		return false
	}
	switch code {
	case 3, 4:
		return true
	case 6:
		return false
	case 7:
		return policy == 0 || policy == 1 || policy == 5
	case 5:
		return policy == 4 || policy == 5
	}
	return policy == 5
}

func c17RandShape(rng *rand.Rand, depth int, codes []int) *c17Shape {
	k := rng.Intn(10)
	switch {
	case depth <= 0 || k < 3:
		switch rng.Intn(4) {
		case 0:
			return &c17Shape{kind: 1, code: rng.Intn(4)}
		case 1, 2:
			return &c17Shape{kind: 2, code: rng.Intn(4)}
		default:
			return &c17Shape{kind: 3, code: codes[rng.Intn(len(codes))]}
		}
	case k < 5:
		return &c17Shape{kind: 1, inner: c17RandShape(rng, depth-1, codes)}
	default:
		return &c17Shape{kind: 3, code: codes[rng.Intn(len(codes))], inner: c17RandShape(rng, depth-1, codes)}
	}
}

type c17Op struct {
	setRO bool
	isNil bool
	reuse int // >= 0: pass the struct of an earlier SetRetryOptions again (same pointer)
	ma    int
	ron   int
	tpa   time.Duration
}

type c17Attempt struct {
	attempt int
	sel     []string
	slackOK bool
}

func init() { engines["retryopts"] = engineRetryOpts }

func engineRetryOpts(rng *rand.Rand, n int, tier string, o *Out) {
	ch, err := tchannel.NewChannel("verif-retryopts", nil)
	if err != nil {
		panic(err)
	}
	defer ch.Close()
	interesting := []int{0, 1, 2, 3, 4, 5, 6, 7, 8, 255}

	// ---- 1. error classes ------------------------------------------------------------
	wrappedKinds := []*c17Shape{
		{kind: 2, code: 0}, {kind: 2, code: 1}, {kind: 1}, nil, // net timeout, net non-timeout, plain, nil
		{kind: 2, code: 2}, {kind: 2, code: 3}, // *net.OpError, context.DeadlineExceeded
		{kind: 1, inner: &c17Shape{kind: 2}},          // plain wrapping a net.Error
		{kind: 1, code: 1},                            // the bare context.Canceled
		{kind: 1, inner: &c17Shape{kind: 1, code: 1}}, // fmt.Errorf("%w", context.Canceled)
	}
	var shapes []*c17Shape
	shapes = append(shapes, &c17Shape{kind: 0}, &c17Shape{kind: 1})
	// bare sentinel values and their fmt.Errorf("%w") wrappers (one and two levels): context.Canceled,
	// io.EOF, ErrNoPeers; context.DeadlineExceeded is net flavour 3 (bare) / plain wrapping it (below)
	for f := 1; f < 4; f++ {
		shapes = append(shapes, &c17Shape{kind: 1, code: f})
		shapes = append(shapes, &c17Shape{kind: 1, inner: &c17Shape{kind: 1, code: f}})
		shapes = append(shapes, &c17Shape{kind: 1, inner: &c17Shape{kind: 1, inner: &c17Shape{kind: 1, code: f}}})
	}
	shapes = append(shapes, &c17Shape{kind: 1, inner: &c17Shape{kind: 1, inner: &c17Shape{kind: 2, code: 3}}})
	for f := 0; f < 4; f++ {
		shapes = append(shapes, &c17Shape{kind: 2, code: f})
		shapes = append(shapes, &c17Shape{kind: 1, inner: &c17Shape{kind: 2, code: f}}) // plain wrapping net.Error
	}
	for code := 0; code < 256; code++ {
		for _, w := range wrappedKinds {
			shapes = append(shapes, &c17Shape{kind: 3, code: code, inner: w})
		}
	}
	for _, c1 := range interesting { // SystemError wrapping another SystemError (which may wrap a net.Error)
		for _, c2 := range interesting {
			shapes = append(shapes, &c17Shape{kind: 3, code: c1, inner: &c17Shape{kind: 3, code: c2}})
			shapes = append(shapes, &c17Shape{kind: 3, code: c1, inner: &c17Shape{kind: 3, code: c2, inner: &c17Shape{kind: 2}}})
		}
	}
	for i := 0; i < n; i++ {
		shapes = append(shapes, c17RandShape(rng, 3, interesting))
	}
	for i, s := range shapes {
		e := s.err()
		got := tchannel.VerifC17GetErrCode(e)
		want := c17SpecCode(e)
		verdict := ""
		if got != want {
			verdict = fmt.Sprintf("getErrCode(%T %q) = %d, the documented class is %d (a SystemError's own code wins; only a bare net.Error is a network error)", e, fmt.Sprint(e), got, want)
		}
		enc := c17EncShape(e)
		o.Hist(fmt.Sprintf("errcode-layers=%d", enc[0]))
		if i < 2 {
			o.Sample(map[string]interface{}{"engine": "errcode", "input": enc, "observed": got})
		}
		o.Case("errcode", fmt.Sprintf("e%d", i), enc, []int64{int64(got)}, true, verdict)
	}

	// CanRetry: every policy x every code x the four wrapped kinds of the statement, + the other shapes
	id := 0
	for policy := 0; policy <= 6; policy++ {
		for _, s := range shapes {
			if s.kind == 3 && s.inner != nil && s.inner != wrappedKinds[0] && s.inner != wrappedKinds[1] && s.inner != wrappedKinds[2] && s.code > 8 && s.code != 255 {
				continue // the extra wrapped flavours only for the interesting codes
			}
			e := s.err()
			if e == nil {
				continue
			}
			got := tchannel.RetryOn(policy).CanRetry(e)
			verdict := ""
			if policy <= 5 && got != c17SpecRetryable(policy, c17SpecCode(e)) {
				verdict = fmt.Sprintf("RetryOn(%d).CanRetry(%T %q) = %v, the documented table says %v for class code %d", policy, e, fmt.Sprint(e), got, !got, c17SpecCode(e))
			}
			in := append([]int64{int64(policy)}, c17EncShape(e)...)
			o.Case("canretrys", fmt.Sprintf("t%d", id), in, []int64{b2i(got)}, true, verdict)
			id++
		}
	}
	o.Hist("canretrys-table-points")

	// ---- 2. builder path ---------------------------------------------------------------
	maxes := []int{0, 1, 2, 3, 5, 7, 10}
	tpas := []time.Duration{0, 300 * time.Millisecond, 900 * time.Millisecond, 2 * time.Second, 10 * time.Second}
	const runTimeout = 5 * time.Second
	const slack = 250 * time.Millisecond

	for c := 0; c < n; c++ {
		hasParams := rng.Intn(12) != 0
		var ops []c17Op
		if hasParams {
			nOps := rng.Intn(7)
			if rng.Intn(3) == 0 { // the two-call sequences, both orders, often
				nOps = 2
			}
			nRO := 0
			for i := 0; i < nOps; i++ {
				op := c17Op{reuse: -1}
				if rng.Intn(2) == 0 {
					op.setRO = true
					switch {
					case rng.Intn(6) == 0:
						op.isNil = true
					case nRO > 0 && rng.Intn(4) == 0:
						op.reuse = rng.Intn(nRO)
					default:
						op.ma = maxes[rng.Intn(len(maxes))]
						op.ron = rng.Intn(6)
						op.tpa = tpas[rng.Intn(len(tpas))]
					}
					if !op.isNil && op.reuse < 0 {
						nRO++
					}
				} else {
					op.tpa = tpas[rng.Intn(len(tpas))]
				}
				ops = append(ops, op)
			}
		}
		nOut := 1 + rng.Intn(12)
		firstSuccess := rng.Intn(nOut + 3)
		allBusy := rng.Intn(3) == 0 // the budget is what ends the run (unless the policy is never)
		if allBusy {
			firstSuccess = nOut + 1
		}
		outs := make([]*c17Shape, nOut)
		added := make([][]string, nOut)
		for i := range outs {
			switch {
			case i == firstSuccess:
				outs[i] = &c17Shape{kind: 0}
			case allBusy || rng.Intn(2) == 0: // retryable under most policies: long runs
				outs[i] = &c17Shape{kind: 3, code: []int{3, 4}[rng.Intn(2)], inner: wrappedKinds[rng.Intn(len(wrappedKinds))]}
			default:
				outs[i] = c17RandShape(rng, 2, interesting)
			}
			for k := rng.Intn(3); k > 0; k-- {
				added[i] = append(added[i], fmt.Sprintf("10.0.0.%d:%d", rng.Intn(4), 4000+rng.Intn(3)))
			}
		}
		outAt := func(k int) (error, []string) {
			if k >= len(outs) {
				k = len(outs) - 1
			}
			return outs[k].err(), added[k]
		}

		// one execution of the case on fresh values; returns input, observation, verdicts
		exec := func() (in []int64, obs []int64, verdict string, timing string, attempts int, effMax int, effPolicy int) {
			in = []int64{b2i(hasParams), int64(len(ops))}
			var ctx context.Context
			var cancel context.CancelFunc
			// what the statement says the effective options are: the last value given per field
			lastMax, lastOn, lastTPA := 0, 0, time.Duration(0)
			if hasParams {
				cb := tchannel.NewContextBuilder(runTimeout)
				var structs []*tchannel.RetryOptions
				for _, op := range ops {
					switch {
					case op.setRO && op.isNil:
						cb.SetRetryOptions(nil)
						in = append(in, 0, 0)
						lastMax, lastOn, lastTPA = 0, 0, 0
					case op.setRO:
						var p *tchannel.RetryOptions
						if op.reuse >= 0 {
							p = structs[op.reuse]
						} else {
							p = &tchannel.RetryOptions{MaxAttempts: op.ma, RetryOn: tchannel.RetryOn(op.ron), TimeoutPerAttempt: op.tpa}
							structs = append(structs, p)
						}
						// the value given is the struct's content at the time of the call
						in = append(in, 0, 1, int64(p.MaxAttempts), int64(p.RetryOn), int64(p.TimeoutPerAttempt))
						lastMax, lastOn, lastTPA = p.MaxAttempts, int(p.RetryOn), p.TimeoutPerAttempt
						cb.SetRetryOptions(p)
					default:
						cb.SetTimeoutPerAttempt(op.tpa)
						in = append(in, 1, int64(op.tpa))
						lastTPA = op.tpa
					}
				}
				ctx, cancel = cb.Build()
				if c%5 == 0 { // a derived context still carries the parameters
					ctx2, cancel2 := context.WithCancel(ctx)
					defer cancel2()
					ctx = ctx2
				}
			} else {
				ctx, cancel = context.WithTimeout(context.Background(), runTimeout)
			}
			defer cancel()
			effMax, effPolicy = lastMax, lastOn
			if effMax == 0 {
				effMax = 5
			}
			in = append(in, int64(len(outs)))
			for i := range outs {
				e, ad := outAt(i)
				in = append(in, c17EncShape(e)...)
				in = append(in, int64(len(ad)))
				for _, a := range ad {
					in = putBytes(in, []byte(a))
				}
			}

			var seen []c17Attempt
			runDeadline, _ := ctx.Deadline()
			panicked := ""
			var ret error
			func() {
				defer func() {
					if r := recover(); r != nil {
						panicked = fmt.Sprint(r)
					}
				}()
				ret = ch.RunWithRetry(ctx, func(actx context.Context, rs *tchannel.RequestState) error {
					start := time.Now()
					k := len(seen)
					keys := []string{}
					for h := range rs.PrevSelectedPeers() {
						keys = append(keys, h)
					}
					sort.Strings(keys)
					at := c17Attempt{attempt: rs.Attempt, sel: keys, slackOK: true}
					d, hasD := actx.Deadline()
					want := runDeadline
					if lastTPA > 0 && start.Add(lastTPA).Before(runDeadline) {
						want = start.Add(lastTPA)
					}
					if !hasD || d.After(want.Add(time.Millisecond)) || d.Before(want.Add(-slack)) {
						at.slackOK = false
					}
					seen = append(seen, at)
					e, ad := outAt(k)
					for _, a := range ad {
						rs.AddSelectedPeer(a)
					}
					if k > 40 {
						return nil // runaway guard
					}
					return e
				})
			}()
			if panicked != "" {
				return in, []int64{-1}, "RunWithRetry panicked: " + panicked, "", len(seen), effMax, effPolicy
			}
			gotMax, gotOn, gotTPA, isNil := tchannel.VerifC17RetryOptions(ctx)
			if isNil {
				return in, []int64{-1}, "getRetryOptions returned nil", "", len(seen), effMax, effPolicy
			}
			obs = []int64{int64(gotMax), int64(gotOn), int64(gotTPA)}
			obs = append(obs, encErr(ret)...)
			obs = append(obs, int64(len(seen)))
			for _, s := range seen {
				obs = append(obs, int64(s.attempt), int64(len(s.sel)))
				for _, h := range s.sel {
					obs = putBytes(obs, []byte(h))
				}
			}

			// ---- oracle, from the statement ----
			if gotMax != effMax || gotOn != lastOn || gotTPA != lastTPA {
				verdict = fmt.Sprintf("RunWithRetry sees (MaxAttempts %d, RetryOn %d, TimeoutPerAttempt %v); the last values given by the setter calls are (%d, %d, %v)", gotMax, gotOn, gotTPA, effMax, lastOn, lastTPA)
			}
			if len(seen) < 1 || len(seen) > effMax {
				verdict = fmt.Sprintf("invoked %d times, the MaxAttempts last set is %d", len(seen), effMax)
			}
			for i, s := range seen {
				if s.attempt != i+1 {
					verdict = fmt.Sprintf("call %d saw attempt number %d", i+1, s.attempt)
				}
				e, _ := outAt(i)
				last := i == len(seen)-1
				retryable := e != nil && effPolicy <= 5 && c17SpecRetryable(effPolicy, c17SpecCode(e))
				if e == nil && !last {
					verdict = "continued after a success"
				}
				if e != nil && !retryable && !last {
					verdict = fmt.Sprintf("continued after %q, which policy %d does not allow retrying", fmt.Sprint(e), effPolicy)
				}
				if last {
					if e == nil && ret != nil {
						verdict = "success not returned as nil"
					}
					if e != nil {
						if ret == nil || fmt.Sprint(c17EncShape(ret)) != fmt.Sprint(c17EncShape(e)) || ret.Error() != e.Error() {
							verdict = "last error not returned"
						}
						if retryable && len(seen) < effMax {
							verdict = fmt.Sprintf("stopped after %d of %d attempts on %q, which policy %d allows retrying", len(seen), effMax, fmt.Sprint(e), effPolicy)
						}
					}
				}
				want := map[string]struct{}{}
				for j := 0; j < i; j++ {
					_, ad := outAt(j)
					for _, a := range ad {
						want[a] = struct{}{}
						want[a[:strings.IndexByte(a, ':')]] = struct{}{}
					}
				}
				if len(want) != len(s.sel) {
					verdict = fmt.Sprintf("attempt %d saw %d selected entries, want %d", i+1, len(s.sel), len(want))
				}
				if !s.slackOK {
					timing = fmt.Sprintf("attempt %d: context deadline is not (start + TimeoutPerAttempt %v) capped by the run deadline, within %v", i+1, lastTPA, slack)
				}
			}
			return in, obs, verdict, timing, len(seen), effMax, effPolicy
		}

		in, obs, verdict, timing, attempts, effMax, effPolicy := exec()
		if verdict == "" && timing != "" {
			// timing-sensitive: alarm only when reproduced 3/3
			repro := 1
			for r := 0; r < 2; r++ {
				if _, _, _, t2, _, _, _ := exec(); t2 != "" {
					repro++
				}
			}
			if repro == 3 {
				verdict = timing + " (3/3 reproductions)"
			}
		}
		o.Hist(fmt.Sprintf("cb-ops=%d", len(ops)))
		o.Hist(fmt.Sprintf("cb-attempts=%d", attempts))
		o.Hist(fmt.Sprintf("cb-max=%d", effMax))
		o.Hist(fmt.Sprintf("cb-policy=%d", effPolicy))
		if c < 2 {
			o.Sample(map[string]interface{}{"engine": "retrycb", "input": in, "observed": obs})
		}
		o.Case("retrycb", fmt.Sprintf("b%d", c), in, obs, len(ops) > 1 || attempts > 1, verdict)
	}
}
