package main

import (
	"bytes"
	"fmt"
	"hash/crc32"
	"math/rand"

	tchannel "github.com/uber/tchannel-go"
)

func init() {
	engines["frag"] = engineFrag
	engines["fragck"] = engineFragCk
}

type sfrag struct {
	more   bool
	ctype  byte
	ck     []byte
	chunks [][]byte
}

// parse a captured fragment payload (flags ctype ck chunks) with the independent parser
func parseSFrag(p []byte) (*sfrag, error) {
	rc, err := parseRawCall(0x13, p)
	if err != nil {
		return nil, err
	}
	return &sfrag{more: rc.Flags&1 == 1, ctype: rc.CsumType, ck: rc.Csum, chunks: rc.Chunks}, nil
}

func (f *sfrag) payload() []byte {
	b := []byte{0, f.ctype}
	if f.more {
		b[0] = 1
	}
	b = append(b, f.ck...)
	for _, c := range f.chunks {
		b = append(b, byte(len(c)>>8), byte(len(c)))
		b = append(b, c...)
	}
	return b
}

func putSFrag(dst []int64, f *sfrag) []int64 {
	dst = append(dst, b2i(f.more), int64(f.ctype))
	dst = putBytes(dst, f.ck)
	dst = append(dst, int64(len(f.chunks)))
	for _, c := range f.chunks {
		dst = putBytes(dst, c)
	}
	return dst
}

// the arguments a fragment sequence denotes, per the protocol document
func denoteSFrags(fs []*sfrag) [][]byte {
	args := [][]byte{{}}
	for _, f := range fs {
		for i, c := range f.chunks {
			if i > 0 {
				args = append(args, []byte{})
			}
			args[len(args)-1] = append(args[len(args)-1], c...)
		}
	}
	return args
}

func specChecksum(ctype byte, data []byte) []byte {
	var v uint32
	switch ctype {
	case 1:
		v = crc32.ChecksumIEEE(data)
	case 3:
		v = crc32.Checksum(data, crc32.MakeTable(crc32.Castagnoli))
	default:
		return nil
	}
	return []byte{byte(v >> 24), byte(v >> 16), byte(v >> 8), byte(v)}
}

// argument lengths around fragment boundaries
func argLen(rng *rand.Rand, capI, capC int) int {
	switch rng.Intn(8) {
	case 0:
		return 0
	case 1:
		return rng.Intn(4)
	case 2, 3:
		k := rng.Intn(4)
		base := capI - 2 + k*(capC-2)
		return imax(0, base-3+rng.Intn(7))
	case 4:
		return imax(0, capC-2-3+rng.Intn(7))
	case 5:
		return rng.Intn(3*capC + 4)
	default:
		return rng.Intn(capI + capC)
	}
}

func imax(a, b int) int {
	if a > b {
		return a
	}
	return b
}

type wscript struct {
	capI, capC int
	ctype      byte
	ops        []tchannel.VerifWOp
	args       [3][]byte
}

func genWScript(rng *rand.Rand) *wscript {
	s := &wscript{}
	caps := []int{5, 5, 6, 7, 8, 9, 10, 11, 12, 13, 16, 20, 32, 40, 64, 300, 4096}
	s.capI, s.capC = caps[rng.Intn(len(caps))], caps[rng.Intn(len(caps))]
	if rng.Intn(3) == 0 {
		s.capC = s.capI
	}
	s.ctype = []byte{0, 1, 3, 1, 3, 2}[rng.Intn(6)]
	style := rng.Intn(5)
	if s.capI > 100 && style == 1 {
		style = 2 // no byte-wise writing of multi-kilobyte arguments (model cost is quadratic)
	}
	for a := 0; a < 3; a++ {
		n := argLen(rng, s.capI, s.capC)
		if s.capI > 1000 && rng.Intn(2) == 0 {
			n = rng.Intn(3 * s.capI)
		}
		data := []byte(randBytes(rng, n))
		s.args[a] = data
		s.ops = append(s.ops, tchannel.VerifWOp{Kind: 0, Last: a == 2})
		pos := 0
		if rng.Intn(10) == 0 {
			s.ops = append(s.ops, tchannel.VerifWOp{Kind: 2}) // flush before any data
		}
		for pos < n || (pos == 0 && n == 0 && rng.Intn(2) == 0) {
			var k int
			switch style {
			case 0:
				k = n - pos
			case 1:
				k = 1
			case 2:
				k = 1 + rng.Intn(imax(1, s.capC))
			case 3:
				k = imax(1, s.capC-2-1+rng.Intn(3))
			default:
				k = rng.Intn(n - pos + 1)
			}
			if k > n-pos {
				k = n - pos
			}
			s.ops = append(s.ops, tchannel.VerifWOp{Kind: 1, Data: data[pos : pos+k]})
			pos += k
			if rng.Intn(6) == 0 {
				s.ops = append(s.ops, tchannel.VerifWOp{Kind: 2})
				if rng.Intn(4) == 0 {
					s.ops = append(s.ops, tchannel.VerifWOp{Kind: 2}) // double flush
				}
			}
			if n == 0 {
				break
			}
		}
		s.ops = append(s.ops, tchannel.VerifWOp{Kind: 3})
	}
	return s
}

func (s *wscript) input() []int64 {
	in := []int64{int64(s.capI), int64(s.capC), int64(s.ctype), int64(len(s.ops))}
	for _, op := range s.ops {
		switch op.Kind {
		case 0:
			in = append(in, 0, b2i(op.Last))
		case 1:
			in = append(in, 1)
			in = putBytes(in, op.Data)
		case 2:
			in = append(in, 2)
		default:
			in = append(in, 3)
		}
	}
	return in
}

// run the writer, return observable + parsed fragments + oracle verdict
func runWriter(s *wscript) (obs []int64, frags []*sfrag, verdict string) {
	p, codes, state, done, raw := tchannel.VerifFragWrite(s.capI, s.capC, s.ctype, s.ops)
	if p != nil {
		return []int64{1}, nil, fmt.Sprintf("fragmentingWriter panicked on a script within the API grammar: %v", p)
	}
	obs = []int64{0, int64(len(codes))}
	for _, c := range codes {
		obs = append(obs, int64(c))
		if c != 0 {
			verdict = fmt.Sprintf("writer op returned error code %d on a script within the API grammar", c)
		}
	}
	obs = append(obs, int64(state), b2i(done), int64(len(raw)))
	csz := 0
	if s.ctype >= 1 {
		csz = 4
	}
	if s.ctype == 2 {
		csz = 0 // the library's checksum object for type 2 is the null checksum (type code 0)
	}
	var all []byte
	for i, r := range raw {
		f, err := parseSFrag(r)
		if err != nil {
			return obs, nil, "emitted fragment does not parse per the specification: " + err.Error()
		}
		frags = append(frags, f)
		obs = putSFrag(obs, f)
		capN := s.capC
		if i == 0 {
			capN = s.capI
		}
		for _, c := range f.chunks {
			all = append(all, c...)
		}
		switch {
		case len(r) > 2+csz+capN:
			verdict = fmt.Sprintf("fragment %d has %d payload bytes, capacity %d", i, len(r), 2+csz+capN)
		case len(f.chunks) == 0:
			verdict = fmt.Sprintf("fragment %d carries no chunk", i)
		case f.more != (i != len(raw)-1):
			verdict = fmt.Sprintf("fragment %d of %d has more-fragments flag %v", i, len(raw), f.more)
		case !bytes.Equal(f.ck, specChecksum(f.ctype, all)):
			verdict = fmt.Sprintf("fragment %d: checksum field differs from the independently computed running checksum", i)
		}
	}
	args := denoteSFrags(frags)
	if len(args) != 3 || !bytes.Equal(args[0], s.args[0]) || !bytes.Equal(args[1], s.args[1]) || !bytes.Equal(args[2], s.args[2]) {
		verdict = fmt.Sprintf("fragments denote %d arguments differing from what was written", len(args))
	}
	if !done {
		verdict = "doneSending not called after the last argument"
	}
	return obs, frags, verdict
}

type rscript struct {
	ops  []tchannel.VerifROp
	kind string
}

func genRScript(rng *rand.Rand, args [3][]byte) *rscript {
	r := &rscript{}
	style := rng.Intn(5)
	r.kind = []string{"helper", "exact", "bytewise-eof", "random-eof", "exact-then-eofprobe"}[style]
	for a := 0; a < 3; a++ {
		r.ops = append(r.ops, tchannel.VerifROp{Kind: 0, Last: a == 2})
		n := len(args[a])
		switch style {
		case 0:
			r.ops = append(r.ops, tchannel.VerifROp{Kind: 3, N: 512})
			continue
		case 1:
			if rng.Intn(2) == 0 || n == 0 {
				r.ops = append(r.ops, tchannel.VerifROp{Kind: 1, N: n})
			} else {
				k := rng.Intn(n)
				r.ops = append(r.ops, tchannel.VerifROp{Kind: 1, N: k}, tchannel.VerifROp{Kind: 1, N: n - k})
			}
		case 2:
			for i := 0; i <= n; i++ {
				r.ops = append(r.ops, tchannel.VerifROp{Kind: 1, N: 1})
			}
		case 3:
			left := n + 1
			for left > 0 {
				k := 1 + rng.Intn(imax(1, n))
				r.ops = append(r.ops, tchannel.VerifROp{Kind: 1, N: k})
				left -= k
			}
		case 4:
			r.ops = append(r.ops, tchannel.VerifROp{Kind: 1, N: n}, tchannel.VerifROp{Kind: 1, N: 7})
		}
		r.ops = append(r.ops, tchannel.VerifROp{Kind: 2})
	}
	return r
}

func rInput(frags []*sfrag, ops []tchannel.VerifROp) []int64 {
	in := []int64{int64(len(frags))}
	for _, f := range frags {
		in = putSFrag(in, f)
	}
	in = append(in, int64(len(ops)))
	for _, op := range ops {
		switch op.Kind {
		case 0:
			in = append(in, 0, b2i(op.Last))
		case 1:
			in = append(in, 1, int64(op.N))
		case 2:
			in = append(in, 2)
		default:
			in = append(in, 3, int64(op.N))
		}
	}
	return in
}

// run the reader; judge: what was read for each argument vs the truth
func runReader(frags []*sfrag, rs *rscript, args [3][]byte) (obs []int64, verdict string) {
	var payloads [][]byte
	for _, f := range frags {
		payloads = append(payloads, f.payload())
	}
	p, o, state, released, finished := tchannel.VerifFragRead(payloads, rs.ops)
	if p != nil {
		return []int64{1}, fmt.Sprintf("fragmentingReader panicked: %v", p)
	}
	obs = append([]int64{0}, o...)
	obs = append(obs, int64(state), int64(released), b2i(finished))
	// walk the observation per op
	i := 0
	arg := -1
	var got []byte
	failed := false
	for _, op := range rs.ops {
		code := o[i]
		i++
		switch op.Kind {
		case 0:
			arg++
			got = nil
			if code != 0 {
				failed = true
			}
		case 1, 3:
			n := int(o[i])
			i++
			for k := 0; k < n; k++ {
				got = append(got, byte(o[i+k]))
			}
			i += n
			if code != 0 && code != 12 {
				failed = true
			} else if failed && n > 0 {
				verdict = "data returned after an error"
			}
			if op.Kind == 3 {
				if code == 0 && !bytes.Equal(got, args[arg]) {
					verdict = fmt.Sprintf("[c01:exact-read-close-case4] ArgReadHelper returned a different argument %d with a nil error", arg+1)
				}
				if code != 0 {
					verdict = fmt.Sprintf("ArgReadHelper failed (code %d) on a well-formed message", code)
				}
			}
		case 2:
			if code == 0 && !failed && !bytes.Equal(got, args[arg]) {
				verdict = fmt.Sprintf("[c01:exact-read-close-case4] argument %d read as %d bytes (want %d) and Close reported success: shifted/truncated data as success", arg+1, len(got), len(args[arg]))
			}
			if code != 0 {
				failed = true
				if rs.kind != "exact" && rs.kind != "exact-then-eofprobe" {
					verdict = fmt.Sprintf("Close failed (code %d) after reading argument %d to end-of-stream on a well-formed message", code, arg+1)
				}
			}
		}
	}
	if !failed && (state != 4 || !finished || released != len(frags)) {
		verdict = fmt.Sprintf("after a complete read: state %d finished %v released %d of %d fragments", state, finished, released, len(frags))
	}
	return obs, verdict
}

func engineFrag(rng *rand.Rand, n int, tier string, o *Out) {
	for c := 0; c < n; c++ {
		s := genWScript(rng)
		in := s.input()
		obs, frags, verdict := runWriter(s)
		o.Hist(fmt.Sprintf("w capI=%d", s.capI))
		o.Hist(fmt.Sprintf("w frags=%d", imin(len(frags), 6)))
		if c < 2 {
			o.Sample(map[string]interface{}{"sub": "fragw", "capI": s.capI, "capC": s.capC, "ctype": s.ctype, "arglens": []int{len(s.args[0]), len(s.args[1]), len(s.args[2])}, "ops": len(s.ops), "fragments": len(frags)})
		}
		o.Case("fragw", fmt.Sprintf("w%d", c), in, obs, len(frags) > 1, verdict)
		if frags == nil {
			continue
		}
		for k := 0; k < 3; k++ {
			rs := genRScript(rng, s.args)
			obs, verdict := runReader(frags, rs, s.args)
			o.Hist("r " + rs.kind)
			o.Case("fragr", fmt.Sprintf("r%d_%d", c, k), rInput(frags, rs.ops), obs, len(frags) > 1, verdict)
		}
	}
	// hostile fragment payloads through the real parseInboundFragment + chunk loop
	engineFragParse(rng, n, tier, o)
	// the seven layouts of the library's own fragmentation test plus the exact-read witness
	fixed := [][3]string{{"ABCDEFGH", "NOPQ", "xyz"}, {"", "", ""}, {"A", "", "B"}, {"ABCDEFGHIJ", "KL", "MNOPQRSTUV"}}
	for i, a := range fixed {
		for _, capN := range []int{5, 6, 10, 12} {
			s := &wscript{capI: capN, capC: capN, ctype: 1, args: [3][]byte{[]byte(a[0]), []byte(a[1]), []byte(a[2])}}
			for k := 0; k < 3; k++ {
				s.ops = append(s.ops, tchannel.VerifWOp{Kind: 0, Last: k == 2}, tchannel.VerifWOp{Kind: 1, Data: s.args[k]}, tchannel.VerifWOp{Kind: 3})
			}
			obs, frags, verdict := runWriter(s)
			o.Case("fragw", fmt.Sprintf("wf%d_%d", i, capN), s.input(), obs, true, verdict)
			if frags == nil {
				continue
			}
			for style := 0; style < 5; style++ {
				rs := &rscript{}
				for {
					rs = genRScript(rng, s.args)
					if rs.kind == []string{"helper", "exact", "bytewise-eof", "random-eof", "exact-then-eofprobe"}[style] {
						break
					}
				}
				obs, verdict := runReader(frags, rs, s.args)
				o.Case("fragr", fmt.Sprintf("rf%d_%d_%d", i, capN, style), rInput(frags, rs.ops), obs, true, verdict)
			}
		}
	}
}

func imin(a, b int) int {
	if a < b {
		return a
	}
	return b
}

// fragck (C02): running checksums and corruption detection
func engineFragCk(rng *rand.Rand, n int, tier string, o *Out) {
	// crc model vs hash/crc32 through split updates
	for c := 0; c < n; c++ {
		data := []byte(randBytes(rng, pick(rng, 0, 1, 2, 3, 4, 7, 8, 9, 64, 300)))
		poly := rng.Intn(2)
		init := uint32(0)
		if rng.Intn(2) == 0 {
			init = rng.Uint32()
		}
		tab := crc32.IEEETable
		if poly == 1 {
			tab = crc32.MakeTable(crc32.Castagnoli)
		}
		v := crc32.Update(init, tab, data)
		in := []int64{int64(poly), int64(init)}
		in = append(in, bytesIn(data)...)
		o.Case("crc", fmt.Sprintf("c%d", c), in, []int64{int64(v)}, true, "")
	}
	o.Hist("crc cases")
	for c := 0; c < n; c++ {
		s := genWScript(rng)
		if s.ctype == 0 || s.ctype == 2 {
			s.ctype = byte(pick(rng, 1, 3))
		}
		_, frags, verdict := runWriter(s)
		if frags == nil || verdict != "" {
			o.Oracle("fragck-writer", fmt.Sprintf("kw%d", c), true, fmt.Sprint(c), verdict)
			continue
		}
		// corrupt one byte of one fragment: a chunk data byte or a checksum byte; or change the type mid-message
		muts := 4
		if tier == "thorough" {
			muts = 16
		}
		for k := 0; k < muts; k++ {
			fi := rng.Intn(len(frags))
			cp := make([]*sfrag, len(frags))
			for i, f := range frags {
				g := &sfrag{more: f.more, ctype: f.ctype, ck: append([]byte{}, f.ck...)}
				for _, ch := range f.chunks {
					g.chunks = append(g.chunks, append([]byte{}, ch...))
				}
				cp[i] = g
			}
			what := rng.Intn(3)
			desc := ""
			f := cp[fi]
			switch what {
			case 0: // data byte
				var idx []int
				for ci, ch := range f.chunks {
					if len(ch) > 0 {
						idx = append(idx, ci)
					}
				}
				if len(idx) == 0 {
					what = 1
				} else {
					ci := idx[rng.Intn(len(idx))]
					bi := rng.Intn(len(f.chunks[ci]))
					old := f.chunks[ci][bi]
					nv := []byte{old ^ 1, old ^ 0x80, 0, 0xff, old + 1}[rng.Intn(5)]
					if nv == old {
						nv = old ^ 0x55
					}
					f.chunks[ci][bi] = nv
					desc = "argument byte altered"
				}
			}
			if what == 1 {
				bi := rng.Intn(4)
				old := f.ck[bi]
				nv := []byte{old ^ 1, old ^ 0x80, 0, 0xff}[rng.Intn(4)]
				if nv == old {
					nv = old ^ 0x55
				}
				f.ck[bi] = nv
				desc = "checksum byte altered"
			}
			if what == 2 {
				if fi == 0 {
					fi = len(cp) - 1
					f = cp[fi]
				}
				if fi == 0 {
					continue
				}
				f.ctype = 4 - f.ctype // 1 <-> 3
				desc = "checksum type changed mid-message"
			}
			rs := genRScript(rng, s.args)
			var payloads [][]byte
			for _, g := range cp {
				payloads = append(payloads, g.payload())
			}
			p, ob, state, _, _ := tchannel.VerifFragRead(payloads, rs.ops)
			verdict := ""
			if p != nil {
				verdict = fmt.Sprintf("reader panicked on a corrupted fragment: %v", p)
			} else if state == 4 {
				verdict = fmt.Sprintf("%s in fragment %d of %d but the reader reported the message complete", desc, fi, len(cp))
			} else {
				// the failure must come no later than the end of the corrupted fragment: count
				// bytes delivered without error; they must not exceed the bytes up to fragment fi
				limit := 0
				for i := 0; i <= fi && i < len(frags); i++ {
					for _, ch := range frags[i].chunks {
						limit += len(ch)
					}
				}
				delivered := 0
				i := 0
				for _, op := range rs.ops {
					i++
					if op.Kind == 1 || op.Kind == 3 {
						delivered += int(ob[i])
						i += 1 + int(ob[i])
					}
				}
				if delivered > limit {
					verdict = fmt.Sprintf("%s in fragment %d: reader delivered %d bytes, beyond the %d bytes carried up to that fragment", desc, fi, delivered, limit)
				}
			}
			o.Hist("corrupt " + desc)
			o.Oracle("fragck-corrupt", fmt.Sprintf("k%d_%d", c, k), true, fmt.Sprint(c, k, desc, fi), verdict)
		}
	}
}

// fragparse: valid continuation / call req / call res payloads and hostile variants
func engineFragParse(rng *rand.Rand, n int, tier string, o *Out) {
	id := 0
	for c := 0; c < n; c++ {
		// a valid fragment
		nch := pick(rng, 0, 1, 1, 2, 3)
		f := &sfrag{more: rng.Intn(2) == 0, ctype: byte(pick(rng, 0, 1, 3, 2, 4, 7, 255))}
		var all []byte
		for i := 0; i < nch; i++ {
			ch := []byte(randBytes(rng, pick(rng, 0, 1, 2, 10, 300)))
			f.chunks = append(f.chunks, ch)
			all = append(all, ch...)
		}
		f.ck = specChecksum(f.ctype, all)
		if f.ctype == 2 || f.ctype >= 4 {
			f.ck = []byte(randBytes(rng, pick(rng, 0, 4)))
		}
		mt := byte(pick(rng, 0x13, 0x13, 0x14, 0x03, 0x04))
		payload := f.payload()
		if mt == 0x03 {
			hdr := rawCallReqHeader(uint32(rng.Intn(5000)), make([]byte, 25), "svc", [][2]string{{"as", "raw"}})
			payload = append(append([]byte{payload[0]}, hdr...), payload[1:]...)
		} else if mt == 0x04 {
			hdr := rawCallResHeader(0, make([]byte, 25), nil)
			payload = append(append([]byte{payload[0]}, hdr...), payload[1:]...)
		}
		variants := [][]byte{payload}
		k := 6
		if tier == "thorough" {
			k = 30
		}
		for i := 0; i < k; i++ {
			b := append([]byte{}, payload...)
			switch rng.Intn(5) {
			case 0:
				b = b[:rng.Intn(len(b)+1)]
			case 1, 2:
				if len(b) > 0 {
					b[rng.Intn(len(b))] = byte(pick(rng, 0, 1, 2, 3, 4, 0x7f, 0x80, 0xfe, 0xff))
				}
			case 3:
				b = append(b, byte(pick(rng, 0, 0xff)), byte(pick(rng, 0, 1, 5, 0xff)))
			case 4:
				b = []byte(randBytes(rng, rng.Intn(12)))
			}
			variants = append(variants, b)
		}
		for _, b := range variants {
			p, code, more, chunks := tchannel.VerifFragParse(mt, b)
			in := append([]int64{int64(mt)}, bytesIn(b)...)
			var obs []int64
			verdict := ""
			if p != nil {
				obs = []int64{99}
				verdict = fmt.Sprintf("[c03:fragment-parse-panic] parsing a peer-supplied fragment panicked: %v", p)
			} else if code != 0 {
				obs = []int64{int64(code)}
			} else {
				obs = []int64{0, b2i(more), int64(len(chunks))}
				for _, ch := range chunks {
					obs = putBytes(obs, ch)
				}
			}
			o.Hist(fmt.Sprintf("fragparse code=%d", obs[0]))
			o.Case("fragparse", fmt.Sprintf("p%d", id), in, obs, true, verdict)
			id++
		}
	}
}
