package main

// Engine c02typesweep (property C02, clause "the checksum type changes mid-message => the read
// fails no later than the end of that fragment and the message is never reported complete").
//
// For every message length 2..6 fragments and every base checksum type (none, crc32, crc32c) a
// conforming message is built WITHOUT the library (arbitrary chunk layout per the protocol
// document, running checksum from hash/crc32); it must read back complete.  Then, for EVERY
// fragment of the message (the first one included) and EVERY value 0..255 of the checksum type
// byte other than the base type, that one byte is substituted -- the checksum field being
// kept (same size), resized (zero bytes / dropped) or recomputed for the new type, so that
// nothing but the type check can tell the fragment from a conforming one -- and the frames are
// read by the real fragmentingReader through the real parseInboundFragment with a random read
// pattern (ArgReadHelper, exact, byte-wise, random sizes, exact then probe).
//
// Oracle (from the statement, not from the model):
//   victim k >= 1: the type of fragment k differs from the first fragment's  =>  some operation
//     returns an error, the reader takes no fragment after fragment k, delivers no byte beyond
//     the bytes carried by fragments 0..k, never reaches the complete state, never calls
//     doneReading(nil);
//   victim 0: every later fragment's type now differs from the first's  =>  the same with k = 1
//     (the read fails at fragment 0 or 1).
// Correspondence: substitutions by a KNOWN type (0..3) are also sent to the reader model
// (sub fragr, Model/FragWire.run_fragr); values >= 4 are rejected by the fragment parser and are
// oracle-only here (parser model: sub fragparse of engine frag).

import (
	"bytes"
	"fmt"
	"hash/crc32"
	"math/rand"

	tchannel "github.com/uber/tchannel-go"
)

func init() {
	engines["c02typesweep"] = engineC02TypeSweep
}

var c02TypeSweepCastagnoli = crc32.MakeTable(crc32.Castagnoli)

// size of the checksum field the protocol document gives each type
func c02TypeSweepCkSize(t int) int {
	if t >= 1 && t <= 3 {
		return 4
	}
	return 0
}

// running checksum of type t over data, per the protocol document (nil for none / farmhash / unknown)
func c02TypeSweepCk(t int, data []byte) []byte {
	var v uint32
	switch t {
	case 1:
		v = crc32.ChecksumIEEE(data)
	case 3:
		v = crc32.Checksum(data, c02TypeSweepCastagnoli)
	default:
		return nil
	}
	return []byte{byte(v >> 24), byte(v >> 16), byte(v >> 8), byte(v)}
}

// a conforming message of exactly nfrags fragments: three arguments, the two argument
// boundaries in arbitrary fragments, every argument cut into arbitrary (also empty) pieces
func c02TypeSweepMessage(rng *rand.Rand, nfrags int, base int) (frags []*sfrag, args [3][]byte) {
	b1, b2 := rng.Intn(nfrags), rng.Intn(nfrags)
	if b1 > b2 {
		b1, b2 = b2, b1
	}
	// which argument each chunk of each fragment belongs to
	layout := make([][]int, nfrags)
	pieces := [3]int{}
	cur := 0
	for j := 0; j < nfrags; j++ {
		layout[j] = []int{cur}
		pieces[cur]++
		for _, b := range []int{b1, b2} {
			if b == j {
				cur++
				layout[j] = append(layout[j], cur)
				pieces[cur]++
			}
		}
	}
	// cut each argument into its pieces
	cuts := [3][][]byte{}
	for a := 0; a < 3; a++ {
		n := pick(rng, 0, 1, 2, 3, 5, 8, 13, 21, 40)
		if pieces[a] > 1 && rng.Intn(3) > 0 {
			n += pieces[a]
		}
		args[a] = []byte(randBytes(rng, n))
		pts := []int{0}
		for p := 1; p < pieces[a]; p++ {
			pts = append(pts, rng.Intn(n+1))
		}
		pts = append(pts, n)
		for i := 1; i < len(pts); i++ { // insertion sort
			for k := i; k > 0 && pts[k] < pts[k-1]; k-- {
				pts[k], pts[k-1] = pts[k-1], pts[k]
			}
		}
		for p := 0; p < pieces[a]; p++ {
			cuts[a] = append(cuts[a], args[a][pts[p]:pts[p+1]])
		}
	}
	next := [3]int{}
	var all []byte
	for j := 0; j < nfrags; j++ {
		f := &sfrag{more: j != nfrags-1, ctype: byte(base)}
		for _, a := range layout[j] {
			c := cuts[a][next[a]]
			next[a]++
			f.chunks = append(f.chunks, append([]byte{}, c...))
			all = append(all, c...)
		}
		f.ck = c02TypeSweepCk(base, all)
		frags = append(frags, f)
	}
	return frags, args
}

func c02TypeSweepClone(frags []*sfrag) []*sfrag {
	cp := make([]*sfrag, len(frags))
	for i, f := range frags {
		g := &sfrag{more: f.more, ctype: f.ctype, ck: append([]byte{}, f.ck...)}
		for _, ch := range f.chunks {
			g.chunks = append(g.chunks, append([]byte{}, ch...))
		}
		cp[i] = g
	}
	return cp
}

// bytes delivered without regard to the code, per the observation layout of VerifFragRead
func c02TypeSweepWalk(ops []tchannel.VerifROp, ob []int64) (delivered int, firstErr int64) {
	i := 0
	for _, op := range ops {
		if i >= len(ob) {
			break
		}
		code := ob[i]
		i++
		if op.Kind == 1 || op.Kind == 3 {
			delivered += int(ob[i])
			i += 1 + int(ob[i])
		}
		if firstErr == 0 && code != 0 && code != 12 {
			firstErr = code
		}
	}
	return delivered, firstErr
}

func engineC02TypeSweep(rng *rand.Rand, n int, tier string, o *Out) {
	bases := []int{0, 1, 3}
	for round := 0; round < n; round++ {
		for nfrags := 2; nfrags <= 6; nfrags++ {
			for _, base := range bases {
				frags, args := c02TypeSweepMessage(rng, nfrags, base)
				mid := fmt.Sprintf("m%d_%d_%d", round, nfrags, base)
				// the untouched message is conforming: the real reader must deliver it and complete
				{
					rs := genRScript(rng, args)
					var payloads [][]byte
					for _, g := range frags {
						payloads = append(payloads, g.payload())
					}
					p, ob, state, released, finished, received, doneNil := tchannel.VerifC02TypeSweepRead(payloads, rs.ops)
					verdict := ""
					obs := []int64{1}
					if p != nil {
						verdict = fmt.Sprintf("reader panicked on a conforming message: %v", p)
					} else {
						obs = append([]int64{0}, ob...)
						obs = append(obs, int64(state), int64(released), b2i(finished))
						_, firstErr := c02TypeSweepWalk(rs.ops, ob)
						exact := rs.kind == "exact" || rs.kind == "exact-then-eofprobe"
						if !exact && (firstErr != 0 || state != 4 || doneNil != 1 || received != nfrags) {
							verdict = fmt.Sprintf("conforming %d-fragment message of checksum type %d (read pattern %s): first error code %d, state %d, doneReading(nil) x%d, %d fragments taken", nfrags, base, rs.kind, firstErr, state, doneNil, received)
						}
					}
					o.Hist(fmt.Sprintf("conforming frags=%d base=%d", nfrags, base))
					o.Case("fragr", mid+"_ok", rInput(frags, rs.ops), obs, true, verdict)
				}
				for victim := 0; victim < nfrags; victim++ {
					for t := 0; t < 256; t++ {
						if t == base {
							continue
						}
						// the checksum field of the re-typed fragment: variants
						var upto []byte
						for i := 0; i <= victim; i++ {
							for _, ch := range frags[i].chunks {
								upto = append(upto, ch...)
							}
						}
						type variant struct {
							name string
							ck   []byte
						}
						var vs []variant
						want := c02TypeSweepCkSize(t)
						old := frags[victim].ck
						switch {
						case want == len(old):
							vs = append(vs, variant{"kept", append([]byte{}, old...)})
						case want == 4:
							vs = append(vs, variant{"zero", []byte{0, 0, 0, 0}})
						default:
							vs = append(vs, variant{"dropped", nil})
						}
						if re := c02TypeSweepCk(t, upto); re != nil && !bytes.Equal(re, vs[0].ck) {
							vs = append(vs, variant{"recomputed", re})
						}
						if t >= 4 && len(old) == 4 && t%16 == 4 {
							// unknown type with the old four bytes left in place (they become chunk bytes)
							vs = append(vs, variant{"left", append([]byte{}, old...)})
						}
						for _, v := range vs {
							cp := c02TypeSweepClone(frags)
							cp[victim].ctype = byte(t)
							cp[victim].ck = v.ck
							rs := genRScript(rng, args)
							var payloads [][]byte
							for _, g := range cp {
								payloads = append(payloads, g.payload())
							}
							p, ob, state, released, finished, received, doneNil := tchannel.VerifC02TypeSweepRead(payloads, rs.ops)
							k := victim
							if k == 0 {
								k = 1
							}
							limit := 0
							for i := 0; i <= k; i++ {
								for _, ch := range frags[i].chunks {
									limit += len(ch)
								}
							}
							what := fmt.Sprintf("checksum type %d -> %d (checksum field %s) in fragment %d of a %d-fragment message, read pattern %s", base, t, v.name, victim, nfrags, rs.kind)
							verdict := ""
							obs := []int64{1}
							if p != nil {
								verdict = fmt.Sprintf("%s: reader panicked: %v", what, p)
							} else {
								obs = append([]int64{0}, ob...)
								obs = append(obs, int64(state), int64(released), b2i(finished))
								delivered, firstErr := c02TypeSweepWalk(rs.ops, ob)
								switch {
								case state == 4 || doneNil > 0:
									verdict = fmt.Sprintf("%s: the message was reported complete (state %d, doneReading(nil) x%d, first error code %d)", what, state, doneNil, firstErr)
								case firstErr == 0:
									verdict = fmt.Sprintf("%s: no operation returned an error", what)
								case received > k+1:
									verdict = fmt.Sprintf("%s: the reader took %d fragments, the read must fail by the end of fragment %d", what, received, k)
								case delivered > limit:
									verdict = fmt.Sprintf("%s: %d bytes delivered, fragments 0..%d carry %d", what, delivered, k, limit)
								}
							}
							cls := "unknown(>=4)"
							if t < 4 {
								cls = fmt.Sprint(t)
							}
							pos := "middle"
							if victim == 0 {
								pos = "first"
							} else if victim == nfrags-1 {
								pos = "last"
							}
							o.Hist(fmt.Sprintf("retype base=%d to=%s", base, cls))
							o.Hist("victim " + pos)
							id := fmt.Sprintf("%s_v%d_t%d_%s", mid, victim, t, v.name)
							if t < 4 && (v.name != "left") {
								o.Case("fragr", id, rInput(cp, rs.ops), obs, true, verdict)
							} else {
								o.Oracle("c02typesweep", id, true, id, verdict)
							}
						}
					}
				}
				if round == 0 && nfrags == 3 {
					o.Sample(map[string]interface{}{"sub": "c02typesweep", "fragments": nfrags, "base_type": base,
						"arglens": []int{len(args[0]), len(args[1]), len(args[2])}, "substitutions": nfrags * 255})
				}
			}
		}
	}
}
