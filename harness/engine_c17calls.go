package main

// engine_c17calls.go (C17): SEVERAL calls per attempt -- the clause "each attempt sees ... the
// peers already tried, and sub-channel calls avoid those peers while untried ones exist" when the
// retried function makes more than one call with the RequestState it was handed (falls back to
// another replica / fans out before it gives the attempt up).
//
// Every case runs ONE real Channel.RunWithRetry on a fresh Channel whose Dialer records the
// host:port and refuses the connection: no network, and the case knows exactly which peer every
// call went to.  Each attempt makes 0..4 calls through the real entry points:
//
//	direct   Channel.BeginCall(ctx, hostPort, ...) / RootPeers().GetOrAdd(hostPort).BeginCall(...)
//	sub j    SubChannel.BeginCall on peer list j (list 0: a plain sub-channel = the channel's own
//	         list; j >= 1: isolated sub-channels), 1..3 lists of 0..5 peers, peers shared between
//	         lists, several ports per host
//	options  &CallOptions{RequestState: rs} | nil | &CallOptions{} (the last two: the library cannot
//	         know the request; nothing is recorded, nothing avoided)
//
// Scores are a ScoreCalculatorFunc with DISTINCT values per list, so the best ranked peer stays
// best ranked after it was tried: a selection that does not look at the tried peers goes back to
// it.  (1 case in 6 keeps the lists' default strategies -- all scores equal, the heap's random
// order decides: oracle only, sub c17calls-eq.)
//
// Sub c17calls (spec'd: Model/C17Calls.v, C17_every_call_avoids): the recorded actions (start,
// enter, calls, exit) are replayed by the model, which answers the attempt numbers / tried peers
// seen at the call and at the return of every attempt, the result, and the peer of every call.
//
// Sub c17clients (oracle only): the library's own retrying clients -- json.Client.Call and the
// thrift client's Call -- against a peer list of refused peers: every attempt of the client's
// retry loop must go to a peer the call has not tried while the list has one (the clients hand
// the attempt's RequestState to SubChannel.BeginCall).
//
// Oracle, from the statement and independent of the model: every call with the RequestState on a
// non-empty list goes to a member; to one whose host:port this request has NOT tried whenever
// the list has such a member -- in EVERY attempt, the first included, and for every call of the
// attempt, not only the first --; to one whose host is untried too when there is such a member;
// the peer and its host are in rs.SelectedPeers when the call returns; a call without the
// RequestState records nothing; attempt k sees number k and exactly the host:ports / hosts
// tried before; budget, stop rule and result as documented.

import (
	"errors"
	"fmt"
	"math/rand"
	"net"
	"sort"
	"time"

	tchannel "github.com/uber/tchannel-go"
	tjson "github.com/uber/tchannel-go/json"
	tthrift "github.com/uber/tchannel-go/thrift"
	"golang.org/x/net/context"
)

type c17cCall struct {
	direct  bool
	viaPeer bool // direct: RootPeers().GetOrAdd(hp).BeginCall instead of Channel.BeginCall
	hp      string
	list    int
	opts    int // 0 with RequestState, 1 nil call options, 2 options without RequestState
}

type c17cAttempt struct {
	calls []c17cCall
	out   scriptedOutcome
}

type c17cCase struct {
	hasOpts     bool
	maxAttempts int
	policy      int
	lists       [][]string       // members in Add order
	scores      []map[string]int // per list
	equal       bool             // default strategies (all scores equal): oracle only
	attempts    []c17cAttempt
}

func c17cHost(hp string) string { return rrHost(hp) }

func c17cRun(id string, cs *c17cCase, o *Out) {
	var dialed []string
	ch, err := tchannel.NewChannel("verif-c17calls", &tchannel.ChannelOptions{
		Dialer: func(ctx context.Context, network, hostPort string) (net.Conn, error) {
			dialed = append(dialed, hostPort)
			return nil, &net.OpError{Op: "dial", Net: "tcp", Err: errors.New("c17calls: refused")}
		},
	})
	if err != nil {
		panic(err)
	}
	defer ch.Close()

	scs := make([]*tchannel.SubChannel, len(cs.lists))
	in := []int64{int64(len(cs.lists))}
	for j, members := range cs.lists {
		if j == 0 {
			scs[j] = ch.GetSubChannel("c17calls-svc-0")
		} else {
			scs[j] = ch.GetSubChannel(fmt.Sprintf("c17calls-svc-%d", j), tchannel.Isolated)
		}
		if !cs.equal {
			sc := cs.scores[j]
			scs[j].Peers().SetStrategy(tchannel.ScoreCalculatorFunc(func(p *tchannel.Peer) uint64 { return uint64(sc[p.HostPort()]) }))
		}
		in = append(in, int64(len(members)))
		for _, hp := range members {
			scs[j].Peers().Add(hp)
			in = putBytes(in, []byte(hp))
			in = append(in, int64(cs.scores[j][hp]))
		}
	}

	cb := tchannel.NewContextBuilder(20 * time.Second)
	if cs.hasOpts {
		cb.SetRetryOptions(&tchannel.RetryOptions{MaxAttempts: cs.maxAttempts, RetryOn: tchannel.RetryOn(cs.policy)})
	}
	ctx, cancel := cb.Build()
	defer cancel()

	acts := []int64{0, b2i(cs.hasOpts), int64(cs.maxAttempts), int64(cs.policy)}
	nActs := 1
	var looks []rrLook
	var picks []string
	tried := map[string]bool{}      // host:ports this request has tried (calls that carried the RequestState)
	triedHosts := map[string]bool{} // and their hosts
	verdict := ""
	fail := func(f string, a ...interface{}) {
		if verdict == "" {
			verdict = fmt.Sprintf(f, a...)
		}
	}
	calls := 0
	multi := false
	var ret error
	returned := false
	func() {
		defer func() {
			if p := recover(); p != nil {
				fail("RunWithRetry panicked: %v", p)
			}
		}()
		ret = ch.RunWithRetry(ctx, func(actx context.Context, rs *tchannel.RequestState) error {
			k := calls
			calls++
			at := cs.attempts[len(cs.attempts)-1]
			if k < len(cs.attempts) {
				at = cs.attempts[k]
			}
			acts = append(acts, 1)
			nActs++
			seen := rrSeen(rs)
			looks = append(looks, rrLook{rs.Attempt, seen})
			if rs.Attempt != k+1 {
				fail("call %d of the retried function saw attempt number %d", k+1, rs.Attempt)
			}
			// exactly the host:ports and hosts tried before
			want := map[string]bool{}
			for hp := range tried {
				want[hp] = true
				want[c17cHost(hp)] = true
			}
			if len(seen) != len(want) {
				fail("attempt %d saw %d tried entries %v, want %d (the peers tried before and their hosts)", k+1, len(seen), seen, len(want))
			}
			for _, h := range seen {
				if !want[h] {
					fail("attempt %d saw tried peer %s, which no earlier call of this request went to", k+1, h)
				}
			}
			withRS := 0
			for ci, cl := range at.calls {
				var co *tchannel.CallOptions
				switch cl.opts {
				case 0:
					co = &tchannel.CallOptions{RequestState: rs}
					withRS++
				case 2:
					co = &tchannel.CallOptions{}
				}
				before := len(dialed)
				selBefore := len(rs.SelectedPeers)
				var cerr error
				if cl.direct {
					acts = append(acts, 2, 0, int64(cl.opts))
					acts = putBytes(acts, []byte(cl.hp))
					if cl.viaPeer {
						_, cerr = ch.RootPeers().GetOrAdd(cl.hp).BeginCall(actx, "svc", "m", co)
					} else {
						_, cerr = ch.BeginCall(actx, cl.hp, "svc", "m", co)
					}
				} else {
					acts = append(acts, 2, 1, int64(cl.opts), int64(cl.list))
					_, cerr = scs[cl.list].BeginCall(actx, "m", co)
				}
				nActs++
				if cerr == nil {
					fail("attempt %d call %d: BeginCall succeeded although every dial is refused", k+1, ci+1)
				}
				pick := ""
				switch len(dialed) - before {
				case 0:
				case 1:
					pick = dialed[before]
				default:
					fail("attempt %d call %d dialled %d peers: %v", k+1, ci+1, len(dialed)-before, dialed[before:])
					pick = dialed[before]
				}
				picks = append(picks, pick)
				where := fmt.Sprintf("attempt %d (RequestState.Attempt = %d), call %d of the attempt", k+1, rs.Attempt, ci+1)
				if cl.direct {
					if pick != cl.hp {
						fail("%s: Channel.BeginCall to %s dialled %q", where, cl.hp, pick)
					}
				} else {
					members := cs.lists[cl.list]
					isMember := false
					var untried, untriedHost []string
					for _, m := range members {
						if m == pick {
							isMember = true
						}
						if !tried[m] {
							untried = append(untried, m)
							if !triedHosts[c17cHost(m)] {
								untriedHost = append(untriedHost, m)
							}
						}
					}
					switch {
					case len(members) == 0:
						if pick != "" || cerr != tchannel.ErrNoPeers {
							fail("%s: SubChannel.BeginCall on an empty list dialled %q, error %v", where, pick, cerr)
						}
					case !isMember:
						fail("%s: SubChannel.BeginCall on list %v dialled %q, not a member (error %v)", where, members, pick, cerr)
					case cl.opts == 0 && tried[pick] && len(untried) > 0:
						fail("%s: SubChannel.BeginCall was sent to %s, which this request had already tried, although %v of the list %v were untried (tried so far: %v)",
							where, pick, untried, members, c17cKeys(tried))
					case cl.opts == 0 && triedHosts[c17cHost(pick)] && len(untriedHost) > 0:
						fail("%s: SubChannel.BeginCall was sent to %s on a host this request had already tried, although %v of the list %v are on untried hosts (tried so far: %v)",
							where, pick, untriedHost, members, c17cKeys(tried))
					}
				}
				if cl.opts == 0 && pick != "" {
					if _, ok := rs.SelectedPeers[pick]; !ok {
						fail("%s: the call went to %s but the RequestState does not record it: %v", where, pick, rrSeen(rs))
					}
					if _, ok := rs.SelectedPeers[c17cHost(pick)]; !ok {
						fail("%s: the call went to %s but the RequestState does not record its host: %v", where, pick, rrSeen(rs))
					}
					tried[pick] = true
					triedHosts[c17cHost(pick)] = true
				}
				if cl.opts != 0 && len(rs.SelectedPeers) != selBefore {
					fail("%s: a call without the RequestState changed it: %v", where, rrSeen(rs))
				}
			}
			if withRS >= 2 {
				multi = true
			}
			looks = append(looks, rrLook{rs.Attempt, rrSeen(rs)})
			e := at.out.err()
			acts = append(acts, 3)
			acts = append(acts, encErr(e)...)
			nActs++
			return e
		})
		returned = true
	}()

	in = append(in, int64(nActs))
	in = append(in, acts...)
	obs := []int64{b2i(returned)}
	obs = append(obs, encErr(ret)...)
	obs = append(obs, int64(len(looks)))
	for _, l := range looks {
		obs = append(obs, int64(l.attempt), int64(len(l.sel)))
		for _, h := range l.sel {
			obs = putBytes(obs, []byte(h))
		}
	}
	obs = append(obs, int64(len(picks)))
	for _, p := range picks {
		obs = putBytes(obs, []byte(p))
	}

	// budget, stop rule, result: from the statement
	effMax, effPolicy := cs.maxAttempts, cs.policy
	if !cs.hasOpts {
		effMax, effPolicy = 5, 0
	}
	if effMax == 0 {
		effMax = 5
	}
	if !returned {
		fail("RunWithRetry did not return")
	} else if calls < 1 || calls > effMax {
		fail("the retried function was invoked %d times, budget %d", calls, effMax)
	} else {
		for k := 0; k < calls; k++ {
			at := cs.attempts[len(cs.attempts)-1]
			if k < len(cs.attempts) {
				at = cs.attempts[k]
			}
			last := k == calls-1
			if at.out.kind == 0 && !last {
				fail("continued after a success")
			}
			if at.out.kind != 0 && !specRetryable(effPolicy, at.out) && !last {
				fail("continued after an error policy %d does not retry", effPolicy)
			}
			if last {
				if at.out.kind == 0 && ret != nil {
					fail("success not returned as nil")
				}
				if at.out.kind != 0 {
					if ret == nil || fmt.Sprint(encErr(ret)) != fmt.Sprint(encErr(at.out.err())) {
						fail("last error not returned")
					}
					if specRetryable(effPolicy, at.out) && calls < effMax {
						fail("stopped after %d calls on a retryable error with budget %d", calls, effMax)
					}
				}
			}
		}
	}

	o.Hist(fmt.Sprintf("c17calls attempts=%d", calls))
	o.Hist(fmt.Sprintf("c17calls calls=%d", len(picks)))
	if multi {
		o.Hist("c17calls two-or-more-calls-with-RequestState-in-one-attempt")
	}
	if cs.equal {
		o.Oracle("c17calls-eq", id, multi || calls > 1, fmt.Sprint(in), verdict)
		return
	}
	if id == "fixed-second-call" {
		o.Sample(map[string]interface{}{"engine": "c17calls", "case": id, "input": in, "observed": obs})
	}
	o.Case("c17calls", id, in, obs, multi || calls > 1, verdict)
}

func c17cKeys(m map[string]bool) []string {
	out := []string{}
	for k := range m {
		out = append(out, k)
	}
	sort.Strings(out)
	return out
}

func init() { engines["c17calls"] = engineC17Calls }

func engineC17Calls(rng *rand.Rand, n int, tier string, o *Out) {
	busy := scriptedOutcome{kind: 1, code: 3}
	okOut := scriptedOutcome{kind: 0}
	sub := func(j int) c17cCall { return c17cCall{list: j} }
	direct := func(hp string) c17cCall { return c17cCall{direct: true, hp: hp} }
	A, B, C := "10.7.0.1:4000", "10.7.0.2:4000", "10.7.0.3:4000"
	rank := func(hps ...string) map[string]int {
		m := map[string]int{}
		for i, hp := range hps {
			m[hp] = i
		}
		return m
	}

	// fixed: two peers, A ranked first; ONE attempt (RetryNever) with two sub-channel calls -- the
	// second must go to B
	c17cRun("fixed-second-call", &c17cCase{hasOpts: true, maxAttempts: 1, policy: 2,
		lists: [][]string{{}, {A, B}}, scores: []map[string]int{{}, rank(A, B)},
		attempts: []c17cAttempt{{calls: []c17cCall{sub(1), sub(1)}, out: busy}}}, o)
	// the same inside the first of three attempts, then one call per attempt
	c17cRun("fixed-second-call-3", &c17cCase{hasOpts: true, maxAttempts: 3, policy: 5,
		lists: [][]string{{}, {A, B, C}}, scores: []map[string]int{{}, rank(A, B, C)},
		attempts: []c17cAttempt{{calls: []c17cCall{sub(1), sub(1)}, out: busy}, {calls: []c17cCall{sub(1)}, out: busy}, {calls: []c17cCall{sub(1)}, out: okOut}}}, o)
	// a direct call to the best ranked member, then a sub-channel call, in the first attempt
	c17cRun("fixed-direct-then-sub", &c17cCase{hasOpts: true, maxAttempts: 2, policy: 0,
		lists: [][]string{{A, B}}, scores: []map[string]int{rank(A, B)},
		attempts: []c17cAttempt{{calls: []c17cCall{direct(A), sub(0)}, out: busy}, {calls: []c17cCall{sub(0), sub(0)}, out: busy}}}, o)
	// fan-out: three calls on three peers in the only attempt, default options
	c17cRun("fixed-fan-out", &c17cCase{hasOpts: false,
		lists: [][]string{{C, B, A}}, scores: []map[string]int{rank(B, A, C)},
		attempts: []c17cAttempt{{calls: []c17cCall{sub(0), sub(0), sub(0), sub(0)}, out: okOut}}}, o)
	// two lists sharing the best ranked peer: tried through list 1, avoided on list 2
	c17cRun("fixed-two-lists", &c17cCase{hasOpts: true, maxAttempts: 1, policy: 2,
		lists: [][]string{{}, {A, B}, {A, C}}, scores: []map[string]int{{}, rank(A, B), rank(A, C)},
		attempts: []c17cAttempt{{calls: []c17cCall{sub(1), sub(2), sub(1)}, out: busy}}}, o)

	for c := 0; c < n; c++ {
		cs := &c17cCase{}
		cs.hasOpts = rng.Intn(8) != 0
		cs.maxAttempts = []int{0, 1, 1, 2, 3, 4}[rng.Intn(6)]
		cs.policy = []int{0, 2, 5, 5, 3, 1, 4}[rng.Intn(7)]
		cs.equal = rng.Intn(6) == 0
		// a pool of host:ports: 3 hosts x 3 ports
		var pool []string
		for h := 0; h < 3; h++ {
			for p := 0; p < 3; p++ {
				pool = append(pool, fmt.Sprintf("10.7.%d.1:%d", h, 4000+p))
			}
		}
		nLists := 1 + rng.Intn(3)
		for j := 0; j < nLists; j++ {
			np := rng.Intn(6)
			if rng.Intn(3) != 0 && np < 2 {
				np = 2 + rng.Intn(3)
			}
			var members []string
			sc := map[string]int{}
			for i, pi := range rng.Perm(len(pool))[:np] {
				_ = i
				members = append(members, pool[pi])
			}
			for r, mi := range rng.Perm(len(members)) {
				sc[members[mi]] = 10*r + 3
			}
			if cs.equal {
				for _, m := range members {
					sc[m] = 0
				}
			}
			cs.lists = append(cs.lists, members)
			cs.scores = append(cs.scores, sc)
		}
		effMax := cs.maxAttempts
		if !cs.hasOpts || effMax == 0 {
			effMax = 5
		}
		success := rng.Intn(effMax + 2)
		for k := 0; k < effMax; k++ {
			at := c17cAttempt{}
			switch {
			case k == success:
				at.out = okOut
			case rng.Intn(8) == 0:
				at.out = scriptedOutcome{kind: []int{2, 3, 5, 7}[rng.Intn(4)]}
			default:
				at.out = scriptedOutcome{kind: 1, code: []int{3, 4}[rng.Intn(2)]}
			}
			nc := []int{0, 1, 2, 2, 3, 3, 4}[rng.Intn(7)]
			for i := 0; i < nc; i++ {
				cl := c17cCall{}
				if rng.Intn(4) == 0 {
					cl.direct = true
					cl.viaPeer = rng.Intn(3) == 0
					cl.hp = pool[rng.Intn(len(pool))]
					if rng.Intn(5) == 0 {
						cl.hp = fmt.Sprintf("10.9.9.%d:5000", rng.Intn(3)) // in no list
					}
				} else {
					cl.list = rng.Intn(nLists)
				}
				switch rng.Intn(10) {
				case 0:
					cl.opts = 1
				case 1:
					cl.opts = 2
				}
				at.calls = append(at.calls, cl)
			}
			cs.attempts = append(cs.attempts, at)
		}
		c17cRun(fmt.Sprintf("c%d", c), cs, o)
	}

	// the retrying clients
	for c := 0; c < n/8+4; c++ {
		np := 2 + rng.Intn(4)
		ma := 1 + rng.Intn(np+2)
		kind := c % 2 // 0 json, 1 thrift
		var dialed []string
		ch, err := tchannel.NewChannel("verif-c17clients", &tchannel.ChannelOptions{
			Dialer: func(ctx context.Context, network, hostPort string) (net.Conn, error) {
				dialed = append(dialed, hostPort)
				return nil, &net.OpError{Op: "dial", Net: "tcp", Err: errors.New("c17calls: refused")}
			},
		})
		if err != nil {
			panic(err)
		}
		scores := map[string]int{}
		ch.Peers().SetStrategy(tchannel.ScoreCalculatorFunc(func(p *tchannel.Peer) uint64 { return uint64(scores[p.HostPort()]) }))
		var members []string
		for i, r := range rng.Perm(np) {
			hp := fmt.Sprintf("10.8.%d.1:%d", i%2, 4000+i)
			scores[hp] = 10 * r
			members = append(members, hp)
			ch.Peers().Add(hp)
		}
		ctx, cancel := tchannel.NewContextBuilder(20 * time.Second).
			SetRetryOptions(&tchannel.RetryOptions{MaxAttempts: ma, RetryOn: tchannel.RetryDefault}).Build()
		var cerr error
		if kind == 0 {
			cerr = tjson.NewClient(ch, "c17clients-svc", nil).Call(tjson.Wrap(ctx), "m", map[string]string{}, nil)
		} else {
			_, cerr = tthrift.NewClient(ch, "c17clients-svc", nil).Call(tthrift.Wrap(ctx), "Svc", "m", nil, nil)
		}
		cancel()
		ch.Close()
		who := []string{"json.Client.Call", "thrift client Call"}[kind]
		verdict := ""
		if cerr == nil {
			verdict = who + " succeeded although every dial is refused"
		}
		if len(dialed) != ma {
			verdict = fmt.Sprintf("%s with MaxAttempts %d on connection errors (retried under the default policy) dialled %d times: %v", who, ma, len(dialed), dialed)
		}
		tried := map[string]bool{}
		for i, hp := range dialed {
			if tried[hp] && len(tried) < np && verdict == "" {
				verdict = fmt.Sprintf("%s: attempt %d went to %s, which attempts before it had tried, although %d of the %d peers %v were untried (dialled: %v)", who, i+1, hp, np-len(tried), np, members, dialed)
			}
			tried[hp] = true
		}
		o.Hist(fmt.Sprintf("c17clients %s peers=%d", []string{"json", "thrift"}[kind], np))
		o.Oracle("c17clients", fmt.Sprintf("k%d", c), ma > 1, fmt.Sprint(kind, ma, members, scores), verdict)
	}
}
