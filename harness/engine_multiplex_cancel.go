package main

// Part of engine "multiplex" (property C04): cancel frames and the race detector.
//   c04RawCancelScenario (sub mux-rawcancel): a raw peer keeps 8-24 tagged echo calls in flight on
//     ONE connection to a server with PropagateCancel and, while their responses complete, sends
//     cancel frames for live ids, for ids that have just finished and for ids that were never
//     used.  Oracle: every call that was not cancelled gets the complete response produced for
//     its own tag; a cancelled call gets that response or an error frame; no frame carries an id
//     the peer never used; the connection still answers a ping afterwards.
//   c04MexHammer (race child only): goroutines that register / expire / shut down exchanges of one
//     messageExchangeSet against goroutines doing what the connection reader does (handleCancel,
//     forwardPeerFrame) and what Close / the idle sweep do (count, countCalls); no oracle of its
//     own beyond "no exchange left over": the race detector is the oracle.
//   c04RaceRun: builds the harness with -race (cached under build/bin by a hash of the library
//     and harness sources), runs the mux scenarios + mux-rawcancel + the hammer and the mex scripts in
//     it as child processes, and turns a race report or a runtime "concurrent map" fatal error
//     into an oracle failure carrying the report.

import (
	"bytes"
	"crypto/sha256"
	"encoding/binary"
	"encoding/hex"
	"fmt"
	"io/fs"
	"math/rand"
	"net"
	"os"
	"os/exec"
	"path/filepath"
	"regexp"
	"sort"
	"strings"
	"sync"
	"sync/atomic"
	"time"

	tchannel "github.com/uber/tchannel-go"
	"github.com/uber/tchannel-go/raw"
	"github.com/uber/tchannel-go/relay/relaytest"
	"golang.org/x/net/context"
)

// ---------------------------------------------------------------- mux-rawcancel

type c04RawCall struct {
	id      uint32
	tag     uint64
	reqArg3 []byte
	respLen int
	latMs   int
	role    int // 0 plain, 1 cancelled while live, 2 cancel sent after it finished
	frags   []*rawCall
	done    bool
	errCode int // -1: none
}

func c04CancelPayload() []byte {
	// ttl:4 tracing:25 why~2
	b := make([]byte, 4+25)
	return append(b, str2("cancelled by the raw peer")...)
}

func c04RawCancelScenario(rng *rand.Rand) (verdict string, key string) {
	server, err := tchannel.NewChannel("svc", &tchannel.ChannelOptions{Logger: tchannel.NullLogger,
		DefaultConnectionOptions: tchannel.ConnectionOptions{PropagateCancel: true}})
	if err != nil {
		return "harness: " + err.Error(), ""
	}
	defer server.Close()
	server.Register(raw.Wrap(&muxHandler{}), "echo")
	if err := server.ListenAndServe("127.0.0.1:0"); err != nil {
		return "harness: " + err.Error(), ""
	}
	conn, err := net.Dial("tcp", server.PeerInfo().HostPort)
	if err != nil {
		return "harness: " + err.Error(), ""
	}
	defer conn.Close()
	if _, err := rawClientHandshake(conn); err != nil {
		return "harness: handshake: " + err.Error(), ""
	}
	k := pick(rng, 8, 12, 16, 24)
	base := uint32(2 + rng.Intn(100000))
	calls := map[uint32]*c04RawCall{}
	var order []*c04RawCall
	for i := 0; i < k; i++ {
		rc := &c04RawCall{id: base + uint32(i), tag: 700000 + uint64(base) + uint64(i), respLen: pick(rng, 0, 10, 1000, 20000, 70000),
			latMs: pick(rng, 0, 0, 1, 2, 4, 8, 15), role: pick(rng, 0, 0, 1, 2), errCode: -1}
		rc.reqArg3 = tagStream(rc.tag^0x5a5a, pick(rng, 0, 100, 3000))
		calls[rc.id] = rc
		order = append(order, rc)
	}
	unknown := func() uint32 { return base + 1000000 + uint32(rng.Intn(1000)) }
	// the whole write schedule is drawn before the writer starts (one rng, one goroutine)
	type wr struct {
		frame []byte
		sleep time.Duration
	}
	var sched []wr
	cancelFrame := func(id uint32) []byte { return rawFrameBytes(0xc0, id, c04CancelPayload()) }
	ncancel := 0
	for i, rc := range order {
		a2 := make([]byte, 14)
		binary.BigEndian.PutUint64(a2, rc.tag)
		binary.BigEndian.PutUint16(a2[8:], uint16(rc.latMs))
		binary.BigEndian.PutUint32(a2[10:], uint32(rc.respLen))
		hdr := rawCallReqHeader(5000, make([]byte, 25), "svc", [][2]string{{"as", "raw"}, {"cn", "rawpeer"}})
		for _, fr := range buildRawCallFrames(true, rc.id, hdr, 0, [3][]byte{[]byte("echo"), a2, rc.reqArg3}, 1500) {
			sched = append(sched, wr{frame: fr})
		}
		sched = append(sched, wr{frame: cancelFrame(unknown())})
		ncancel++
		if rc.role == 1 && rng.Intn(2) == 0 {
			sched = append(sched, wr{frame: cancelFrame(rc.id)})
			ncancel++
		}
		if i%3 == 2 {
			// cancel something sent earlier: live (role 1) or probably finished (role 2)
			prev := order[rng.Intn(i+1)]
			if prev.role != 0 {
				sched = append(sched, wr{frame: cancelFrame(prev.id)})
				ncancel++
			}
		}
	}
	// while the responses complete: bursts of cancel frames
	for b := 0; b < 30; b++ {
		for j := 0; j < 4; j++ {
			id := unknown()
			if c := order[rng.Intn(len(order))]; c.role != 0 && rng.Intn(2) == 0 {
				id = c.id
			}
			sched = append(sched, wr{frame: cancelFrame(id)})
			ncancel++
		}
		sched[len(sched)-1].sleep = time.Duration(200+rng.Intn(800)) * time.Microsecond
	}
	writeErr := make(chan error, 1)
	go func() {
		for _, w := range sched {
			conn.SetWriteDeadline(time.Now().Add(3 * time.Second))
			if _, err := conn.Write(w.frame); err != nil {
				writeErr <- err
				return
			}
			if w.sleep > 0 {
				time.Sleep(w.sleep)
			}
		}
		writeErr <- nil
	}()

	// a cancelled call need not be answered at all: wait for the calls that were never cancelled,
	// then for a ping round trip (frames of cancelled calls that still arrive are checked too)
	pending := 0
	for _, rc := range order {
		if rc.role == 0 {
			pending++
		}
	}
	handle := func(f *rawFrame) string {
		rc := calls[f.ID]
		switch f.Type {
		case 0x04, 0x14:
			if rc == nil {
				return fmt.Sprintf("call res frame for id %d, which the raw peer never used (its ids: %d..%d; cancel frames named unknown ids)", f.ID, base, base+uint32(k)-1)
			}
			if rc.done {
				return fmt.Sprintf("frame for id %d after the call was complete", f.ID)
			}
			pc, err := parseRawCall(f.Type, f.Payload)
			if err != nil {
				return fmt.Sprintf("unparsable call res frame for id %d: %v", f.ID, err)
			}
			rc.frags = append(rc.frags, pc)
			if pc.Flags&1 == 0 {
				rc.done = true
				if rc.role == 0 {
					pending--
				}
			}
		case 0xff:
			if rc == nil {
				if f.ID == 0xffffffff {
					return fmt.Sprintf("connection-level error frame (code %#x) while the raw peer sent cancel frames", f.Payload[0])
				}
				return fmt.Sprintf("error frame (code %#x) for id %d, which the raw peer never used", f.Payload[0], f.ID)
			}
			if rc.done {
				return fmt.Sprintf("error frame for id %d after the call was complete", f.ID)
			}
			rc.errCode = int(f.Payload[0])
			rc.done = true
			if rc.role == 0 {
				pending--
			}
		}
		return ""
	}
	deadline := time.Now().Add(8 * time.Second)
	for pending > 0 {
		f, err := readRawFrame(conn, time.Until(deadline)+time.Millisecond)
		if err != nil {
			var waiting []uint32
			for _, rc := range order {
				if !rc.done && rc.role == 0 {
					waiting = append(waiting, rc.id)
				}
			}
			return fmt.Sprintf("raw peer with %d calls in flight and %d cancel frames: connection gave up (%v) with ids %v, which were never cancelled, unanswered", k, ncancel, err, waiting), ""
		}
		if v := handle(f); v != "" {
			return v, ""
		}
	}
	// the connection survived: a ping round trip (after the writer is done)
	if err := <-writeErr; err != nil {
		return "harness: raw peer write: " + err.Error(), ""
	}
	if err := writeRawFrame(conn, 0xd0, base+5000000, nil); err != nil {
		return "connection unusable after the cancel frames: " + err.Error(), ""
	}
	for {
		f, err := readRawFrame(conn, 3*time.Second)
		if err != nil {
			return fmt.Sprintf("no ping response after %d cancel frames: %v", ncancel, err), ""
		}
		if f.Type == 0xd1 {
			break
		}
		if v := handle(f); v != "" {
			return v, ""
		}
	}
	nerr, nsilent := 0, 0
	for _, rc := range order {
		if rc.errCode >= 0 {
			nerr++
			if rc.role == 0 {
				return fmt.Sprintf("call id %d (tag %d) was never cancelled but was answered with error code %#x (cancel frames named other ids)", rc.id, rc.tag, rc.errCode), ""
			}
			continue
		}
		if !rc.done {
			nsilent++ // cancelled: never answered, or the response was cut short
			continue
		}
		args := collectArgs(rc.frags)
		if len(args) != 3 {
			return fmt.Sprintf("call id %d: response has %d arguments", rc.id, len(args)), ""
		}
		want2 := make([]byte, 8, 16)
		binary.BigEndian.PutUint64(want2, rc.tag)
		want2 = append(want2, digest(rc.reqArg3)...)
		if !bytes.Equal(args[1], want2) {
			return fmt.Sprintf("call id %d (tag %d): response arg2 %x, want %x: not the response produced for this request", rc.id, rc.tag, args[1], want2), ""
		}
		if want3 := tagStream(rc.tag, rc.respLen); !bytes.Equal(args[2], want3) {
			return fmt.Sprintf("call id %d (tag %d): response arg3 differs from the body produced for its tag (got %d bytes, want %d)", rc.id, rc.tag, len(args[2]), len(want3)), ""
		}
	}
	return "", fmt.Sprint(k, base, ncancel, nerr > 0, nsilent > 0)
}

// ---------------------------------------------------------------- hammer on one exchange set

func c04MexHammer(rng *rand.Rand, d time.Duration) string {
	set := tchannel.VerifNewMexSet("inbound")
	var stop int32
	var wg sync.WaitGroup
	const churners, readers, idsPer = 4, 3, 64
	seeds := make([]int64, churners+readers)
	for i := range seeds {
		seeds[i] = rng.Int63()
	}
	var failure atomic.Value
	for g := 0; g < churners; g++ {
		wg.Add(1)
		go func(g int) {
			defer wg.Done()
			r := rand.New(rand.NewSource(seeds[g]))
			for i := uint32(0); atomic.LoadInt32(&stop) == 0; i++ {
				id := uint32(g+1)*100000 + i%idsPer
				ctx, cancel := context.WithCancel(context.Background())
				m, code := set.NewExchange(ctx, cancel, id, 2)
				if m == nil {
					failure.Store(fmt.Sprintf("newExchange(%d) failed with code %d although the id is used by one goroutine only", id, code))
					cancel()
					return
				}
				if r.Intn(3) == 0 {
					m.Expire()
				}
				m.Shutdown()
				cancel()
			}
		}(g)
	}
	for g := 0; g < readers; g++ {
		wg.Add(1)
		go func(g int) {
			defer wg.Done()
			r := rand.New(rand.NewSource(seeds[churners+g]))
			for i := uint32(0); atomic.LoadInt32(&stop) == 0; i++ {
				id := uint32(1+r.Intn(churners))*100000 + i%idsPer
				switch g {
				case 0:
					set.HandleCancel(id)
				case 1:
					set.Forward(id, i)
				default:
					if i%2 == 0 {
						set.Count()
					} else {
						set.CountCalls()
					}
				}
			}
		}(g)
	}
	time.Sleep(d)
	atomic.StoreInt32(&stop, 1)
	wg.Wait()
	if f := failure.Load(); f != nil {
		return f.(string)
	}
	if n := set.Count(); n != 0 {
		return fmt.Sprintf("%d exchanges left in the set after every goroutine removed its own", n)
	}
	return ""
}

// ---------------------------------------------------------------- race detector child

// c04SourceHash: library (non-test .go files, go.mod, go.sum) + harness sources + overlay.
func c04SourceHash(repo, hd string) string {
	h := sha256.New()
	add := func(root string, tests bool) {
		var files []string
		filepath.WalkDir(root, func(p string, d fs.DirEntry, err error) error {
			if err != nil {
				return nil
			}
			if d.IsDir() {
				if n := d.Name(); n == ".git" || n == "node_modules" {
					return filepath.SkipDir
				}
				return nil
			}
			n := d.Name()
			if n == "go.mod" || n == "go.sum" || (strings.HasSuffix(n, ".go") && (tests || !strings.HasSuffix(n, "_test.go"))) {
				files = append(files, p)
			}
			return nil
		})
		sort.Strings(files)
		for _, f := range files {
			b, err := os.ReadFile(f)
			if err != nil {
				continue
			}
			rel, _ := filepath.Rel(root, f)
			fmt.Fprintf(h, "%s %d\n", rel, len(b))
			h.Write(b)
		}
	}
	add(repo, false)
	add(hd, true)
	return hex.EncodeToString(h.Sum(nil))[:16]
}

var c04ReplaceRe = regexp.MustCompile(`(?m)=>\s*(/\S+)\s*$`)

// c04RaceBinary returns the path of the -race harness for the current sources, building it if needed.
func c04RaceBinary(o *Out) (string, []string, error) {
	build := filepath.Clean(filepath.Join(o.dir, "..", "..", ".."))
	hd := filepath.Join(filepath.Dir(build), "harness")
	env := append(os.Environ(), "CGO_ENABLED=1", "GOFLAGS=-mod=mod", "GOPROXY=off", "GOSUMDB=off", "GOTOOLCHAIN=local")
	mod, err := os.ReadFile(filepath.Join(build, "harness.mod"))
	if err != nil {
		return "", env, err
	}
	m := c04ReplaceRe.FindSubmatch(mod)
	if m == nil {
		return "", env, fmt.Errorf("no replace directive in build/harness.mod")
	}
	repo := string(m[1])
	bin := filepath.Join(build, "bin", "harness-race-"+c04SourceHash(repo, hd))
	if st, err := os.Stat(bin); err == nil && st.Mode().IsRegular() {
		o.Hist("race:binary-cached")
		return bin, env, nil
	}
	// keep the two most recent binaries of other source states (a tree that is patched and restored
	// finds its binary again), drop the rest
	old, _ := filepath.Glob(filepath.Join(build, "bin", "harness-race*"))
	sort.Slice(old, func(i, j int) bool {
		si, _ := os.Stat(old[i])
		sj, _ := os.Stat(old[j])
		return si != nil && sj != nil && si.ModTime().After(sj.ModTime())
	})
	for i, f := range old {
		if i >= 2 || !strings.HasPrefix(filepath.Base(f), "harness-race-") || strings.HasSuffix(f, ".tmp") {
			os.Remove(f)
		}
	}
	tmp := bin + ".tmp"
	cmd := exec.Command("go", "build", "-race", "-modfile", filepath.Join(build, "harness.mod"), "-tags", "verif",
		"-overlay", filepath.Join(build, "overlay.json"), "-o", tmp, ".")
	cmd.Dir, cmd.Env = hd, env
	if out, err := cmd.CombinedOutput(); err != nil {
		return "", env, fmt.Errorf("%v: %s", err, out)
	}
	if err := os.Rename(tmp, bin); err != nil {
		return "", env, err
	}
	o.Hist("race:binary-built")
	return bin, env, nil
}

// c04RaceRun reports whether the child found a race.
func c04RaceRun(seed int64, muxN, mexN int, o *Out) bool {
	bin, env, err := c04RaceBinary(o)
	if err != nil {
		fmt.Fprintln(os.Stderr, "race build failed:", err)
		o.Hist("race:build-failed")
		o.Oracle("race-build", "r-build", false, "build", "the harness could not be built with the race detector, clause (c) has no dynamic check: "+strings.ReplaceAll(err.Error(), "\n", " | "))
		return false
	}
	dir := filepath.Join(o.dir, "race")
	os.MkdirAll(dir, 0o755)
	type job struct {
		eng string
		n   int
	}
	jobs := []job{{"multiplex", muxN}, {"mex", mexN}}
	outs := make([][]byte, len(jobs))
	errs := make([]error, len(jobs))
	var wg sync.WaitGroup
	for i, j := range jobs {
		wg.Add(1)
		go func(i int, j job) {
			defer wg.Done()
			d := filepath.Join(dir, j.eng)
			os.MkdirAll(d, 0o755)
			run := exec.Command(bin, j.eng, fmt.Sprint(seed%1000000+int64(i)), fmt.Sprint(j.n), d, "quick")
			run.Env = append(env, "VERIF_RACE_CHILD=1", "GORACE=halt_on_error=0")
			run.Dir = d
			outs[i], errs[i] = run.CombinedOutput()
		}(i, j)
	}
	wg.Wait()
	found := false
	for i, j := range jobs {
		out := outs[i]
		verdict := ""
		at := -1
		for _, marker := range []string{"WARNING: DATA RACE", "fatal error: concurrent map", "fatal error:"} {
			if k := bytes.Index(out, []byte(marker)); k >= 0 {
				at = k
				break
			}
		}
		if at >= 0 {
			end := at + 3000
			if end > len(out) {
				end = len(out)
			}
			report := string(out[at:end])
			tag := ""
			if strings.Count(report, "(*relayTimer).Stop()") >= 2 && strings.Contains(report, "(*relayItems).Get()") {
				// finding c04:relay-timer-stop-race (fixed in the library: a recurrence is a violation)
				tag = "[c04:relay-timer-stop-race] "
			}
			verdict = fmt.Sprintf("%srace detector child (harness-race %s, seed %d, %d cases): %s", tag, j.eng, seed%1000000+int64(i), j.n,
				strings.ReplaceAll(report, "\n", " | "))
			found = true
		} else if errs[i] != nil {
			tail := out
			if len(tail) > 1500 {
				tail = tail[len(tail)-1500:]
			}
			verdict = fmt.Sprintf("race detector child (harness-race %s) failed without a race report: %v: %s", j.eng, errs[i], strings.ReplaceAll(string(tail), "\n", " | "))
		} else if fails := c04ChildOracleFailures(filepath.Join(dir, j.eng, j.eng+".oracle")); len(fails) > 0 {
			// an oracle failure inside the child (the scenarios run there too); known findings keep their key
			verdict = fails[0]
			for _, f := range fails {
				if !strings.HasPrefix(f, "[") {
					verdict = f
					break
				}
			}
		}
		o.Hist("race:" + j.eng)
		o.Oracle("race-"+j.eng, "r-"+j.eng, true, j.eng, verdict)
	}
	return found
}

func c04ChildOracleFailures(path string) []string {
	b, err := os.ReadFile(path)
	if err != nil {
		return nil
	}
	var out []string
	for _, line := range strings.Split(string(b), "\n") {
		parts := strings.SplitN(line, " ", 4)
		if len(parts) == 4 && parts[2] == "FAIL" {
			out = append(out, parts[3])
		}
	}
	return out
}

// ---------------------------------------------------------------- connection churn (race child only)

// c04PeerChurn: callers keep making tagged echo calls through one client channel while other
// goroutines add outbound connections to the same peer and close them again, and one goroutine
// reads the bookkeeping (IntrospectState, peer list copies, connection counts, channel state).
// Exercises the Peer connection slices, Channel.mutable.conns, the peer-list maps and
// Connection.state from several goroutines; the race detector is the oracle, plus: a call that
// succeeds returns the response produced for its own tag (calls may fail while their
// connection is being closed under them).
func c04PeerChurn(rng *rand.Rand, d time.Duration) string {
	server, err := tchannel.NewChannel("svc", &tchannel.ChannelOptions{Logger: tchannel.NullLogger})
	if err != nil {
		return "harness: " + err.Error()
	}
	defer server.Close()
	server.Register(raw.Wrap(&muxHandler{}), "echo")
	if err := server.ListenAndServe("127.0.0.1:0"); err != nil {
		return "harness: " + err.Error()
	}
	hostPort := server.PeerInfo().HostPort
	client, err := tchannel.NewChannel("cli", &tchannel.ChannelOptions{Logger: tchannel.NullLogger})
	if err != nil {
		return "harness: " + err.Error()
	}
	defer client.Close()
	client.Peers().Add(hostPort)
	var stop int32
	var wg sync.WaitGroup
	var verdict atomic.Value
	var okCalls, failedCalls int64
	for g := 0; g < 4; g++ {
		wg.Add(1)
		go func(g int) {
			defer wg.Done()
			st := make(chan struct{})
			close(st)
			for i := 0; atomic.LoadInt32(&stop) == 0; i++ {
				mc := &muxCall{tag: 900000 + uint64(g)*10000 + uint64(i), reqLen: 50, respLen: 200 + 100*g, mode: 1, limitMs: 2000}
				mc.run(client, hostPort, "svc", st)
				if mc.verdict != "" {
					verdict.Store(mc.verdict)
					return
				}
				if mc.err != nil {
					atomic.AddInt64(&failedCalls, 1)
				} else {
					atomic.AddInt64(&okCalls, 1)
				}
			}
		}(g)
	}
	for g := 0; g < 2; g++ {
		wg.Add(1)
		go func() {
			defer wg.Done()
			for atomic.LoadInt32(&stop) == 0 {
				ctx, cancel := tchannel.NewContext(time.Second)
				conn, err := client.Connect(ctx, hostPort)
				cancel()
				if err == nil {
					time.Sleep(time.Millisecond)
					conn.Close()
				}
			}
		}()
	}
	wg.Add(1)
	go func() {
		defer wg.Done()
		for atomic.LoadInt32(&stop) == 0 {
			client.IntrospectState(&tchannel.IntrospectionOptions{IncludeExchanges: true})
			for _, p := range client.Peers().Copy() {
				p.NumConnections()
				p.NumPendingOutbound()
			}
			client.RootPeers().Copy()
			client.State()
			server.IntrospectNumConnections()
			time.Sleep(200 * time.Microsecond)
		}
	}()
	time.Sleep(d)
	atomic.StoreInt32(&stop, 1)
	wg.Wait()
	if v := verdict.Load(); v != nil {
		return v.(string)
	}
	if atomic.LoadInt64(&okCalls) == 0 {
		return fmt.Sprintf("harness: no call succeeded during the connection churn (%d failed)", atomic.LoadInt64(&failedCalls))
	}
	return ""
}

// ---------------------------------------------------------------- cancel crossing the final response in a relay (race child only)

// c04RelayCancelCross: raw caller -> relay (PropagateCancel) -> raw backend, one connection each.
// For each of iters calls the backend's final call res frame and the caller's cancel frame for the
// same call are written at the same moment: the two connection readers of the relay both finish
// the call (relayItems.Get(id, stopTimeout) -> relayTimer.Stop on the same timer).  No schedule
// controller (its mutex would order the two readers and hide a race from the detector).  The race
// detector is the oracle, plus: the relay still answers a ping afterwards.
func c04RelayCancelCross(rng *rand.Rand, iters int) string {
	ln, err := net.Listen("tcp", "127.0.0.1:0")
	if err != nil {
		return "harness: " + err.Error()
	}
	defer ln.Close()
	reqs := make(chan uint32, 64)
	backendConn := make(chan net.Conn, 1)
	go func() {
		c, err := ln.Accept()
		if err != nil {
			return
		}
		if _, _, err := rawServerHandshake(c); err != nil {
			c.Close()
			return
		}
		backendConn <- c
		for {
			f, err := readRawFrame(c, 10*time.Second)
			if err != nil {
				return
			}
			if f.Type == 0x03 {
				reqs <- f.ID
			}
		}
	}()
	rh := relaytest.NewStubRelayHost()
	rly, err := tchannel.NewChannel("relay", &tchannel.ChannelOptions{RelayHost: rh, Logger: tchannel.NullLogger,
		DefaultConnectionOptions: tchannel.ConnectionOptions{PropagateCancel: true}})
	if err != nil {
		return "harness: " + err.Error()
	}
	defer rly.Close()
	if err := rly.ListenAndServe("127.0.0.1:0"); err != nil {
		return "harness: " + err.Error()
	}
	rh.Add("svc", ln.Addr().String())
	caller, err := net.Dial("tcp", rly.PeerInfo().HostPort)
	if err != nil {
		return "harness: " + err.Error()
	}
	defer caller.Close()
	if _, err := rawClientHandshake(caller); err != nil {
		return "harness: handshake: " + err.Error()
	}
	var backend net.Conn
	hdr := rawCallReqHeader(5000, make([]byte, 25), "svc", [][2]string{{"as", "raw"}, {"cn", "rawpeer"}})
	answered := 0
	for i := 0; i < iters; i++ {
		id := uint32(7000 + i)
		for _, fr := range buildRawCallFrames(true, id, hdr, 0, [3][]byte{[]byte("echo"), []byte("a2"), []byte(randBytes(rng, 20))}, 1500) {
			caller.SetWriteDeadline(time.Now().Add(2 * time.Second))
			if _, err := caller.Write(fr); err != nil {
				return "harness: caller write: " + err.Error()
			}
		}
		if backend == nil {
			select {
			case backend = <-backendConn:
				defer backend.Close()
			case <-time.After(3 * time.Second):
				return "harness: the relay did not connect to the backend"
			}
		}
		var destID uint32
		select {
		case destID = <-reqs:
		case <-time.After(3 * time.Second):
			return fmt.Sprintf("the relay did not forward call %d (id %d) to the backend", i, id)
		}
		res := buildRawCallFrames(false, destID, rawCallResHeader(0, make([]byte, 25), nil), 0, [3][]byte{{}, []byte("r2"), []byte("r3")}, 1500)[0]
		cancel := rawFrameBytes(0xc0, id, c04CancelPayload())
		start := make(chan struct{})
		var wg sync.WaitGroup
		wg.Add(2)
		go func() {
			defer wg.Done()
			<-start
			backend.SetWriteDeadline(time.Now().Add(2 * time.Second))
			backend.Write(res)
		}()
		go func() {
			defer wg.Done()
			<-start
			caller.SetWriteDeadline(time.Now().Add(2 * time.Second))
			caller.Write(cancel)
		}()
		close(start)
		wg.Wait()
		// the response is relayed unless the cancel won
		if f, err := readRawFrame(caller, 30*time.Millisecond); err == nil && f.ID == id && (f.Type == 0x04 || f.Type == 0xff) {
			answered++
		}
	}
	if err := writeRawFrame(caller, 0xd0, 99, nil); err != nil {
		return "relay connection unusable after crossing cancels: " + err.Error()
	}
	for {
		f, err := readRawFrame(caller, 3*time.Second)
		if err != nil {
			return fmt.Sprintf("the relay does not answer a ping after %d calls whose cancel crossed the final response (%d answered): %v", iters, answered, err)
		}
		if f.Type == 0xd1 {
			return ""
		}
	}
}
