package main

// frameown, hand-over family (C12): "the library neither reads nor writes a frame after
// handing it back" -- including after handing it ON to a goroutine that hands it back.
//
// The relay passes every frame it forwards to the destination connection's send channel
// (Relayer.Receive: r.conn.sendCh <- f).  From that statement on the frame belongs to the
// destination's writeFrames goroutine, which writes it and releases it to the pool.  A read of
// the frame by the relaying goroutine after that statement races with the release; it normally
// wins the race by a wide margin (a few instructions against a write system call), so a free
// run never shows it.  Here the race is decided the other way, every time: the schedule point
// relay.Receive.sent (build tag verif, directly after the channel send) parks the relaying
// goroutine until the destination's writer has written AND released that frame -- the fastest
// writer the library allows.  With the poisoning pool the frame's header is then scrubbed, so
// whatever the relaying goroutine still reads from it is visibly wrong.
//
// Observables (oracle, from the statement; independent of the model):
//   * the sizes the relay reports to the RelayHost's call statistics (RelayCall.SentBytes for
//     request frames, ReceivedBytes for response frames) are exactly the sizes of the frames
//     that went out on the wire (header as seen by the writer when it released the frame),
//     in order -- never the poison value;
//   * every relayed call the RelayHost started is ended exactly once (a relay item looked up
//     under a poisoned id is never finished).
// If the schedule point is missing from the library under test the race runs free and the
// oracles still apply (they then only see the sender winning).

import (
	"fmt"
	"strings"
	"sync"
	"time"

	tchannel "github.com/uber/tchannel-go"
	"github.com/uber/tchannel-go/relay"
)

type foxWire struct {
	id   uint32
	typ  byte
	size uint16
}

// noteWire: called with p.mu held by Release from Connection.writeFrames, before poisoning
func (p *foPool) noteWire(f *tchannel.Frame) {
	w := foxWire{id: f.Header.ID, typ: tchannel.VerifFrameMsgType(f), size: f.Header.FrameSize()}
	p.wire = append(p.wire, w)
	if p.writerRel == nil {
		p.writerRel = map[uint32]int{}
	}
	p.writerRel[w.id]++
}

func (p *foPool) writerReleased(id uint32) int {
	p.mu.Lock()
	defer p.mu.Unlock()
	return p.writerRel[id]
}

// request frames travel relay -> destination (SentBytes), response frames back (ReceivedBytes)
func foxIsRequestType(t byte) bool { return t == 0x03 || t == 0x13 || t == 0xC0 }

func (p *foPool) wireSizes(request bool) []int {
	p.mu.Lock()
	defer p.mu.Unlock()
	var out []int
	for _, w := range p.wire {
		if w.typ == 0x03 || w.typ == 0x13 || w.typ == 0x04 || w.typ == 0x14 || w.typ == 0xFF || w.typ == 0xC0 {
			if foxIsRequestType(w.typ) == request {
				out = append(out, int(w.size))
			}
		}
	}
	return out
}

// ---------------------------------------------------------------- the fastest legal writer

type foxFastWriter struct {
	mu         sync.Mutex
	pools      []*foPool
	tickets    map[uint32]int
	forced     int
	infeasible int
	wait       time.Duration
}

// the schedule points directly after each of the library's four `sendCh <- frame` statements
var foxSentPoints = map[string]bool{
	"relay.Receive.sent":        true, // Relayer.Receive
	"reqres.flushFragment.sent": true, // reqResWriter.flushFragment
	"conn.sendMessage.sent":     true, // Connection.sendMessage
	"conn.SendSystemError.sent": true, // Connection.SendSystemError
}

// install makes every successful hand-over of a frame to a send channel wait until the
// connection's writer has released that frame (pools: every pool a sent frame may belong to).
func foxInstallFastWriter(pools ...*foPool) *foxFastWriter {
	w := &foxFastWriter{pools: pools, tickets: map[uint32]int{}, wait: 2 * time.Second}
	tchannel.VerifSetHook(w.hook)
	return w
}

func (w *foxFastWriter) remove() { tchannel.VerifSetHook(nil) }

func (w *foxFastWriter) released(id uint32) int {
	n := 0
	for _, p := range w.pools {
		n += p.writerReleased(id)
	}
	return n
}

// Every frame that enters a send channel passes one of the points with its header id, and is
// released exactly once by a writeFrames loop with that id: the n-th arrival for an id waits for
// the n-th such release.  (Two connections using the same id at the same time can satisfy each
// other's ticket: then that hand-over is simply not forced.)
func (w *foxFastWriter) hook(name string, id uint32) {
	if !foxSentPoints[name] {
		return
	}
	w.mu.Lock()
	w.tickets[id]++
	ticket := w.tickets[id]
	w.mu.Unlock()
	deadline := time.Now().Add(w.wait)
	for w.released(id) < ticket {
		if time.Now().After(deadline) {
			// the writer did not get to it (stalled or stopped connection): not a finding
			w.mu.Lock()
			w.infeasible++
			w.mu.Unlock()
			return
		}
		time.Sleep(20 * time.Microsecond)
	}
	w.mu.Lock()
	w.forced++
	w.mu.Unlock()
}

func (w *foxFastWriter) counts() (forced, infeasible int) {
	w.mu.Lock()
	defer w.mu.Unlock()
	return w.forced, w.infeasible
}

// ---------------------------------------------------------------- recording relay host

type foxRecHost struct {
	inner tchannel.RelayHost
	mu    sync.Mutex
	sent  []int
	recvd []int
	start int
	ended int
}

type foxRecCall struct {
	tchannel.RelayCall
	h *foxRecHost
}

func (h *foxRecHost) SetChannel(ch *tchannel.Channel) { h.inner.SetChannel(ch) }

func (h *foxRecHost) Start(cf relay.CallFrame, conn *relay.Conn) (tchannel.RelayCall, error) {
	c, err := h.inner.Start(cf, conn)
	if c == nil {
		return c, err
	}
	h.mu.Lock()
	h.start++
	h.mu.Unlock()
	return &foxRecCall{RelayCall: c, h: h}, err
}

func (c *foxRecCall) SentBytes(n uint16) {
	c.h.mu.Lock()
	c.h.sent = append(c.h.sent, int(n))
	c.h.mu.Unlock()
	c.RelayCall.SentBytes(n)
}

func (c *foxRecCall) ReceivedBytes(n uint16) {
	c.h.mu.Lock()
	c.h.recvd = append(c.h.recvd, int(n))
	c.h.mu.Unlock()
	c.RelayCall.ReceivedBytes(n)
}

func (c *foxRecCall) End() {
	c.h.mu.Lock()
	c.h.ended++
	c.h.mu.Unlock()
	c.RelayCall.End()
}

func (h *foxRecHost) snapshot() (sent, recvd []int, started, ended int) {
	h.mu.Lock()
	defer h.mu.Unlock()
	return append([]int(nil), h.sent...), append([]int(nil), h.recvd...), h.start, h.ended
}

// foxJudge: the oracle of this family on a fault-free relay scenario
func foxJudge(h *foxRecHost, relayPool *foPool) string {
	sent, recvd, started, ended := h.snapshot()
	wireReq, wireRes := relayPool.wireSizes(true), relayPool.wireSizes(false)
	if fmt.Sprint(sent) != fmt.Sprint(wireReq) {
		return fmt.Sprintf("the relay reported the request frame sizes %v to the call statistics (SentBytes) but the frames written to the destination had the sizes %v: a frame header was read after the frame had been handed on to the destination connection, whose writer had released it (poisoned header: size %d)",
			foxShort(sent), foxShort(wireReq), tchannel.FrameHeaderSize)
	}
	if fmt.Sprint(recvd) != fmt.Sprint(wireRes) {
		return fmt.Sprintf("the relay reported the response frame sizes %v to the call statistics (ReceivedBytes) but the frames written to the caller had the sizes %v: a frame header was read after the frame had been handed on to the caller's connection, whose writer had released it (poisoned header: size %d)",
			foxShort(recvd), foxShort(wireRes), tchannel.FrameHeaderSize)
	}
	if started != ended {
		return fmt.Sprintf("the relay host started %d relayed calls but %d were ended although every call completed: a relay item was looked up under an id read from a frame after it had been handed on (released and poisoned by the destination's writer)", started, ended)
	}
	return ""
}

func foxShort(xs []int) string {
	if len(xs) > 12 {
		return fmt.Sprintf("%v.. (%d frames)", xs[:12], len(xs))
	}
	return fmt.Sprint(xs)
}

// ---------------------------------------------------------------- logger that recognises poisoned headers

// foxLog is a tchannel.Logger at debug level that formats nothing: it only inspects fields and
// arguments for the header (or the id) of a released, poisoned frame (zz_verif_c12.go: id 0xDEADBEEF).
type foxLogSink struct {
	mu   sync.Mutex
	hits []string
}

type foxLog struct {
	sink   *foxLogSink
	fields tchannel.LogFields
	poison string
}

func foxPoisoned(v interface{}) string {
	switch h := v.(type) {
	case tchannel.FrameHeader:
		if h.ID == 0xDEADBEEF {
			return "header of a released frame " + h.String()
		}
	case *tchannel.FrameHeader:
		if h != nil && h.ID == 0xDEADBEEF {
			return "header of a released frame " + h.String()
		}
	case uint32:
		if h == 0xDEADBEEF {
			return "id of a released frame"
		}
	case string:
		if len(h) >= 10 && strings.Contains(h, "3735928559") {
			return "header of a released frame " + h
		}
	}
	return ""
}

func (l *foxLog) note(msg string, args ...interface{}) {
	p := l.poison
	for _, a := range args {
		if x := foxPoisoned(a); x != "" {
			p = x
		}
	}
	if p == "" {
		return
	}
	l.sink.mu.Lock()
	if len(l.sink.hits) < 8 {
		l.sink.hits = append(l.sink.hits, fmt.Sprintf("%q carries the %s", msg, p))
	}
	l.sink.mu.Unlock()
}
func (l *foxLog) Enabled(level tchannel.LogLevel) bool   { return true }
func (l *foxLog) Fatal(msg string)                       { l.note(msg) }
func (l *foxLog) Error(msg string)                       { l.note(msg) }
func (l *foxLog) Warn(msg string)                        { l.note(msg) }
func (l *foxLog) Infof(msg string, args ...interface{})  { l.note(msg, args...) }
func (l *foxLog) Info(msg string)                        { l.note(msg) }
func (l *foxLog) Debugf(msg string, args ...interface{}) { l.note(msg, args...) }
func (l *foxLog) Debug(msg string)                       { l.note(msg) }
func (l *foxLog) Fields() tchannel.LogFields             { return l.fields }
func (l *foxLog) WithFields(fields ...tchannel.LogField) tchannel.Logger {
	n := &foxLog{sink: l.sink, poison: l.poison}
	n.fields = append(append(tchannel.LogFields{}, l.fields...), fields...)
	for _, f := range fields {
		if x := foxPoisoned(f.Value); x != "" {
			n.poison = "field " + f.Key + " = " + x
		}
	}
	return n
}

func (s *foxLogSink) verdict() string {
	s.mu.Lock()
	defer s.mu.Unlock()
	if len(s.hits) == 0 {
		return ""
	}
	return "a log line " + s.hits[0] + ": the frame was read after it had been handed on to a connection's writer, which had released it"
}

// foxLogger, when set, is the logger of the channels foServer creates
var foxLogger tchannel.Logger
