package main

import (
	"bufio"
	"bytes"
	"fmt"
	"io"
	"io/ioutil"
	"math/rand"
	"strings"
	"sync"
	"time"

	tchannel "github.com/uber/tchannel-go"
	"github.com/uber/tchannel-go/relay"
	"github.com/uber/tchannel-go/relay/relaytest"
	"golang.org/x/net/context"
)

// fragio (C01): the io.Writer / io.Reader contract of the argument streams.
//
//   sub fragio   the real fragmentingWriter under scripts whose Writes are made directly (with the
//                returned n recorded) or by callers that rely on io.Writer -- io.Copy from a
//                WriterTo (one Write of everything), io.CopyBuffer, bufio.Writer, io.WriteString, a
//                loop that re-offers what a short count leaves.  Single writes of 1..5 fragment
//                capacities (-1, 0, +1) at small capacities, and a few at the production capacity.
//   sub fragrio  the emitted fragments read by the real fragmentingReader through io.ReadFull,
//                ioutil.ReadAll, bufio.Reader, io.Copy, io.ReadAtLeast, io.CopyN and plain Reads,
//                every underlying Read logged with the n it returned.
//   sub fragiowire  real channels end to end (64 KiB frames): client - 0/1/2 relay hops, with and
//                without an arg2-appending relay host - handler; arg3 of 0 .. 5 frames written with one
//                Write / io.Copy / bufio / re-offering loop / pieces with explicit flushes incl.
//                trailing data-less flushes; handler and caller read with different readers.
//
// Oracles, from the statement ("any sequence of write sizes ... the peer reads back exactly the same
// byte strings however it sizes its reads"): a Write that reports n != len(p) with a nil error has
// not told its caller the truth about the bytes of p that are part of the argument; whatever a
// contract-honouring caller meant to send is what the fragments denote / what the peer reads.

func init() { engines["fragio"] = engineFragIO }

type fioScript struct {
	capI, capC int
	ctype      byte
	ops        []tchannel.VerifIOOp
	args       [3][]byte
	note       string
}

var fioKindName = map[int]string{1: "Write", 10: "io.Copy(w, bytes.Reader)", 11: "io.CopyBuffer(w, reader, buf)", 12: "bufio.Writer",
	13: "loop `n, err := w.Write(p); p = p[n:]`", 14: "io.WriteString"}

// a write-like operation for data of the given size
func fioWriteOp(rng *rand.Rand, data []byte, capC int) tchannel.VerifIOOp {
	switch rng.Intn(8) {
	case 0:
		return tchannel.VerifIOOp{Kind: 10, Data: data}
	case 1:
		return tchannel.VerifIOOp{Kind: 11, Data: data, N: pick(rng, 1, 3, capC-2, capC, 2*capC+1, 3*capC)}
	case 2:
		return tchannel.VerifIOOp{Kind: 12, Data: data, N: pick(rng, 1, capC, 2*capC+3, 5*capC), M: pick(rng, 1, 2, capC+1, 0)}
	case 3:
		return tchannel.VerifIOOp{Kind: 13, Data: data}
	case 4:
		return tchannel.VerifIOOp{Kind: 14, Data: data}
	}
	return tchannel.VerifIOOp{Kind: 1, Data: data}
}

// length of a single write: around k fragment capacities, k = 0..5
func fioLen(rng *rand.Rand, capI, capC int) int {
	switch rng.Intn(6) {
	case 0:
		return rng.Intn(4)
	case 1:
		return rng.Intn(capI + 1)
	}
	k := rng.Intn(6)
	return imax(0, (capI-2)+(k)*(capC-2)-2+rng.Intn(5))
}

func genFioScript(rng *rand.Rand) *fioScript {
	s := &fioScript{}
	caps := []int{5, 5, 6, 7, 8, 10, 12, 13, 16, 24, 40, 64}
	s.capI, s.capC = caps[rng.Intn(len(caps))], caps[rng.Intn(len(caps))]
	if rng.Intn(3) == 0 {
		s.capC = s.capI
	}
	s.ctype = []byte{0, 1, 3, 1, 2}[rng.Intn(5)]
	for a := 0; a < 3; a++ {
		s.ops = append(s.ops, tchannel.VerifIOOp{Kind: 0, Last: a == 2})
		for i := pick(rng, 0, 1, 1, 1, 2, 3); i > 0; i-- {
			if rng.Intn(6) == 0 {
				s.ops = append(s.ops, tchannel.VerifIOOp{Kind: 2})
			}
			data := []byte(randBytes(rng, fioLen(rng, s.capI, s.capC)))
			s.args[a] = append(s.args[a], data...)
			s.ops = append(s.ops, fioWriteOp(rng, data, s.capC))
			if rng.Intn(8) == 0 {
				s.ops = append(s.ops, tchannel.VerifIOOp{Kind: 2})
			}
		}
		s.ops = append(s.ops, tchannel.VerifIOOp{Kind: 3})
	}
	return s
}

// one argument (the given one of three) written by ONE operation of the given kind; the others empty
func fixedFioScript(capI, capC int, ctype byte, arg int, kind int, data []byte) *fioScript {
	s := &fioScript{capI: capI, capC: capC, ctype: ctype}
	for a := 0; a < 3; a++ {
		s.ops = append(s.ops, tchannel.VerifIOOp{Kind: 0, Last: a == 2})
		if a == arg {
			s.args[a] = data
			s.ops = append(s.ops, tchannel.VerifIOOp{Kind: kind, Data: data, N: 3 * capC, M: 0})
		}
		s.ops = append(s.ops, tchannel.VerifIOOp{Kind: 3})
	}
	return s
}

// run a script on the real writer.  in/obs: the flattened script (every underlying Write call is
// a Write operation of the model) and what each call returned.
func runFio(s *fioScript) (in, obs []int64, frags []*sfrag, verdict string, spans int) {
	p, res, state, done, raw := tchannel.VerifFragWriteIO(s.capI, s.capC, s.ctype, s.ops)
	if p != nil {
		return nil, []int64{1}, nil, fmt.Sprintf("fragmentingWriter panicked on a script within the API grammar: %v", p), 0
	}
	var flat []int64
	nflat := 0
	obs = []int64{0}
	arg := -1
	for i, op := range s.ops {
		r := res[i]
		switch op.Kind {
		case 0:
			arg++
			flat = append(flat, 0, b2i(op.Last))
			nflat++
			obs = append(obs, int64(r.Code))
		case 2:
			flat = append(flat, 2)
			nflat++
			obs = append(obs, int64(r.Code))
		case 3:
			flat = append(flat, 3)
			nflat++
			obs = append(obs, int64(r.Code))
		default:
			for _, c := range r.Calls {
				flat = append(flat, 1)
				flat = putBytes(flat, c.Data)
				nflat++
				obs = append(obs, int64(c.Code), int64(c.N))
				room := s.capC - 2
				sp := 1 + (len(c.Data)+room-1)/imax(room, 1)
				if sp > spans {
					spans = sp
				}
				if c.Code == 0 && c.N != c.Len && verdict == "" {
					verdict = fmt.Sprintf("Write(p) with len(p) = %d returned n = %d and a nil error (argument %d, made by %s; fragment capacities %d/%d, the write spans about %d fragments): "+
						"io.Writer requires n == len(p) when err == nil -- a caller that trusts the count re-sends or drops bytes of the argument", c.Len, c.N, arg+1, fioKindName[op.Kind], s.capI, s.capC, sp)
				}
			}
		}
		if r.Code != 0 && verdict == "" {
			what := "writer operation"
			if n, ok := fioKindName[op.Kind]; ok {
				what = n
			}
			verdict = fmt.Sprintf("%s on the argument writer failed with error code %d (30 = io.ErrShortWrite) on a script within the API grammar (argument %d, %d bytes)", what, r.Code, arg+1, len(op.Data))
		}
	}
	in = append([]int64{int64(s.capI), int64(s.capC), int64(s.ctype), int64(nflat)}, flat...)
	obs = append(obs, int64(state), b2i(done), int64(len(raw)))
	csz := 0
	if s.ctype == 1 || s.ctype == 3 {
		csz = 4
	}
	var all []byte
	for i, r := range raw {
		f, err := parseSFrag(r)
		if err != nil {
			return in, obs, nil, "emitted fragment does not parse per the specification: " + err.Error(), spans
		}
		frags = append(frags, f)
		obs = append(obs, b2i(f.more), int64(len(f.chunks)))
		for _, c := range f.chunks {
			obs = append(obs, int64(len(c)))
			all = append(all, c...)
		}
		capN := s.capC
		if i == 0 {
			capN = s.capI
		}
		if verdict == "" {
			switch {
			case len(r) > 2+csz+capN:
				verdict = fmt.Sprintf("fragment %d has %d payload bytes, capacity %d", i, len(r), 2+csz+capN)
			case len(f.chunks) == 0:
				verdict = fmt.Sprintf("fragment %d carries no chunk", i)
			case f.more != (i != len(raw)-1):
				verdict = fmt.Sprintf("fragment %d of %d has more-fragments flag %v", i, len(raw), f.more)
			case !bytes.Equal(f.ck, specChecksum(f.ctype, all)):
				verdict = fmt.Sprintf("fragment %d: checksum field differs from the independently computed running checksum", i)
			}
		}
	}
	args := denoteSFrags(frags)
	for a := 0; a < 3 && verdict == ""; a++ {
		if len(args) != 3 {
			verdict = fmt.Sprintf("the fragments denote %d arguments, 3 were written", len(args))
		} else if !bytes.Equal(args[a], s.args[a]) {
			verdict = fmt.Sprintf("the caller meant to send %d bytes as argument %d (every call honoured the io.Writer contract), the emitted fragments denote %d bytes%s: "+
				"not the byte string that was written", len(s.args[a]), a+1, len(args[a]), fioFirstDiff(args[a], s.args[a]))
		}
	}
	if !done && verdict == "" {
		verdict = "doneSending not called after the last argument"
	}
	return in, obs, frags, verdict, spans
}

func fioFirstDiff(got, want []byte) string {
	for i := 0; i < len(got) && i < len(want); i++ {
		if got[i] != want[i] {
			return fmt.Sprintf(" (first difference at offset %d)", i)
		}
	}
	return ""
}

// ---- reader ----

type frioScript struct {
	ops  []tchannel.VerifRIOOp
	want [][]byte // per op: the bytes a contract-honouring consumer must end up with (nil = not judged)
	code []int    // per op: the code it must return (-1 = not judged)
}

var frioKindName = map[int]string{1: "Read", 20: "io.ReadFull", 21: "ioutil.ReadAll", 22: "bufio.Reader", 23: "io.Copy(buf, r)", 24: "io.ReadAtLeast", 25: "io.CopyN"}

func genFrioScript(rng *rand.Rand, args [3][]byte, capC int) *frioScript {
	r := &frioScript{}
	add := func(op tchannel.VerifRIOOp, want []byte, code int) {
		r.ops = append(r.ops, op)
		r.want = append(r.want, want)
		r.code = append(r.code, code)
	}
	for a := 0; a < 3; a++ {
		arg := args[a]
		n := len(arg)
		add(tchannel.VerifRIOOp{Kind: 0, Last: a == 2}, nil, 0)
		switch rng.Intn(9) {
		case 0:
			add(tchannel.VerifRIOOp{Kind: 21}, arg, 0)
		case 1:
			add(tchannel.VerifRIOOp{Kind: 23}, arg, 0)
		case 2:
			add(tchannel.VerifRIOOp{Kind: 22, N: pick(rng, 16, 17, 64), M: pick(rng, 1, 3, 16, 100)}, arg, 0)
		case 3:
			// exactly the argument, then Close without having seen end-of-stream
			add(tchannel.VerifRIOOp{Kind: 20, N: n}, arg, 0)
			// (the statement allows this Close to fail -- then everything after it fails -- but never shifted data)
			add(tchannel.VerifRIOOp{Kind: 2}, nil, -1)
			continue
		case 4:
			k := rng.Intn(n + 1)
			add(tchannel.VerifRIOOp{Kind: 20, N: k}, arg[:k], 0)
			add(tchannel.VerifRIOOp{Kind: 21}, arg[k:], 0)
		case 5:
			code := 31 // io.ErrUnexpectedEOF
			if n == 0 {
				code = 12 // io.EOF
			}
			add(tchannel.VerifRIOOp{Kind: 20, N: n + pick(rng, 1, 5, capC)}, arg, code)
		case 6:
			if n > 0 {
				add(tchannel.VerifRIOOp{Kind: 24, N: n + pick(rng, 0, 3), M: n}, arg, 0)
			}
			add(tchannel.VerifRIOOp{Kind: 1, N: 7}, []byte{}, 12)
		case 7:
			k := rng.Intn(n + 1)
			add(tchannel.VerifRIOOp{Kind: 25, N: k}, arg[:k], 0)
			add(tchannel.VerifRIOOp{Kind: 23}, arg[k:], 0)
		default:
			left := arg
			for {
				k := pick(rng, 1, 2, capC-2, capC, 3*capC)
				m := imin(k, len(left))
				code := 0
				if m < k {
					code = 12
				}
				add(tchannel.VerifRIOOp{Kind: 1, N: k}, left[:m], code)
				left = left[m:]
				if code == 12 {
					break
				}
			}
		}
		add(tchannel.VerifRIOOp{Kind: 2}, nil, 0)
	}
	return r
}

func runFrio(frags []*sfrag, rs *frioScript) (in, obs []int64, verdict string) {
	var payloads [][]byte
	for _, f := range frags {
		payloads = append(payloads, f.payload())
	}
	p, res, state, released, finished := tchannel.VerifFragReadIO(payloads, rs.ops)
	if p != nil {
		return nil, []int64{1}, fmt.Sprintf("fragmentingReader panicked: %v", p)
	}
	in = []int64{int64(len(frags))}
	for _, f := range frags {
		in = putSFrag(in, f)
	}
	var flat []int64
	nflat := 0
	obs = []int64{0}
	arg := 0
	dead := false
	for i, op := range rs.ops {
		r := res[i]
		switch op.Kind {
		case 0:
			if i > 0 {
				arg++
			}
			flat = append(flat, 0, b2i(op.Last))
			nflat++
			obs = append(obs, int64(r.Code))
		case 2:
			flat = append(flat, 2)
			nflat++
			obs = append(obs, int64(r.Code))
		default:
			for _, c := range r.Calls {
				flat = append(flat, 1, int64(c.Len))
				nflat++
				obs = append(obs, int64(c.Code), int64(c.N))
				obs = putBytes(obs, c.Data)
				if (c.N < 0 || c.N > c.Len) && verdict == "" {
					verdict = fmt.Sprintf("Read(buf) with len(buf) = %d returned n = %d (argument %d, made by %s): io.Reader requires 0 <= n <= len(buf)", c.Len, c.N, arg+1, frioKindName[op.Kind])
				}
			}
		}
		if verdict != "" {
			continue
		}
		if dead {
			if len(r.Got) > 0 {
				verdict = fmt.Sprintf("%d bytes of data returned for argument %d after an operation had failed", len(r.Got), arg+1)
			}
			continue
		}
		if rs.code[i] < 0 && r.Code != 0 {
			dead = true
			continue
		}
		if rs.code[i] >= 0 && r.Code != rs.code[i] {
			what := "reader operation"
			if n, ok := frioKindName[op.Kind]; ok {
				what = n
			}
			verdict = fmt.Sprintf("%s on the reader of argument %d returned error code %d, want %d (0 nil, 12 io.EOF, 31 io.ErrUnexpectedEOF) on a well-formed message", what, arg+1, r.Code, rs.code[i])
		} else if rs.want[i] != nil && !bytes.Equal(r.Got, rs.want[i]) {
			verdict = fmt.Sprintf("a reader that relies on the io.Reader contract (%s) obtained %d bytes of argument %d where the next %d bytes of what was written were due%s: "+
				"not the byte string that was written", frioKindName[op.Kind], len(r.Got), arg+1, len(rs.want[i]), fioFirstDiff(r.Got, rs.want[i]))
		}
	}
	in = append(in, int64(nflat))
	in = append(in, flat...)
	obs = append(obs, int64(state), int64(released), b2i(finished))
	if verdict == "" && !dead && (state != 4 || !finished || released != len(frags)) {
		verdict = fmt.Sprintf("after a complete read: state %d finished %v released %d of %d fragments", state, finished, released, len(frags))
	}
	return in, obs, verdict
}

func engineFragIO(rng *rand.Rand, n int, tier string, o *Out) {
	emit := func(id string, s *fioScript) {
		in, obs, frags, verdict, spans := runFio(s)
		o.Hist(fmt.Sprintf("w longest single write spans %d fragments", imin(spans, 7)))
		if in != nil {
			o.Case("fragio", "w"+id, in, obs, len(frags) > 1, verdict)
		} else {
			o.Oracle("fragio", "w"+id, true, id, verdict)
		}
		if frags == nil || verdict != "" {
			return
		}
		for k := 0; k < 2; k++ {
			rs := genFrioScript(rng, s.args, s.capC)
			in, obs, verdict := runFrio(frags, rs)
			for _, op := range rs.ops {
				if name, ok := frioKindName[op.Kind]; ok {
					o.Hist("r " + name)
				}
			}
			if in != nil {
				o.Case("fragrio", fmt.Sprintf("r%s_%d", id, k), in, obs, len(frags) > 1, verdict)
			} else {
				o.Oracle("fragrio", fmt.Sprintf("r%s_%d", id, k), true, id, verdict)
			}
		}
	}
	// (1) fixed family: ONE write of k fragment capacities (-1, 0, +1), k = 1..5, by every kind of caller
	id := 0
	for _, capN := range []int{5, 8, 13} {
		for k := 1; k <= 5; k++ {
			for d := -1; d <= 1; d++ {
				length := (capN - 2) + (k-1)*(capN-2) + d
				if length < 0 {
					continue
				}
				for _, kind := range []int{1, 10, 12, 13} {
					data := []byte(randBytes(rng, length))
					emit(fmt.Sprintf("f%d", id), fixedFioScript(capN, capN, byte(pick(rng, 0, 1, 3)), id%3, kind, data))
					id++
				}
			}
		}
	}
	// (2) random scripts
	for c := 0; c < n; c++ {
		s := genFioScript(rng)
		if c < 2 {
			o.Sample(map[string]interface{}{"sub": "fragio", "capI": s.capI, "capC": s.capC, "ctype": s.ctype, "arglens": []int{len(s.args[0]), len(s.args[1]), len(s.args[2])}, "ops": len(s.ops)})
		}
		emit(fmt.Sprintf("%d", c), s)
	}
	// (3) the production capacity (64 KiB frames) through the same seam: one Write across 2, 3, 4 and 6 frames
	prod := []int{70000, 140000, 204800, 330000}
	if tier == "thorough" {
		prod = append(prod, 65517, 131034, 131035, 400000)
	}
	for i, length := range prod {
		data := []byte(randBytes(rng, length))
		kind := []int{1, 13, 10, 12}[i%4]
		s := fixedFioScript(65519-60, 65519-4, 0, 2, kind, data)
		in, obs, frags, verdict, _ := runFio(s)
		o.Hist("w production capacity")
		if in != nil {
			o.Case("fragio", fmt.Sprintf("wp%d", i), in, obs, len(frags) > 1, verdict)
		} else {
			o.Oracle("fragio", fmt.Sprintf("wp%d", i), true, fmt.Sprint(i), verdict)
		}
	}
	// (4) real channels, relay hops
	engineFragIOWire(rng, imax(48, n/2), tier, o)
}

// ---------------------------------------------------------------------------------------
// end to end over real channels

type fioEcho struct {
	mu        sync.Mutex
	arg2      []byte
	arg3      []byte
	readStyle int
	resStyle  int
	err       string
}

func fioReadArg(r tchannel.ArgReader, style int) ([]byte, error) {
	var got []byte
	var err error
	switch style % 4 {
	case 0:
		got, err = ioutil.ReadAll(r)
	case 1:
		var b bytes.Buffer
		_, err = io.Copy(&b, r)
		got = b.Bytes()
	case 2:
		br := bufio.NewReaderSize(r, 4096)
		got, err = ioutil.ReadAll(br)
	default:
		buf := make([]byte, 100000)
		for err == nil {
			var n int
			n, err = r.Read(buf)
			if n < 0 || n > len(buf) {
				return got, fmt.Errorf("Read returned n = %d for a buffer of %d bytes", n, len(buf))
			}
			got = append(got, buf[:n]...)
		}
		if err == io.EOF {
			err = nil
		}
	}
	if err != nil {
		return got, err
	}
	return got, r.Close()
}

// write data to an argument writer in the given style; returns a description of a contract
// violation seen by the caller ("" = none) and the error
func fioWriteArg(w tchannel.ArgWriter, data []byte, style int) (string, error) {
	var err error
	bad := ""
	switch style {
	case 0: // one Write
		var n int
		n, err = w.Write(data)
		if err == nil && n != len(data) {
			bad = fmt.Sprintf("Write(p) with len(p) = %d returned n = %d and a nil error", len(data), n)
		}
	case 1:
		_, err = io.Copy(w, bytes.NewReader(data))
	case 2:
		bw := bufio.NewWriterSize(w, 200000)
		_, err = bw.Write(data)
		if err == nil {
			err = bw.Flush()
		}
	case 3:
		p := data
		for i := 0; len(p) > 0 && err == nil && i < 64; i++ {
			var n int
			n, err = w.Write(p)
			if n < 0 || n > len(p) {
				return fmt.Sprintf("Write(p) with len(p) = %d returned n = %d", len(p), n), err
			}
			p = p[n:]
		}
	case 4: // halves with a flush between
		half := len(data) / 2
		if _, err = w.Write(data[:half]); err == nil {
			if err = w.Flush(); err == nil {
				_, err = w.Write(data[half:])
			}
		}
	case 5: // trailing flush: the last frame carries an empty chunk
		if _, err = w.Write(data); err == nil {
			err = w.Flush()
		}
	case 6: // flush before any data, two data-less flushes at the end
		if err = w.Flush(); err == nil {
			if _, err = w.Write(data); err == nil {
				if err = w.Flush(); err == nil {
					err = w.Flush()
				}
			}
		}
	case 7: // io.Copy from a plain reader (32 KiB writes) and a trailing flush
		if _, err = io.Copy(w, fioOnlyReader{bytes.NewReader(data)}); err == nil {
			err = w.Flush()
		}
	}
	if err != nil {
		return bad, err
	}
	return bad, w.Close()
}

type fioOnlyReader struct{ r io.Reader }

func (v fioOnlyReader) Read(p []byte) (int, error) { return v.r.Read(p) }

var fioStyleName = []string{"one Write", "io.Copy from a bytes.Reader (one Write)", "bufio.Writer (200000)", "loop `n, err := w.Write(p); p = p[n:]`",
	"two Writes with a Flush between", "Write then a trailing Flush (data-less last frame)", "Flush, Write, Flush, Flush (data-less frames)", "io.Copy in 32 KiB Writes then a Flush"}

func (h *fioEcho) Handle(ctx context.Context, call *tchannel.InboundCall) {
	h.mu.Lock()
	rs, ws := h.readStyle, h.resStyle
	h.mu.Unlock()
	fail := func(s string) {
		h.mu.Lock()
		h.err = s
		h.mu.Unlock()
		call.Response().SendSystemError(tchannel.NewSystemError(tchannel.ErrCodeUnexpected, s))
	}
	r2, err := call.Arg2Reader()
	if err != nil {
		fail("handler: arg2 reader: " + err.Error())
		return
	}
	a2, err := fioReadArg(r2, rs)
	if err != nil {
		fail("handler: reading arg2: " + err.Error())
		return
	}
	r3, err := call.Arg3Reader()
	if err != nil {
		fail("handler: arg3 reader: " + err.Error())
		return
	}
	a3, err := fioReadArg(r3, rs+1)
	if err != nil {
		fail("handler: reading arg3: " + err.Error())
		return
	}
	h.mu.Lock()
	h.arg2, h.arg3 = a2, a3
	h.mu.Unlock()
	w2, err := call.Response().Arg2Writer()
	if err != nil {
		fail("handler: arg2 writer: " + err.Error())
		return
	}
	if bad, err := fioWriteArg(w2, a2, 0); err != nil || bad != "" {
		fail(fmt.Sprintf("handler: writing response arg2: %s %v", bad, err))
		return
	}
	w3, err := call.Response().Arg3Writer()
	if err != nil {
		fail("handler: arg3 writer: " + err.Error())
		return
	}
	if bad, err := fioWriteArg(w3, a3, ws); err != nil || bad != "" {
		h.mu.Lock()
		h.err = fmt.Sprintf("handler: writing response arg3 (%s): %s %v", fioStyleName[ws], bad, err)
		h.mu.Unlock()
	}
}

func engineFragIOWire(rng *rand.Rand, n int, tier string, o *Out) {
	mk := func(name string, opts *tchannel.ChannelOptions) *tchannel.Channel {
		ch, err := tchannel.NewChannel(name, opts)
		if err != nil {
			panic(err)
		}
		if err := ch.ListenAndServe("127.0.0.1:0"); err != nil {
			panic(err)
		}
		return ch
	}
	h := &fioEcho{}
	server := mk("svc", nil)
	defer server.Close()
	server.Register(h, "echo")
	var appMu sync.Mutex
	var appends [][2]string
	plainHost := relaytest.NewStubRelayHost()
	relay1 := mk("relay-plain", &tchannel.ChannelOptions{RelayHost: plainHost})
	defer relay1.Close()
	plainHost.Add("svc", server.PeerInfo().HostPort)
	appHost := relaytest.NewStubRelayHost()
	appHost.SetFrameFn(func(f relay.CallFrame, conn *relay.Conn) {
		appMu.Lock()
		defer appMu.Unlock()
		for _, kv := range appends {
			f.Arg2Append([]byte(kv[0]), []byte(kv[1]))
		}
	})
	relayApp := mk("relay-append", &tchannel.ChannelOptions{RelayHost: appHost})
	defer relayApp.Close()
	appHost.Add("svc", server.PeerInfo().HostPort)
	// two hops: relay2 -> relay-append -> svc
	twoHost := relaytest.NewStubRelayHost()
	relay2 := mk("relay-two", &tchannel.ChannelOptions{RelayHost: twoHost})
	defer relay2.Close()
	twoHost.Add("svc", relayApp.PeerInfo().HostPort)
	client, err := tchannel.NewChannel("client", nil)
	if err != nil {
		panic(err)
	}
	defer client.Close()

	routes := []struct {
		name    string
		hp      string
		appends bool
	}{
		{"no relay", server.PeerInfo().HostPort, false},
		{"one relay hop", relay1.PeerInfo().HostPort, false},
		{"one relay hop whose host appends to arg2", relayApp.PeerInfo().HostPort, true},
		{"two relay hops, the second appending to arg2", relay2.PeerInfo().HostPort, true},
	}
	sizes := []int{0, 1, 1000, 65000, 70000, 140000, 204800, 330000}
	failures := 0
	for c := 0; c < n; c++ {
		if failures >= 3 {
			o.Hist("wire cases skipped after 3 failures")
			continue
		}
		// the first cases walk through every route x the styles that matter most; then random
		route := routes[c%len(routes)]
		style := (c / len(routes)) % len(fioStyleName)
		size := sizes[rng.Intn(len(sizes))]
		if c < 4*len(fioStyleName) && style <= 3 {
			size = pick(rng, 140000, 204800, 330000) // a single write across 3+ frames
		}
		if c >= 4*len(fioStyleName) {
			route = routes[rng.Intn(len(routes))]
			style = rng.Intn(len(fioStyleName))
		}
		var orig, app [][2]string
		for i := pick(rng, 0, 1, 2); i > 0; i-- {
			orig = append(orig, [2]string{fmt.Sprintf("k%d", i), randBytes(rng, pick(rng, 0, 1, 10, 200))})
		}
		if route.appends {
			for i := pick(rng, 1, 1, 2); i > 0; i-- {
				app = append(app, [2]string{fmt.Sprintf("a%d", i), randBytes(rng, pick(rng, 0, 3, 100))})
			}
		}
		appMu.Lock()
		appends = app
		appMu.Unlock()
		arg2 := kvBuffer(orig)
		arg3 := []byte(randBytes(rng, size))
		hReadStyle, resStyle := rng.Intn(4), rng.Intn(len(fioStyleName))
		readStyle := rng.Intn(4)
		desc := fmt.Sprintf("arg3 of %d bytes written by %s, %s, response arg3 written by %s", len(arg3), fioStyleName[style], route.name, fioStyleName[resStyle])
		verdict := ""
		// a failure must reproduce 3 times out of 3 (a loaded machine can time a call out)
		attempt := func() {
			verdict = ""
			h.mu.Lock()
			h.arg2, h.arg3, h.err = nil, nil, ""
			h.readStyle, h.resStyle = hReadStyle, resStyle
			h.mu.Unlock()
			ctx, cancel := tchannel.NewContextBuilder(8 * time.Second).SetFormat(tchannel.Thrift).Build()
			defer cancel()
			call, err := client.BeginCall(ctx, route.hp, "svc", "echo", &tchannel.CallOptions{Format: tchannel.Thrift})
			if err != nil {
				verdict = "BeginCall failed: " + err.Error()
				return
			}
			w2, err := call.Arg2Writer()
			if err != nil {
				verdict = "arg2 writer: " + err.Error()
				return
			}
			if bad, err := fioWriteArg(w2, arg2, 0); err != nil || bad != "" {
				verdict = fmt.Sprintf("writing arg2 failed: %s %v", bad, err)
				return
			}
			w3, err := call.Arg3Writer()
			if err != nil {
				verdict = "arg3 writer: " + err.Error()
				return
			}
			bad, err := fioWriteArg(w3, arg3, style)
			if bad != "" {
				verdict = bad + ": io.Writer requires n == len(p) when err == nil -- a caller that trusts the count re-sends or drops bytes of the argument"
				return
			}
			if err != nil {
				verdict = fmt.Sprintf("the writer of a healthy call failed: %v", err)
				return
			}
			rr2, err := call.Response().Arg2Reader()
			var r2, r3 []byte
			if err == nil {
				r2, err = fioReadArg(rr2, readStyle)
			}
			if err == nil {
				var rr3 tchannel.ArgReader
				if rr3, err = call.Response().Arg3Reader(); err == nil {
					r3, err = fioReadArg(rr3, readStyle+1)
				}
			}
			h.mu.Lock()
			herr, ha2, ha3 := h.err, h.arg2, h.arg3
			h.mu.Unlock()
			if err != nil {
				verdict = fmt.Sprintf("the three arguments were written without an error but the call failed, the peer did not read them back: %v %s", err, herr)
				return
			}
			if herr != "" {
				verdict = herr
				return
			}
			pairs, ok := parseKVBuffer(ha2)
			want := append(append([][2]string{}, orig...), app...)
			switch {
			case !bytes.Equal(ha3, arg3):
				verdict = fmt.Sprintf("the peer read back an arg3 of %d bytes, %d were written%s: not the byte string that was written", len(ha3), len(arg3), fioFirstDiff(ha3, arg3))
			case !ok || fmt.Sprint(pairs) != fmt.Sprint(want):
				if !(len(want) == 0 && len(pairs) == 0) {
					verdict = fmt.Sprintf("the peer read back an arg2 with %d pairs (well-formed %v), want the %d written followed by the %d the relay appended", len(pairs), ok, len(orig), len(app))
				}
			case !bytes.Equal(r3, arg3):
				verdict = fmt.Sprintf("the caller read back a response arg3 of %d bytes, the handler wrote %d%s: not the byte string that was written", len(r3), len(arg3), fioFirstDiff(r3, arg3))
			case !bytes.Equal(r2, ha2):
				verdict = "the caller read back a response arg2 that differs from what the handler wrote"
			}
		}
		for try := 0; try < 3; try++ {
			if attempt(); verdict == "" {
				break
			}
		}
		if verdict != "" {
			failures++
			verdict = desc + ": " + verdict
			if strings.Contains(verdict, "\n") {
				verdict = strings.ReplaceAll(verdict, "\n", " ")
			}
		}
		o.Hist("wire " + route.name)
		o.Hist("wire arg3 " + fioStyleName[style])
		o.Oracle("fragiowire", fmt.Sprintf("x%d", c), true, fmt.Sprint(c, route.name, style, resStyle, size, len(orig), len(app)), verdict)
	}
}
