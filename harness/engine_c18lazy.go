package main

// C18 engine c18lazy: hostile call req / call res frames through the relay's REAL lazy parsers
// (newLazyCallReq / newLazyCallRes) and the arg2 iterator a RelayHost is offered, on a frame
// object that held an earlier frame (what the frame pool hands out).
//
// Per base frame (arg scheme thrift / json / raw / none, service, transport headers incl. the
// routing keys, checksum type 0..3 and out of range, arg1, an arg2 of thrift key/value pairs or
// hostile bytes, arg3 present or arg2 running to the end of the frame): the frame itself, EVERY
// truncation point (each with the more-fragments flag set and clear), the arg1 / arg2 length
// fields and the header count / lengths at boundary values (0, 1, 0xFFFE, 0xFFFF; 0xFF), the
// iterator's own count and length fields at boundary values.  The frame object first receives
// an EARLIER frame with the same layout and other pairs ("stale-k", "stale-v"), or is filled
// with a byte: behind the sized payload the array holds parseable stale pairs.
//
// Subs c18lazyreq / c18lazyres: the observation is compared with the model (Model/RelayLazy.v
// lazy_callreq + Model/C18LazyFrame.v); the oracle is written from the statement with an
// independent reading of the wire format (c18lzSpec*): no panic; an accepted frame has its
// offsets inside the sized payload; every yielded key / value is a slice of the SIZED payload
// (located by address, not through the offsets); the pairs are exactly the ones present in the
// arg2 region; a well-formed frame is accepted and shows what was sent.

import (
	"bytes"
	"fmt"
	"math/rand"

	tchannel "github.com/uber/tchannel-go"
)

func init() { engines["c18lazy"] = engineC18Lazy }

type c18lzBase struct {
	isReq    bool
	more     bool
	as       string // "" = no as header
	service  string
	headers  [][2]string
	csumType byte
	arg1     []byte
	arg2     []byte // bytes of arg2 in this frame
	pairs    [][2]string
	hasArg3  bool
	arg3     []byte
	resCode  byte
}

func c18lzKV(pairs [][2]string) []byte {
	b := []byte{byte(len(pairs) >> 8), byte(len(pairs))}
	for _, kv := range pairs {
		b = append(b, str2(kv[0])...)
		b = append(b, str2(kv[1])...)
	}
	return b
}

// c18lzPayload returns the payload and the offsets of: arg1 length, arg2 length, arg2 start.
func c18lzPayload(b *c18lzBase) (p []byte, a1lenOff, a2lenOff, a2start int) {
	flags := byte(0)
	if b.more {
		flags = 1
	}
	p = []byte{flags}
	h := append([][2]string{}, b.headers...)
	if b.isReq {
		p = append(p, rawCallReqHeader(1000, make([]byte, 25), b.service, h)...)
	} else {
		p = append(p, rawCallResHeader(b.resCode, make([]byte, 25), h)...)
	}
	p = append(p, b.csumType)
	switch b.csumType {
	case 1, 2, 3:
		p = append(p, 0xde, 0xad, 0xbe, 0xef)
	}
	a1lenOff = len(p)
	p = append(p, byte(len(b.arg1)>>8), byte(len(b.arg1)))
	p = append(p, b.arg1...)
	a2lenOff = len(p)
	p = append(p, byte(len(b.arg2)>>8), byte(len(b.arg2)))
	a2start = len(p)
	p = append(p, b.arg2...)
	if b.hasArg3 {
		p = append(p, byte(len(b.arg3)>>8), byte(len(b.arg3)))
		p = append(p, b.arg3...)
	}
	return
}

func c18lzGenBase(rng *rand.Rand, isReq bool) *c18lzBase {
	b := &c18lzBase{isReq: isReq}
	b.as = []string{"thrift", "thrift", "thrift", "json", "raw", "", "thrif", "thrift2"}[rng.Intn(8)]
	b.service = "s" + randAlpha(rng, pick(rng, 0, 1, 3, 9))
	if rng.Intn(12) == 0 {
		b.service = ""
	}
	if b.as != "" {
		b.headers = append(b.headers, [2]string{"as", b.as})
	}
	if rng.Intn(2) == 0 {
		b.headers = append(b.headers, [2]string{"cn", "c" + randAlpha(rng, pick(rng, 0, 2, 6))})
	}
	if rng.Intn(4) == 0 {
		b.headers = append(b.headers, [2]string{"rd", "d" + randAlpha(rng, 2)})
	}
	if rng.Intn(4) == 0 {
		b.headers = append(b.headers, [2]string{"rk", "k" + randAlpha(rng, 2)})
	}
	if rng.Intn(5) == 0 {
		b.headers = append(b.headers, [2]string{"x" + randAlpha(rng, pick(rng, 0, 3)), randAlpha(rng, pick(rng, 0, 1, 5))})
	}
	if rng.Intn(8) == 0 && b.as != "" { // a later duplicate wins
		b.headers = append(b.headers, [2]string{"as", pickStr(rng, "thrift", "json", "")})
	}
	rng.Shuffle(len(b.headers), func(i, j int) { b.headers[i], b.headers[j] = b.headers[j], b.headers[i] })
	b.csumType = byte(pick(rng, 0, 0, 1, 2, 3))
	b.arg1 = []byte("m" + randAlpha(rng, pick(rng, 0, 1, 4)))
	if rng.Intn(10) == 0 {
		b.arg1 = nil
	}
	np := pick(rng, 0, 1, 1, 2, 3)
	for i := 0; i < np; i++ {
		b.pairs = append(b.pairs, [2]string{fmt.Sprintf("k%d", i) + randAlpha(rng, pick(rng, 0, 0, 2)), randAlpha(rng, pick(rng, 0, 1, 4))})
	}
	b.arg2 = c18lzKV(b.pairs)
	switch rng.Intn(10) {
	case 0: // hostile arg2: the count / a length at a boundary value, junk, cut pairs
		switch rng.Intn(5) {
		case 0:
			b.arg2 = []byte{}
		case 1:
			b.arg2 = []byte{0}
		case 2:
			if len(b.arg2) >= 2 {
				v := pick(rng, 0, 1, 0xfffe, 0xffff, len(b.pairs)+1)
				b.arg2[0], b.arg2[1] = byte(v>>8), byte(v)
			}
		case 3:
			if len(b.arg2) >= 4 {
				v := pick(rng, 0, 1, 0xfffe, 0xffff)
				b.arg2[2], b.arg2[3] = byte(v>>8), byte(v)
			}
		case 4:
			b.arg2 = []byte(randBytes(rng, pick(rng, 1, 2, 3, 9)))
		}
		b.pairs = nil
	}
	b.hasArg3 = rng.Intn(3) > 0
	b.more = !b.hasArg3 || rng.Intn(4) == 0
	if !b.hasArg3 && rng.Intn(6) == 0 {
		b.more = false // arg2 to the end of the frame without the flag: malformed
	}
	b.arg3 = []byte(randAlpha(rng, pick(rng, 0, 1, 5)))
	b.resCode = byte(pick(rng, 0, 0, 1))
	return b
}

// ---------------------------------------------------------------- the statement's reading of a frame

type c18lzSpecView struct {
	ok             bool // every field up to and including arg2 (and the arg3 length, when arg3 is in this frame) is inside the payload
	as             []byte
	method         []byte
	a2start, a2end int
	frag           bool
	unknownCsum    bool
	a3start        int
}

// c18lzSpecReq reads a call req (isReq) / call res payload field by field from the protocol
// document; ok=false when a field does not fit.
func c18lzSpecParse(p []byte, isReq bool) (v c18lzSpecView) {
	pos := 0
	need := func(n int) bool { return pos+n <= len(p) }
	if isReq {
		if !need(1 + 4 + 25) {
			return
		}
		pos = 30
		if !need(1) {
			return
		}
		sl := int(p[pos])
		pos++
		if !need(sl) {
			return
		}
		pos += sl
	} else {
		if !need(1 + 1 + 25) {
			return
		}
		pos = 27
	}
	if !need(1) {
		return
	}
	nh := int(p[pos])
	pos++
	for i := 0; i < nh; i++ {
		var kv [2][]byte
		for j := 0; j < 2; j++ {
			if !need(1) {
				return
			}
			l := int(p[pos])
			pos++
			if !need(l) {
				return
			}
			kv[j] = p[pos : pos+l]
			pos += l
		}
		if string(kv[0]) == "as" {
			v.as = kv[1]
		}
	}
	if !need(1) {
		return
	}
	ct := p[pos]
	pos++
	if isReq && ct >= 4 {
		v.unknownCsum = true
		return
	}
	if ct >= 1 && ct <= 3 {
		if !need(4) {
			return
		}
		pos += 4
	}
	if !need(2) {
		return
	}
	l1 := int(p[pos])<<8 | int(p[pos+1])
	pos += 2
	if !need(l1) {
		return
	}
	v.method = p[pos : pos+l1]
	pos += l1
	if !need(2) {
		return
	}
	l2 := int(p[pos])<<8 | int(p[pos+1])
	pos += 2
	if !need(l2) {
		return
	}
	v.a2start, v.a2end = pos, pos+l2
	pos += l2
	v.frag = pos == len(p) && len(p) > 0 && p[0]&1 != 0
	if isReq && !v.frag {
		if !need(2) {
			return
		}
		pos += 2
		v.a3start = pos
	}
	v.ok = true
	return
}

// c18lzSpecPairs: the pairs present in a thrift arg2 region: nh:2 then up to nh complete
// (k~2 v~2); fin = all nh pairs were there (or the region is shorter than the count field).
func c18lzSpecPairs(b []byte) (pairs [][2][]byte, fin bool) {
	if len(b) < 2 {
		return nil, true
	}
	n := int(b[0])<<8 | int(b[1])
	pos := 2
	for i := 0; i < n; i++ {
		var kv [2][]byte
		for j := 0; j < 2; j++ {
			if pos+2 > len(b) {
				return pairs, false
			}
			l := int(b[pos])<<8 | int(b[pos+1])
			pos += 2
			if pos+l > len(b) {
				return pairs, false
			}
			kv[j] = b[pos : pos+l]
			pos += l
		}
		pairs = append(pairs, kv)
	}
	return pairs, true
}

// ---------------------------------------------------------------- one case

func c18lzFrameBytes(isReq bool, payload []byte) []byte {
	mt := byte(0x04)
	if isReq {
		mt = 0x03
	}
	return rawFrameBytes(mt, 7, payload)
}

func c18lzModelIn(f *tchannel.Frame, fill byte, earlierLen int) (in []int64, arr []byte, size int) {
	arr, size = tchannel.VerifC18LazyArray(f)
	k := size
	if earlierLen > k {
		k = earlierLen
	}
	in = []int64{int64(size), int64(fill), int64(len(arr))}
	in = putBytes(in, arr[:k])
	return in, arr, size
}

func c18lzReqCase(o *Out, id, kind string, payload, earlier []byte, fill byte, wellFormed *c18lzBase) {
	var ef []byte
	if earlier != nil {
		ef = c18lzFrameBytes(true, earlier)
	}
	f, err := tchannel.VerifC18LazyFrame(fill, ef, c18lzFrameBytes(true, payload))
	if err != nil {
		o.Oracle("c18lazyreq", id, false, id, "harness: cannot read the frame in: "+err.Error())
		return
	}
	in, arr, size := c18lzModelIn(f, fill, len(earlier))
	sized := arr[:size]
	v := tchannel.VerifC18LazyCallReq(f)
	sv := c18lzSpecParse(sized, true)

	var obs []int64
	verdict := ""
	fail := func(format string, a ...interface{}) {
		if verdict == "" {
			fl := -1
			if size > 0 {
				fl = int(sized[0])
			}
			verdict = fmt.Sprintf("call req frame (%s, %d payload bytes, flags %d): ", kind, size, fl) + fmt.Sprintf(format, a...)
		}
	}
	switch {
	case v.Code == -9:
		obs = []int64{-9}
		fail("newLazyCallReq panicked: %s", v.Panic)
	case v.Code != 0:
		obs = []int64{int64(v.Code)}
		if sv.ok {
			fail("a frame whose fields all lie inside the payload is refused (code %d)", v.Code)
		}
	default:
		obs = []int64{0, int64(v.CTOff), int64(v.CType), int64(v.A2Start), int64(v.A2End), b2i(v.A2Frag), int64(v.A3Start)}
		obs = putBytes(obs, v.Method)
		obs = putBytes(obs, v.As)
		switch v.Iter {
		case -9:
			obs = append(obs, -9)
		case 2:
			obs = append(obs, 2)
		default:
			obs = append(obs, b2i(v.IterFin), int64(len(v.Pairs)))
			for _, kv := range v.Pairs {
				obs = putBytes(obs, kv.Key)
				obs = putBytes(obs, kv.Val)
			}
		}
		if v.Arg2Panic {
			obs = append(obs, -9)
		} else {
			obs = putBytes(obs, v.Arg2)
		}
		switch {
		case v.A2Frag:
			obs = append(obs, 0)
		case v.Arg3Panic:
			obs = append(obs, -9)
		default:
			obs = putBytes(obs, v.Arg3)
		}
		// ---- oracle: the statement on an accepted frame
		if v.Iter == -9 || v.Arg2Panic || v.Arg3Panic {
			fail("panic in Arg2Iterator/arg2/arg3 of an accepted frame: %s", v.Panic)
		}
		for _, kv := range v.Pairs {
			for _, x := range []struct {
				b   []byte
				off int
			}{{kv.Key, kv.KeyOff}, {kv.Val, kv.ValOff}} {
				if len(x.b) > 0 && (x.off < 0 || x.off+len(x.b) > size) {
					fail("the arg2 iterator yields %q -> %q: bytes at payload offset %d that are not part of the frame", kv.Key, kv.Val, x.off)
				}
			}
		}
		if v.A2Start < 0 || v.A2End < v.A2Start || v.A2End > size {
			fail("arg2 offsets [%d:%d] are not inside the sized payload", v.A2Start, v.A2End)
		}
		if !sv.ok {
			fail("accepted although a field does not fit the sized payload (a read failed): the relay host is offered arg2 offsets [%d:%d]", v.A2Start, v.A2End)
		}
		if sv.ok {
			if v.A2Start != sv.a2start || v.A2End != sv.a2end || v.A2Frag != sv.frag {
				fail("arg2 located at [%d:%d] fragmented=%v, the frame says [%d:%d] fragmented=%v", v.A2Start, v.A2End, v.A2Frag, sv.a2start, sv.a2end, sv.frag)
			}
			if !bytes.Equal(v.As, sv.as) || !bytes.Equal(v.Method, sv.method) {
				fail("arg scheme / method differ from the frame's")
			}
			if string(sv.as) == "thrift" {
				want, fin := c18lzSpecPairs(sized[sv.a2start:sv.a2end])
				same := v.Iter == 0 && len(want) == len(v.Pairs) && fin == v.IterFin
				for i := 0; same && i < len(want); i++ {
					same = bytes.Equal(want[i][0], v.Pairs[i].Key) && bytes.Equal(want[i][1], v.Pairs[i].Val)
				}
				if !same {
					fail("the arg2 iterator yields %d pair(s) (io.EOF=%v, state %d), the arg2 region of the frame holds %d (complete=%v)", len(v.Pairs), v.IterFin, v.Iter, len(want), fin)
				}
			} else if v.Iter != 2 {
				fail("Arg2Iterator does not refuse arg scheme %q", sv.as)
			}
			if !v.A2Frag && !bytes.Equal(v.Arg3, sized[sv.a3start:]) {
				fail("arg3 is not the rest of the frame")
			}
		}
	}
	if wellFormed != nil && verdict == "" {
		b := wellFormed
		switch {
		case v.Code != 0:
			fail("a well-formed frame is refused (code %d)", v.Code)
		case string(v.Method) != string(b.arg1) || !bytes.Equal(v.Arg2, b.arg2):
			fail("method / arg2 differ from what was sent")
		case b.pairs != nil && string(sv.as) == "thrift" && len(v.Pairs) != len(b.pairs):
			fail("%d pairs sent, %d yielded", len(b.pairs), len(v.Pairs))
		}
	}
	o.Hist("req " + kind)
	o.Case("c18lazyreq", id, in, obs, true, verdict)
}

func c18lzResCase(o *Out, id, kind string, payload, earlier []byte, fill byte, wellFormed *c18lzBase) {
	var ef []byte
	if earlier != nil {
		ef = c18lzFrameBytes(false, earlier)
	}
	f, err := tchannel.VerifC18LazyFrame(fill, ef, c18lzFrameBytes(false, payload))
	if err != nil {
		o.Oracle("c18lazyres", id, false, id, "harness: cannot read the frame in: "+err.Error())
		return
	}
	in, arr, size := c18lzModelIn(f, fill, len(earlier))
	sized := arr[:size]
	v := tchannel.VerifC18LazyCallRes(f)
	sv := c18lzSpecParse(sized, false)
	var obs []int64
	verdict := ""
	fail := func(format string, a ...interface{}) {
		if verdict == "" {
			verdict = fmt.Sprintf("call res frame (%s, %d payload bytes): ", kind, size) + fmt.Sprintf(format, a...)
		}
	}
	switch {
	case v.Code == -9:
		obs = []int64{-9}
		fail("newLazyCallRes panicked: %s", v.Panic)
	case v.Code != 0:
		obs = []int64{int64(v.Code)}
		if sv.ok {
			fail("a frame whose fields all lie inside the payload is refused")
		}
	default:
		obs = []int64{0, b2i(v.Frag)}
		obs = putBytes(obs, v.As)
		obs = putBytes(obs, v.Arg2)
		if !sv.ok {
			fail("accepted although a field does not fit the sized payload (a read failed)")
		} else {
			if len(v.Arg2) > 0 && (v.Arg2Off != sv.a2start || v.Arg2Off+len(v.Arg2) > size) {
				fail("Arg2() is payload[%d:%d], the frame says [%d:%d]", v.Arg2Off, v.Arg2Off+len(v.Arg2), sv.a2start, sv.a2end)
			}
			if !bytes.Equal(v.Arg2, sized[sv.a2start:sv.a2end]) || !bytes.Equal(v.As, sv.as) {
				fail("Arg2() / ArgScheme() differ from the frame's")
			}
			// a call res frame is fragmented in arg2 when arg2 runs to the end of a frame that has the flag;
			// the flag byte of an EMPTY payload does not exist
			wantFrag := sv.a2end == size && sized[0]&1 != 0
			if v.Frag != wantFrag {
				fail("Arg2IsFragmented()=%v, the frame says %v", v.Frag, wantFrag)
			}
		}
	}
	if wellFormed != nil && verdict == "" && (v.Code != 0 || !bytes.Equal(v.Arg2, wellFormed.arg2)) {
		fail("a well-formed frame is refused or shows another arg2 (code %d)", v.Code)
	}
	o.Hist("res " + kind)
	o.Case("c18lazyres", id, in, obs, true, verdict)
}

// ---------------------------------------------------------------- engine

func engineC18Lazy(rng *rand.Rand, n int, tier string, o *Out) {
	count := 0
	emit := func(isReq bool, kind string, payload, earlier []byte, fill byte, wf *c18lzBase) {
		id := fmt.Sprintf("z%d", count)
		count++
		if isReq {
			c18lzReqCase(o, id, kind, payload, earlier, fill, wf)
		} else {
			c18lzResCase(o, id, kind, payload, earlier, fill, wf)
		}
	}
	for bi := 0; count < n; bi++ {
		isReq := bi%4 != 3
		b := c18lzGenBase(rng, isReq)
		if bi == 0 { // the reviewer's frame family first: thrift, flag set, nothing behind the arg2 length
			b = &c18lzBase{isReq: true, more: true, as: "thrift", service: "svc", headers: [][2]string{{"as", "thrift"}, {"cn", "c"}},
				arg1: []byte("m"), pairs: [][2]string{{"k", "v"}}, arg2: c18lzKV([][2]string{{"k", "v"}})}
		}
		payload, a1lenOff, a2lenOff, a2start := c18lzPayload(b)
		// the earlier frame in the same frame object: same layout, other (parseable) pairs, longer
		sb := *b
		sb.pairs = [][2]string{{"stale-k0", "stale-v0"}, {"stale-k1", "stale-v1"}, {"stale-k2", ""}}
		sb.arg2 = c18lzKV(sb.pairs)
		sb.hasArg3, sb.more, sb.arg3 = true, false, []byte("stale-arg3-stale-arg3")
		stale, _, _, _ := c18lzPayload(&sb)
		var earlier []byte
		fill := byte(pick(rng, 0, 0xff, 0x55, 1))
		if rng.Intn(5) > 0 || bi == 0 {
			earlier = stale
		}
		wf := b
		if b.pairs == nil || b.csumType > 3 || (!b.hasArg3 && !b.more) {
			wf = nil
		}
		emit(isReq, "base", payload, earlier, fill, wf)

		flip := func(p []byte) []byte {
			q := append([]byte{}, p...)
			if len(q) > 0 {
				q[0] ^= 1
			}
			return q
		}
		// every truncation point, flag as it is and flipped
		cuts := []int{}
		if len(payload) <= 120 || tier != "quick" && len(payload) <= 400 {
			for c := 0; c < len(payload); c++ {
				cuts = append(cuts, c)
			}
		} else {
			for i := 0; i < 40; i++ {
				cuts = append(cuts, rng.Intn(len(payload)))
			}
			cuts = append(cuts, a1lenOff, a1lenOff+1, a1lenOff+2, a2lenOff, a2lenOff+1, a2start, a2start+1, len(payload)-1)
		}
		for _, c := range cuts {
			if count >= n {
				break
			}
			if c < a1lenOff && c%3 != bi%3 && c > 1 { // thin out the cuts inside the fixed header
				continue
			}
			emit(isReq, "cut", payload[:c], earlier, fill, nil)
			emit(isReq, "cut-flip", flip(payload[:c]), earlier, fill, nil)
		}
		// length fields at boundary values: untouched rest, and the payload ending right behind the field
		for _, off := range []int{a1lenOff, a2lenOff} {
			for _, val := range []int{0, 1, 0xfffe, 0xffff, len(payload) - off - 2, len(payload) - off - 1, len(payload) - off - 3, len(sb.arg2)} {
				if count >= n || val < 0 {
					continue
				}
				q := append([]byte{}, payload...)
				q[off], q[off+1] = byte(val>>8), byte(val)
				emit(isReq, "len-field", q, earlier, fill, nil)
				emit(isReq, "len-field-end", q[:off+2], earlier, fill, nil)
				emit(isReq, "len-field-end-flip", flip(q[:off+2]), earlier, fill, nil)
				if off+3 <= len(q) {
					emit(isReq, "len-field-end+1", flip(q[:off+3]), earlier, fill, nil)
				}
			}
		}
		// header count / a header length / service length / checksum type at boundary values
		hdrOff := 31 + len(b.service)
		if !isReq {
			hdrOff = 27
		}
		for _, e := range [][2]int{{hdrOff, 0}, {hdrOff, 1}, {hdrOff, 0xff}, {hdrOff + 1, 0xff}, {hdrOff + 1, 0}, {30, 0xff}, {30, 0}, {a1lenOff - 1, 4}, {a1lenOff - 1, 0xff}, {a1lenOff - 1, 2}} {
			if count >= n || e[0] >= len(payload) || (b.csumType != 0 && e[0] == a1lenOff-1) {
				continue
			}
			q := append([]byte{}, payload...)
			q[e[0]] = byte(e[1])
			emit(isReq, "byte-field", q, earlier, fill, nil)
		}
		// a frame that was larger before: the same frame again after a LONGER earlier one with the flag
		if count < n {
			emit(isReq, "empty", []byte{}, earlier, fill, nil)
		}
		if count < n && rng.Intn(4) == 0 {
			big := *b
			big.pairs = nil
			big.arg2 = append(c18lzKV([][2]string{{"big", randAlpha(rng, 900)}}), []byte(randAlpha(rng, pick(rng, 0, 700)))...)
			bp, _, bl2, _ := c18lzPayload(&big)
			emit(isReq, "big", bp, earlier, fill, nil)
			emit(isReq, "big-cut", bp[:bl2+2+rng.Intn(len(big.arg2))], earlier, fill, nil)
			emit(isReq, "big-cut-flip", flip(bp[:bl2+2]), earlier, fill, nil)
		}
	}
	o.Sample(map[string]interface{}{"cases": count})
}
