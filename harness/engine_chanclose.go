package main

// C07 engine "chanclose": a real listening Channel (with a relay host, so that pending relayed
// calls can hold a connection in StartClose) over 1..3 real connections to raw peers.  The
// operations -- Channel.Close (any number of times), the end of a relayed call, a response to an
// outbound call, a connection error, Connection.Close, a handshake that completes while the
// channel is closing -- run one at a time; the schedule points chan.Close.afterUnlock,
// chan.closeStateChange.afterRead and chan.closeStateChange.afterMinState park them inside
// Channel.Close / connectionCloseStateChange so that the others interleave with them.
// Every schedule point records a snapshot (channel state, ClosedChan, tracked connections and
// their states).  The recorded run is translated into labels of the channel model
// (Model/ChanClose.v: connection moves, callback starts, thread steps) and replayed on the
// extracted model, which must accept every label and predict the same channel observables at
// every schedule point.
//
// Third strengthening: (a) a quarter of the worlds start as a pure CLIENT channel (no
// ListenAndServe; the connections are outbound, to raw peers that listen), and Channel.Serve /
// Channel.ListenAndServe are operations of every world, issued at random points of the script
// (before Close, after Close, with Close parked after its locked region, repeatedly); they are
// threads of the model (PSrv / PLs1), their returned error is the thread's outcome.  Oracle, from
// the statement: the state never moves backwards, a Serve on a channel that is closing or closed
// fails, one on a listening channel fails with errAlreadyListening, one on a fresh client
// succeeds; when a Serve succeeded after Close a raw peer then dials the listener and sends a
// call, which must not be served.  (b) chan.closeStateChange.enter is one of the points an
// operation can be parked at, and a directed schedule forces "the connection closes on its own |
// its last callback is parked at enter (closed, still tracked) | Channel.Close | resume": Close
// defers to the callback, the callback must finish the close.

import (
	"fmt"
	"math/rand"
	"net"
	"os"
	"sort"
	"time"

	tchannel "github.com/uber/tchannel-go"
	"golang.org/x/net/context"
)

func init() { engines["chanclose"] = engineChanClose }

type chConn struct {
	idx     int
	conn    *tchannel.Connection // nil for a connection that was never added (late handshake)
	connID  uint32
	peer    *c07Peer
	out     map[uint32]*ccOutCall
	pending int
	enters  int // callbacks seen (late connections: their state is inferred from it)
}

type chCb struct {
	tid       int
	conn      *chConn
	chAtRead  int
	afterRead bool
}

type chActor struct {
	name      string
	closeTid  int // model thread of a Channel.Close actor, else -1
	remaining []int
	unlocked  bool
	cur       *chCb
	wasClosed bool // Close actor: the channel was already Closed when Close was called
	park      *c07Park
	done      chan struct{}
	finished  bool
	mask      []string
}

type chWorld struct {
	ch          *tchannel.Channel
	ctl         *c07Ctl
	conns       []*chConn
	byID        map[uint32]*chConn
	known       []int
	ops         []int64
	obs         []int64
	nops        int64
	nthreads    int
	actors      []*chActor
	pre         []net.Conn
	chStates    []int
	verdicts    []string
	infeasible  bool
	closeIssued bool
	lateSeen    map[uint32]bool
	outc        []func() int64 // expected outcome of every model thread, in thread order
	client      bool           // the world started as a client channel (no ListenAndServe)
	lisTried    bool           // ListenAndServe / Serve was called at least once
	nserve      int
	stuckSeen   bool
	servedLate  string // address of a listener that a Serve call made AFTER Close got the channel to serve
	hs          *c07Handlers
}

func (w *chWorld) fail(v string) { w.verdicts = append(w.verdicts, v) }

// snapshot: chState closed nTracked (state tracked)* for every connection with a known object
func (w *chWorld) snap() []int64 {
	closed := int64(0)
	select {
	case <-w.ch.ClosedChan():
		closed = 1
	default:
	}
	tr := map[uint32]bool{}
	for _, c := range tchannel.VerifC07Conns(w.ch) {
		tr[tchannel.VerifC07ConnID(c)] = true
	}
	s := []int64{int64(w.ch.State()), closed, int64(len(tr))}
	for _, c := range w.conns {
		if c.conn == nil {
			s = append(s, -1, 0)
			continue
		}
		s = append(s, int64(tchannel.VerifC07State(c.conn)), b2i(tr[c.connID]))
	}
	return s
}

func (w *chWorld) emit(op, a, b int64) {
	w.ops = append(w.ops, op, a, b)
	w.nops++
}

// judge applies the statement-level checks to one snapshot and records the compared part.
func (w *chWorld) observe(s []int64) {
	w.emit(8, 0, 0)
	w.obs = append(w.obs, s[0], s[2], s[1])
	st := int(s[0])
	if n := len(w.chStates); n > 0 && st < w.chStates[n-1] {
		tag := ""
		if w.chStates[n-1] == 4 && st == 3 {
			tag = "[c07:close-state-regress] "
		}
		w.fail(fmt.Sprintf("%schannel state moved backwards: %d -> %d", tag, w.chStates[n-1], st))
	}
	w.chStates = append(w.chStates, st)
	if s[1] == 1 && st != 5 {
		w.fail(fmt.Sprintf("ClosedChan is closed while the channel state is %d", st))
	}
	for i := 0; 3+2*i+1 < len(s); i++ {
		cs, tracked := s[3+2*i], s[3+2*i+1]
		if tracked == 1 && st == 5 && cs != 4 {
			w.fail(fmt.Sprintf("channel reports Closed while tracked connection %d is in state %d", i, cs))
		}
		if tracked == 1 && st >= 4 && cs < 3 {
			w.fail(fmt.Sprintf("channel state %d (inbound closed or beyond) while tracked connection %d is only in state %d", st, i, cs))
		}
	}
}

func minTracked(s []int64) int64 {
	m := int64(4)
	for i := 0; 3+2*i+1 < len(s); i++ {
		if s[3+2*i+1] == 1 && s[3+2*i] < m {
			m = s[3+2*i]
		}
	}
	return m
}

func updateTo(min int64, chState int) int {
	if min >= 4 {
		return 5
	}
	if min >= 3 && chState == 3 {
		return 4
	}
	return 0
}

// syncConns reports connection state changes (seen in snapshot s) to the model.
func (w *chWorld) syncConns(s []int64, a *chActor) {
	for i, c := range w.conns {
		if c.conn == nil || 3+2*i >= len(s) {
			continue
		}
		cur := int(s[3+2*i])
		if cur == w.known[i] {
			continue
		}
		if a != nil && a.closeTid >= 0 && a.unlocked && w.known[i] == 1 {
			for k, r := range a.remaining {
				if r == i { // the Close loop's c.close() on an active connection
					a.remaining = append(a.remaining[:k], a.remaining[k+1:]...)
					w.emit(7, int64(a.closeTid), int64(i))
					w.obs = append(w.obs, 1)
					w.known[i] = 2
					break
				}
			}
		}
		if cur != w.known[i] {
			w.emit(2, int64(i), int64(cur))
			w.known[i] = cur
		}
	}
}

func (w *chWorld) endCb(a *chActor) {
	if a.cur != nil {
		w.emit(6, int64(a.cur.tid), 0)
		w.obs = append(w.obs, 0)
		a.cur = nil
	}
}

// translate turns the schedule-point events of one run segment of actor a into model labels.
// It returns true when the actor is parked after a scan that produced no update: the model
// thread is finished there, so the goroutine is released at once.
func (w *chWorld) translate(evs []c07Event, a *chActor) (autoRelease bool) {
	for _, e := range evs {
		switch e.Name {
		case ptClUnlock:
			a.unlocked = true
			w.emit(6, int64(a.closeTid), 1<<1)
			w.obs = append(w.obs, 1)
			a.remaining = nil
			for i := range w.conns {
				if a.wasClosed { // Close returned early from its locked region: no connection is closed by it
					break
				}
				if 3+2*i+1 < len(e.Snap) && e.Snap[3+2*i+1] == 1 {
					a.remaining = append(a.remaining, i)
				}
			}
			w.observe(e.Snap)
		case ptCbEnter:
			w.endCb(a)
			c := w.byID[e.ID]
			if c == nil { // a connection the channel refused to add: first callback after its close()
				c = w.lateConn(e.ID)
				if c == nil { // an event of a channel of an earlier case that is still winding down
					continue
				}
			}
			if c.conn == nil {
				c.enters++
				if c.enters == 2 { // second callback: the connection drained and closed
					w.emit(2, int64(c.idx), 4)
					w.known[c.idx] = 4
				}
			}
			w.syncConns(e.Snap, a)
			w.emit(4, int64(c.idx), 0)
			a.cur = &chCb{tid: w.nthreads, conn: c}
			w.nthreads++
			w.outc = append(w.outc, func() int64 { return 3 })
			w.observe(e.Snap)
		case ptRmLock:
			if a.cur == nil {
				continue
			}
			w.emit(6, int64(a.cur.tid), 1<<5)
			w.obs = append(w.obs, 5)
			w.observe(e.Snap)
		case ptCbRead:
			if a.cur == nil {
				w.fail("harness: afterRead without a callback in progress")
				continue
			}
			a.cur.chAtRead = int(e.Snap[0])
			a.cur.afterRead = true
			w.emit(6, int64(a.cur.tid), 1<<3)
			w.obs = append(w.obs, 3)
			w.observe(e.Snap)
		case ptCbMin:
			if a.cur == nil {
				continue
			}
			w.syncConns(e.Snap, a)
			if updateTo(minTracked(e.Snap), a.cur.chAtRead) > 0 {
				w.emit(6, int64(a.cur.tid), 1<<4)
				w.obs = append(w.obs, 4)
				autoRelease = false
			} else {
				w.emit(6, int64(a.cur.tid), 0)
				w.obs = append(w.obs, 0)
				a.cur = nil
				autoRelease = true
			}
			w.observe(e.Snap)
		}
	}
	return autoRelease
}

func (w *chWorld) lateConn(id uint32) *chConn {
	for _, c := range w.conns {
		if c.conn == nil && c.connID == 0 {
			c.connID = id
			w.byID[id] = c
			return c
		}
	}
	return nil
}

// run lets actor a go until it parks at one of the armed points or finishes.
func (w *chWorld) run(a *chActor, armed []string, start func()) bool {
	for {
		from := w.ctl.logLen()
		w.ctl.arm(armed...)
		if a.park != nil {
			p := a.park
			a.park = nil
			close(p.resume)
		} else if start != nil {
			start()
			start = nil
		}
		p, ok := w.ctl.await(a.done, 3*time.Second)
		w.ctl.disarm()
		if !ok {
			w.infeasible = true
			return false
		}
		if p == nil {
			time.Sleep(300 * time.Microsecond)
		}
		evs := w.ctl.events(from)
		auto := w.translate(evs, a)
		if p != nil {
			a.park = p
			if p.Name == ptCbMin && auto {
				continue // the model thread is done: let the goroutine finish the callback
			}
			return true
		}
		// finished
		a.finished = true
		w.endCb(a)
		s := w.snap()
		w.syncConns(s, a)
		if a.closeTid >= 0 {
			if a.unlocked {
				sort.Ints(a.remaining)
				for _, i := range a.remaining { // c.close() on connections that were not active: no effect
					w.emit(7, int64(a.closeTid), int64(i))
					w.obs = append(w.obs, 1)
				}
				a.remaining = nil
			}
			w.emit(6, int64(a.closeTid), 0)
			w.obs = append(w.obs, 0)
		}
		w.observe(s)
		return true
	}
}

func (w *chWorld) newActor(name string, closeTid int) *chActor {
	a := &chActor{name: name, closeTid: closeTid, done: make(chan struct{})}
	w.actors = append(w.actors, a)
	return a
}

func armSet(rng *rand.Rand, p float64, names ...string) []string {
	var out []string
	for _, n := range names {
		if rng.Float64() < p {
			out = append(out, n)
		}
	}
	return out
}

// ---- operations ----------------------------------------------------------------------

func (w *chWorld) opClose(armed []string) bool {
	w.emit(3, 0, 0)
	a := w.newActor("close", w.nthreads)
	a.wasClosed = w.ch.State() == 5
	w.nthreads++
	w.outc = append(w.outc, func() int64 { return 1 })
	w.closeIssued = true
	return w.run(a, armed, func() { go func() { w.ch.Close(); close(a.done) }() })
}

func (w *chWorld) opRelayAdmit(c *chConn) {
	if _, ok := tchannel.VerifC07RelayAdmit(c.conn); ok {
		c.pending++
	}
}

func (w *chWorld) opRelayDone(c *chConn, armed []string) bool {
	c.pending--
	a := w.newActor("relay-done", -1)
	return w.run(a, armed, func() { go func() { tchannel.VerifC07RelayDone(c.conn); close(a.done) }() })
}

func (w *chWorld) opBeginCall(c *chConn) {
	ctx, _ := context.WithTimeout(context.Background(), 60*time.Second)
	call, id, err := tchannel.VerifC07BeginCall(ctx, c.conn, "peer", "m")
	if err != nil {
		if w.known[c.idx] == 1 && tchannel.VerifC07State(c.conn) == 1 {
			w.fail(fmt.Sprintf("beginCall on an active connection failed: %v", err))
		}
		return
	}
	oc := &ccOutCall{id: id, call: call, finished: make(chan struct{})}
	e := tchannel.NewArgWriter(call.Arg2Writer()).Write([]byte("a2"))
	if e == nil {
		e = tchannel.NewArgWriter(call.Arg3Writer()).Write([]byte("a3"))
	}
	go func() {
		var r2, r3 []byte
		e := tchannel.NewArgReader(oc.call.Response().Arg2Reader()).Read(&r2)
		if e == nil {
			e = tchannel.NewArgReader(oc.call.Response().Arg3Reader()).Read(&r3)
		}
		oc.resErr = e
		oc.resOK = e == nil && string(r3) == fmt.Sprintf("r3-%d", oc.id)
		close(oc.finished)
	}()
	c.out[id] = oc
}

func (w *chWorld) opResponse(c *chConn, id uint32, armed []string) bool {
	oc := c.out[id]
	delete(c.out, id)
	a := w.newActor("response", -1)
	a.done = oc.finished
	ok := w.run(a, armed, func() {
		if err := c.peer.sendCallRes(id); err != nil {
			w.infeasible = true
		}
	})
	if ok && a.finished && !oc.resOK {
		w.fail(fmt.Sprintf("outbound call %d was begun before Close; the peer's response was not delivered (%v)", id, oc.resErr))
	}
	return ok
}

func (w *chWorld) opConnError(c *chConn, armed []string) bool {
	a := w.newActor("conn-error", -1)
	return w.run(a, armed, func() { go func() { tchannel.VerifC07ConnectionError(c.conn); close(a.done) }() })
}

func (w *chWorld) opConnClose(c *chConn, armed []string) bool {
	a := w.newActor("conn-close", -1)
	return w.run(a, armed, func() { go func() { c.conn.Close(); close(a.done) }() })
}

// opServe calls Channel.Serve (on a fresh loopback listener) or Channel.ListenAndServe.  Nothing else
// runs during the call (the other operations are parked or finished), so the state read before the
// call is the state the call finds.  Model: a new thread PSrv / PLs1, run to its end.
func (w *chWorld) opServe(las bool) bool {
	before := int(w.ch.State())
	var err error
	addr := ""
	if las {
		// a concrete free port, so that the address can be probed when the call is refused
		l0, lerr := net.Listen("tcp", "127.0.0.1:0")
		if lerr != nil {
			w.infeasible = true
			return false
		}
		addr = l0.Addr().String()
		l0.Close()
		err = w.ch.ListenAndServe(addr)
	} else {
		l, lerr := net.Listen("tcp", "127.0.0.1:0")
		if lerr != nil {
			w.infeasible = true
			return false
		}
		addr = l.Addr().String()
		if err = w.ch.Serve(l); err != nil {
			l.Close()
		}
	}
	kind := tchannel.VerifC07ServeErrKind(err)
	if kind == 9 {
		w.infeasible = true
		return false
	}
	w.nserve++
	if las {
		w.emit(10, 0, 0)
	} else {
		w.emit(9, 0, 0)
	}
	tid := w.nthreads
	w.nthreads++
	w.emit(6, int64(tid), 0)
	w.obs = append(w.obs, 0)
	out := int64(8 + kind)
	w.outc = append(w.outc, func() int64 { return out })
	name := "Serve"
	if las {
		name = "ListenAndServe"
	}
	// the statement: only a channel that is neither listening nor closing can start to serve
	switch {
	case before >= 3 && kind == 0:
		w.fail(fmt.Sprintf("%s on a channel in state %d (Close was called) returned nil: the channel serves again, state is now %d", name, before, w.ch.State()))
		w.servedLate = addr
	case before == 2 && kind != 1:
		w.fail(fmt.Sprintf("%s on a listening channel returned %v, want errAlreadyListening", name, err))
	case before == 1 && !w.lisTried && kind != 0:
		w.fail(fmt.Sprintf("%s on a fresh client channel failed: %v", name, err))
	case kind == 0 && w.ch.State() < 2:
		w.fail(fmt.Sprintf("%s returned nil but the channel state is %d", name, w.ch.State()))
	}
	w.lisTried = true
	if las && kind != 0 && before >= 3 {
		w.probeRefusedListen(addr, before, err)
	}
	w.observe(w.snap())
	return true
}

// probeRefusedListen: ListenAndServe(addr) was refused on a channel that is closing or closed.  A peer
// that dials addr afterwards must be refused too (clause (b): not served, not silently dropped);
// if the socket ListenAndServe opened is still bound, the peer gets a TCP connection that nobody
// accepts and its init req is never answered.  Alarm only when the address cannot be bound again,
// a dial succeeds and the init req stays unanswered for 300 ms, three times in a row.
func (w *chWorld) probeRefusedListen(addr string, before int, lerr error) {
	for try := 0; try < 3; try++ {
		if l2, err := net.Listen("tcp", addr); err == nil {
			l2.Close()
			return
		}
		sock, err := net.DialTimeout("tcp", addr, 300*time.Millisecond)
		if err != nil {
			return
		}
		herr := writeRawFrame(sock, 0x01, 1, rawInitPayload(2, defaultInitParams))
		if herr == nil {
			_, herr = readRawFrame(sock, 300*time.Millisecond)
		}
		sock.Close()
		if herr == nil {
			return // somebody answers there (not this channel's business)
		}
	}
	w.fail(fmt.Sprintf("[c07:listen-refused-leaks-listener] ListenAndServe(%q) on a channel in state %d returned %q but left the address bound: a peer that dials it gets a TCP connection and its init req is never answered (3/3)", "127.0.0.1:<p>", before, lerr))
}

// probeLate: a Serve call made after Close succeeded.  A raw peer connects to that listener and
// sends a call: whatever the channel does with it, it must not serve it (clause (b)).
func (w *chWorld) probeLate() {
	sock, err := net.DialTimeout("tcp", w.servedLate, 500*time.Millisecond)
	if err != nil {
		return
	}
	defer sock.Close()
	sock.SetDeadline(time.Now().Add(time.Second))
	if _, err := rawClientHandshake(sock); err != nil {
		return
	}
	sock.SetDeadline(time.Time{})
	p := newC07Peer(sock)
	if p.sendCallReq(77, 2000) != nil {
		return
	}
	deadline := time.Now().Add(500 * time.Millisecond)
	for time.Now().Before(deadline) {
		if p.gotRes(77) {
			w.fail(fmt.Sprintf("a call that arrived after Close (on the listener given to the late Serve) was served: call res received, channel state %d", w.ch.State()))
			return
		}
		if len(p.errFrames()) > 0 {
			return
		}
		select {
		case <-p.eof:
			return
		case <-time.After(2 * time.Millisecond):
		}
	}
}

// opLateHandshake completes the handshake of a socket that was accepted before Close: the channel
// must refuse to track the new connection and close it.
func (w *chWorld) opLateHandshake(armed []string) bool {
	sock := w.pre[0]
	w.pre = w.pre[1:]
	c := &chConn{idx: len(w.conns), out: map[uint32]*ccOutCall{}}
	w.conns = append(w.conns, c)
	w.known = append(w.known, 1)
	w.emit(1, 0, 0)
	adder := w.nthreads
	w.nthreads++
	w.outc = append(w.outc, func() int64 { return 5 })
	w.emit(6, int64(adder), 0) // addConnection fails, c.close(): the connection is in StartClose
	w.obs = append(w.obs, 0)
	w.known[c.idx] = 2
	a := w.newActor("late-handshake", -1)
	eof := make(chan struct{})
	a.done = eof
	ok := w.run(a, armed, func() {
		go func() {
			if _, err := rawClientHandshake(sock); err != nil {
				close(eof)
				return
			}
			c.peer = newC07Peer(sock)
			<-c.peer.eof
			time.Sleep(500 * time.Microsecond)
			close(eof)
		}()
	})
	if ok && a.finished && c.enters != 2 {
		w.fail(fmt.Sprintf("a connection whose handshake completed while the channel was closing produced %d close callbacks (expected its close and its drain)", c.enters))
	}
	return ok
}

func (w *chWorld) parkedActors() []*chActor {
	var out []*chActor
	for _, a := range w.actors {
		if a.park != nil {
			out = append(out, a)
		}
	}
	return out
}

func newChWorld(rng *rand.Rand, nconns, npre int, client bool) (*chWorld, error) {
	w := &chWorld{byID: map[uint32]*chConn{}, lateSeen: map[uint32]bool{}, client: client}
	w.hs = &c07Handlers{m: map[uint32][]*c07Handler{}}
	ch, err := c07NewChannel("svc", true, w.hs)
	if err != nil {
		return nil, err
	}
	w.ch = ch
	if !client {
		if err := ch.ListenAndServe("127.0.0.1:0"); err != nil {
			return nil, err
		}
		w.emit(0, 0, 0)
		w.lisTried = true
	}
	known := map[uint32]bool{}
	for i := 0; i < nconns; i++ {
		var peer *c07Peer
		var conn *tchannel.Connection
		var err error
		if client {
			peer, conn, err = c07xDialOut(ch, known)
		} else {
			peer, conn, err = c07Dial(ch, known)
		}
		if err != nil {
			ch.Close()
			return nil, err
		}
		c := &chConn{idx: i, conn: conn, connID: tchannel.VerifC07ConnID(conn), peer: peer, out: map[uint32]*ccOutCall{}}
		w.conns = append(w.conns, c)
		w.byID[c.connID] = c
		w.known = append(w.known, 1)
		w.emit(1, 0, 0)
		w.emit(6, int64(w.nthreads), 0)
		w.obs = append(w.obs, 0)
		w.nthreads++
		w.outc = append(w.outc, func() int64 { return 4 })
	}
	for i := 0; i < npre && !client; i++ {
		sock, err := net.DialTimeout("tcp", ch.PeerInfo().HostPort, 2*time.Second)
		if err != nil {
			ch.Close()
			return nil, err
		}
		w.pre = append(w.pre, sock)
	}
	if npre > 0 && !client {
		time.Sleep(2 * time.Millisecond) // let the accept loop take the sockets before Close shuts the listener
	}
	w.ctl = newC07Ctl()
	w.ctl.snap = w.snap
	w.observe(w.snap())
	return w, nil
}

func (w *chWorld) cleanup() {
	w.ctl.disarm()
	for _, a := range w.actors {
		if a.park != nil {
			close(a.park.resume)
			a.park = nil
		}
	}
	w.ctl.drain()
	for _, c := range w.conns {
		if c.peer != nil {
			c.peer.conn.Close()
		}
	}
	for _, s := range w.pre {
		s.Close()
	}
	w.ch.Close()
	select { // let the channel finish its callbacks before the next case installs its hook
	case <-w.ch.ClosedChan():
	case <-time.After(300 * time.Millisecond):
	}
	w.ctl.close()
}

func (w *chWorld) liveConns() []*chConn {
	var out []*chConn
	for _, c := range w.conns {
		if c.conn != nil && tchannel.VerifC07State(c.conn) != 4 {
			out = append(out, c)
		}
	}
	return out
}

func (w *chWorld) step(rng *rand.Rand, ncloses *int, pPark float64) (string, bool) {
	type cand struct {
		name string
		wt   int
		f    func() bool
	}
	var cs []cand
	arm := func() []string {
		a := armSet(rng, pPark, ptClUnlock, ptCbRead, ptCbMin)
		if rng.Float64() < pPark/2 {
			a = append(a, ptCbEnter)
		}
		if rng.Float64() < pPark/2 {
			a = append(a, ptRmLock)
		}
		return a
	}
	if *ncloses < 3 {
		cs = append(cs, cand{"Close", 6, func() bool { *ncloses++; return w.opClose(arm()) }})
	}
	if w.nserve < 3 {
		wt := 1
		if w.client {
			wt = 3
		}
		cs = append(cs, cand{"serve", wt, func() bool { return w.opServe(false) }})
		cs = append(cs, cand{"listen-and-serve", wt, func() bool { return w.opServe(true) }})
	}
	for _, c := range w.liveConns() {
		c := c
		if c.pending > 0 {
			cs = append(cs, cand{"relay-done", 4, func() bool { return w.opRelayDone(c, arm()) }})
		}
		if len(c.out) > 0 {
			cs = append(cs, cand{"response", 4, func() bool {
				ids := make([]int, 0)
				for k := range c.out {
					ids = append(ids, int(k))
				}
				sort.Ints(ids)
				return w.opResponse(c, uint32(ids[rng.Intn(len(ids))]), arm())
			}})
		}
		if tchannel.VerifC07State(c.conn) == 1 {
			cs = append(cs, cand{"relay-admit", 2, func() bool { w.opRelayAdmit(c); return true }})
			cs = append(cs, cand{"begincall", 2, func() bool { w.opBeginCall(c); return true }})
			cs = append(cs, cand{"conn-close", 1, func() bool { return w.opConnClose(c, arm()) }})
		}
		if len(c.out) == 0 {
			cs = append(cs, cand{"conn-error", 1, func() bool { return w.opConnError(c, arm()) }})
		}
	}
	if len(w.pre) > 0 && w.ch.State() >= 3 {
		cs = append(cs, cand{"late-handshake", 3, func() bool { return w.opLateHandshake(arm()) }})
	}
	if ps := w.parkedActors(); len(ps) > 0 {
		cs = append(cs, cand{"resume", 5 + 3*len(ps), func() bool { return w.run(ps[rng.Intn(len(ps))], arm(), nil) }})
	}
	if len(cs) == 0 {
		return "none", true
	}
	tot := 0
	for _, c := range cs {
		tot += c.wt
	}
	r := rng.Intn(tot)
	for _, c := range cs {
		if r < c.wt {
			return c.name, c.f()
		}
		r -= c.wt
	}
	return "", true
}

// checkReached is clause (d) read off the implementation at a quiescent moment: Close was called,
// no operation is parked or running, every connection is closed => the channel is Closed and has
// signalled it.  Callbacks of the connections' own goroutines may still be returning when the
// operation that caused them is over, so the channel gets 300 ms to get there.
func (w *chWorld) checkReached() {
	if !w.closeIssued || w.stuckSeen || len(w.parkedActors()) > 0 {
		return
	}
	for _, c := range w.conns {
		if c.conn != nil && tchannel.VerifC07State(c.conn) != 4 {
			return
		}
	}
	var s []int64
	deadline := time.Now().Add(300 * time.Millisecond)
	for {
		s = w.snap()
		if s[0] == 5 && s[1] == 1 {
			return
		}
		if time.Now().After(deadline) {
			break
		}
		time.Sleep(500 * time.Microsecond)
	}
	w.stuckSeen = true
	tag := ""
	if s[0] == 4 && s[2] == 0 {
		tag = "[c07:lost-closed-transition] "
	}
	w.fail(fmt.Sprintf(tag+"Close was called, every connection is closed and every callback has returned, but the channel is in state %d (ClosedChan closed: %v, %d connection(s) tracked)", s[0], s[1] == 1, s[2]))
}

func (w *chWorld) finish(rng *rand.Rand, complete bool) bool {
	for {
		ps := w.parkedActors()
		if len(ps) == 0 {
			break
		}
		if !w.run(ps[rng.Intn(len(ps))], nil, nil) {
			return false
		}
	}
	if complete {
		if !w.closeIssued {
			ncl := 0
			_ = ncl
			if !w.opClose(nil) {
				return false
			}
		}
		for _, c := range w.conns {
			if c.conn == nil {
				continue
			}
			for c.pending > 0 {
				if !w.opRelayDone(c, nil) {
					return false
				}
			}
			for len(c.out) > 0 && tchannel.VerifC07State(c.conn) != 4 {
				ids := make([]int, 0)
				for k := range c.out {
					ids = append(ids, int(k))
				}
				sort.Ints(ids)
				if !w.opResponse(c, uint32(ids[0]), nil) {
					return false
				}
			}
		}
		for len(w.pre) > 0 {
			if !w.opLateHandshake(nil) {
				return false
			}
		}
	}
	// reaches closed: Close issued, every connection closed, nothing running => Closed, signalled
	w.checkReached()
	if w.closeIssued {
		// new outbound connections fail locally
		ctx, cancel := context.WithTimeout(context.Background(), time.Second)
		_, err := w.ch.Connect(ctx, "127.0.0.1:1")
		cancel()
		if tchannel.VerifC07ErrKind(err) != 4 {
			w.fail(fmt.Sprintf("Connect on a channel after Close returned %v, want the local invalid-state error", err))
		}
	}
	if w.servedLate != "" {
		w.probeLate()
	}
	return true
}

func engineChanClose(rng *rand.Rand, n int, tier string, o *Out) {
	infeasible := 0
	for c := 0; c < n; c++ {
		if o.fails >= 8 || infeasible >= 12 {
			break
		}
		nconns := 1 + rng.Intn(3)
		npre := rng.Intn(2)
		directed := rng.Intn(9)
		client := rng.Intn(4) == 0
		if directed == 1 && rng.Intn(2) == 0 {
			nconns = 1 // the lost-transition race needs every other connection out of the way
		}
		if directed == 2 && rng.Intn(3) != 0 {
			nconns = 1 // the connection that closes on its own is the last one the channel tracks
		}
		if directed == 3 {
			client = true
		}
		steps := 3 + rng.Intn(8)
		pPark := []float64{0.0, 0.4, 0.8}[rng.Intn(3)]
		complete := rng.Intn(5) != 0
		if tier == "thorough" {
			steps += rng.Intn(10)
		}
		w, err := newChWorld(rng, nconns, npre, client)
		if err != nil {
			o.Oracle("chanclose", fmt.Sprintf("h%d", c), false, "setup", "harness: "+err.Error())
			continue
		}
		var labels []string
		ok := true
		ncloses := 0
		// some in-flight work first
		for _, cn := range w.conns {
			if directed == 2 {
				break // the connections of this schedule are idle: they close as soon as they are told to
			}
			for k := rng.Intn(3); k > 0; k-- {
				if rng.Intn(2) == 0 {
					w.opRelayAdmit(cn)
				} else {
					w.opBeginCall(cn)
				}
			}
		}
		switch directed {
		case 0: // directed: a second Close while only outbound work is left (state InboundClosed)
			labels = append(labels, "D:close,close")
			for _, cn := range w.conns {
				for cn.pending > 0 && ok {
					ok = w.opRelayDone(cn, nil)
				}
				if len(cn.out) == 0 {
					w.opBeginCall(cn)
				}
			}
			ok = ok && w.opClose(nil) && w.opClose(nil)
			ncloses += 2
		case 1: // directed: two callbacks race for the last transitions of the channel
			labels = append(labels, "D:close|cb-after-min|last-response|resume,resume")
			cn := w.conns[0]
			for cn.pending > 0 && ok {
				ok = w.opRelayDone(cn, nil)
			}
			if len(cn.out) == 0 {
				w.opBeginCall(cn)
			}
			// Close parks in the callback that follows the move to InboundClosed, after its scan ...
			ok = ok && w.opClose([]string{ptCbMin})
			ncloses++
			if ok && len(w.parkedActors()) == 1 && len(cn.out) > 0 && rng.Intn(4) != 0 {
				closer := w.parkedActors()[0]
				// ... the last call finishes: its callback has read the channel state and parks ...
				for len(cn.out) > 1 && ok {
					ids := make([]int, 0)
					for k := range cn.out {
						ids = append(ids, int(k))
					}
					sort.Ints(ids)
					ok = w.opResponse(cn, uint32(ids[0]), nil)
				}
				for k := range cn.out {
					ok = ok && w.opResponse(cn, k, []string{ptCbRead})
				}
				// ... the first callback applies its update, then the second one
				ok = ok && w.run(closer, nil, nil)
			}
		case 2: // directed: a connection closes on its own; Close lands while its LAST callback is at "enter"
			labels = append(labels, "D:conn-closes|cb-enter(closed,tracked)|close|resume")
			// every connection but the last one closes and is forgotten first
			for _, cn := range w.conns[1:] {
				ok = ok && w.opConnError(cn, nil)
			}
			cn := w.conns[0]
			// the park: at the entry of the callback, or inside it between the decision to remove the
			// connection and the removal (any read of the channel state made before the removal is stale)
			at := []string{ptCbEnter, ptRmLock}[rng.Intn(2)]
			if rng.Intn(2) == 0 {
				ok = ok && w.opConnError(cn, []string{at})
			} else {
				ok = ok && w.opConnClose(cn, []string{at})
			}
			// the callbacks of the earlier state changes run to their end; the one that reports Closed stays parked
			for guard := 0; ok && guard < 4 && len(w.parkedActors()) == 1 && tchannel.VerifC07State(cn.conn) != 4; guard++ {
				ok = w.run(w.parkedActors()[0], []string{at}, nil)
			}
			if ok && len(w.parkedActors()) == 1 && tchannel.VerifC07State(cn.conn) == 4 {
				cb := w.parkedActors()[0]
				o.Hist("forced=close-at-" + at)
				if rng.Intn(3) == 0 { // Close itself stops after its locked region, the callback overtakes it
					ok = w.opClose([]string{ptClUnlock})
				} else {
					ok = w.opClose(nil)
				}
				ncloses++
				ok = ok && w.run(cb, nil, nil)
			}
		case 3: // directed: a client channel with work in flight is closed, then told to serve
			labels = append(labels, "D:client|in-flight|close|serve")
			cn := w.conns[0]
			if len(cn.out) == 0 && cn.pending == 0 {
				w.opBeginCall(cn)
			}
			if rng.Intn(3) == 0 {
				ok = w.opClose([]string{ptClUnlock})
			} else {
				ok = w.opClose(nil)
			}
			ncloses++
			for k := 1 + rng.Intn(2); ok && k > 0; k-- {
				ok = w.opServe(rng.Intn(2) == 0)
			}
			if ok {
				o.Hist(fmt.Sprintf("forced=serve-in-state-%d", w.chStates[len(w.chStates)-1]))
			}
		}
		if ok && !w.infeasible {
			w.checkReached()
		}
		for i := 0; ok && i < steps && !w.infeasible; i++ {
			var l string
			l, ok = w.step(rng, &ncloses, pPark)
			labels = append(labels, l)
			if ok && !w.infeasible {
				w.checkReached()
			}
		}
		if ok && !w.infeasible {
			ok = w.finish(rng, complete)
		}
		id := fmt.Sprintf("h%d", c)
		if !ok || w.infeasible {
			infeasible++
			last := "setup"
			if len(labels) > 0 {
				last = labels[len(labels)-1]
			}
			o.Hist("infeasible after " + last)
			if os.Getenv("C07_TRACE") != "" {
				var names []string
				for _, e := range w.ctl.events(0) {
					names = append(names, fmt.Sprintf("%s#%d%v", e.Name[len(e.Name)-9:], e.ID, e.Snap))
				}
				fmt.Fprintln(os.Stderr, "infeasible", id, labels, "snap", w.snap(), "events", names)
			}
			w.cleanup()
			continue
		}
		in := append([]int64{w.nops}, w.ops...)
		// the model prints the outcome of every thread at the end; the implementation side of that
		// is what the run showed: every thread finished (added / not added / callback done / close done)
		w.obs = append(w.obs, int64(len(w.outc)))
		for _, f := range w.outc {
			w.obs = append(w.obs, f())
		}
		verdict := ""
		if len(w.verdicts) > 0 {
			verdict = w.verdicts[0]
		}
		for _, l := range labels {
			o.Hist("op=" + l)
		}
		o.Hist(fmt.Sprintf("conns=%d", nconns))
		if client {
			o.Hist("world=client")
		} else {
			o.Hist("world=listening")
		}
		o.Hist(fmt.Sprintf("final-chan-state=%d", w.chStates[len(w.chStates)-1]))
		if c < 3 {
			o.Sample(map[string]interface{}{"sub": "chanclose", "ops": labels, "conns": nconns, "chan_states": w.chStates})
		}
		o.Case("chanclose", id, in, w.obs, len(labels) > 1, verdict)
		w.cleanup()
	}
	if (infeasible*5 > n && n >= 10) || infeasible >= 12 {
		o.Oracle("chanclose", "infeasible", false, "infeasible", fmt.Sprintf("harness: %d of %d schedules could not be followed by the implementation", infeasible, n))
	}
}

// c07xDialOut makes ch connect to a raw peer that listens on loopback and waits until ch tracks
// the new (outbound) connection.
func c07xDialOut(ch *tchannel.Channel, known map[uint32]bool) (*c07Peer, *tchannel.Connection, error) {
	l, err := net.Listen("tcp", "127.0.0.1:0")
	if err != nil {
		return nil, nil, err
	}
	defer l.Close()
	type acc struct {
		c   net.Conn
		err error
	}
	accC := make(chan acc, 1)
	go func() {
		c, err := l.Accept()
		if err == nil {
			if _, _, err = rawServerHandshake(c); err != nil {
				c.Close()
			}
		}
		accC <- acc{c, err}
	}()
	ctx, cancel := context.WithTimeout(context.Background(), 2*time.Second)
	defer cancel()
	conn, err := ch.Connect(ctx, l.Addr().String())
	if err != nil {
		return nil, nil, err
	}
	a := <-accC
	if a.err != nil {
		return nil, nil, a.err
	}
	deadline := time.Now().Add(2 * time.Second)
	for time.Now().Before(deadline) {
		for _, c := range tchannel.VerifC07Conns(ch) {
			if c == conn {
				known[tchannel.VerifC07ConnID(c)] = true
				return newC07Peer(a.c), conn, nil
			}
		}
		time.Sleep(200 * time.Microsecond)
	}
	a.c.Close()
	return nil, nil, fmt.Errorf("outbound connection not tracked by the channel")
}
