package main

// C07 engine "chanclose": a real listening Channel (with a relay host, so that pending relayed
// calls can hold a connection in StartClose) over 1..3 real connections to raw peers.  The
// operations -- Channel.Close (any number of times), the end of a relayed call, a response to an
// outbound call, a connection error, Connection.Close, a handshake that completes while the
// channel is closing -- run one at a time; the schedule points chan.Close.afterUnlock,
// chan.closeStateChange.afterRead and chan.closeStateChange.afterMinState park them inside
// Channel.Close / connectionCloseStateChange so that the others interleave with them.
// Every schedule point records a snapshot (channel state, ClosedChan, tracked connections and
// their states).  The recorded run is translated into labels of the channel model
// (Model/ChanClose.v: connection moves, callback starts, thread steps) and replayed on the
// extracted model, which must accept every label and predict the same channel observables at
// every schedule point.

import (
	"fmt"
	"math/rand"
	"net"
	"os"
	"sort"
	"time"

	tchannel "github.com/uber/tchannel-go"
	"golang.org/x/net/context"
)

func init() { engines["chanclose"] = engineChanClose }

type chConn struct {
	idx     int
	conn    *tchannel.Connection // nil for a connection that was never added (late handshake)
	connID  uint32
	peer    *c07Peer
	out     map[uint32]*ccOutCall
	pending int
	enters  int // callbacks seen (late connections: their state is inferred from it)
}

type chCb struct {
	tid       int
	conn      *chConn
	chAtRead  int
	afterRead bool
}

type chActor struct {
	name      string
	closeTid  int // model thread of a Channel.Close actor, else -1
	remaining []int
	unlocked  bool
	cur       *chCb
	park      *c07Park
	done      chan struct{}
	finished  bool
	mask      []string
}

type chWorld struct {
	ch          *tchannel.Channel
	ctl         *c07Ctl
	conns       []*chConn
	byID        map[uint32]*chConn
	known       []int
	ops         []int64
	obs         []int64
	nops        int64
	nthreads    int
	actors      []*chActor
	pre         []net.Conn
	chStates    []int
	verdicts    []string
	infeasible  bool
	closeIssued bool
	lateSeen    map[uint32]bool
	outc        []func() int64 // expected outcome of every model thread, in thread order
}

func (w *chWorld) fail(v string) { w.verdicts = append(w.verdicts, v) }

// snapshot: chState closed nTracked (state tracked)* for every connection with a known object
func (w *chWorld) snap() []int64 {
	closed := int64(0)
	select {
	case <-w.ch.ClosedChan():
		closed = 1
	default:
	}
	tr := map[uint32]bool{}
	for _, c := range tchannel.VerifC07Conns(w.ch) {
		tr[tchannel.VerifC07ConnID(c)] = true
	}
	s := []int64{int64(w.ch.State()), closed, int64(len(tr))}
	for _, c := range w.conns {
		if c.conn == nil {
			s = append(s, -1, 0)
			continue
		}
		s = append(s, int64(tchannel.VerifC07State(c.conn)), b2i(tr[c.connID]))
	}
	return s
}

func (w *chWorld) emit(op, a, b int64) {
	w.ops = append(w.ops, op, a, b)
	w.nops++
}

// judge applies the statement-level checks to one snapshot and records the compared part.
func (w *chWorld) observe(s []int64) {
	w.emit(8, 0, 0)
	w.obs = append(w.obs, s[0], s[2], s[1])
	st := int(s[0])
	if n := len(w.chStates); n > 0 && st < w.chStates[n-1] {
		tag := ""
		if w.chStates[n-1] == 4 && st == 3 {
			tag = "[c07:close-state-regress] "
		}
		w.fail(fmt.Sprintf("%schannel state moved backwards: %d -> %d", tag, w.chStates[n-1], st))
	}
	w.chStates = append(w.chStates, st)
	if s[1] == 1 && st != 5 {
		w.fail(fmt.Sprintf("ClosedChan is closed while the channel state is %d", st))
	}
	for i := 0; 3+2*i+1 < len(s); i++ {
		cs, tracked := s[3+2*i], s[3+2*i+1]
		if tracked == 1 && st == 5 && cs != 4 {
			w.fail(fmt.Sprintf("channel reports Closed while tracked connection %d is in state %d", i, cs))
		}
		if tracked == 1 && st >= 4 && cs < 3 {
			w.fail(fmt.Sprintf("channel state %d (inbound closed or beyond) while tracked connection %d is only in state %d", st, i, cs))
		}
	}
}

func minTracked(s []int64) int64 {
	m := int64(4)
	for i := 0; 3+2*i+1 < len(s); i++ {
		if s[3+2*i+1] == 1 && s[3+2*i] < m {
			m = s[3+2*i]
		}
	}
	return m
}

func updateTo(min int64, chState int) int {
	if min >= 4 {
		return 5
	}
	if min >= 3 && chState == 3 {
		return 4
	}
	return 0
}

// syncConns reports connection state changes (seen in snapshot s) to the model.
func (w *chWorld) syncConns(s []int64, a *chActor) {
	for i, c := range w.conns {
		if c.conn == nil || 3+2*i >= len(s) {
			continue
		}
		cur := int(s[3+2*i])
		if cur == w.known[i] {
			continue
		}
		if a != nil && a.closeTid >= 0 && a.unlocked && w.known[i] == 1 {
			for k, r := range a.remaining {
				if r == i { // the Close loop's c.close() on an active connection
					a.remaining = append(a.remaining[:k], a.remaining[k+1:]...)
					w.emit(7, int64(a.closeTid), int64(i))
					w.obs = append(w.obs, 1)
					w.known[i] = 2
					break
				}
			}
		}
		if cur != w.known[i] {
			w.emit(2, int64(i), int64(cur))
			w.known[i] = cur
		}
	}
}

func (w *chWorld) endCb(a *chActor) {
	if a.cur != nil {
		w.emit(6, int64(a.cur.tid), 0)
		w.obs = append(w.obs, 0)
		a.cur = nil
	}
}

// translate turns the schedule-point events of one run segment of actor a into model labels.
// It returns true when the actor is parked after a scan that produced no update: the model
// thread is finished there, so the goroutine is released at once.
func (w *chWorld) translate(evs []c07Event, a *chActor) (autoRelease bool) {
	for _, e := range evs {
		switch e.Name {
		case ptClUnlock:
			a.unlocked = true
			w.emit(6, int64(a.closeTid), 1<<1)
			w.obs = append(w.obs, 1)
			a.remaining = nil
			for i := range w.conns {
				if 3+2*i+1 < len(e.Snap) && e.Snap[3+2*i+1] == 1 {
					a.remaining = append(a.remaining, i)
				}
			}
			w.observe(e.Snap)
		case ptCbEnter:
			w.endCb(a)
			c := w.byID[e.ID]
			if c == nil { // a connection the channel refused to add: first callback after its close()
				c = w.lateConn(e.ID)
				if c == nil { // an event of a channel of an earlier case that is still winding down
					continue
				}
			}
			if c.conn == nil {
				c.enters++
				if c.enters == 2 { // second callback: the connection drained and closed
					w.emit(2, int64(c.idx), 4)
					w.known[c.idx] = 4
				}
			}
			w.syncConns(e.Snap, a)
			w.emit(4, int64(c.idx), 0)
			a.cur = &chCb{tid: w.nthreads, conn: c}
			w.nthreads++
			w.outc = append(w.outc, func() int64 { return 3 })
			w.observe(e.Snap)
		case ptCbRead:
			if a.cur == nil {
				w.fail("harness: afterRead without a callback in progress")
				continue
			}
			a.cur.chAtRead = int(e.Snap[0])
			a.cur.afterRead = true
			w.emit(6, int64(a.cur.tid), 1<<3)
			w.obs = append(w.obs, 3)
			w.observe(e.Snap)
		case ptCbMin:
			if a.cur == nil {
				continue
			}
			w.syncConns(e.Snap, a)
			if updateTo(minTracked(e.Snap), a.cur.chAtRead) > 0 {
				w.emit(6, int64(a.cur.tid), 1<<4)
				w.obs = append(w.obs, 4)
				autoRelease = false
			} else {
				w.emit(6, int64(a.cur.tid), 0)
				w.obs = append(w.obs, 0)
				a.cur = nil
				autoRelease = true
			}
			w.observe(e.Snap)
		}
	}
	return autoRelease
}

func (w *chWorld) lateConn(id uint32) *chConn {
	for _, c := range w.conns {
		if c.conn == nil && c.connID == 0 {
			c.connID = id
			w.byID[id] = c
			return c
		}
	}
	return nil
}

// run lets actor a go until it parks at one of the armed points or finishes.
func (w *chWorld) run(a *chActor, armed []string, start func()) bool {
	for {
		from := w.ctl.logLen()
		w.ctl.arm(armed...)
		if a.park != nil {
			p := a.park
			a.park = nil
			close(p.resume)
		} else if start != nil {
			start()
			start = nil
		}
		p, ok := w.ctl.await(a.done, 3*time.Second)
		w.ctl.disarm()
		if !ok {
			w.infeasible = true
			return false
		}
		if p == nil {
			time.Sleep(300 * time.Microsecond)
		}
		evs := w.ctl.events(from)
		auto := w.translate(evs, a)
		if p != nil {
			a.park = p
			if p.Name == ptCbMin && auto {
				continue // the model thread is done: let the goroutine finish the callback
			}
			return true
		}
		// finished
		a.finished = true
		w.endCb(a)
		s := w.snap()
		w.syncConns(s, a)
		if a.closeTid >= 0 {
			if a.unlocked {
				sort.Ints(a.remaining)
				for _, i := range a.remaining { // c.close() on connections that were not active: no effect
					w.emit(7, int64(a.closeTid), int64(i))
					w.obs = append(w.obs, 1)
				}
				a.remaining = nil
			}
			w.emit(6, int64(a.closeTid), 0)
			w.obs = append(w.obs, 0)
		}
		w.observe(s)
		return true
	}
}

func (w *chWorld) newActor(name string, closeTid int) *chActor {
	a := &chActor{name: name, closeTid: closeTid, done: make(chan struct{})}
	w.actors = append(w.actors, a)
	return a
}

func armSet(rng *rand.Rand, p float64, names ...string) []string {
	var out []string
	for _, n := range names {
		if rng.Float64() < p {
			out = append(out, n)
		}
	}
	return out
}

// ---- operations ----------------------------------------------------------------------

func (w *chWorld) opClose(armed []string) bool {
	w.emit(3, 0, 0)
	a := w.newActor("close", w.nthreads)
	w.nthreads++
	w.outc = append(w.outc, func() int64 { return 1 })
	w.closeIssued = true
	return w.run(a, armed, func() { go func() { w.ch.Close(); close(a.done) }() })
}

func (w *chWorld) opRelayAdmit(c *chConn) {
	if _, ok := tchannel.VerifC07RelayAdmit(c.conn); ok {
		c.pending++
	}
}

func (w *chWorld) opRelayDone(c *chConn, armed []string) bool {
	c.pending--
	a := w.newActor("relay-done", -1)
	return w.run(a, armed, func() { go func() { tchannel.VerifC07RelayDone(c.conn); close(a.done) }() })
}

func (w *chWorld) opBeginCall(c *chConn) {
	ctx, _ := context.WithTimeout(context.Background(), 60*time.Second)
	call, id, err := tchannel.VerifC07BeginCall(ctx, c.conn, "peer", "m")
	if err != nil {
		if w.known[c.idx] == 1 && tchannel.VerifC07State(c.conn) == 1 {
			w.fail(fmt.Sprintf("beginCall on an active connection failed: %v", err))
		}
		return
	}
	oc := &ccOutCall{id: id, call: call, finished: make(chan struct{})}
	e := tchannel.NewArgWriter(call.Arg2Writer()).Write([]byte("a2"))
	if e == nil {
		e = tchannel.NewArgWriter(call.Arg3Writer()).Write([]byte("a3"))
	}
	go func() {
		var r2, r3 []byte
		e := tchannel.NewArgReader(oc.call.Response().Arg2Reader()).Read(&r2)
		if e == nil {
			e = tchannel.NewArgReader(oc.call.Response().Arg3Reader()).Read(&r3)
		}
		oc.resErr = e
		oc.resOK = e == nil && string(r3) == fmt.Sprintf("r3-%d", oc.id)
		close(oc.finished)
	}()
	c.out[id] = oc
}

func (w *chWorld) opResponse(c *chConn, id uint32, armed []string) bool {
	oc := c.out[id]
	delete(c.out, id)
	a := w.newActor("response", -1)
	a.done = oc.finished
	ok := w.run(a, armed, func() {
		if err := c.peer.sendCallRes(id); err != nil {
			w.infeasible = true
		}
	})
	if ok && a.finished && !oc.resOK {
		w.fail(fmt.Sprintf("outbound call %d was begun before Close; the peer's response was not delivered (%v)", id, oc.resErr))
	}
	return ok
}

func (w *chWorld) opConnError(c *chConn, armed []string) bool {
	a := w.newActor("conn-error", -1)
	return w.run(a, armed, func() { go func() { tchannel.VerifC07ConnectionError(c.conn); close(a.done) }() })
}

func (w *chWorld) opConnClose(c *chConn, armed []string) bool {
	a := w.newActor("conn-close", -1)
	return w.run(a, armed, func() { go func() { c.conn.Close(); close(a.done) }() })
}

// opLateHandshake completes the handshake of a socket that was accepted before Close: the channel
// must refuse to track the new connection and close it.
func (w *chWorld) opLateHandshake(armed []string) bool {
	sock := w.pre[0]
	w.pre = w.pre[1:]
	c := &chConn{idx: len(w.conns), out: map[uint32]*ccOutCall{}}
	w.conns = append(w.conns, c)
	w.known = append(w.known, 1)
	w.emit(1, 0, 0)
	adder := w.nthreads
	w.nthreads++
	w.outc = append(w.outc, func() int64 { return 5 })
	w.emit(6, int64(adder), 0) // addConnection fails, c.close(): the connection is in StartClose
	w.obs = append(w.obs, 0)
	w.known[c.idx] = 2
	a := w.newActor("late-handshake", -1)
	eof := make(chan struct{})
	a.done = eof
	ok := w.run(a, armed, func() {
		go func() {
			if _, err := rawClientHandshake(sock); err != nil {
				close(eof)
				return
			}
			c.peer = newC07Peer(sock)
			<-c.peer.eof
			time.Sleep(500 * time.Microsecond)
			close(eof)
		}()
	})
	if ok && a.finished && c.enters != 2 {
		w.fail(fmt.Sprintf("a connection whose handshake completed while the channel was closing produced %d close callbacks (expected its close and its drain)", c.enters))
	}
	return ok
}

func (w *chWorld) parkedActors() []*chActor {
	var out []*chActor
	for _, a := range w.actors {
		if a.park != nil {
			out = append(out, a)
		}
	}
	return out
}

func newChWorld(rng *rand.Rand, nconns, npre int) (*chWorld, error) {
	w := &chWorld{byID: map[uint32]*chConn{}, lateSeen: map[uint32]bool{}}
	ch, err := c07NewChannel("svc", true, nil)
	if err != nil {
		return nil, err
	}
	if err := ch.ListenAndServe("127.0.0.1:0"); err != nil {
		return nil, err
	}
	w.ch = ch
	w.emit(0, 0, 0)
	known := map[uint32]bool{}
	for i := 0; i < nconns; i++ {
		peer, conn, err := c07Dial(ch, known)
		if err != nil {
			ch.Close()
			return nil, err
		}
		c := &chConn{idx: i, conn: conn, connID: tchannel.VerifC07ConnID(conn), peer: peer, out: map[uint32]*ccOutCall{}}
		w.conns = append(w.conns, c)
		w.byID[c.connID] = c
		w.known = append(w.known, 1)
		w.emit(1, 0, 0)
		w.emit(6, int64(w.nthreads), 0)
		w.obs = append(w.obs, 0)
		w.nthreads++
		w.outc = append(w.outc, func() int64 { return 4 })
	}
	for i := 0; i < npre; i++ {
		sock, err := net.DialTimeout("tcp", ch.PeerInfo().HostPort, 2*time.Second)
		if err != nil {
			ch.Close()
			return nil, err
		}
		w.pre = append(w.pre, sock)
	}
	if npre > 0 {
		time.Sleep(2 * time.Millisecond) // let the accept loop take the sockets before Close shuts the listener
	}
	w.ctl = newC07Ctl()
	w.ctl.snap = w.snap
	w.observe(w.snap())
	return w, nil
}

func (w *chWorld) cleanup() {
	w.ctl.disarm()
	for _, a := range w.actors {
		if a.park != nil {
			close(a.park.resume)
			a.park = nil
		}
	}
	w.ctl.drain()
	for _, c := range w.conns {
		if c.peer != nil {
			c.peer.conn.Close()
		}
	}
	for _, s := range w.pre {
		s.Close()
	}
	w.ch.Close()
	select { // let the channel finish its callbacks before the next case installs its hook
	case <-w.ch.ClosedChan():
	case <-time.After(300 * time.Millisecond):
	}
	w.ctl.close()
}

func (w *chWorld) liveConns() []*chConn {
	var out []*chConn
	for _, c := range w.conns {
		if c.conn != nil && tchannel.VerifC07State(c.conn) != 4 {
			out = append(out, c)
		}
	}
	return out
}

func (w *chWorld) step(rng *rand.Rand, ncloses *int, pPark float64) (string, bool) {
	type cand struct {
		name string
		wt   int
		f    func() bool
	}
	var cs []cand
	arm := func() []string { return armSet(rng, pPark, ptClUnlock, ptCbRead, ptCbMin) }
	if *ncloses < 3 {
		cs = append(cs, cand{"Close", 6, func() bool { *ncloses++; return w.opClose(arm()) }})
	}
	for _, c := range w.liveConns() {
		c := c
		if c.pending > 0 {
			cs = append(cs, cand{"relay-done", 4, func() bool { return w.opRelayDone(c, arm()) }})
		}
		if len(c.out) > 0 {
			cs = append(cs, cand{"response", 4, func() bool {
				ids := make([]int, 0)
				for k := range c.out {
					ids = append(ids, int(k))
				}
				sort.Ints(ids)
				return w.opResponse(c, uint32(ids[rng.Intn(len(ids))]), arm())
			}})
		}
		if tchannel.VerifC07State(c.conn) == 1 {
			cs = append(cs, cand{"relay-admit", 2, func() bool { w.opRelayAdmit(c); return true }})
			cs = append(cs, cand{"begincall", 2, func() bool { w.opBeginCall(c); return true }})
			cs = append(cs, cand{"conn-close", 1, func() bool { return w.opConnClose(c, arm()) }})
		}
		if len(c.out) == 0 {
			cs = append(cs, cand{"conn-error", 1, func() bool { return w.opConnError(c, arm()) }})
		}
	}
	if len(w.pre) > 0 && w.ch.State() >= 3 {
		cs = append(cs, cand{"late-handshake", 3, func() bool { return w.opLateHandshake(arm()) }})
	}
	if ps := w.parkedActors(); len(ps) > 0 {
		cs = append(cs, cand{"resume", 5 + 3*len(ps), func() bool { return w.run(ps[rng.Intn(len(ps))], arm(), nil) }})
	}
	if len(cs) == 0 {
		return "none", true
	}
	tot := 0
	for _, c := range cs {
		tot += c.wt
	}
	r := rng.Intn(tot)
	for _, c := range cs {
		if r < c.wt {
			return c.name, c.f()
		}
		r -= c.wt
	}
	return "", true
}

func (w *chWorld) finish(rng *rand.Rand, complete bool) bool {
	for {
		ps := w.parkedActors()
		if len(ps) == 0 {
			break
		}
		if !w.run(ps[rng.Intn(len(ps))], nil, nil) {
			return false
		}
	}
	if complete {
		if !w.closeIssued {
			ncl := 0
			_ = ncl
			if !w.opClose(nil) {
				return false
			}
		}
		for _, c := range w.conns {
			if c.conn == nil {
				continue
			}
			for c.pending > 0 {
				if !w.opRelayDone(c, nil) {
					return false
				}
			}
			for len(c.out) > 0 && tchannel.VerifC07State(c.conn) != 4 {
				ids := make([]int, 0)
				for k := range c.out {
					ids = append(ids, int(k))
				}
				sort.Ints(ids)
				if !w.opResponse(c, uint32(ids[0]), nil) {
					return false
				}
			}
		}
		for len(w.pre) > 0 {
			if !w.opLateHandshake(nil) {
				return false
			}
		}
	}
	s := w.snap()
	// reaches closed: Close issued, every connection closed, nothing running => Closed, signalled
	if w.closeIssued {
		all := true
		for _, c := range w.conns {
			if c.conn != nil && tchannel.VerifC07State(c.conn) != 4 {
				all = false
			}
		}
		if all && (s[0] != 5 || s[1] != 1) {
			tag := ""
			if s[0] == 4 && s[2] == 0 {
				tag = "[c07:lost-closed-transition] "
			}
			w.fail(fmt.Sprintf(tag+"Close was called, every connection is closed and every callback has returned, but the channel is in state %d (ClosedChan closed: %v, %d connection(s) tracked)", s[0], s[1] == 1, s[2]))
		}
		// new outbound connections fail locally
		ctx, cancel := context.WithTimeout(context.Background(), time.Second)
		_, err := w.ch.Connect(ctx, "127.0.0.1:1")
		cancel()
		if tchannel.VerifC07ErrKind(err) != 4 {
			w.fail(fmt.Sprintf("Connect on a channel after Close returned %v, want the local invalid-state error", err))
		}
	}
	return true
}

func engineChanClose(rng *rand.Rand, n int, tier string, o *Out) {
	infeasible := 0
	for c := 0; c < n; c++ {
		if o.fails >= 8 || infeasible >= 12 {
			break
		}
		nconns := 1 + rng.Intn(3)
		npre := rng.Intn(2)
		directed := rng.Intn(6)
		if directed == 1 && rng.Intn(2) == 0 {
			nconns = 1 // the lost-transition race needs every other connection out of the way
		}
		steps := 3 + rng.Intn(8)
		pPark := []float64{0.0, 0.4, 0.8}[rng.Intn(3)]
		complete := rng.Intn(5) != 0
		if tier == "thorough" {
			steps += rng.Intn(10)
		}
		w, err := newChWorld(rng, nconns, npre)
		if err != nil {
			o.Oracle("chanclose", fmt.Sprintf("h%d", c), false, "setup", "harness: "+err.Error())
			continue
		}
		var labels []string
		ok := true
		ncloses := 0
		// some in-flight work first
		for _, cn := range w.conns {
			for k := rng.Intn(3); k > 0; k-- {
				if rng.Intn(2) == 0 {
					w.opRelayAdmit(cn)
				} else {
					w.opBeginCall(cn)
				}
			}
		}
		switch directed {
		case 0: // directed: a second Close while only outbound work is left (state InboundClosed)
			labels = append(labels, "D:close,close")
			for _, cn := range w.conns {
				for cn.pending > 0 && ok {
					ok = w.opRelayDone(cn, nil)
				}
				if len(cn.out) == 0 {
					w.opBeginCall(cn)
				}
			}
			ok = ok && w.opClose(nil) && w.opClose(nil)
			ncloses += 2
		case 1: // directed: two callbacks race for the last transitions of the channel
			labels = append(labels, "D:close|cb-after-min|last-response|resume,resume")
			cn := w.conns[0]
			for cn.pending > 0 && ok {
				ok = w.opRelayDone(cn, nil)
			}
			if len(cn.out) == 0 {
				w.opBeginCall(cn)
			}
			// Close parks in the callback that follows the move to InboundClosed, after its scan ...
			ok = ok && w.opClose([]string{ptCbMin})
			ncloses++
			if ok && len(w.parkedActors()) == 1 && len(cn.out) > 0 && rng.Intn(4) != 0 {
				closer := w.parkedActors()[0]
				// ... the last call finishes: its callback has read the channel state and parks ...
				for len(cn.out) > 1 && ok {
					ids := make([]int, 0)
					for k := range cn.out {
						ids = append(ids, int(k))
					}
					sort.Ints(ids)
					ok = w.opResponse(cn, uint32(ids[0]), nil)
				}
				for k := range cn.out {
					ok = ok && w.opResponse(cn, k, []string{ptCbRead})
				}
				// ... the first callback applies its update, then the second one
				ok = ok && w.run(closer, nil, nil)
			}
		}
		for i := 0; ok && i < steps && !w.infeasible; i++ {
			var l string
			l, ok = w.step(rng, &ncloses, pPark)
			labels = append(labels, l)
		}
		if ok && !w.infeasible {
			ok = w.finish(rng, complete)
		}
		id := fmt.Sprintf("h%d", c)
		if !ok || w.infeasible {
			infeasible++
			last := "setup"
			if len(labels) > 0 {
				last = labels[len(labels)-1]
			}
			o.Hist("infeasible after " + last)
			if os.Getenv("C07_TRACE") != "" {
				var names []string
				for _, e := range w.ctl.events(0) {
					names = append(names, fmt.Sprintf("%s#%d%v", e.Name[len(e.Name)-9:], e.ID, e.Snap))
				}
				fmt.Fprintln(os.Stderr, "infeasible", id, labels, "snap", w.snap(), "events", names)
			}
			w.cleanup()
			continue
		}
		in := append([]int64{w.nops}, w.ops...)
		// the model prints the outcome of every thread at the end; the implementation side of that
		// is what the run showed: every thread finished (added / not added / callback done / close done)
		w.obs = append(w.obs, int64(len(w.outc)))
		for _, f := range w.outc {
			w.obs = append(w.obs, f())
		}
		verdict := ""
		if len(w.verdicts) > 0 {
			verdict = w.verdicts[0]
		}
		for _, l := range labels {
			o.Hist("op=" + l)
		}
		o.Hist(fmt.Sprintf("conns=%d", nconns))
		o.Hist(fmt.Sprintf("final-chan-state=%d", w.chStates[len(w.chStates)-1]))
		if c < 3 {
			o.Sample(map[string]interface{}{"sub": "chanclose", "ops": labels, "conns": nconns, "chan_states": w.chStates})
		}
		o.Case("chanclose", id, in, w.obs, len(labels) > 1, verdict)
		w.cleanup()
	}
	if (infeasible*5 > n && n >= 10) || infeasible >= 12 {
		o.Oracle("chanclose", "infeasible", false, "infeasible", fmt.Sprintf("harness: %d of %d schedules could not be followed by the implementation", infeasible, n))
	}
}
