package main

// C07 engine "closerelay": a relay in the middle whose relayed calls ENDED IN EVERY WAY the relay
// knows before Close is called, the peers staying connected -- so that every path that ends a
// relayed call has to give back its unit of Relayer.pending (the counter that keeps a connection
// in connectionStartClose): a leaked unit is invisible until somebody closes the channel.
//
// Variant "chan" (three real channels: client -> relay -> server).  History: relayed calls that
// completed, timed out at the relay (the handler outlives the ttl), were cancelled by the caller
// (cancel frames propagated); in sequence or overlapping; then Close on the relay, on the server or
// on the client, at once or after the relay's timers have fired; the other channels stay up.
// Variant "raw" (raw client, real relay, raw backend that can stop reading): additionally calls
// that fail with relay-dest-conn-slow (the relay's send queue to the backend is full) and calls
// whose frames the backend answers late (after the relay's timeout); then Close on the relay.
//
// Oracle (from the statement): calls issued before Close return what their history says; once
// nothing is in flight the closed channel reaches ChannelClosed and signals it (ClosedChan)
// within a bound; its State() only moves forward; ChannelClosed is not reported with a
// connection still open.

import (
	"fmt"
	"math/rand"
	"net"
	"os"
	"sync"
	"sync/atomic"
	"time"

	tchannel "github.com/uber/tchannel-go"
	"github.com/uber/tchannel-go/raw"
	"github.com/uber/tchannel-go/relay"
	"golang.org/x/net/context"
)

func init() { engines["closerelay"] = engineCloseRelay }

const (
	crlOK      = 0 // the call completes
	crlTimeout = 1 // the backend holds the call beyond its ttl: the relay's timers end it
	crlCancel  = 2 // the caller cancels, the cancel frame travels through the relay
	crlSlow    = 3 // (raw) the relay's send queue to the backend is full: relay-dest-conn-slow
	crlLate    = 4 // (raw) the backend answers after the relay's timeout
	crlNoDest  = 5 // the relay cannot reach the destination chosen for the call (connection refused)
	crlSrcSlow = 6 // (raw) the caller stops reading: the relay's send queue to the caller is full: relay-source-conn-slow
)

var crlNames = []string{"ok", "timeout", "cancel", "dest-slow", "late-response", "no-destination", "source-slow"}

// crlRelayHost routes service "dead" to a port nobody listens on, everything else to dest.
type crlRelayHost struct {
	ch   *tchannel.Channel
	dest string
	dead string
}

func (r *crlRelayHost) SetChannel(ch *tchannel.Channel) { r.ch = ch }
func (r *crlRelayHost) Start(f relay.CallFrame, c *relay.Conn) (tchannel.RelayCall, error) {
	if string(f.Service()) == "dead" {
		return &wireRelayCall{peer: r.ch.RootPeers().GetOrAdd(r.dead)}, nil
	}
	return &wireRelayCall{peer: r.ch.RootPeers().GetOrAdd(r.dest)}, nil
}

// crlDeadAddr returns a loopback address on which nothing listens.
func crlDeadAddr() string {
	ln, err := net.Listen("tcp", "127.0.0.1:0")
	if err != nil {
		return "127.0.0.1:1"
	}
	a := ln.Addr().String()
	ln.Close()
	return a
}

// statePoller watches Channel.State() for a backwards move.
type crlPoller struct {
	stop chan struct{}
	done chan struct{}
	back atomic.Value
}

func crlPoll(ch *tchannel.Channel) *crlPoller {
	p := &crlPoller{stop: make(chan struct{}), done: make(chan struct{})}
	go func() {
		defer close(p.done)
		last := ch.State()
		for {
			select {
			case <-p.stop:
				return
			default:
			}
			s := ch.State()
			if s < last {
				p.back.Store(fmt.Sprintf("channel state moved backwards: %v -> %v", last, s))
			}
			last = s
			time.Sleep(20 * time.Microsecond)
		}
	}()
	return p
}

func (p *crlPoller) finish() string {
	close(p.stop)
	<-p.done
	if v := p.back.Load(); v != nil {
		return v.(string)
	}
	return ""
}

// crlAwaitClosed: the channel must reach ChannelClosed and signal it within the bound.
func crlAwaitClosed(ch *tchannel.Channel, who string, bound time.Duration) string {
	select {
	case <-ch.ClosedChan():
	case <-time.After(bound):
		conns := ""
		for _, c := range tchannel.VerifC07Conns(ch) {
			o := tchannel.VerifC07Observe(c)
			conns += fmt.Sprintf(" [conn state %d, %d inbound / %d outbound exchanges, relay pending %d]", o.State, o.Inbound, o.Outbound, o.Pending)
		}
		return fmt.Sprintf("every call has ended and nothing is in flight, but the closed %s did not reach ChannelClosed within %v: State() = %v;%s", who, bound, ch.State(), conns)
	}
	if ch.State() != tchannel.ChannelClosed {
		return fmt.Sprintf("ClosedChan of the %s is closed but State() = %v", who, ch.State())
	}
	for _, c := range tchannel.VerifC07Conns(ch) {
		if s := tchannel.VerifC07State(c); s != 4 {
			return fmt.Sprintf("the %s reports ChannelClosed while it still tracks a connection in state %d", who, s)
		}
	}
	return ""
}

// ---- variant "chan": three real channels --------------------------------------------------

func crlChanCase(rng *rand.Rand, history []int, overlap bool, closing int, settle time.Duration, closes int) (verdict string) {
	copts := tchannel.ConnectionOptions{PropagateCancel: true, SendCancelOnContextCanceled: true}
	handler := raw.Wrap(rawHandlerFunc(func(ctx context.Context, args *raw.Args) (*raw.Res, error) {
		if len(args.Arg3) > 0 && args.Arg3[0] != crlOK {
			<-ctx.Done() // outlive the ttl / wait for the cancel
			return &raw.Res{Arg2: args.Arg2, Arg3: args.Arg3}, nil
		}
		return &raw.Res{Arg2: args.Arg2, Arg3: args.Arg3}, nil
	}))
	srv, err := tchannel.NewChannel("srv", &tchannel.ChannelOptions{Logger: tchannel.NullLogger, DefaultConnectionOptions: copts})
	if err != nil {
		return "harness: " + err.Error()
	}
	srv.Register(handler, "echo")
	if err := srv.ListenAndServe("127.0.0.1:0"); err != nil {
		return "harness: " + err.Error()
	}
	defer srv.Close()
	rh := &crlRelayHost{dest: srv.PeerInfo().HostPort, dead: crlDeadAddr()}
	rel, err := tchannel.NewChannel("relay", &tchannel.ChannelOptions{Logger: tchannel.NullLogger, RelayHost: rh, DefaultConnectionOptions: copts})
	if err != nil {
		return "harness: " + err.Error()
	}
	if err := rel.ListenAndServe("127.0.0.1:0"); err != nil {
		return "harness: " + err.Error()
	}
	defer rel.Close()
	target := rel.PeerInfo().HostPort
	cli, err := tchannel.NewChannel("cli", &tchannel.ChannelOptions{Logger: tchannel.NullLogger, DefaultConnectionOptions: copts})
	if err != nil {
		return "harness: " + err.Error()
	}
	defer cli.Close()

	var mu sync.Mutex
	fail := func(v string) {
		mu.Lock()
		if verdict == "" {
			verdict = v
		}
		mu.Unlock()
	}
	maxTTL := time.Duration(0)
	one := func(i, kind int, ttl time.Duration) {
		key := fmt.Sprintf("h%d", i)
		var ctx context.Context
		var cancel context.CancelFunc
		b := tchannel.NewContextBuilder(ttl).DisableTracing().SetRetryOptions(&tchannel.RetryOptions{RetryOn: tchannel.RetryNever})
		ctx, cancel = b.Build()
		if kind == crlCancel {
			go func() { time.Sleep(6 * time.Millisecond); cancel() }()
		}
		start := time.Now()
		service := "srv"
		if kind == crlNoDest {
			service = "dead"
		}
		a2, a3, _, err := raw.Call(ctx, cli, target, service, "echo", []byte(key), []byte{byte(kind)})
		cancel()
		cl := classifyErr(err)
		switch {
		case time.Since(start) > ttl+1500*time.Millisecond:
			fail(fmt.Sprintf("relayed call %s (%s) returned after %v, ttl %v", key, crlNames[kind], time.Since(start), ttl))
		case kind == crlOK && (err != nil || string(a2) != key || len(a3) != 1):
			fail(fmt.Sprintf("relayed call %s issued before any Close failed: %v", key, err))
		case kind == crlTimeout && cl != "sys:1":
			fail(fmt.Sprintf("relayed call %s whose handler outlives the ttl returned %v (%s), want a timeout", key, err, cl))
		case kind == crlCancel && err == nil:
			fail(fmt.Sprintf("relayed call %s was cancelled by its caller but succeeded", key))
		case kind == crlNoDest && (err == nil || cl == "sys:1"):
			fail(fmt.Sprintf("relayed call %s to a destination the relay cannot reach returned %v, want an error frame from the relay (not a timeout)", key, err))
		}
	}
	ttlOf := func(kind int) time.Duration {
		switch kind {
		case crlTimeout:
			return time.Duration(25+rng.Intn(30)) * time.Millisecond
		case crlCancel:
			return 600 * time.Millisecond
		}
		return 2 * time.Second
	}
	// a first call that completes: both relay connections exist before the history starts
	one(-1, crlOK, 2*time.Second)
	var wg sync.WaitGroup
	for i, kind := range history {
		ttl := ttlOf(kind)
		if kind != crlOK && ttl > maxTTL {
			maxTTL = ttl
		}
		if overlap {
			wg.Add(1)
			go func(i, kind int) { defer wg.Done(); one(i, kind, ttl) }(i, kind)
			time.Sleep(time.Duration(rng.Intn(3000)) * time.Microsecond)
		} else {
			one(i, kind, ttl)
		}
	}
	wg.Wait()
	if verdict != "" {
		return verdict
	}
	// the relay's own timers (one per relay connection) may still be pending right after the
	// caller's local timeout; both moments are legal for Close
	time.Sleep(settle)
	closingCh := []*tchannel.Channel{rel, srv, cli}[closing]
	who := []string{"relay", "server", "client"}[closing]
	poll := crlPoll(closingCh)
	for i := 0; i < closes; i++ {
		closingCh.Close()
		if i+1 < closes {
			time.Sleep(time.Duration(rng.Intn(1500)) * time.Microsecond)
		}
	}
	// nothing is in flight once the last ttl (+ the handlers' return) has passed
	if v := crlAwaitClosed(closingCh, who, maxTTL+3*time.Second); v != "" {
		poll.finish()
		return v
	}
	if v := poll.finish(); v != "" {
		return v
	}
	// the channels that stay up keep working among themselves / fail cleanly towards the closed one
	if closing == 2 {
		ctx, cancel := tchannel.NewContext(time.Second)
		_, _, _, err := raw.Call(ctx, cli, target, "srv", "echo", []byte("late"), []byte{0})
		cancel()
		if err == nil {
			return "a call begun on the closed client succeeded"
		}
	}
	return ""
}

// ---- variant "raw": raw client, real relay, raw backend -------------------------------------

type crlBackend struct {
	ln      net.Listener
	mu      sync.Mutex
	conn    net.Conn
	gate    chan struct{}   // non-nil while the backend does not read
	reqs    map[uint32]byte // relay-side id -> mode (first byte of arg3)
	cancels int
	wmu     sync.Mutex
	done    chan struct{}
}

func crlNewBackend() (*crlBackend, error) {
	ln, err := net.Listen("tcp", "127.0.0.1:0")
	if err != nil {
		return nil, err
	}
	b := &crlBackend{ln: ln, reqs: map[uint32]byte{}, done: make(chan struct{})}
	go b.serve()
	return b, nil
}

func (b *crlBackend) serve() {
	defer close(b.done)
	c, err := b.ln.Accept()
	if err != nil {
		return
	}
	// handshake under its own process name: the relay is configured with a 4-frame send queue
	// for this peer only (SendBufferSizeOverrides), the client keeps the default queue
	f0, err := readRawFrame(c, 2*time.Second)
	if err != nil || f0.Type != 0x01 {
		c.Close()
		return
	}
	if writeRawFrame(c, 0x02, f0.ID, rawInitPayload(2, [][2]string{{"host_port", "0.0.0.0:0"}, {"process_name", "crl-backend"}, {"tchannel_language", "spec"}})) != nil {
		c.Close()
		return
	}
	b.mu.Lock()
	b.conn = c
	b.mu.Unlock()
	partial := map[uint32][]*rawCall{}
	for {
		b.mu.Lock()
		g := b.gate
		b.mu.Unlock()
		if g != nil {
			<-g
		}
		f, err := readRawFrame(c, 30*time.Second)
		if err != nil {
			return
		}
		switch f.Type {
		case 0x03, 0x13:
			rc, err := parseRawCall(f.Type, f.Payload)
			if err != nil {
				continue
			}
			partial[f.ID] = append(partial[f.ID], rc)
			if rc.Flags&1 != 0 {
				continue
			}
			args := collectArgs(partial[f.ID])
			delete(partial, f.ID)
			mode := byte(0)
			if len(args) == 3 && len(args[2]) > 0 {
				mode = args[2][0]
			}
			b.mu.Lock()
			b.reqs[f.ID] = mode
			b.mu.Unlock()
			if mode == crlOK || mode == crlSlow {
				b.respond(f.ID, 2)
			} else if mode == crlSrcSlow {
				go b.respond(f.ID, 59000) // the backend keeps reading while it answers
			}
		case 0xc0:
			b.mu.Lock()
			b.cancels++
			b.mu.Unlock()
		case 0xd0:
			b.wmu.Lock()
			writeRawFrame(c, 0xd1, f.ID, nil)
			b.wmu.Unlock()
		}
	}
}

func (b *crlBackend) respond(id uint32, size int) {
	hdr := rawCallResHeader(0, make([]byte, 25), [][2]string{{"as", "raw"}})
	frames := buildRawCallFrames(false, id, hdr, 0, [3][]byte{{}, []byte("r2"), make([]byte, size)}, 60000)
	b.wmu.Lock()
	defer b.wmu.Unlock()
	for _, fr := range frames {
		b.conn.SetWriteDeadline(time.Now().Add(2 * time.Second))
		if _, err := b.conn.Write(fr); err != nil {
			return
		}
	}
}

func (b *crlBackend) count(mode byte) (n int, ids []uint32) {
	b.mu.Lock()
	defer b.mu.Unlock()
	for id, m := range b.reqs {
		if m == mode {
			n++
			ids = append(ids, id)
		}
	}
	return
}

func (b *crlBackend) close() {
	b.ln.Close()
	b.mu.Lock()
	if b.conn != nil {
		b.conn.Close()
	}
	b.mu.Unlock()
	b.pause(false)
}

func (b *crlBackend) pause(on bool) {
	b.mu.Lock()
	defer b.mu.Unlock()
	if on && b.gate == nil {
		b.gate = make(chan struct{})
	} else if !on && b.gate != nil {
		close(b.gate)
		b.gate = nil
	}
}

func (b *crlBackend) ncancels() int {
	b.mu.Lock()
	defer b.mu.Unlock()
	return b.cancels
}

// crlDial connects a raw client whose reader can be paused (gate non-nil = it does not read).
type crlClient struct {
	*c07Peer
	gmu  sync.Mutex
	gate chan struct{}
}

func (c *crlClient) pause(on bool) {
	c.gmu.Lock()
	defer c.gmu.Unlock()
	if on && c.gate == nil {
		c.gate = make(chan struct{})
	} else if !on && c.gate != nil {
		close(c.gate)
		c.gate = nil
	}
}

func (c *crlClient) readLoop() {
	p := c.c07Peer
	defer close(p.eof)
	for {
		c.gmu.Lock()
		g := c.gate
		c.gmu.Unlock()
		if g != nil {
			<-g
		}
		f, err := readRawFrame(p.conn, 30*time.Second)
		if err != nil {
			if os.Getenv("CRL_TRACE") != "" {
				fmt.Fprintln(os.Stderr, "raw client: read ends:", err)
			}
			return
		}
		p.mu.Lock()
		switch f.Type {
		case 0xd1:
			if ch := p.pings[f.ID]; ch != nil {
				close(ch)
				delete(p.pings, f.ID)
			}
		case 0xff:
			code := int64(-1)
			if len(f.Payload) > 0 {
				code = int64(f.Payload[0])
			}
			p.errs = append(p.errs, [2]int64{int64(f.ID), code})
		case 0x04, 0x14:
			if len(f.Payload) > 0 && f.Payload[0]&1 == 0 {
				p.resDone[f.ID] = true
			}
		}
		p.mu.Unlock()
	}
}

func crlDial(ch *tchannel.Channel) (*crlClient, error) {
	conn, err := net.DialTimeout("tcp", ch.PeerInfo().HostPort, 2*time.Second)
	if err != nil {
		return nil, err
	}
	if _, err := rawClientHandshake(conn); err != nil {
		conn.Close()
		return nil, err
	}
	deadline := time.Now().Add(2 * time.Second)
	for time.Now().Before(deadline) && len(tchannel.VerifC07Conns(ch)) == 0 {
		time.Sleep(200 * time.Microsecond)
	}
	c := &crlClient{c07Peer: &c07Peer{conn: conn, callRes: map[uint32][]*rawCall{}, resDone: map[uint32]bool{}, pings: map[uint32]chan struct{}{}, eof: make(chan struct{})}}
	go c.readLoop()
	return c, nil
}

func crlPendingSum(ch *tchannel.Channel) int {
	n := 0
	for _, c := range tchannel.VerifC07Conns(ch) {
		n += tchannel.VerifC07Observe(c).Pending
	}
	return n
}

func crlSendReq(p *c07Peer, id uint32, ttlMs uint32, mode byte, size int) error {
	hdr := rawCallReqHeader(ttlMs, make([]byte, 25), "srv", [][2]string{{"cn", "rawpeer"}, {"as", "raw"}})
	arg3 := make([]byte, size)
	arg3[0] = mode
	frames := buildRawCallFrames(true, id, hdr, 0, [3][]byte{[]byte("echo"), []byte("k"), arg3}, 60000)
	for _, f := range frames {
		if err := p.writeBytes(f); err != nil {
			return err
		}
	}
	return nil
}

func crlWait(d time.Duration, cond func() bool) bool {
	deadline := time.Now().Add(d)
	for time.Now().Before(deadline) {
		if cond() {
			return true
		}
		time.Sleep(200 * time.Microsecond)
	}
	return cond()
}

func crlRawCase(rng *rand.Rand, history []int, settle time.Duration, closes int) (verdict string, infeasible bool) {
	be, err := crlNewBackend()
	if err != nil {
		return "harness: " + err.Error(), false
	}
	defer be.close()
	rh := &wireRelayHost{dest: be.ln.Addr().String()}
	overrides := []tchannel.SendBufferSizeOverride{{ProcessNamePrefix: "crl-backend", SendBufferSize: 4}}
	for _, k := range history {
		if k == crlSrcSlow { // a 4-frame send queue towards the raw client too
			overrides = append(overrides, tchannel.SendBufferSizeOverride{ProcessNamePrefix: "verif-rawpeer", SendBufferSize: 4})
			break
		}
	}
	copts := tchannel.ConnectionOptions{PropagateCancel: true, SendBufferSizeOverrides: overrides}
	var lg tchannel.Logger = tchannel.NullLogger
	if os.Getenv("CRL_TRACE") == "2" {
		lg = tchannel.NewLevelLogger(tchannel.SimpleLogger, tchannel.LogLevelInfo)
	}
	rel, err := tchannel.NewChannel("relay", &tchannel.ChannelOptions{Logger: lg, RelayHost: rh, DefaultConnectionOptions: copts})
	if err != nil {
		return "harness: " + err.Error(), false
	}
	if err := rel.ListenAndServe("127.0.0.1:0"); err != nil {
		return "harness: " + err.Error(), false
	}
	defer rel.Close()
	client, err := crlDial(rel)
	if err != nil {
		return "harness: " + err.Error(), false
	}
	peer := client.c07Peer
	defer peer.conn.Close()
	defer client.pause(false)

	next := uint32(10)
	got := func(id uint32) (res bool, nerr int, code int64) {
		code = -1
		for _, e := range peer.errFrames() {
			if uint32(e[0]) == id {
				nerr++
				code = e[1]
			}
		}
		return peer.gotRes(id), nerr, code
	}
	okCall := func() string {
		id := next
		next++
		if crlSendReq(peer, id, 5000, crlOK, 8) != nil {
			return "harness: write"
		}
		if !crlWait(2*time.Second, func() bool { r, n, _ := got(id); return r || n > 0 }) {
			st := ""
			for _, c := range tchannel.VerifC07Conns(rel) {
				o := tchannel.VerifC07Observe(c)
				st += fmt.Sprintf(" [conn state %d in %d out %d pending %d]", o.State, o.Inbound, o.Outbound, o.Pending)
			}
			nb, _ := be.count(crlOK)
			eof := false
			select {
			case <-peer.eof:
				eof = true
			default:
			}
			peer.mu.Lock()
			nres := len(peer.resDone)
			peer.mu.Unlock()
			return fmt.Sprintf("relayed call %d issued before Close got no answer within 2s (relay connections:%s; ok calls seen by the backend: %d; caller saw eof=%v, %d responses, %d error frames)", id, st, nb, eof, nres, len(peer.errFrames()))
		}
		if r, n, c := got(id); !r || n != 0 {
			return fmt.Sprintf("relayed call %d issued before Close: %d error frame(s), code %d, instead of its response", id, n, c)
		}
		return ""
	}
	if v := okCall(); v != "" { // both relay connections exist
		return v, false
	}
	maxTTL := time.Duration(0)
	for _, kind := range history {
		switch kind {
		case crlOK:
			if v := okCall(); v != "" {
				return v, false
			}
		case crlTimeout, crlLate:
			id := next
			next++
			ttl := uint32(25 + rng.Intn(30))
			if time.Duration(ttl)*time.Millisecond > maxTTL {
				maxTTL = time.Duration(ttl) * time.Millisecond
			}
			if crlSendReq(peer, id, ttl, byte(kind), 8) != nil {
				return "harness: write", false
			}
			if !crlWait(2*time.Second, func() bool { _, n, _ := got(id); return n > 0 }) {
				return fmt.Sprintf("relayed call %d (ttl %d ms) that the backend never answers: no timeout error frame from the relay within 2s", id, ttl), false
			}
			if _, n, c := got(id); n != 1 || c != 1 {
				return fmt.Sprintf("relayed call %d that the backend never answers: %d error frame(s), last code %d, want one timeout (1)", id, n, c), false
			}
			if kind == crlLate { // the backend answers after the relay's timeout: the frame meets a tombstone
				_, ids := be.count(crlLate)
				for _, bid := range ids {
					be.respond(bid, 2)
				}
				be.mu.Lock()
				for _, bid := range ids {
					be.reqs[bid] = 99
				}
				be.mu.Unlock()
			}
		case crlCancel:
			id := next
			next++
			before, _ := be.count(crlCancel)
			if crlSendReq(peer, id, 600, crlCancel, 8) != nil {
				return "harness: write", false
			}
			maxTTL = 600 * time.Millisecond
			if !crlWait(2*time.Second, func() bool { n, _ := be.count(crlCancel); return n > before }) {
				return "", true
			}
			payload := append([]byte{0, 0, 0, 0}, make([]byte, 25)...)
			payload = append(payload, 0, 1, 'c')
			cb := be.ncancels()
			peer.write(0xc0, id, payload)
			crlWait(500*time.Millisecond, func() bool { return be.ncancels() > cb })
		case crlSrcSlow:
			// the caller stops reading; the backend answers every call with a 59 KB response: the
			// socket buffers towards the caller fill, then the relay's send queue (4 frames) to the
			// caller: the next response fails with relay-source-conn-slow (no error frame is sent to a
			// caller that does not read), the calls in between are delivered late
			client.pause(true)
			first := next
			for i := 0; i < 260; i++ {
				id := next
				next++
				if crlSendReq(peer, id, 1500, crlSrcSlow, 8) != nil {
					break
				}
				if i%16 == 15 {
					time.Sleep(200 * time.Microsecond)
				}
			}
			last := next - 1
			// every call was forwarded and answered by the backend
			crlWait(2*time.Second, func() bool { n, _ := be.count(crlSrcSlow); return n >= int(last-first+1) })
			time.Sleep(20 * time.Millisecond)
			client.pause(false)
			// the calls end: a response at the caller, or failed by the relay (no frame); at the latest
			// the relay's timers end them after the ttl
			// ... and the caller has read everything that was queued for it (the relay's send queue
			// towards it has room again: a response that finds it full is dropped without a frame)
			seen := func() int {
				peer.mu.Lock()
				defer peer.mu.Unlock()
				return len(peer.resDone) + len(peer.errs)
			}
			lastSeen, quiet := -1, 0
			crlWait(5*time.Second, func() bool {
				time.Sleep(15 * time.Millisecond)
				if n := seen(); n == lastSeen && crlPendingSum(rel) == 0 {
					quiet++
				} else {
					lastSeen, quiet = n, 0
				}
				return quiet >= 3
			})
			lost := 0
			for id := first; id <= last; id++ {
				if r, n, _ := got(id); !r && n == 0 {
					lost++
				}
			}
			if lost == 0 {
				return "", true // the send queue towards the caller never filled up
			}
			be.mu.Lock()
			for bid, m := range be.reqs {
				if m == crlSrcSlow {
					be.reqs[bid] = 99
				}
			}
			be.mu.Unlock()
		case crlSlow:
			// the backend stops reading; large call reqs fill the socket buffers and then the relay's
			// send queue (4 frames) to the backend: the next one fails with relay-dest-conn-slow
			be.pause(true)
			first := next
			failedID := uint32(0)
			for i := 0; i < 400 && failedID == 0; i++ {
				id := next
				next++
				if crlSendReq(peer, id, 5000, crlSlow, 59000) != nil {
					break
				}
				if i%8 == 7 {
					time.Sleep(300 * time.Microsecond)
				}
				for _, e := range peer.errFrames() {
					if uint32(e[0]) >= first {
						failedID = uint32(e[0])
					}
				}
			}
			if failedID == 0 {
				crlWait(300*time.Millisecond, func() bool {
					for _, e := range peer.errFrames() {
						if uint32(e[0]) >= first {
							failedID = uint32(e[0])
						}
					}
					return failedID != 0
				})
			}
			be.pause(false)
			if failedID == 0 {
				return "", true
			}
			maxTTL = 5 * time.Second
			// every call of the burst ends: answered by the backend, or failed by the relay
			last := next - 1
			if !crlWait(6*time.Second, func() bool {
				for id := first; id <= last; id++ {
					if r, n, _ := got(id); !r && n == 0 {
						return false
					}
				}
				return true
			}) {
				return fmt.Sprintf("relayed calls %d..%d (burst against a backend that had stopped reading): not all of them were answered or failed within 6s after the backend resumed", first, last), false
			}
			maxTTL = 0
		}
	}
	time.Sleep(settle)
	poll := crlPoll(rel)
	for i := 0; i < closes; i++ {
		rel.Close()
		if i+1 < closes {
			time.Sleep(time.Duration(rng.Intn(1500)) * time.Microsecond)
		}
	}
	if v := crlAwaitClosed(rel, "relay", maxTTL+3*time.Second); v != "" {
		poll.finish()
		return v, false
	}
	return poll.finish(), false
}

func engineCloseRelay(rng *rand.Rand, n int, tier string, o *Out) {
	infeasible := 0
	for c := 0; c < n; c++ {
		if o.fails >= 4 || infeasible >= 8 {
			break
		}
		rawVariant := c%3 == 2
		nh := 1 + rng.Intn(4)
		kinds := []int{crlOK, crlTimeout, crlCancel, crlNoDest}
		if rawVariant {
			kinds = []int{crlOK, crlTimeout, crlCancel, crlLate, crlSlow, crlSrcSlow}
		}
		history := make([]int, nh)
		for i := range history {
			history[i] = kinds[rng.Intn(len(kinds))]
		}
		// directed first cases: each way of ending on its own, Close on the relay after the timers fired
		closing := rng.Intn(3)
		settle := []time.Duration{0, 3 * time.Millisecond, 70 * time.Millisecond}[rng.Intn(3)]
		overlap := rng.Intn(3) == 0
		if c < 2*len(kinds) {
			history = []int{kinds[(c/2)%len(kinds)]}
			if c >= 3 {
				history = append(history, crlOK)
			}
			closing, settle, overlap = 0, 70*time.Millisecond, false
		}
		if rawVariant {
			closing, overlap = 0, false
			nslow := 0
			for i, k := range history {
				if k == crlSlow || k == crlSrcSlow {
					nslow++
					// one burst per case (a small send queue towards the caller would also make the
					// responses of a dest-slow burst fail silently), and not in every case: they are slow
					if nslow > 1 || tier != "thorough" && c > 20 && rng.Intn(3) != 0 {
						history[i] = crlTimeout
					}
				}
			}
		}
		closes := 1 + rng.Intn(2)
		label := ""
		for _, k := range history {
			label += crlNames[k] + ","
		}
		var verdict string
		if rawVariant {
			var inf bool
			verdict, inf = crlRawCase(rng, history, settle, closes)
			if inf {
				infeasible++
				o.Hist("infeasible raw " + label)
				continue
			}
		} else {
			verdict = crlChanCase(rng, history, overlap, closing, settle, closes)
		}
		for _, k := range history {
			o.Hist("history=" + crlNames[k])
		}
		o.Hist([]string{"close=relay", "close=server", "close=client"}[closing])
		o.Hist(map[bool]string{true: "variant=raw", false: "variant=chan"}[rawVariant])
		if c < 2 {
			o.Sample(map[string]interface{}{"sub": "closerelay", "history": label, "closing": []string{"relay", "server", "client"}[closing], "settle_ms": settle.Milliseconds(), "overlap": overlap, "raw_peers": rawVariant})
		}
		if verdict != "" {
			verdict += fmt.Sprintf(" [closerelay %s: history %s overlap=%v, Close x%d on the %s after %v]", map[bool]string{true: "raw peers", false: "channels"}[rawVariant], label, overlap, closes, []string{"relay", "server", "client"}[closing], settle)
		}
		o.Oracle("closerelay", fmt.Sprintf("y%d", c), true, fmt.Sprint(rawVariant, label, overlap, closing, settle, closes, c), verdict)
	}
	if infeasible >= 8 {
		o.Oracle("closerelay", "infeasible", false, "infeasible", fmt.Sprintf("harness: %d relay histories could not be produced", infeasible))
	}
}
