package main

import (
	"bytes"
	"fmt"
	"math/rand"
	"net"
	"sync"
	"sync/atomic"
	"syscall"
	"time"

	tchannel "github.com/uber/tchannel-go"
	"github.com/uber/tchannel-go/raw"
	"github.com/uber/tchannel-go/relay"
)

// relaygap (C08, clause b: "the caller receives exactly the response or error content the
// destination produced, with the frames of each call kept in order").
//
// Directed scenarios on a REAL relay channel: a multi-frame response is on its way to a caller
// whose connection is stalled (the relay's writer for that connection blocks in Write, the send
// queue of SendBufferSize frames fills up), so the relay DROPS a non-final response frame and
// gives the call up (relay-source-conn-slow, no error frame by design).  Then the connection
// drains and the destination's remaining frames -- more non-final frames, the frame that ends
// the response, or an error frame -- arrive within the tombstone period.
//
//   sub relaygap      raw caller, raw destination (rawpeer.go): every frame is seen on the wire.
//                     Compared with the relay bookkeeping model (Model/RelayGap.v: which frames
//                     reach the caller's send queue, Failed/End callbacks, live items, tombstones).
//   sub relaygapcall  REAL client channel (raw.Call with a deadline), raw destination.
//
// Oracle (from the statement, not from the model): what the caller gets for the call is
//   - wire level: a PREFIX of the destination's frame sequence (only the id rewritten) -- no
//     call res / call res continue frame may follow a frame that was dropped (an error frame may:
//     it still gives the caller an error);
//   - outcome: either exactly the destination's response (all argument bytes) or an error
//     (error frame, checksum failure, no completion => the caller's own deadline) -- never a
//     response that completes successfully with bytes missing, and never a caller that is
//     still blocked after its deadline.
// Checksum type none (and farmhash, which this library does not compute) leaves a gap
// unnoticed by the caller; crc32/crc32c turn it into a checksum error.

func init() { engines["relaygap"] = engineRelayGap }

// ---------------------------------------------------------------- a stallable connection

type gapGate struct {
	mu      sync.Mutex
	ch      chan struct{} // non-nil: writers park
	parked  int32
	written int64
}

func (g *gapGate) stall() {
	g.mu.Lock()
	if g.ch == nil {
		g.ch = make(chan struct{})
	}
	g.mu.Unlock()
}

func (g *gapGate) release() {
	g.mu.Lock()
	if g.ch != nil {
		close(g.ch)
		g.ch = nil
	}
	g.mu.Unlock()
}

type gapConn struct {
	net.Conn
	g *gapGate
}

func (c *gapConn) Write(b []byte) (int, error) {
	c.g.mu.Lock()
	ch := c.g.ch
	c.g.mu.Unlock()
	if ch != nil {
		atomic.AddInt32(&c.g.parked, 1)
		<-ch
		atomic.AddInt32(&c.g.parked, -1)
	}
	n, err := c.Conn.Write(b)
	atomic.AddInt64(&c.g.written, 1)
	return n, err
}

func (c *gapConn) SyscallConn() (syscall.RawConn, error) {
	if sc, ok := c.Conn.(syscall.Conn); ok {
		return sc.SyscallConn()
	}
	return nil, fmt.Errorf("no syscall conn")
}

type gapListener struct {
	net.Listener
	g *gapGate
}

func (l *gapListener) Accept() (net.Conn, error) {
	c, err := l.Listener.Accept()
	if err != nil {
		return nil, err
	}
	return &gapConn{Conn: c, g: l.g}, nil
}

func gapWaitFor(timeout time.Duration, cond func() bool) bool {
	dl := time.Now().Add(timeout)
	for !cond() {
		if time.Now().After(dl) {
			return false
		}
		time.Sleep(100 * time.Microsecond)
	}
	return true
}

// ---------------------------------------------------------------- relay host (spy)

type gapCall struct {
	peer   *tchannel.Peer
	mu     sync.Mutex
	failed []string
	ended  int
	succ   int
}

func (c *gapCall) Destination() (*tchannel.Peer, bool) { return c.peer, c.peer != nil }
func (c *gapCall) SentBytes(uint16)                    {}
func (c *gapCall) ReceivedBytes(uint16)                {}
func (c *gapCall) CallResponse(relay.RespFrame)        {}
func (c *gapCall) Succeeded()                          { c.mu.Lock(); c.succ++; c.mu.Unlock() }
func (c *gapCall) Failed(r string)                     { c.mu.Lock(); c.failed = append(c.failed, r); c.mu.Unlock() }
func (c *gapCall) End()                                { c.mu.Lock(); c.ended++; c.mu.Unlock() }

type gapHost struct {
	mu    sync.Mutex
	ch    *tchannel.Channel
	dest  string
	calls []*gapCall
}

func (h *gapHost) SetChannel(ch *tchannel.Channel) { h.ch = ch }
func (h *gapHost) Start(cf relay.CallFrame, _ *relay.Conn) (tchannel.RelayCall, error) {
	h.mu.Lock()
	defer h.mu.Unlock()
	c := &gapCall{peer: h.ch.RootPeers().GetOrAdd(h.dest)}
	h.calls = append(h.calls, c)
	return c, nil
}

func (h *gapHost) snapshot() (failed []string, ended int) {
	h.mu.Lock()
	defer h.mu.Unlock()
	for _, c := range h.calls {
		c.mu.Lock()
		failed = append(failed, c.failed...)
		ended += c.ended
		c.mu.Unlock()
	}
	return
}

// ---------------------------------------------------------------- world

type gapWorld struct {
	rly   *tchannel.Channel
	host  *gapHost
	gate  *gapGate
	ln    net.Listener
	dln   net.Listener
	dest  *c08Conn
	rconn *tchannel.Connection
}

func newGapWorld(sendBuf int) (*gapWorld, error) {
	w := &gapWorld{host: &gapHost{}, gate: &gapGate{}}
	dln, dch, err := c08RawDest()
	if err != nil {
		return nil, err
	}
	w.dln = dln
	w.host.dest = dln.Addr().String()
	rly, err := tchannel.NewChannel("gap-relay", &tchannel.ChannelOptions{
		RelayHost:                w.host,
		DefaultConnectionOptions: tchannel.ConnectionOptions{SendBufferSize: sendBuf},
	})
	if err != nil {
		return w, err
	}
	w.rly = rly
	ln, err := net.Listen("tcp", "127.0.0.1:0")
	if err != nil {
		return w, err
	}
	w.ln = ln
	if err := rly.Serve(&gapListener{Listener: ln, g: w.gate}); err != nil {
		return w, err
	}
	ctx, cancel := tchannel.NewContext(3 * time.Second)
	conn, err := rly.RootPeers().GetOrAdd(w.host.dest).GetConnection(ctx)
	cancel()
	if err != nil {
		return w, err
	}
	w.rconn = conn
	select {
	case w.dest = <-dch:
	case <-time.After(3 * time.Second):
		return w, fmt.Errorf("raw destination was not connected")
	}
	return w, nil
}

func (w *gapWorld) close() {
	w.gate.release()
	if w.dest != nil {
		w.dest.c.Close()
	}
	if w.dln != nil {
		w.dln.Close()
	}
	if w.rly != nil {
		w.rly.Close()
	}
	if w.ln != nil {
		w.ln.Close()
	}
}

// callerQueued: frames waiting in the send queues of the relay's inbound connections (the caller's)
func (w *gapWorld) callerQueued() int {
	st := w.rly.IntrospectState(&tchannel.IntrospectionOptions{})
	n := 0
	for _, p := range st.RootPeers {
		for _, c := range p.InboundConnections {
			n += c.SendChQueued
		}
	}
	return n
}

// callerSync (never while stalled): once the relay has handled everything the destination sent
// (destination barrier), wait until the caller connection's send queue is empty and only then
// ping through it -- a ping that finds the queue full would make the relay drop the connection.
// When the ping response is back, every frame the relay forwarded before has arrived (FIFO).
func (w *gapWorld) callerSync(caller *c08Conn) ([]*rawFrame, error) {
	if !gapWaitFor(3*time.Second, func() bool { return w.callerQueued() == 0 }) {
		return nil, fmt.Errorf("the caller's send queue does not drain")
	}
	return caller.barrier(3 * time.Second)
}

// live (non-tombstone) relay items and tombstones over all connections of the relay
func (w *gapWorld) items() (live, tombs int) {
	st := w.rly.IntrospectState(&tchannel.IntrospectionOptions{IncludeExchanges: true, IncludeTombstones: true})
	count := func(cs []tchannel.ConnectionRuntimeState) {
		for _, c := range cs {
			live += c.Relayer.Count
			for _, it := range c.Relayer.InboundItems.Items {
				if it.Tomb {
					tombs++
				}
			}
			for _, it := range c.Relayer.OutboundItems.Items {
				if it.Tomb {
					tombs++
				}
			}
		}
	}
	for _, p := range st.RootPeers {
		count(p.InboundConnections)
		count(p.OutboundConnections)
	}
	return
}

// ---------------------------------------------------------------- the plan of one scenario

type gapPlan struct {
	sendBuf    int
	pre        int // frames delivered before the stall
	extra      int // further non-final frames sent while the queue is still full
	post       int // non-final frames sent after the connection drained
	final      int // 0 the frame that ends the response, 1 an error frame instead, 2 nothing more
	csum       byte
	maxPayload int
	arg2, arg3 []byte
	tracing    []byte
	frames     [][]byte // the destination's response, id = destination id
	room       []bool   // per frame: does the caller's send queue have room when it arrives
}

func gapRandBytes(rng *rand.Rand, n int) []byte {
	b := make([]byte, n)
	rng.Read(b)
	return b
}

func genGapPlan(rng *rand.Rand, did uint32, p *gapPlan) {
	csz := 0
	if p.csum >= 1 && p.csum <= 3 {
		csz = 4
	}
	p.tracing = gapRandBytes(rng, 25)
	p.arg2 = gapRandBytes(rng, rng.Intn(40))
	want := p.pre + p.sendBuf + 1 + 1 + p.extra + p.post + 1
	capc := p.maxPayload - (1 + 1 + csz + 2)
	capf := p.maxPayload - (1 + 27 + 1 + csz) - 2 - (2 + len(p.arg2)) - 2
	p.arg3 = gapRandBytes(rng, capf+(want-2)*capc+1+rng.Intn(capc-1))
	p.frames = buildRawCallFrames(false, did, rawCallResHeader(0, p.tracing, nil), p.csum, [3][]byte{{}, p.arg2, p.arg3}, p.maxPayload)
	// the plan follows the frames actually built
	t := len(p.frames)
	for t < p.pre+p.sendBuf+3 && p.pre > 0 {
		p.pre--
	}
	spare := t - (p.pre + p.sendBuf + 3)
	if spare < 0 {
		spare = 0
	}
	if p.extra > spare {
		p.extra = spare
	}
	p.post = spare - p.extra
	switch p.final {
	case 1:
		p.frames[t-1] = rawFrameBytes(0xff, did, rawErrorPayload(0x03, p.tracing, "destination is busy"))
	case 2:
		p.frames = p.frames[:t-1]
	}
	p.room = make([]bool, len(p.frames))
	for i := range p.room {
		full := i >= p.pre+p.sendBuf+1 && i < p.pre+p.sendBuf+2+p.extra
		p.room[i] = !full
	}
}

func (p *gapPlan) String() string {
	return fmt.Sprintf("send queue %d, %d frames of max payload %d (checksum type %d, arg3 %d bytes): %d delivered, connection stalls, %d queued, %d dropped, connection drains, %d more non-final, then %s",
		p.sendBuf, len(p.frames), p.maxPayload, p.csum, len(p.arg3), p.pre, p.sendBuf+1, 1+p.extra, p.post,
		[]string{"the frame that ends the response", "an error frame", "nothing"}[p.final])
}

// model input: maxtombs nframes (mt flags code room)*
func (p *gapPlan) modelInput() []int64 {
	in := []int64{30000, int64(len(p.frames))}
	for i, f := range p.frames {
		// call res: flags:1 code:1 ...; call res continue: flags:1 ...; error: code:1 ...
		flags, code := int64(f[16]), int64(0)
		switch f[2] {
		case 0x04:
			code = int64(f[17])
		case 0xff:
			flags, code = 0, int64(f[16])
		}
		in = append(in, int64(f[2]), flags, code, b2i(p.room[i]))
	}
	return in
}

func gapSameButID(got *rawFrame, want []byte, id uint32) bool {
	g := c08FrameBytes(got)
	if len(g) != len(want) || got.ID != id {
		return false
	}
	return bytes.Equal(g[:4], want[:4]) && bytes.Equal(g[8:], want[8:])
}

// what a conforming caller concludes from the frames it got for the call (independent
// reassembly per the protocol document: rawpeer.go)
//
//	"exact"     the response completed and all arguments are the destination's
//	"error:..." an error frame / a checksum failure / a malformed frame
//	"pending"   no frame ended the response: the caller's deadline decides (an error)
//	"GAP:..."   the response completed, checksums fine, arguments differ
func gapOutcome(p *gapPlan, got []*rawFrame) string {
	var frags []*rawCall
	cs := &rawCsum{typ: p.csum}
	for i, f := range got {
		if f.Type == 0xff {
			return "error: error frame"
		}
		want := byte(0x14)
		if i == 0 {
			want = 0x04
		}
		if f.Type != want {
			return fmt.Sprintf("error: frame %d has type %#x", i, f.Type)
		}
		c, err := parseRawCall(f.Type, f.Payload)
		if err != nil {
			return "error: malformed frame: " + err.Error()
		}
		if c.CsumType != p.csum {
			return "error: checksum type changes"
		}
		for _, ch := range c.Chunks {
			cs.add(ch)
		}
		if !bytes.Equal(c.Csum, cs.bytes()) {
			return fmt.Sprintf("error: checksum mismatch in frame %d", i)
		}
		frags = append(frags, c)
		if f.Payload[0]&1 == 0 {
			args := collectArgs(frags)
			if len(args) != 3 {
				return fmt.Sprintf("error: %d arguments", len(args))
			}
			if i != len(got)-1 {
				return "error: frames after the end of the response"
			}
			if len(args[0]) == 0 && bytes.Equal(args[1], p.arg2) && bytes.Equal(args[2], p.arg3) {
				return "exact"
			}
			return fmt.Sprintf("GAP: the response completes (checksum type %d verifies) with arg2 %d of %d bytes, arg3 %d of %d bytes",
				p.csum, len(args[1]), len(p.arg2), len(args[2]), len(p.arg3))
		}
	}
	return "pending"
}

// ---------------------------------------------------------------- raw caller scenario

func runGapRaw(rng *rand.Rand, o *Out, id string, p *gapPlan) {
	w, err := newGapWorld(p.sendBuf)
	if w != nil {
		defer w.close()
	}
	if err != nil {
		o.Hist("setup failed")
		return
	}
	cc, err := net.DialTimeout("tcp", w.ln.Addr().String(), 2*time.Second)
	if err != nil {
		o.Hist("setup failed")
		return
	}
	defer cc.Close()
	if _, err := rawClientHandshake(cc); err != nil {
		o.Hist("setup failed")
		return
	}
	caller := newC08Conn(cc)
	cid := []uint32{1, 7, 0x7fffffff, 0xffffffff, rng.Uint32()}[rng.Intn(5)]
	req := buildRawCallFrames(true, cid, rawCallReqHeader(60000, gapRandBytes(rng, 25), "gapdst", [][2]string{{"as", "raw"}, {"cn", "gapcaller"}}),
		0, [3][]byte{[]byte("m"), gapRandBytes(rng, 8), gapRandBytes(rng, 30)}, 65519)
	if err := caller.write(req[0]); err != nil {
		o.Hist("setup failed")
		return
	}
	rf := w.dest.waitFrame(3 * time.Second)
	if rf == nil || rf.Type != 0x03 {
		o.Oracle("relaygap", id, false, id, "the call req did not reach the destination")
		return
	}
	genGapPlan(rng, rf.ID, p)
	infeasible := func(why string) {
		o.Hist("infeasible: " + why)
		o.Oracle("relaygap", id, false, id, "")
	}
	var got []*rawFrame
	collect := func(fs []*rawFrame) {
		for _, f := range fs {
			if f.ID == cid {
				got = append(got, f)
			}
		}
	}
	send := func(from, to int) bool {
		for i := from; i < to && i < len(p.frames); i++ {
			if err := w.dest.write(p.frames[i]); err != nil {
				return false
			}
		}
		return true
	}
	// paced: one frame, the relay handles it (destination barrier), the caller has it (caller sync);
	// outside the stall the send queue therefore never overflows by accident
	paced := func(from, to int) string {
		for i := from; i < to && i < len(p.frames); i++ {
			if !send(i, i+1) {
				return "destination write failed"
			}
			if _, err := w.dest.barrier(3 * time.Second); err != nil {
				return "destination barrier"
			}
			fs, err := w.callerSync(caller)
			collect(fs)
			if err != nil {
				return "caller sync: " + err.Error()
			}
		}
		return ""
	}
	// 1. frames delivered while the caller reads
	if why := paced(0, p.pre); why != "" {
		infeasible(why)
		return
	}
	// 2. the caller's connection stalls: the relay's writer parks in Write with one frame,
	//    sendBuf frames fill the queue, the next ones find it full
	w.gate.stall()
	base := atomic.LoadInt64(&w.gate.written)
	if !send(p.pre, p.pre+1) || !gapWaitFor(3*time.Second, func() bool { return atomic.LoadInt32(&w.gate.parked) == 1 }) {
		infeasible("the relay's writer did not park")
		return
	}
	stalledTo := p.pre + p.sendBuf + 2 + p.extra
	if !send(p.pre+1, stalledTo) {
		infeasible("destination write failed")
		return
	}
	if _, err := w.dest.barrier(3 * time.Second); err != nil {
		infeasible("destination barrier")
		return
	}
	failedMid, _ := w.host.snapshot()
	// 3. the connection drains
	w.gate.release()
	if !gapWaitFor(3*time.Second, func() bool { return atomic.LoadInt64(&w.gate.written) >= base+int64(p.sendBuf+1) }) {
		infeasible("the queued frames were not written")
		return
	}
	fs, err := w.callerSync(caller)
	collect(fs)
	if err != nil {
		infeasible("caller sync after the stall: " + err.Error())
		return
	}
	// 4. the rest of the response arrives within the tombstone period
	if why := paced(stalledTo, len(p.frames)); why != "" {
		infeasible(why)
		return
	}
	failed, ended := w.host.snapshot()
	live, tombs := w.items()

	// observation in the model's encoding: per destination frame, did it reach the caller
	obs := []int64{}
	j := 0
	fwd := make([]bool, len(p.frames))
	for i, f := range p.frames {
		if j < len(got) && gapSameButID(got[j], f, cid) {
			fwd[i] = true
			j++
		}
		obs = append(obs, b2i(fwd[i]))
	}
	obs = append(obs, int64(len(failed)), int64(ended), int64(live), int64(tombs))

	verdict := ""
	dropped := -1
	for i := range fwd {
		if !fwd[i] && dropped < 0 {
			dropped = i
		}
		// (an error frame of the destination after a gap still gives the caller an error: allowed by the statement)
		if fwd[i] && dropped >= 0 && verdict == "" && p.frames[i][2] != 0xff {
			verdict = fmt.Sprintf("frame %d of the destination's response (type %#x, flags %#x) reached the caller although frame %d of the same response had been dropped: the caller's frames are not a prefix of the destination's",
				i, p.frames[i][2], p.frames[i][16], dropped)
		}
	}
	if j < len(got) && verdict == "" {
		verdict = fmt.Sprintf("the caller received a frame for the call that the destination did not send at that position (type %#x, %d bytes)", got[j].Type, len(got[j].Payload))
	}
	out := gapOutcome(p, got)
	if len(out) >= 3 && out[:3] == "GAP" {
		verdict = out + " -- " + verdict
	}
	if verdict != "" {
		verdict = fmt.Sprintf("%s [scenario: %s; relay reported %v before the drain; caller got %d frames, outcome %s]", verdict, p, failedMid, len(got), out)
	}
	slow := false
	for _, r := range failedMid {
		if r == "relay-source-conn-slow" {
			slow = true
		}
	}
	if slow {
		o.Hist(fmt.Sprintf("raw: dropped with relay-source-conn-slow, final=%d csum=%d", p.final, p.csum))
	} else {
		o.Hist("raw: no relay-source-conn-slow reported")
	}
	o.Hist("raw outcome: " + out[:gapMin(len(out), 7)])
	o.Sample(map[string]interface{}{"scenario": p.String(), "caller_frames": len(got), "outcome": out, "relay_failed": failed})
	o.Case("relaygap", id, p.modelInput(), obs, true, verdict)
}

func gapMin(a, b int) int {
	if a < b {
		return a
	}
	return b
}

// ---------------------------------------------------------------- real client scenario

func runGapCall(rng *rand.Rand, o *Out, id string, p *gapPlan) {
	w, err := newGapWorld(p.sendBuf)
	if w != nil {
		defer w.close()
	}
	if err != nil {
		o.Hist("setup failed")
		return
	}
	client, err := tchannel.NewChannel("gapcaller", nil)
	if err != nil {
		o.Hist("setup failed")
		return
	}
	defer client.Close()
	const deadline = 1200 * time.Millisecond
	type result struct {
		a2, a3 []byte
		appErr bool
		err    error
		took   time.Duration
	}
	resCh := make(chan result, 1)
	go func() {
		ctx, cancel := tchannel.NewContextBuilder(deadline).DisableTracing().Build()
		defer cancel()
		t0 := time.Now()
		a2, a3, resp, err := raw.Call(ctx, client, w.ln.Addr().String(), "gapdst", "m", []byte("a2"), []byte("a3"))
		r := result{a2: a2, a3: a3, err: err, took: time.Since(t0)}
		if resp != nil {
			r.appErr = resp.ApplicationError()
		}
		resCh <- r
	}()
	rf := w.dest.waitFrame(3 * time.Second)
	if rf == nil || rf.Type != 0x03 {
		o.Oracle("relaygapcall", id, false, id, "the call req did not reach the destination")
		return
	}
	genGapPlan(rng, rf.ID, p)
	infeasible := func(why string) {
		o.Hist("infeasible: " + why)
		o.Oracle("relaygapcall", id, false, id, "")
	}
	send := func(from, to int) bool {
		for i := from; i < to && i < len(p.frames); i++ {
			if err := w.dest.write(p.frames[i]); err != nil {
				return false
			}
		}
		return true
	}
	base := atomic.LoadInt64(&w.gate.written)
	for i := 0; i < p.pre; i++ { // paced: the send queue never overflows by accident
		if !send(i, i+1) {
			infeasible("destination write failed")
			return
		}
		if !gapWaitFor(3*time.Second, func() bool { return atomic.LoadInt64(&w.gate.written) >= base+int64(i+1) }) {
			infeasible("the first frames were not written")
			return
		}
	}
	w.gate.stall()
	base = atomic.LoadInt64(&w.gate.written)
	if !send(p.pre, p.pre+1) || !gapWaitFor(3*time.Second, func() bool { return atomic.LoadInt32(&w.gate.parked) == 1 }) {
		infeasible("the relay's writer did not park")
		return
	}
	stalledTo := p.pre + p.sendBuf + 2 + p.extra
	if !send(p.pre+1, stalledTo) {
		infeasible("destination write failed")
		return
	}
	if _, err := w.dest.barrier(3 * time.Second); err != nil {
		infeasible("destination barrier")
		return
	}
	failedMid, _ := w.host.snapshot()
	w.gate.release()
	if !gapWaitFor(3*time.Second, func() bool { return atomic.LoadInt64(&w.gate.written) >= base+int64(p.sendBuf+1) }) {
		infeasible("the queued frames were not written")
		return
	}
	for i := stalledTo; i < len(p.frames); i++ {
		if !send(i, i+1) {
			infeasible("destination write failed")
			return
		}
		if _, err := w.dest.barrier(3 * time.Second); err != nil {
			infeasible("destination barrier")
			return
		}
		gapWaitFor(3*time.Second, func() bool { return w.callerQueued() == 0 })
	}
	var r result
	hung := false
	select {
	case r = <-resCh:
	case <-time.After(deadline + 4*time.Second):
		hung = true
	}
	verdict := ""
	outcome := ""
	switch {
	case hung:
		outcome = "hang"
		verdict = fmt.Sprintf("the caller is still blocked %v after its deadline of %v", 4*time.Second, deadline)
	case r.err != nil:
		outcome = "error"
	case !r.appErr && bytes.Equal(r.a2, p.arg2) && bytes.Equal(r.a3, p.arg3):
		outcome = "exact"
	default:
		outcome = "GAP"
		verdict = fmt.Sprintf("GAP: the call returned successfully (application error %v) with arg2 %d of %d bytes and arg3 %d of %d bytes of the destination's response",
			r.appErr, len(r.a2), len(p.arg2), len(r.a3), len(p.arg3))
	}
	if verdict != "" {
		verdict = fmt.Sprintf("%s [scenario: real client, %s; relay reported %v before the drain]", verdict, p, failedMid)
	}
	o.Hist(fmt.Sprintf("call outcome: %s (csum %d)", outcome, p.csum))
	errText := ""
	if r.err != nil {
		errText = r.err.Error()
	}
	o.Sample(map[string]interface{}{"scenario": "real client, " + p.String(), "outcome": outcome, "error": errText, "relay_failed": failedMid})
	o.Oracle("relaygapcall", id, true, fmt.Sprintf("%s %d %d %d %d %d", id, p.sendBuf, p.pre, p.extra, p.post, p.csum), verdict)
}

// ---------------------------------------------------------------- engine

func engineRelayGap(rng *rand.Rand, n int, tier string, o *Out) {
	// directed corners first, then random plans
	corners := []gapPlan{
		{sendBuf: 1, pre: 0, extra: 0, post: 0, final: 0, csum: 0, maxPayload: 300},
		{sendBuf: 1, pre: 1, extra: 1, post: 2, final: 0, csum: 1, maxPayload: 300},
		{sendBuf: 2, pre: 0, extra: 2, post: 0, final: 0, csum: 2, maxPayload: 1000},
		{sendBuf: 4, pre: 2, extra: 0, post: 1, final: 0, csum: 3, maxPayload: 65519},
		{sendBuf: 1, pre: 0, extra: 1, post: 1, final: 1, csum: 0, maxPayload: 200},
		{sendBuf: 3, pre: 1, extra: 0, post: 2, final: 2, csum: 0, maxPayload: 500},
	}
	for i := 0; i < n; i++ {
		var p gapPlan
		if i < len(corners) {
			p = corners[i]
		} else {
			p = gapPlan{
				sendBuf: []int{1, 1, 2, 3, 5, 8}[rng.Intn(6)], pre: rng.Intn(3), extra: rng.Intn(3), post: rng.Intn(3),
				final: []int{0, 0, 0, 1, 2}[rng.Intn(5)], csum: byte(rng.Intn(4)),
				maxPayload: []int{150 + rng.Intn(300), 1000 + rng.Intn(3000), 65519}[rng.Intn(3)],
			}
		}
		runGapRaw(rng, o, fmt.Sprintf("g%d", i), &p)
	}
	// the same through a real client: checksum none (a gap would be silent) and crc32 (an error, not a hang)
	calls := []gapPlan{
		{sendBuf: 1, pre: 0, extra: 0, post: 1, final: 0, csum: 0, maxPayload: 400},
		{sendBuf: 2, pre: 1, extra: 1, post: 0, final: 0, csum: 1, maxPayload: 400},
	}
	nc := len(calls)
	if tier == "thorough" {
		nc = 8
	}
	for i := 0; i < nc; i++ {
		p := calls[i%len(calls)]
		if i >= len(calls) {
			p.sendBuf, p.pre, p.extra, p.post = 1+rng.Intn(4), rng.Intn(3), rng.Intn(2), rng.Intn(3)
			p.csum = []byte{0, 0, 1, 3}[rng.Intn(4)]
			p.maxPayload = 200 + rng.Intn(2000)
		}
		runGapCall(rng, o, fmt.Sprintf("c%d", i), &p)
	}
}
