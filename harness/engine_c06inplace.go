package main

// Engine c06inplace (property C06): the SECONDARY, in-place decoders / encoders of message fields
// (messages.go callReqSpan, relay_messages.go lazyCallReq / lazyCallRes / lazyError accessors,
// finishesCall, hasMoreFragments, isCallResOK) against the FIELDS of a message whose payload is laid
// out by an encoder written here from the protocol document.
//
//	sub c06inplace  kind 0 call req / 1 frames with a flags byte / 2 error frame: every accessor that
//	                reads straight from the payload vs the field (model: Model/C06InPlace.v, proved equal
//	                to Spec/C06InPlaceSpec.v) + oracle; the parse-dependent accessors (Caller, Method,
//	                RoutingKey, RoutingDelegate, ArgScheme, arg2, arg3, offsets; lazyCallRes) by oracle.
//	sub c06ipwire   end to end: a call req with a NON-ROOT span is answered by an error frame of the
//	                library -- a relay's own system error (RelayHost error, bad relay host, unreachable
//	                destination), a relay timeout, a connection declining the call while closing -- and the
//	                raw peer checks that the error frame carries the call's id and 25 tracing bytes.
//
// All names of this file carry the prefix c06ip.

import (
	"encoding/binary"
	"errors"
	"fmt"
	"math/rand"
	"net"
	"sync"
	"syscall"
	"time"

	tchannel "github.com/uber/tchannel-go"
	"github.com/uber/tchannel-go/relay"
)

func init() { engines["c06inplace"] = engineC06InPlace }

// ---------------------------------------------------------------- spans

type c06ipSpan struct {
	span, parent, trace uint64
	flags               byte
}

// wire layout: spanid:8 parentid:8 traceid:8 traceflags:1
func (s c06ipSpan) bytes() []byte {
	b := make([]byte, 25)
	binary.BigEndian.PutUint64(b[0:], s.span)
	binary.BigEndian.PutUint64(b[8:], s.parent)
	binary.BigEndian.PutUint64(b[16:], s.trace)
	b[24] = s.flags
	return b
}

func (s c06ipSpan) halves() []int64 {
	h := func(v uint64) (int64, int64) { return int64(v >> 32), int64(v & 0xffffffff) }
	a, b := h(s.span)
	c, d := h(s.parent)
	e, f := h(s.trace)
	return []int64{a, b, c, d, e, f, int64(s.flags)}
}

func c06ipHalvesOf(v [4]uint64) []int64 {
	return c06ipSpan{span: v[0], parent: v[1], trace: v[2], flags: byte(v[3])}.halves()
}

// span bit patterns: zero, root (span = trace, no parent), child spans (three different ids), all
// ones, single high bits, byte-distinct patterns, random
func c06ipGenSpan(rng *rand.Rand, k int) c06ipSpan {
	switch k % 8 {
	case 0:
		return c06ipSpan{}
	case 1:
		t := rng.Uint64()
		return c06ipSpan{span: t, parent: 0, trace: t, flags: 1}
	case 2:
		return c06ipSpan{span: 0x2122232425262728, parent: 0x1112131415161718, trace: 0x0102030405060708, flags: 1}
	case 3:
		return c06ipSpan{span: ^uint64(0), parent: ^uint64(0), trace: ^uint64(0), flags: 255}
	case 4:
		return c06ipSpan{span: 1 << 63, parent: 1, trace: 1 << 32, flags: 0x80}
	case 5:
		return c06ipSpan{span: ^uint64(0), parent: 0, trace: 0, flags: 0}
	case 6:
		return c06ipSpan{span: 0, parent: 0, trace: ^uint64(0), flags: byte(rng.Intn(256))}
	}
	return c06ipSpan{span: rng.Uint64(), parent: rng.Uint64(), trace: rng.Uint64(), flags: byte(rng.Intn(256))}
}

// ---------------------------------------------------------------- payloads (protocol document)

// nh:1 (hk~1 hv~1){nh}
func c06ipHeaders(h [][2]string) []byte {
	b := []byte{byte(len(h))}
	for _, kv := range h {
		b = append(b, str1(kv[0])...)
		b = append(b, str1(kv[1])...)
	}
	return b
}

func c06ipCsumLen(t byte) int {
	if t == 0 {
		return 0
	}
	return 4
}

type c06ipReq struct {
	flags    byte
	ttlMs    uint32
	span     c06ipSpan
	service  string
	headers  [][2]string
	csumType byte
	csum     []byte
	arg1     []byte
	arg2     []byte
	arg3     []byte
	frag     bool // the frame ends after arg2 (flags has the more-fragments bit): arg2 is fragmented
}

// rest = nh:1 (hk~1 hv~1){nh} csumtype:1 (csum:4){0,1} arg1~2 arg2~2 [arg3~2]
func (r *c06ipReq) rest() []byte {
	b := c06ipHeaders(r.headers)
	b = append(b, r.csumType)
	b = append(b, r.csum...)
	b = append(b, str2(string(r.arg1))...)
	b = append(b, str2(string(r.arg2))...)
	if !r.frag {
		b = append(b, str2(string(r.arg3))...)
	}
	return b
}

// flags:1 ttl:4 tracing:25 service~1 rest
func (r *c06ipReq) payload(ttlMs uint32) []byte {
	b := []byte{r.flags, byte(ttlMs >> 24), byte(ttlMs >> 16), byte(ttlMs >> 8), byte(ttlMs)}
	b = append(b, r.span.bytes()...)
	b = append(b, str1(r.service)...)
	return append(b, r.rest()...)
}

func c06ipLast(h [][2]string, key string) []byte {
	var v []byte
	for _, kv := range h {
		if kv[0] == key {
			v = []byte(kv[1])
		}
	}
	return v
}

func c06ipGenReq(rng *rand.Rand, k int) *c06ipReq {
	r := &c06ipReq{}
	r.flags = byte(pick(rng, 0, 0, 1, 1, 2, 0xfe, 0xff, rng.Intn(256)))
	r.ttlMs = uint32(pick(rng, 0, 1, 1000, 1<<31, 1<<32-1, rng.Intn(1<<31)))
	r.span = c06ipGenSpan(rng, k)
	r.service = randBytes(rng, pick(rng, 0, 1, 7, 7, 30, 254, 255))
	nh := pick(rng, 0, 1, 2, 4, 6, 12)
	keys := []string{"as", "cn", "rd", "rk", "re", "se", "sk", "x", ""}
	for i := 0; i < nh; i++ {
		kk := keys[rng.Intn(len(keys))]
		if rng.Intn(6) == 0 {
			kk = randBytes(rng, pick(rng, 1, 3, 16))
		}
		v := randBytes(rng, pick(rng, 0, 1, 4, 9, 40))
		if kk == "as" && rng.Intn(2) == 0 {
			v = c06ipPickS(rng, "thrift", "raw", "json", "http")
		}
		r.headers = append(r.headers, [2]string{kk, v})
	}
	r.csumType = byte(pick(rng, 0, 1, 2, 3))
	r.csum = []byte(randBytes(rng, c06ipCsumLen(r.csumType)))
	r.arg1 = []byte(randBytes(rng, pick(rng, 0, 1, 5, 16, 200)))
	r.arg2 = []byte(randBytes(rng, pick(rng, 0, 1, 2, 30, 500)))
	r.arg3 = []byte(randBytes(rng, pick(rng, 0, 1, 3, 100, 2000)))
	if r.flags&1 == 1 && rng.Intn(2) == 0 {
		r.frag = true
	}
	return r
}

func c06ipPickS(rng *rand.Rand, xs ...string) string { return xs[rng.Intn(len(xs))] }

func c06ipHex(b []byte) string { return fmt.Sprintf("%x", b) }

func c06ipEq(a, b []byte) bool { return string(a) == string(b) }

// ---------------------------------------------------------------- kind 0: call req

func c06ipCaseReq(rng *rand.Rand, k int, o *Out) {
	r := c06ipGenReq(rng, k)
	id := uint32(pick(rng, 1, 2, 7, 0x7fffffff, 0xffffffff, rng.Intn(1<<31)))
	newMs := uint32(pick(rng, 0, 1, 999, 1<<31, 1<<32-1, rng.Intn(1<<31)))
	newTTL := time.Duration(newMs)*time.Millisecond + time.Duration(pick(rng, 0, 0, 1, 999999))
	code := byte(pick(rng, 1, 2, 3, 4, 5, 6, 7, 8, 9, 0xff, rng.Intn(256)))
	msg := randBytes(rng, pick(rng, 0, 1, 20, 300))
	stale := byte(pick(rng, 0, 0x55, 0xff))
	payload := r.payload(r.ttlMs)
	v := tchannel.VerifC06IPCallReq(id, payload, stale, newTTL, code, msg)

	in := []int64{0, int64(r.flags), int64(r.ttlMs)}
	in = append(in, r.span.halves()...)
	in = append(in, int64(newTTL), int64(code))
	in = putBytes(in, []byte(r.service))
	in = putBytes(in, r.rest())
	in = putBytes(in, []byte(msg))

	var obs []int64
	verdict := ""
	if v.Panic != "" {
		obs = []int64{0, -1}
		verdict = "an in-place accessor panicked on a valid call req frame: " + v.Panic
	} else {
		obs = []int64{0}
		obs = append(obs, c06ipHalvesOf(v.Span)...)
		obs = append(obs, int64(v.TTL), b2i(v.More), b2i(v.Finishes))
		obs = putBytes(obs, v.Service)
		obs = putBytes(obs, v.AfterSetTTL)
		var errPayload []byte
		if len(v.ErrFrame) >= 16 {
			errPayload = v.ErrFrame[16:]
		}
		obs = putBytes(obs, errPayload)

		// statement-level oracle, from the layout: decoding returns the original fields
		want := [4]uint64{r.span.span, r.span.parent, r.span.trace, uint64(r.span.flags)}
		tr := r.span.bytes()
		switch {
		case v.Span != want:
			verdict = fmt.Sprintf("callReqSpan of a call req with tracing %s (spanid parentid traceid flags) returned spanID=%#x parentID=%#x traceID=%#x flags=%#x", c06ipHex(tr), v.Span[0], v.Span[1], v.Span[2], v.Span[3])
		case v.LazySpan != want:
			verdict = fmt.Sprintf("lazyCallReq.Span() of a call req with tracing %s returned spanID=%#x parentID=%#x traceID=%#x flags=%#x", c06ipHex(tr), v.LazySpan[0], v.LazySpan[1], v.LazySpan[2], v.LazySpan[3])
		case v.TTL != time.Duration(r.ttlMs)*time.Millisecond:
			verdict = fmt.Sprintf("lazyCallReq.TTL() = %v for a call req with ttl %d ms", v.TTL, r.ttlMs)
		case !c06ipEq(v.Service, []byte(r.service)):
			verdict = fmt.Sprintf("lazyCallReq.Service() = %x for service %x", v.Service, r.service)
		case v.More != (r.flags&1 == 1) || v.LazyMore != v.More:
			verdict = fmt.Sprintf("hasMoreFragments = %v / %v for flags %#x", v.More, v.LazyMore, r.flags)
		case v.Finishes:
			verdict = "finishesCall is true for a call req frame"
		case !c06ipEq(v.AfterSetTTL, r.payload(newMs)):
			verdict = fmt.Sprintf("after SetTTL(%v) the payload is not the original with ttl field %d ms (first 40 bytes %x)", newTTL, newMs, v.AfterSetTTL[:min(40, len(v.AfterSetTTL))])
		case v.TTLAfter != time.Duration(newMs)*time.Millisecond:
			verdict = fmt.Sprintf("TTL() after SetTTL(%v) = %v", newTTL, v.TTLAfter)
		case len(v.ErrFrame) < 16:
			verdict = "SendSystemError queued no frame"
		case v.ErrFrame[2] != 0xff || binary.BigEndian.Uint32(v.ErrFrame[4:]) != id:
			verdict = fmt.Sprintf("error frame has type %#x id %d for call %d", v.ErrFrame[2], binary.BigEndian.Uint32(v.ErrFrame[4:]), id)
		case !c06ipEq(errPayload, rawErrorPayload(code, tr, msg)):
			verdict = fmt.Sprintf("the error frame built for a call req with tracing %s carries payload %s, specified %s (code:1 tracing:25 message~2)", c06ipHex(tr), c06ipHex(errPayload[:min(len(errPayload), 40)]), c06ipHex(rawErrorPayload(code, tr, msg)[:min(28+len(msg), 40)]))
		}
	}
	o.Hist(fmt.Sprintf("req span=%d frag=%v flags&1=%d", k%8, r.frag, r.flags&1))
	if k < 2 {
		o.Sample(map[string]interface{}{"sub": "c06inplace", "input": in[:min(len(in), 60)]})
	}
	o.Case("c06inplace", fmt.Sprintf("q%d", k), in, obs, true, verdict)

	// parse-dependent accessors (newLazyCallReq): oracle from the layout
	pv := ""
	if v.Panic == "" {
		off := 31 + len(r.service) + len(c06ipHeaders(r.headers)) + 1 + len(r.csum) + 2 + len(r.arg1) + 2
		switch {
		case r.csumType > 3:
		case v.ParseErr != "":
			pv = "newLazyCallReq failed on a valid call req frame: " + v.ParseErr
		case !c06ipEq(v.Method, r.arg1):
			pv = fmt.Sprintf("Method() = %x, arg1 = %x", v.Method, r.arg1)
		case !c06ipEq(v.Caller, c06ipLast(r.headers, "cn")):
			pv = fmt.Sprintf("Caller() = %x, header cn = %x", v.Caller, c06ipLast(r.headers, "cn"))
		case !c06ipEq(v.Delegate, c06ipLast(r.headers, "rd")):
			pv = fmt.Sprintf("RoutingDelegate() = %x, header rd = %x", v.Delegate, c06ipLast(r.headers, "rd"))
		case !c06ipEq(v.Key, c06ipLast(r.headers, "rk")):
			pv = fmt.Sprintf("RoutingKey() = %x, header rk = %x", v.Key, c06ipLast(r.headers, "rk"))
		case !c06ipEq(v.As, c06ipLast(r.headers, "as")):
			pv = fmt.Sprintf("arg scheme = %x, header as = %x", v.As, c06ipLast(r.headers, "as"))
		case v.CsumType != int(r.csumType):
			pv = fmt.Sprintf("checksum type %d, sent %d", v.CsumType, r.csumType)
		case !c06ipEq(v.Arg2, r.arg2) || v.Arg2Start != off || v.Arg2End != off+len(r.arg2):
			pv = fmt.Sprintf("arg2 = %d bytes at [%d,%d), sent %d bytes at [%d,%d)", len(v.Arg2), v.Arg2Start, v.Arg2End, len(r.arg2), off, off+len(r.arg2))
		case v.Arg2Frag != r.frag:
			pv = fmt.Sprintf("isArg2Fragmented = %v, frame ends after arg2: %v, flags %#x", v.Arg2Frag, r.frag, r.flags)
		case !r.frag && !c06ipEq(v.Arg3, r.arg3):
			pv = fmt.Sprintf("arg3 = %d bytes, sent %d bytes", len(v.Arg3), len(r.arg3))
		case v.ParseSpan != v.Span || v.ParseTTL != v.TTL || !c06ipEq(v.ParseSvc, v.Service):
			pv = "Span / TTL / Service of the parsed lazyCallReq differ from those of the bare one"
		}
		if pv != "" {
			pv += fmt.Sprintf(" [call req payload %s]", c06ipHex(payload[:min(len(payload), 120)]))
		}
	}
	o.Oracle("c06ipparse", fmt.Sprintf("p%d", k), true, fmt.Sprint(in[:min(len(in), 200)]), pv)
}

// ---------------------------------------------------------------- kind 1: frames with a flags byte

func c06ipCaseRes(rng *rand.Rand, k int, o *Out) {
	mt := byte(pick(rng, 4, 4, 4, 0x14, 0x14, 3, 0x13, 0xff, 0xc0, 1, 2, 0xd0, 0xd1, rng.Intn(256)))
	flags := byte(pick(rng, 0, 1, 2, 3, 0xfe, 0xff, rng.Intn(256)))
	code := byte(pick(rng, 0, 0, 1, 2, 0xff, rng.Intn(256)))
	span := c06ipGenSpan(rng, k)
	var headers [][2]string
	for i := pick(rng, 0, 1, 3); i > 0; i-- {
		headers = append(headers, [2]string{c06ipPickS(rng, "as", "x", "cn"), c06ipPickS(rng, "thrift", "raw", "", "zz")})
	}
	ct := byte(pick(rng, 0, 1, 2, 3))
	a1, a2, a3 := []byte(randBytes(rng, pick(rng, 0, 1, 5))), []byte(randBytes(rng, pick(rng, 0, 2, 50))), []byte(randBytes(rng, pick(rng, 0, 3, 200)))
	frag := flags&1 == 1 && rng.Intn(2) == 0
	rest := append([]byte{}, span.bytes()...)
	rest = append(rest, c06ipHeaders(headers)...)
	rest = append(rest, ct)
	rest = append(rest, []byte(randBytes(rng, c06ipCsumLen(ct)))...)
	rest = append(rest, str2(string(a1))...)
	rest = append(rest, str2(string(a2))...)
	if !frag {
		rest = append(rest, str2(string(a3))...)
	}
	payload := append([]byte{flags, code}, rest...)
	v := tchannel.VerifC06IPCallRes(mt, uint32(k), payload, byte(pick(rng, 0, 0xaa)))

	in := []int64{1, int64(mt), int64(flags), int64(code)}
	in = putBytes(in, rest)
	var obs []int64
	verdict := ""
	if v.Panic != "" {
		obs = []int64{1, -1}
		verdict = "an in-place accessor panicked on a valid frame: " + v.Panic
	} else {
		obs = []int64{1, b2i(v.OK), b2i(v.More), b2i(v.Finishes)}
		fin := mt == 0xff || mt == 0xc0 || ((mt == 4 || mt == 0x14) && flags&1 == 0)
		switch {
		case v.OK != (code == 0) || v.LazyOK != v.OK:
			verdict = fmt.Sprintf("isCallResOK = %v / lazyCallRes.OK = %v for response code %#x", v.OK, v.LazyOK, code)
		case v.More != (flags&1 == 1):
			verdict = fmt.Sprintf("hasMoreFragments = %v for flags %#x", v.More, flags)
		case v.Finishes != fin:
			verdict = fmt.Sprintf("finishesCall = %v for frame type %#x flags %#x", v.Finishes, mt, flags)
		case mt == 4 && v.ParseErr != "":
			verdict = "newLazyCallRes failed on a valid call res frame: " + v.ParseErr
		case mt == 4 && (!c06ipEq(v.As, c06ipLast(headers, "as")) || !c06ipEq(v.Arg2, a2) || v.Arg2Frag != frag || v.ParseOK != (code == 0)):
			verdict = fmt.Sprintf("lazyCallRes: as %x (sent %x) arg2 %d bytes (sent %d) fragmented %v (frame ends after arg2: %v) ok %v (code %#x)", v.As, c06ipLast(headers, "as"), len(v.Arg2), len(a2), v.Arg2Frag, frag, v.ParseOK, code)
		}
	}
	o.Hist(fmt.Sprintf("res mt=%#x", mt))
	o.Case("c06inplace", fmt.Sprintf("r%d", k), in, obs, true, verdict)
}

// ---------------------------------------------------------------- kind 2: error frame

func c06ipCaseErr(rng *rand.Rand, k int, o *Out) {
	code := byte(pick(rng, 0, 1, 2, 3, 9, 0xff, rng.Intn(256)))
	span := c06ipGenSpan(rng, k)
	msg := randBytes(rng, pick(rng, 0, 1, 30, 1000))
	payload := rawErrorPayload(code, span.bytes(), msg)
	got, fin, pn := tchannel.VerifC06IPError(uint32(k), payload, 0x33)
	in := []int64{2, int64(code)}
	in = append(in, span.halves()...)
	in = putBytes(in, []byte(msg))
	obs := []int64{2, int64(got), b2i(fin)}
	verdict := ""
	switch {
	case pn != "":
		obs = []int64{2, -1}
		verdict = "lazyError.Code / finishesCall panicked on a valid error frame: " + pn
	case got != int(code):
		verdict = fmt.Sprintf("lazyError.Code() = %d for an error frame with code %d", got, code)
	case !fin:
		verdict = "finishesCall is false for an error frame"
	}
	o.Hist("err")
	o.Case("c06inplace", fmt.Sprintf("x%d", k), in, obs, true, verdict)
}

// ---------------------------------------------------------------- end to end

// scenarios: what makes the library answer the call req with an error frame
const (
	c06ipScBusy     = iota // RelayHost.Start returns ErrServerBusy
	c06ipScRefused         // RelayHost.Start returns a plain error (=> declined)
	c06ipScBadHost         // the relay call has no destination (errBadRelayHost)
	c06ipScUnreach         // the destination does not accept connections (network error)
	c06ipScTimeout         // the destination never answers: relay timeout
	c06ipScClosing         // handleCallReq on a connection in state start-close (in process)
	c06ipScInClosed        // ... in state inbound-closed
	c06ipScCount
)

var c06ipScNames = []string{"relay-busy", "relay-refused", "relay-bad-host", "relay-unreachable", "relay-timeout", "conn-start-close", "conn-inbound-closed"}

type c06ipHost struct {
	ch      *tchannel.Channel
	dead    string
	silent  string
	mu      sync.Mutex
	started int
}

func (h *c06ipHost) SetChannel(ch *tchannel.Channel) { h.ch = ch }
func (h *c06ipHost) Start(f relay.CallFrame, c *relay.Conn) (tchannel.RelayCall, error) {
	h.mu.Lock()
	h.started++
	h.mu.Unlock()
	switch string(f.Service()) {
	case "c06ip-busy":
		return nil, tchannel.ErrServerBusy
	case "c06ip-refused":
		return nil, errors.New("c06ip: not served")
	case "c06ip-badhost":
		return &c06ipCall{}, nil
	case "c06ip-unreach":
		return &c06ipCall{peer: h.ch.RootPeers().GetOrAdd(h.dead)}, nil
	}
	return &c06ipCall{peer: h.ch.RootPeers().GetOrAdd(h.silent)}, nil
}

type c06ipCall struct{ peer *tchannel.Peer }

func (c *c06ipCall) Destination() (*tchannel.Peer, bool) { return c.peer, c.peer != nil }
func (c *c06ipCall) SentBytes(uint16)                    {}
func (c *c06ipCall) ReceivedBytes(uint16)                {}
func (c *c06ipCall) CallResponse(relay.RespFrame)        {}
func (c *c06ipCall) Succeeded()                          {}
func (c *c06ipCall) Failed(string)                       {}
func (c *c06ipCall) End()                                {}

type c06ipNet struct {
	relay  *tchannel.Channel
	conn   net.Conn // raw client -> relay
	silent net.Listener
	deadFd int
	nextID uint32
}

// a raw backend that completes the handshake and then swallows every frame
func c06ipSilentBackend() (net.Listener, error) {
	ln, err := net.Listen("tcp", "127.0.0.1:0")
	if err != nil {
		return nil, err
	}
	go func() {
		for {
			c, err := ln.Accept()
			if err != nil {
				return
			}
			go func(c net.Conn) {
				defer c.Close()
				if _, _, err := rawServerHandshake(c); err != nil {
					return
				}
				for {
					if _, err := readRawFrame(c, 30*time.Second); err != nil {
						return
					}
				}
			}(c)
		}
	}()
	return ln, nil
}

func c06ipSetup() (*c06ipNet, error) {
	n := &c06ipNet{nextID: 10, deadFd: -1}
	var err error
	if n.silent, err = c06ipSilentBackend(); err != nil {
		return nil, err
	}
	host := &c06ipHost{silent: n.silent.Addr().String()}
	n.relay, err = tchannel.NewChannel("c06ip-relay", &tchannel.ChannelOptions{Logger: tchannel.NullLogger, RelayHost: host})
	if err != nil {
		return nil, err
	}
	if err = n.relay.ListenAndServe("127.0.0.1:0"); err != nil {
		return nil, err
	}
	// an address that refuses connections and that no other process can get while the engine
	// runs: a socket that is bound but never listens
	host.dead, n.deadFd = c06ipDeadAddr()
	if n.conn, err = net.DialTimeout("tcp", n.relay.PeerInfo().HostPort, 2*time.Second); err != nil {
		return nil, err
	}
	if _, err = rawClientHandshake(n.conn); err != nil {
		return nil, err
	}
	return n, nil
}

func (n *c06ipNet) close() {
	if n.conn != nil {
		n.conn.Close()
	}
	if n.relay != nil {
		n.relay.Close()
	}
	if n.silent != nil {
		n.silent.Close()
	}
	if n.deadFd >= 0 {
		syscall.Close(n.deadFd)
	}
}

func c06ipDeadAddr() (string, int) {
	fd, err := syscall.Socket(syscall.AF_INET, syscall.SOCK_STREAM, 0)
	if err != nil {
		return "127.0.0.1:1", -1
	}
	if err := syscall.Bind(fd, &syscall.SockaddrInet4{Port: 0, Addr: [4]byte{127, 0, 0, 1}}); err != nil {
		syscall.Close(fd)
		return "127.0.0.1:1", -1
	}
	sa, err := syscall.Getsockname(fd)
	if err != nil {
		syscall.Close(fd)
		return "127.0.0.1:1", -1
	}
	return fmt.Sprintf("127.0.0.1:%d", sa.(*syscall.SockaddrInet4).Port), fd
}

// one unfragmented call req frame, raw/"echo", with the given tracing
func c06ipCallFrame(id uint32, ttlMs uint32, span c06ipSpan, service string) []byte {
	first := rawCallReqHeader(ttlMs, span.bytes(), service, [][2]string{{"as", "raw"}, {"cn", "c06ip-client"}})
	frames := buildRawCallFrames(true, id, first, 1, [3][]byte{[]byte("echo"), []byte("a2"), []byte("a3")}, 65519)
	return frames[0]
}

// returns the error frame answering call id (nil, reason when none arrives)
func (n *c06ipNet) relayCase(sc int, span c06ipSpan) (id uint32, f *rawFrame, why string) {
	n.nextID++
	id = n.nextID
	service := map[int]string{c06ipScBusy: "c06ip-busy", c06ipScRefused: "c06ip-refused", c06ipScBadHost: "c06ip-badhost",
		c06ipScUnreach: "c06ip-unreach", c06ipScTimeout: "c06ip-silent"}[sc]
	ttl := uint32(2000)
	if sc == c06ipScTimeout {
		ttl = 120
	}
	n.conn.SetWriteDeadline(time.Now().Add(2 * time.Second))
	if _, err := n.conn.Write(c06ipCallFrame(id, ttl, span, service)); err != nil {
		return id, nil, "write: " + err.Error()
	}
	deadline := time.Now().Add(8 * time.Second)
	for time.Now().Before(deadline) {
		fr, err := readRawFrame(n.conn, time.Until(deadline))
		if err != nil {
			return id, nil, "read: " + err.Error()
		}
		if fr.ID == id {
			return id, fr, ""
		}
	}
	return id, nil, "no frame for the call within 8s"
}

func c06ipCaseWire(n *c06ipNet, sc int, span c06ipSpan, k int, o *Out) {
	var id uint32
	var ftype byte
	var fid uint32
	var payload []byte
	infeasible := ""
	if sc >= c06ipScClosing {
		id = uint32(1000 + k)
		state := 1
		if sc == c06ipScInClosed {
			state = 2
		}
		out, pn := tchannel.VerifC06IPDecline(state, c06ipCallFrame(id, 1000, span, "c06ip-svc"))
		if pn != "" {
			infeasible = "handleCallReq: " + pn
		} else if len(out) < 16 {
			infeasible = "no frame queued"
		} else {
			ftype, fid, payload = out[2], binary.BigEndian.Uint32(out[4:]), out[16:]
		}
	} else {
		var fr *rawFrame
		var why string
		id, fr, why = n.relayCase(sc, span)
		if fr == nil {
			infeasible = why
		} else {
			ftype, fid, payload = fr.Type, fr.ID, fr.Payload
		}
	}
	in := []int64{3, int64(sc), int64(id)}
	in = append(in, span.halves()...)
	tr := span.bytes()
	verdict := ""
	var obs []int64
	switch {
	case infeasible != "":
		// the library did not answer at all: a statement of other properties (C07-C11); here the
		// case has no observable
		o.Hist("wire " + c06ipScNames[sc] + " infeasible: " + infeasible)
		o.Oracle("c06ipwire", fmt.Sprintf("w%d", k), false, "", "")
		return
	case ftype != 0xff:
		obs = []int64{3, int64(ftype), int64(fid)}
		verdict = fmt.Sprintf("%s: the call was answered by a frame of type %#x, an error frame was expected", c06ipScNames[sc], ftype)
	case len(payload) < 28:
		obs = []int64{3, int64(ftype), int64(fid)}
		verdict = fmt.Sprintf("%s: error frame payload of %d bytes", c06ipScNames[sc], len(payload))
	default:
		obs = []int64{3, int64(ftype), int64(fid)}
		obs = putBytes(obs, payload[1:26])
		if fid != id {
			verdict = fmt.Sprintf("%s: error frame id %d for call %d", c06ipScNames[sc], fid, id)
		} else if !c06ipEq(payload[1:26], tr) {
			verdict = fmt.Sprintf("%s: the error frame (code %d, %q) answering a call req with tracing %s (spanid parentid traceid flags) carries tracing %s", c06ipScNames[sc], payload[0], string(payload[28:min(len(payload), 90)]), c06ipHex(tr), c06ipHex(payload[1:26]))
		}
	}
	o.Hist("wire " + c06ipScNames[sc])
	o.Case("c06ipwire", fmt.Sprintf("w%d", k), in, obs, true, verdict)
}

// ---------------------------------------------------------------- engine

func engineC06InPlace(rng *rand.Rand, n int, tier string, o *Out) {
	for k := 0; k < n; k++ {
		switch {
		case k%10 < 6:
			c06ipCaseReq(rng, k, o)
		case k%10 < 9:
			c06ipCaseRes(rng, k, o)
		default:
			c06ipCaseErr(rng, k, o)
		}
	}
	// end to end: every scenario with the non-root / boundary span patterns
	net_, err := c06ipSetup()
	if err != nil {
		o.Hist("wire setup failed: " + err.Error())
		if net_ != nil {
			net_.close()
		}
		return
	}
	defer net_.close()
	rounds := 1 + n/400
	if tier == "thorough" {
		rounds = 2 + n/400
	}
	k := 0
	// a relay scenario is answered within milliseconds (the timeout scenario within its 120 ms ttl);
	// when the library under test answers slowly or not at all (that is not this property's
	// statement) the remaining relay cases are skipped instead of waiting seconds for each
	slow := 0
	for r := 0; r < rounds; r++ {
		for sc := 0; sc < c06ipScCount; sc++ {
			pats := []int{2, 7, 4, 3, 1, 5, 6, 0}
			if sc == c06ipScTimeout {
				pats = []int{2, 7, 4} // each costs the ttl
			}
			for _, p := range pats {
				if sc < c06ipScClosing && slow >= 3 {
					o.Hist("wire " + c06ipScNames[sc] + " skipped (the relay answers slowly)")
					continue
				}
				t0 := time.Now()
				c06ipCaseWire(net_, sc, c06ipGenSpan(rng, p), k, o)
				if time.Since(t0) > time.Second {
					slow++
				}
				k++
			}
		}
	}
}
