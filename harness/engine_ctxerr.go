package main

// Engine "ctxerr" (property C20): every place on the call path where the END OF A CONTEXT
// (deadline exceeded / caller cancellation) is turned into the call's error.
//
// For every wait site a directed scenario parks a real call exactly there and then ends its
// context, by deadline and by cancellation, on a direct connection, with a relay between caller
// and callee, and -- for the sites the relay itself goes through when it looks up the
// destination connection (Peer.getConnectionRelay) -- inside a real relay whose error frame
// is read by a raw TCP client (spec-written codec of rawpeer.go).
//
//	site 0  queued      Peer.lockNewConn: another caller's connection attempt owns the peer's
//	                    new-connection semaphore (its handshake with a silent listener is pending)
//	site 1  predial     Channel.Connect: the ctx.Err() check in front of the dial
//	site 2  dial        the Dialer hook blocks until the context ends (variants: it returns the
//	                    context's error / the error of the real net.Dialer for that context)
//	site 3  handshake   the listener accepts and never answers the init req
//	site 4  begincall   Connection.beginCall on an active connection with an ended context
//	site 5  flushcheck  reqResWriter.flushFragment -> messageExchange.checkError: the context
//	                    ended between BeginCall and the first flush
//	site 6  flushwait   reqResWriter.flushFragment's select: stalled socket writer, send queue full
//	site 7  recvcheck   messageExchange.recvPeerFrame's first check: the context ended between
//	                    the last request fragment and the first read of the response
//	site 8  recvwait    messageExchange.recvPeerFrame's select: the peer never answers
//
// Sub "c20_ctxsite": input [site, end (1 deadline, 2 cancel), topology (0 direct, 1 via relay,
// 2 relay-originated frame seen by a raw client), variant]; observable = the caller's error in
// the gerr encoding (topology 2: [1, code, message]).  Oracle (from the statement): deadline
// exceeded -> timeout (0x01), caller cancellation -> cancelled (0x02), never a non-system error;
// a relay-originated frame carries 0x01.
import (
	"fmt"
	"math/rand"
	"net"
	"os"
	"sync"
	"sync/atomic"
	"time"

	tchannel "github.com/uber/tchannel-go"
	"golang.org/x/net/context"
)

func init() { engines["ctxerr"] = engineCtxErr }

var cxDebug = os.Getenv("CX_DEBUG") != ""

// ---------------------------------------------------------------- helpers

// cxBlackhole accepts TCP connections and never writes a byte (a peer that never handshakes).
type cxBlackhole struct {
	ln       net.Listener
	accepted chan struct{}
	mu       sync.Mutex
	conns    []net.Conn
}

func newCxBlackhole() *cxBlackhole {
	ln, err := net.Listen("tcp", "127.0.0.1:0")
	if err != nil {
		panic(err)
	}
	b := &cxBlackhole{ln: ln, accepted: make(chan struct{}, 64)}
	go func() {
		for {
			c, err := ln.Accept()
			if err != nil {
				return
			}
			b.mu.Lock()
			b.conns = append(b.conns, c)
			b.mu.Unlock()
			b.accepted <- struct{}{}
			go func() {
				buf := make([]byte, 4096)
				for {
					if _, err := c.Read(buf); err != nil {
						return
					}
				}
			}()
		}
	}()
	return b
}

func (b *cxBlackhole) addr() string { return b.ln.Addr().String() }

func (b *cxBlackhole) waitAccepted(d time.Duration) bool {
	select {
	case <-b.accepted:
		return true
	case <-time.After(d):
		return false
	}
}

// dropConns closes the accepted sockets (pending handshakes of the other side fail at once).
func (b *cxBlackhole) dropConns() {
	b.mu.Lock()
	for _, c := range b.conns {
		c.Close()
	}
	b.conns = nil
	b.mu.Unlock()
}

func (b *cxBlackhole) close() {
	b.ln.Close()
	b.dropConns()
}

// cxDialer blocks until the context ends.  variant 0: returns the context's error itself (what a
// hand-written dialer does), variant 1: returns what the real net.Dialer returns for that context.
type cxDialer struct {
	variant int
	target  atomic.Value // string: only dials of this host:port block
	parked  chan struct{}
}

func newCxDialer(variant int) *cxDialer {
	d := &cxDialer{variant: variant, parked: make(chan struct{}, 64)}
	d.target.Store("")
	return d
}

func (d *cxDialer) dial(ctx context.Context, network, hostPort string) (net.Conn, error) {
	nd := net.Dialer{}
	if t, _ := d.target.Load().(string); t != hostPort {
		return nd.DialContext(ctx, network, hostPort)
	}
	d.parked <- struct{}{}
	<-ctx.Done()
	if d.variant == 0 {
		return nil, ctx.Err()
	}
	return nd.DialContext(ctx, network, hostPort)
}

func (d *cxDialer) waitParked(dur time.Duration) bool {
	select {
	case <-d.parked:
		return true
	case <-time.After(dur):
		return false
	}
}

func cxClient(name string, opts *tchannel.ChannelOptions) *tchannel.Channel {
	ch, err := tchannel.NewChannel(name, opts)
	if err != nil {
		panic(err)
	}
	return ch
}

// a context that ends by `end` (1 deadline, 2 cancel) after about d; far = the deadline of a
// cancelled context (never reached)
func cxCtx(end int, d time.Duration) (context.Context, context.CancelFunc) {
	if end == 1 {
		return tchannel.NewContext(d)
	}
	ctx, cancel := tchannel.NewContext(20 * time.Second)
	t := time.AfterFunc(d, cancel)
	return ctx, func() { t.Stop(); cancel() }
}

// a context that has ALREADY ended
func cxEndedCtx(end int) (context.Context, context.CancelFunc) {
	if end == 1 {
		ctx, cancel := tchannel.NewContext(time.Millisecond)
		<-ctx.Done()
		return ctx, cancel
	}
	ctx, cancel := tchannel.NewContext(20 * time.Second)
	cancel()
	return ctx, cancel
}

var cxSiteNames = []string{"queued", "predial", "dial", "handshake", "begincall", "flushcheck", "flushwait", "recvcheck", "recvwait"}
var cxEndNames = []string{"", "deadline", "cancel"}
var cxTopoNames = []string{"direct", "via-relay", "relay-originated"}

// the statement-level oracle: the code (and message class) for the way the context ended
func cxVerdict(site, end, topo int, err error, infeasible string) string {
	if infeasible != "" {
		return ""
	}
	what := fmt.Sprintf("%s/%s/%s", cxSiteNames[site], cxEndNames[end], cxTopoNames[topo])
	wantCode, wantMsg, cond := tchannel.ErrCodeTimeout, "timeout", "deadline exceeded"
	if end == 2 {
		wantCode, wantMsg, cond = tchannel.ErrCodeCancelled, "request cancelled", "caller cancellation"
	}
	if err == nil {
		return fmt.Sprintf("%s: the call's context ended (%s) while it was parked at the site, and the call reported success", what, cond)
	}
	se, ok := err.(tchannel.SystemError)
	if !ok {
		return fmt.Sprintf("%s: %s reached the caller as the non-system error %q (GetSystemErrorCode = %#x); the statement requires code %#x", what, cond, err.Error(), int(tchannel.GetSystemErrorCode(err)), int(wantCode))
	}
	if se.Code() != wantCode {
		if site == 3 && end == 2 && se.Code() == tchannel.ErrCodeTimeout {
			// nothing in the outbound handshake looks at the context once the socket deadline is set
			return fmt.Sprintf("[c20:handshake-ignores-cancel] %s: the caller cancelled while the connection handshake was pending; the call returned at its DEADLINE with code %#x (%q); the statement requires cancelled (%#x)", what, int(se.Code()), se.Message(), int(wantCode))
		}
		return fmt.Sprintf("%s: %s reached the caller with code %#x (%q); the statement requires code %#x", what, cond, int(se.Code()), se.Message(), int(wantCode))
	}
	if se.Message() != wantMsg {
		return fmt.Sprintf("%s: %s reached the caller with code %#x but message %q, not %q", what, cond, int(se.Code()), se.Message(), wantMsg)
	}
	return ""
}

// ---------------------------------------------------------------- caller-side scenarios

// cxEnv: a client channel, optionally a relay in front of the server / the silent listener
type cxEnv struct {
	client  *tchannel.Channel
	relay   *tchannel.Channel
	host    *c20Host
	server  *c20Server
	bh      *cxBlackhole
	dialer  *cxDialer
	stalled *atomic.Bool
	gate    chan struct{}
	entry   string // host:port the client calls
	dest    string // host:port of the callee (server or silent listener)
}

func (e *cxEnv) close() {
	if e.stalled != nil && e.stalled.Load() {
		e.stalled.Store(false)
		close(e.gate)
	}
	if e.bh != nil {
		e.bh.close()
	}
	e.client.Close()
	if e.relay != nil {
		e.relay.Close()
	}
	if e.server != nil {
		e.server.ch.Close()
	}
}

// cxNewEnv builds the topology for one caller-side scenario.  silent: the callee is the silent
// listener instead of a server.  dialVariant >= 0: the CLIENT's dialer blocks on `entry`.
// stall: the client's sockets go through a stallable writer and its send queue has one slot.
func cxNewEnv(topo int, silent bool, dialVariant int, stall bool) *cxEnv {
	e := &cxEnv{}
	if silent {
		e.bh = newCxBlackhole()
		e.dest = e.bh.addr()
	} else {
		e.server = newC20Server("cx-server")
		e.dest = e.server.ch.PeerInfo().HostPort
	}
	e.entry = e.dest
	if topo == 1 {
		e.host = &c20Host{}
		e.host.set(e.dest, nil)
		e.relay = newC20Relay("cx-relay", e.host, nil)
		e.entry = e.relay.PeerInfo().HostPort
	}
	opts := &tchannel.ChannelOptions{}
	if dialVariant >= 0 {
		e.dialer = newCxDialer(dialVariant)
		e.dialer.target.Store(e.entry)
		opts.Dialer = e.dialer.dial
	}
	if stall {
		e.stalled = &atomic.Bool{}
		e.gate = make(chan struct{})
		opts.DefaultConnectionOptions = tchannel.ConnectionOptions{SendBufferSize: 1}
		opts.Dialer = func(ctx context.Context, network, hostPort string) (net.Conn, error) {
			d := net.Dialer{}
			c, err := d.DialContext(ctx, network, hostPort)
			if err != nil {
				return nil, err
			}
			return &stallConn{Conn: c, stalled: e.stalled, gate: e.gate}, nil
		}
	}
	e.client = cxClient("cx-client", opts)
	return e
}

func cxWriteArg(w tchannel.ArgWriter, werr error, b []byte) error {
	return tchannel.NewArgWriter(w, werr).Write(b)
}

// cxCallerCase runs one caller-side scenario; returns the call's error and, when the scenario
// could not be set up on this run, why (counted as infeasible, never as a failure).
func cxCallerCase(site, end, topo, variant int, d time.Duration) (err error, infeasible string) {
	service := "cx-server"
	switch site {
	case 0: // queued behind another caller's connection attempt
		// direct: the first attempt's handshake with the silent listener pends.  via-relay: the
		// relay is real and would answer the handshake, so the first attempt to the relay's
		// address is held up in a blocking dialer instead (a relay in front does not change the
		// client's own queue).
		var e *cxEnv
		if topo == 1 {
			e = cxNewEnv(1, false, 0, false)
		} else {
			e = cxNewEnv(0, true, -1, false)
		}
		defer e.close()
		target := e.entry
		peer := e.client.Peers().GetOrAdd(target)
		first := make(chan error, 1)
		ctxA, cancelA := tchannel.NewContext(8 * time.Second)
		defer cancelA()
		go func() {
			_, err := peer.GetConnection(ctxA)
			first <- err
		}()
		if topo == 1 {
			if !e.dialer.waitParked(3 * time.Second) {
				return nil, "first caller never reached the dialer"
			}
		} else if !e.bh.waitAccepted(3 * time.Second) {
			return nil, "first caller's connection was not accepted"
		}
		ctxB, cancelB := cxCtx(end, d)
		defer cancelB()
		_, err = peer.BeginCall(ctxB, service, "m", nil)
		select {
		case ferr := <-first:
			return nil, fmt.Sprintf("the first caller's attempt ended early (%v)", ferr)
		default:
		}
		cancelA()
		if e.bh != nil {
			e.bh.dropConns()
		}
		select {
		case <-first:
		case <-time.After(3 * time.Second):
		}
		return err, ""
	case 1: // the check in front of the dial
		e := cxNewEnv(topo, false, -1, false)
		defer e.close()
		ctx, cancel := cxEndedCtx(end)
		defer cancel()
		if variant == 0 {
			_, err = e.client.Connect(ctx, e.entry)
		} else {
			_, err = e.client.Peers().GetOrAdd(e.entry).BeginCall(ctx, service, "m", nil)
		}
		return err, ""
	case 2: // blocked in the dialer
		e := cxNewEnv(topo, false, variant, false)
		defer e.close()
		ctx, cancel := cxCtx(end, d)
		defer cancel()
		done := make(chan error, 1)
		go func() {
			_, err := e.client.Peers().GetOrAdd(e.entry).BeginCall(ctx, service, "m", nil)
			done <- err
		}()
		select {
		case <-e.dialer.parked:
		case <-done:
			return nil, "the context ended before the call reached the dialer"
		case <-time.After(3 * time.Second):
			return nil, "the call never reached the dialer"
		}
		select {
		case err = <-done:
			return err, ""
		case <-time.After(10 * time.Second):
			return nil, "the call did not return within 10 s of its context's end"
		}
	case 3: // silent listener
		e := cxNewEnv(0, true, -1, false)
		defer e.close()
		ctx, cancel := cxCtx(end, d)
		defer cancel()
		if end == 2 {
			// the handshake is bounded by the context's DEADLINE (connection deadline); give the
			// cancelled context a deadline that the scenario can wait for
			cancel()
			dctx, dcancel := tchannel.NewContext(d + 400*time.Millisecond)
			t := time.AfterFunc(d, dcancel)
			ctx, cancel = dctx, func() { t.Stop(); dcancel() }
			defer cancel()
		}
		_, err = e.client.Peers().GetOrAdd(e.dest).BeginCall(ctx, service, "m", nil)
		return err, ""
	}

	// sites 4..8: a connection to a real server exists
	stall := site == 6
	e := cxNewEnv(topo, false, -1, stall)
	defer e.close()
	peer := e.client.Peers().GetOrAdd(e.entry)
	cctx, ccancel := tchannel.NewContext(5 * time.Second)
	_, cerr := peer.GetConnection(cctx)
	ccancel()
	if cerr != nil {
		return nil, fmt.Sprintf("connect: %v", cerr)
	}
	ins := &c20Instr{kind: 3, started: make(chan struct{}), release: make(chan struct{})}
	e.server.set(ins)
	defer close(ins.release)
	switch site {
	case 4:
		ctx, cancel := cxEndedCtx(end)
		defer cancel()
		_, err = peer.BeginCall(ctx, service, "m", nil)
		return err, ""
	case 5:
		ctx, cancel := cxCtx(end, d)
		defer cancel()
		call, berr := peer.BeginCall(ctx, service, "m", nil)
		if berr != nil {
			return nil, fmt.Sprintf("BeginCall: %v", berr)
		}
		<-ctx.Done()
		w, werr := call.Arg2Writer()
		if err = cxWriteArg(w, werr, []byte("a2")); err != nil {
			return err, ""
		}
		w, werr = call.Arg3Writer()
		return cxWriteArg(w, werr, []byte("a3")), ""
	case 6:
		// warm the connection (handshake done), then stall the socket writer: the first
		// fragment is taken by the writer goroutine (blocked in Write), the second fills the
		// one-slot send queue, the third flush waits
		e.stalled.Store(true)
		ctx, cancel := cxCtx(end, d)
		defer cancel()
		call, berr := peer.BeginCall(ctx, service, "m", nil)
		if berr != nil {
			return nil, fmt.Sprintf("BeginCall: %v", berr)
		}
		w, werr := call.Arg2Writer()
		if err = cxWriteArg(w, werr, []byte("a2")); err != nil {
			return err, ""
		}
		w, werr = call.Arg3Writer()
		big := make([]byte, 5*65536)
		return cxWriteArg(w, werr, big), ""
	case 7:
		ctx, cancel := cxCtx(end, d)
		defer cancel()
		call, berr := peer.BeginCall(ctx, service, "m", nil)
		if berr != nil {
			return nil, fmt.Sprintf("BeginCall: %v", berr)
		}
		w, werr := call.Arg2Writer()
		if err = cxWriteArg(w, werr, []byte("a2")); err != nil {
			return nil, fmt.Sprintf("arg2: %v", err)
		}
		w, werr = call.Arg3Writer()
		if err = cxWriteArg(w, werr, []byte("a3")); err != nil {
			return nil, fmt.Sprintf("arg3: %v", err)
		}
		<-ctx.Done()
		var b []byte
		r, rerr := call.Response().Arg2Reader()
		return tchannel.NewArgReader(r, rerr).Read(&b), ""
	case 8:
		ctx, cancel := cxCtx(end, d)
		defer cancel()
		call, berr := peer.BeginCall(ctx, service, "m", nil)
		if berr != nil {
			return nil, fmt.Sprintf("BeginCall: %v", berr)
		}
		w, werr := call.Arg2Writer()
		if err = cxWriteArg(w, werr, []byte("a2")); err != nil {
			return nil, fmt.Sprintf("arg2: %v", err)
		}
		w, werr = call.Arg3Writer()
		if err = cxWriteArg(w, werr, []byte("a3")); err != nil {
			return nil, fmt.Sprintf("arg3: %v", err)
		}
		select {
		case <-ins.started:
		case <-ctx.Done():
		}
		var b []byte
		r, rerr := call.Response().Arg2Reader()
		return tchannel.NewArgReader(r, rerr).Read(&b), ""
	}
	return nil, "unknown site"
}

// ---------------------------------------------------------------- relay-originated frames

// cxRelayCase: a raw client's call is parked inside a real relay's lookup of the destination
// connection; its time-to-live (variant 0) or the relay's RelayMaxConnectionTimeout (variant 2)
// ends there.  Returns the error frame the raw client read (nil = none within 3 s).
func cxRelayCase(site, variant int, d time.Duration) (fr *rawFrame, id uint32, infeasible string) {
	bh := newCxBlackhole()
	defer bh.close()
	host := &c20Host{}
	host.set(bh.addr(), nil)
	opts := &tchannel.ChannelOptions{}
	var dialer *cxDialer
	if site == 2 {
		dialer = newCxDialer(variant % 2)
		dialer.target.Store(bh.addr())
		opts.Dialer = dialer.dial
	}
	ttl := uint32(d / time.Millisecond)
	if variant >= 2 {
		opts.RelayMaxConnectionTimeout = d
		ttl = 8000
	}
	rl := newC20Relay("cx-relay-o", host, opts)
	defer rl.Close()
	rc, err := dialRaw(rl.PeerInfo().HostPort)
	if err != nil {
		return nil, 0, fmt.Sprintf("raw client: %v", err)
	}
	defer rc.conn.Close()
	switch site {
	case 0:
		// another raw client's call owns the semaphore (its handshake with the silent listener pends)
		rc0, err := dialRaw(rl.PeerInfo().HostPort)
		if err != nil {
			return nil, 0, fmt.Sprintf("raw client: %v", err)
		}
		defer rc0.conn.Close()
		// (with RelayMaxConnectionTimeout the first attempt is bounded too: make it the longer one)
		if variant >= 2 {
			return nil, 0, "not applicable"
		}
		rc0.sendCall(rc0.next, 8000, [4]uint64{}, "cx-blocked", false)
		if !bh.waitAccepted(3 * time.Second) {
			return nil, 0, "the first call's connection attempt was not accepted"
		}
		id = rc.next
		rc.sendCall(id, ttl, [4]uint64{}, "cx-blocked", false)
		fr = rc.readError(3 * time.Second)
		if early := rc0.readError(time.Millisecond); early != nil {
			return nil, 0, "the first call's attempt ended early"
		}
		bh.dropConns()
		return fr, id, ""
	case 1:
		id = rc.next
		rc.sendCall(id, 0, [4]uint64{}, "cx-blocked", false)
		return rc.readError(3 * time.Second), id, ""
	case 2:
		id = rc.next
		rc.sendCall(id, ttl, [4]uint64{}, "cx-blocked", false)
		if !dialer.waitParked(3 * time.Second) {
			return nil, 0, "the relay never reached the dialer"
		}
		return rc.readError(3 * time.Second), id, ""
	case 3:
		id = rc.next
		rc.sendCall(id, ttl, [4]uint64{}, "cx-blocked", false)
		if !bh.waitAccepted(3 * time.Second) {
			return nil, 0, "the relay's connection attempt was not accepted"
		}
		return rc.readError(3 * time.Second), id, ""
	}
	return nil, 0, "unknown site"
}

// ---------------------------------------------------------------- engine

type cxCase struct{ site, end, topo, variant int }

func cxDirected() []cxCase {
	var cs []cxCase
	for _, end := range []int{1, 2} {
		for _, topo := range []int{0, 1} {
			cs = append(cs, cxCase{0, end, topo, 0})
			cs = append(cs, cxCase{1, end, topo, 0}, cxCase{1, end, topo, 1})
			cs = append(cs, cxCase{2, end, topo, 0}, cxCase{2, end, topo, 1})
			if topo == 0 {
				cs = append(cs, cxCase{3, end, 0, 0})
			}
			for site := 4; site <= 8; site++ {
				cs = append(cs, cxCase{site, end, topo, 0})
			}
		}
	}
	// relay-originated: the relay's own contexts only end by deadline
	cs = append(cs, cxCase{0, 1, 2, 0}, cxCase{1, 1, 2, 0},
		cxCase{2, 1, 2, 0}, cxCase{2, 1, 2, 1}, cxCase{2, 1, 2, 2}, cxCase{2, 1, 2, 3},
		cxCase{3, 1, 2, 0}, cxCase{3, 1, 2, 2})
	return cs
}

func engineCtxErr(rng *rand.Rand, n int, tier string, o *Out) {
	cases := cxDirected()
	dir := len(cases)
	// random repetitions with other timings
	for i := 0; i < n; i++ {
		cases = append(cases, cases[rng.Intn(dir)])
	}
	for i, c := range cases {
		d := 60 * time.Millisecond
		if i >= dir {
			d = time.Duration(25+rng.Intn(120)) * time.Millisecond
		}
		in := []int64{int64(c.site), int64(c.end), int64(c.topo), int64(c.variant)}
		id := fmt.Sprintf("x%d-%s-%s-%s-%d", i, cxSiteNames[c.site], cxEndNames[c.end], cxTopoNames[c.topo], c.variant)
		o.Hist(fmt.Sprintf("ctxsite %s %s %s", cxSiteNames[c.site], cxEndNames[c.end], cxTopoNames[c.topo]))
		var obs []int64
		verdict, infeasible := "", ""
		start := time.Now()
		if c.topo == 2 {
			var fr *rawFrame
			var cid uint32
			for attempt := 0; attempt < 3; attempt++ {
				fr, cid, infeasible = cxRelayCase(c.site, c.variant, d)
				if infeasible == "" {
					break
				}
			}
			what := fmt.Sprintf("%s/relay-originated/%d", cxSiteNames[c.site], c.variant)
			switch {
			case infeasible != "":
			case fr == nil:
				obs = []int64{0}
				verdict = what + ": the relay sent no error frame for a call whose time-to-live ended while the relay was looking up the destination connection"
			default:
				code, _, msg, ok := parseRawError(fr.Payload)
				if !ok {
					obs = []int64{-2}
					verdict = what + ": malformed error frame"
					break
				}
				obs = putBytes([]int64{1, int64(code)}, []byte(msg))
				if code != 0x01 {
					verdict = fmt.Sprintf("%s: the call's time-to-live ended inside the relay and the relay originated an error frame with code %#x (%q); the documented code is timeout (0x01)", what, code, clip(msg))
				} else if msg != "timeout" {
					verdict = fmt.Sprintf("%s: relay-originated timeout carries message %q, not \"timeout\"", what, clip(msg))
				} else if fr.ID != cid {
					verdict = fmt.Sprintf("%s: error frame for id %d, the call had id %d", what, fr.ID, cid)
				}
			}
		} else {
			var err error
			for attempt := 0; attempt < 3; attempt++ {
				err, infeasible = cxCallerCase(c.site, c.end, c.topo, c.variant, d)
				if infeasible == "" {
					break
				}
			}
			if infeasible == "" {
				obs = encGoErr(err)
				verdict = cxVerdict(c.site, c.end, c.topo, err, "")
			}
		}
		if cxDebug {
			fmt.Fprintf(os.Stderr, "%-44s %6.0fms obs=%v infeasible=%q verdict=%q\n", id, float64(time.Since(start))/1e6, obs, infeasible, verdict)
		}
		if infeasible != "" {
			o.Hist("ctxsite infeasible: " + infeasible)
			o.Oracle("c20_ctxsite", id, false, id, "")
			continue
		}
		if i == 0 || i == 20 {
			o.Sample(map[string]interface{}{"sub": "c20_ctxsite", "case": id, "obs_head": obs[:min(len(obs), 4)]})
		}
		o.Case("c20_ctxsite", id, in, obs, true, verdict)
	}
}
