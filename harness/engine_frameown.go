package main

// frameown (C12): the real library runs under an ownership-tracking, poisoning,
// never-reusing FramePool supplied through ConnectionOptions.FramePool.
//
//   fo_raw     scripted frame sequences from a raw (spec-built) peer against a real server:
//              valid calls of 1..n fragments, system errors, missing handler, bad checksum in
//              every position, calls that stop mid-way (timeout), pings, unknown frame types,
//              frames for unknown ids, truncated frames.  Deterministic: compared with the
//              model's prediction of every frame's fate (Get site, Release site).
//   fo_direct  real client <-> real server, one pool each; compared with the model.
//   fo_relay   real client -> relay -> server (three pools, optional arg2 appends); compared.
//   fo_chaos   timeouts, cancellations, relay drops with a full send buffer and a stalled
//              writer, connections killed mid-call, slow relay destinations, random hostile
//              frames; concurrent; judged by the oracle only.
//
// Oracle (from the property statement, independent of the model): no frame released twice,
// no frame released that the pool did not hand out, no write to a frame after its release
// (poison intact), argument data never carries poison / always equals what was sent, and on
// fault-free scenarios every frame is released once traffic has settled.

import (
	"bytes"
	"fmt"
	"math/rand"
	"net"
	"os"
	"runtime"
	"sort"
	"strings"
	"sync"
	"time"

	tchannel "github.com/uber/tchannel-go"
	"github.com/uber/tchannel-go/raw"
	"github.com/uber/tchannel-go/relay"
	"github.com/uber/tchannel-go/relay/relaytest"
	"golang.org/x/net/context"
)

func init() { engines["frameown"] = engineFrameOwn }

// ---------------------------------------------------------------- tracking pool

type foRec struct {
	id   int
	f    *tchannel.Frame
	get  string
	rels []string
	pois bool // poisoned at its first release
}

type foPool struct {
	mu      sync.Mutex
	name    string
	recs    []*foRec
	byF     map[*tchannel.Frame]*foRec
	foreign []string
	last    time.Time
	// noPoison: released frames keep their contents (as with the stock sync.Pool), so a stale
	// reference keeps "working" and a second release through it is recorded
	noPoison bool
	// frames released by a connection's writer loop, i.e. written to the network: header as it
	// went out (read by the releaser, who owns the frame, before the poison is applied)
	wire      []foxWire
	writerRel map[uint32]int
}

func newFoPool(name string) *foPool {
	return &foPool{name: name, byF: map[*tchannel.Frame]*foRec{}, last: time.Now()}
}

// callerSite names the library function that called the pool, in the form go2v uses for
// its site list ("Connection.readFrames"); closures and deferred closures are attributed
// to the enclosing function.
func callerSite() string {
	pcs := make([]uintptr, 16)
	n := runtime.Callers(3, pcs)
	frames := runtime.CallersFrames(pcs[:n])
	for {
		fr, more := frames.Next()
		fn := fr.Function
		if strings.Contains(fn, "uber/tchannel-go.") {
			i := strings.LastIndex(fn, "tchannel-go.")
			name := fn[i+len("tchannel-go."):]
			name = strings.ReplaceAll(name, "(*", "")
			name = strings.ReplaceAll(name, ")", "")
			if j := strings.Index(name, ".func"); j >= 0 {
				name = name[:j]
			}
			return name
		}
		if !more {
			return "?" + fn
		}
	}
}

func (p *foPool) Get() *tchannel.Frame {
	f := tchannel.NewFrame(tchannel.MaxFramePayloadSize)
	site := callerSite()
	p.mu.Lock()
	r := &foRec{id: len(p.recs), f: f, get: site}
	p.recs = append(p.recs, r)
	p.byF[f] = r
	p.last = time.Now()
	p.mu.Unlock()
	return f
}

func (p *foPool) Release(f *tchannel.Frame) {
	site := callerSite()
	p.mu.Lock()
	defer p.mu.Unlock()
	p.last = time.Now()
	r := p.byF[f]
	if r == nil {
		p.foreign = append(p.foreign, site)
		return
	}
	r.rels = append(r.rels, site)
	if len(r.rels) == 1 && site == "Connection.writeFrames" {
		p.noteWire(f)
	}
	if len(r.rels) == 1 && !p.noPoison {
		r.pois = true
		tchannel.VerifPoisonFrame(f)
	}
}

// settle waits until the pool has seen no Get/Release for quiet, at most max.
func foSettle(quiet, max time.Duration, pools ...*foPool) {
	deadline := time.Now().Add(max)
	for time.Now().Before(deadline) {
		ok := true
		for _, p := range pools {
			p.mu.Lock()
			if time.Since(p.last) < quiet {
				ok = false
			}
			p.mu.Unlock()
		}
		if ok {
			return
		}
		time.Sleep(2 * time.Millisecond)
	}
}

// foWait polls until cond holds (at most max), then lets the pools go quiet.
func foWait(max time.Duration, cond func() bool, pools ...*foPool) bool {
	deadline := time.Now().Add(max)
	for !cond() {
		if time.Now().After(deadline) {
			return false
		}
		time.Sleep(time.Millisecond)
	}
	foSettle(5*time.Millisecond, 200*time.Millisecond, pools...)
	return cond()
}

func (p *foPool) stats() (recs, outstanding int) {
	p.mu.Lock()
	defer p.mu.Unlock()
	for _, r := range p.recs {
		if len(r.rels) == 0 {
			outstanding++
		}
	}
	return len(p.recs), outstanding
}

func (p *foPool) count(site string) int {
	p.mu.Lock()
	defer p.mu.Unlock()
	n := 0
	for _, r := range p.recs {
		if r.get == site {
			n++
		}
	}
	return n
}

func (p *foPool) outstanding() int {
	p.mu.Lock()
	defer p.mu.Unlock()
	n := 0
	for _, r := range p.recs {
		if len(r.rels) == 0 {
			n++
		}
	}
	return n
}

// site numbers of the model's site table (Model/FrameOwn.v site_table), same-name sites
// collapsed onto the first one
var foSites = map[string]int64{
	"Connection.SendSystemError:Get":              1,
	"Connection.SendSystemError:Release":          2,
	"Connection.readFrames:Get":                   3,
	"Connection.readFrames:Release":               4,
	"Connection.recvMessage:Release":              6,
	"Connection.sendMessage:Get":                  7,
	"Connection.sendMessage:Release":              8,
	"Connection.writeFrames:Release":              9,
	"messageExchange.recvPeerFrameOfType:Release": 11,
	"Channel.readMessage:Get":                     12,
	"Channel.readMessage:Release":                 13,
	"Channel.writeMessage:Get":                    14,
	"Channel.writeMessage:Release":                15,
	"Relayer.handleLocalCallReq:Release":          16,
	"relayFragmentSender.flushFragment:Release":   17,
	"relayFragmentSender.newFragment:Get":         18,
	"parseInboundFragment:Release":                19,
	"reqResWriter.newFragment:Get":                20,
	"Connection.dispatchInbound:Release":          99, // exists on the pinned tree only
}

// judge applies the oracle to the pools; codes are the per-frame observables
// (get site * 10000 + first release site * 100 + second release site).
func foJudge(allReleased bool, pools ...*foPool) (codes []int64, verdict string) {
	add := func(v string) {
		if verdict == "" {
			verdict = v
		}
	}
	for _, p := range pools {
		p.mu.Lock()
		for _, site := range p.foreign {
			add(fmt.Sprintf("pool %s: Release at %s of a frame the pool never handed out", p.name, site))
		}
		for _, r := range p.recs {
			g, ok := foSites[r.get+":Get"]
			if !ok {
				g = 98
				add(fmt.Sprintf("pool %s: FramePool.Get from a call site the model does not know: %s", p.name, r.get))
			}
			var rc [2]int64
			for i, s := range r.rels {
				c, ok := foSites[s+":Release"]
				if !ok {
					c = 98
					add(fmt.Sprintf("pool %s: FramePool.Release from a call site the model does not know: %s", p.name, s))
				}
				if i < 2 {
					rc[i] = c
				}
			}
			codes = append(codes, g*10000+rc[0]*100+rc[1])
			if len(r.rels) > 1 {
				tag := ""
				for _, s := range r.rels {
					if s == "Connection.dispatchInbound" {
						tag = "[c12:dispatch-double-release] "
					}
				}
				add(fmt.Sprintf("%spool %s: frame #%d (obtained in %s) released %d times: %s", tag, p.name, r.id, r.get, len(r.rels), strings.Join(r.rels, ", ")))
			}
			if len(r.rels) >= 1 && r.pois {
				if ok, what := tchannel.VerifFramePoisonIntact(r.f); !ok {
					add(fmt.Sprintf("pool %s: frame #%d (obtained in %s, released in %s) was written after its release (%s damaged)", p.name, r.id, r.get, r.rels[0], what))
				}
			}
			if allReleased && len(r.rels) == 0 {
				add(fmt.Sprintf("pool %s: frame #%d obtained in %s was never released although every call completed without a fault", p.name, r.id, r.get))
			}
		}
		p.mu.Unlock()
	}
	sort.Slice(codes, func(i, j int) bool { return codes[i] < codes[j] })
	return codes, verdict
}

// the pool's own findings (what the property is about) take precedence over symptoms seen by the peers
func foMerge(poolVerdict, symptom string) string {
	if poolVerdict != "" {
		if symptom != "" {
			return poolVerdict + " (first symptom: " + symptom + ")"
		}
		return poolVerdict
	}
	return symptom
}

// ---------------------------------------------------------------- labels (encoding of Model/FrameOwn.v dec_label)

type foLabels struct{ v []int64 }

func (l *foLabels) add(xs ...int64)              { l.v = append(l.v, xs...) }
func (l *foLabels) local(c, which int64)         { l.add(0, c, which) }
func (l *foLabels) readFail(c int64)             { l.add(1, c) }
func (l *foLabels) readRel(c int64, loc bool)    { l.add(2, c, b2i(loc)) }
func (l *foLabels) readLeak(c int64)             { l.add(3, c) }
func (l *foLabels) readFwd(c, k, ty int64)       { l.add(4, c, 1, k, ty) }
func (l *foLabels) readFwdNone(c, ty int64)      { l.add(4, c, 0, 0, ty) }
func (l *foLabels) readCallReq(c, k int64)       { l.add(5, c, k) }
func (l *foLabels) relaySend(c, d int64)         { l.add(6, c, d) }
func (l *foLabels) rfsFrag(c, d int64, sw bool)  { l.add(7, c, d, b2i(sw)) }
func (l *foLabels) connSysErr(c int64)           { l.add(8, c, 1, 0) }
func (l *foLabels) sendMsg(c int64)              { l.add(9, c, 1) }
func (l *foLabels) newMex(k, c, cap int64)       { l.add(10, k, c, cap) }
func (l *foLabels) ctx(k int64)                  { l.add(11, k) }
func (l *foLabels) errN(k int64)                 { l.add(12, k) }
func (l *foLabels) fetch(k int64, pif, pok bool) { l.add(15, k, b2i(pif), b2i(pok), 1) }
func (l *foLabels) acc(k int64)                  { l.add(16, k) }
func (l *foLabels) closeLast(k int64)            { l.add(17, k) }
func (l *foLabels) respSysErr(k int64)           { l.add(18, k) }
func (l *foLabels) dispatchFail(k int64)         { l.add(19, k) }
func (l *foLabels) recvMsg(k int64)              { l.add(20, k) }
func (l *foLabels) wNew(k int64)                 { l.add(21, k, 1) }
func (l *foLabels) wAcc(k int64)                 { l.add(22, k) }
func (l *foLabels) wFlush(k int64, last bool)    { l.add(23, k, b2i(last)) }
func (l *foLabels) write(c int64)                { l.add(24, c, 0) }
func (l *foLabels) writeFail(c int64)            { l.add(24, c, 1) }

// request of n fragments arriving on connection c for a new inbound call k, all read
func (l *foLabels) inboundRequest(c, k int64, n int) {
	l.readCallReq(c, k)
	l.fetch(k, true, true)
	l.acc(k)
	for i := 1; i < n; i++ {
		l.readFwd(c, k, 0)
		l.fetch(k, true, true)
		l.acc(k)
	}
}

// m fragments written by writer k and sent on connection c
func (l *foLabels) writeFragments(k, c int64, m int) {
	for j := 1; j <= m; j++ {
		l.wNew(k)
		l.wAcc(k)
		l.wFlush(k, j == m)
		l.write(c)
	}
}

// ---------------------------------------------------------------- handlers

type foHandler struct{}

func (foHandler) Handle(ctx context.Context, args *raw.Args) (*raw.Res, error) {
	switch args.Method {
	case "syserr":
		return &raw.Res{SystemErr: tchannel.NewSystemError(tchannel.ErrCodeBusy, "busy")}, nil
	case "apperr":
		return &raw.Res{IsErr: true, Arg2: args.Arg2, Arg3: args.Arg3}, nil
	case "slow":
		select {
		case <-time.After(120 * time.Millisecond):
		case <-ctx.Done():
		}
	}
	return &raw.Res{Arg2: args.Arg2, Arg3: args.Arg3}, nil
}
func (foHandler) OnError(ctx context.Context, err error) {}

func foServer(name string, pool *foPool, opts *tchannel.ChannelOptions) (*tchannel.Channel, error) {
	if opts == nil {
		opts = &tchannel.ChannelOptions{}
	}
	opts.Logger = tchannel.NullLogger
	if foxLogger != nil {
		opts.Logger = foxLogger
	}
	if os.Getenv("FO_LOG") != "" {
		opts.Logger = tchannel.NewLevelLogger(tchannel.SimpleLogger, tchannel.LogLevelInfo)
	}
	opts.DefaultConnectionOptions.FramePool = pool
	ch, err := tchannel.NewChannel(name, opts)
	if err != nil {
		return nil, err
	}
	for _, m := range []string{"echo", "syserr", "apperr", "slow", "echo" + strings.Repeat("x", 150), "echo" + strings.Repeat("x", 400), "echo" + strings.Repeat("x", 900)} {
		ch.Register(raw.Wrap(foHandler{}), m)
	}
	if err := ch.ListenAndServe("127.0.0.1:0"); err != nil {
		return nil, err
	}
	return ch, nil
}

func hasPoison(b []byte) bool {
	run := 0
	for _, c := range b {
		if c == 0xDB {
			run++
			if run >= 8 {
				return true
			}
		} else {
			run = 0
		}
	}
	return false
}

// argument bytes without long 0xDB runs, so that poison in a result is recognisable
func foArg(rng *rand.Rand, n int) []byte {
	b := make([]byte, n)
	for i := range b {
		b[i] = byte(rng.Intn(200))
	}
	return b
}

// ---------------------------------------------------------------- fo_raw

type foItem struct {
	kind   int // see foItemNames
	method string
	arg2   []byte
	arg3   []byte
	maxP   int
	pos    int // bad checksum position / last frame sent of an incomplete call
}

var foItemNames = []string{"call", "syserr", "nohandler", "badcsum", "incomplete", "ping", "unknowntype",
	"continue-unknown-id", "error-unknown-id", "bad-checksum-type", "apperr", "truncated", "protocol-error-frame"}

var foTracing = make([]byte, 25)

// index of the first fragment with two or more chunks = the fragment in which arg1 ends
func foArg1End(frames [][]byte) int {
	for i, fr := range frames {
		pc, err := parseRawCall(fr[2], fr[16:])
		if err == nil && len(pc.Chunks) >= 2 {
			return i
		}
	}
	return len(frames) - 1
}

// checksum bytes of a call req / continuation frame start after flags (+ message header) + type byte
func foCorruptChecksum(fr []byte) []byte {
	out := append([]byte(nil), fr...)
	pc, err := parseRawCall(out[2], out[16:])
	if err != nil || len(pc.Csum) == 0 {
		return out
	}
	out[16+pc.HeaderLen-1] ^= 0x5a
	return out
}

func foGenItems(rng *rand.Rand) []foItem {
	n := 1 + rng.Intn(6)
	var items []foItem
	timeouts := 0
	for i := 0; i < n; i++ {
		it := foItem{kind: pick(rng, 0, 0, 0, 1, 2, 3, 3, 3, 4, 5, 6, 7, 8, 9, 10, 12), maxP: pick(rng, 65519, 65519, 2000, 400, 200)}
		it.method = "echo"
		it.arg2 = foArg(rng, pick(rng, 0, 1, 50, 700))
		it.arg3 = foArg(rng, pick(rng, 0, 1, 300, 3000, 70000))
		switch it.kind {
		case 1:
			it.method = "syserr"
		case 2:
			it.method = "nosuch"
			it.maxP, it.arg2, it.arg3 = 65519, foArg(rng, 20), foArg(rng, 100)
		case 10:
			it.method = "apperr"
		case 3, 4:
			if rng.Intn(2) == 0 {
				// arg1 spans several fragments
				it.method = "echo" + strings.Repeat("x", pick(rng, 150, 400, 900))
				it.maxP = pick(rng, 200, 400)
			}
			it.pos = rng.Intn(6)
			if it.kind == 4 {
				if timeouts > 0 {
					it.kind = 3
				} else {
					timeouts++
				}
			}
		}
		if it.kind == 12 && i != n-1 {
			it.kind = 5
		}
		items = append(items, it)
	}
	if rng.Intn(5) == 0 && items[len(items)-1].kind != 12 {
		items = append(items, foItem{kind: 11})
	}
	return items
}

func foRaw(rng *rand.Rand, items []foItem) (labels []int64, codes []int64, faultFree bool, verdict string) {
	pool := newFoPool("server")
	srv, err := foServer("svc", pool, nil)
	if err != nil {
		return nil, nil, false, "harness: " + err.Error()
	}
	defer srv.Close()
	conn, err := net.Dial("tcp", srv.PeerInfo().HostPort)
	if err != nil {
		return nil, nil, false, "harness: dial: " + err.Error()
	}
	defer conn.Close()
	if _, err := rawClientHandshake(conn); err != nil {
		return nil, nil, false, "harness: handshake: " + err.Error()
	}
	var l foLabels
	const c = 1
	l.local(c, 0)
	l.local(c, 1)
	faultFree = true
	id := uint32(10)
	k := int64(100)
	expRecs, expOut := 2, 0 // frames the pool must have handed out / that stay unreleased, so far
	send := func(b []byte) {
		conn.SetWriteDeadline(time.Now().Add(2 * time.Second))
		conn.Write(b)
		expRecs++
	}
	reached := func() bool { r, o := pool.stats(); return r >= expRecs && o <= expOut }
	// reads response frames of call id until the last fragment or an error frame
	readResponse := func(id uint32) (n int, errFrame bool, args [][]byte, v string) {
		var frags []*rawCall
		for {
			f, err := readRawFrame(conn, 3*time.Second)
			if err != nil {
				return n, false, nil, "no (complete) response to a valid call: " + err.Error()
			}
			if f.ID != id {
				return n, false, nil, fmt.Sprintf("response frame for id %d while waiting for %d (type %#x)", f.ID, id, f.Type)
			}
			if f.Type == 0xff {
				return n, true, nil, ""
			}
			if f.Type != 0x04 && f.Type != 0x14 {
				return n, false, nil, fmt.Sprintf("unexpected frame type %#x in a response", f.Type)
			}
			n++
			pc, err := parseRawCall(f.Type, f.Payload)
			if err != nil {
				return n, false, nil, "response frame does not parse: " + err.Error()
			}
			frags = append(frags, pc)
			if pc.Flags&1 == 0 {
				return n, false, collectArgs(frags), ""
			}
		}
	}
	for _, it := range items {
		if verdict != "" {
			break
		}
		id++
		k++
		switch it.kind {
		case 0, 1, 2, 10: // complete calls
			hdr := rawCallReqHeader(2000, foTracing, "svc", [][2]string{{"as", "raw"}, {"cn", "rawpeer"}})
			frames := buildRawCallFrames(true, id, hdr, 1, [3][]byte{[]byte(it.method), it.arg2, it.arg3}, it.maxP)
			for _, fr := range frames {
				send(fr)
			}
			m, isErr, args, v := readResponse(id)
			if v != "" && verdict == "" {
				verdict = v
			}
			expRecs += m
			if isErr {
				expRecs++
			}
			switch it.kind {
			case 0, 10:
				l.inboundRequest(c, k, len(frames))
				l.closeLast(k)
				l.writeFragments(k, c, m)
				if v == "" && (isErr || len(args) != 3 || !bytes.Equal(args[1], it.arg2) || !bytes.Equal(args[2], it.arg3)) && verdict == "" {
					verdict = fmt.Sprintf("echo of a %d-fragment request differs from what was sent (error frame: %v; poison in result: %v)", len(frames), isErr, len(args) == 3 && (hasPoison(args[1]) || hasPoison(args[2])))
				}
			case 1:
				l.inboundRequest(c, k, len(frames))
				l.closeLast(k)
				l.connSysErr(c) // InboundCallResponse.SendSystemError queues the error frame first,
				l.respSysErr(k) // then shuts the exchange down and releases the fragment it holds
				l.write(c)
				if v == "" && !isErr && verdict == "" {
					verdict = "system error handler did not produce an error frame"
				}
			case 2:
				// arg1 read, no handler: SendSystemError releases the fragment the reader holds
				l.inboundRequest(c, k, 1)
				l.connSysErr(c)
				l.respSysErr(k)
				l.write(c)
			}
		case 3, 4: // the call's frame sequence is cut at fragment pos: bad checksum there (3) or silence after it (4)
			faultFree = false
			ttl := uint32(2000)
			if it.kind == 4 {
				ttl = 250
			}
			hdr := rawCallReqHeader(ttl, foTracing, "svc", [][2]string{{"as", "raw"}, {"cn", "rawpeer"}})
			frames := buildRawCallFrames(true, id, hdr, 1, [3][]byte{[]byte(it.method), it.arg2, it.arg3}, it.maxP)
			a1 := foArg1End(frames)
			pos := it.pos
			if pos > len(frames)-1 {
				pos = len(frames) - 1
			}
			if it.kind == 4 && pos == len(frames)-1 {
				// complete call after all: treat as a normal echo
				for _, fr := range frames {
					send(fr)
				}
				m, _, _, v := readResponse(id)
				if v != "" && verdict == "" {
					verdict = v
				}
				expRecs += m
				l.inboundRequest(c, k, len(frames))
				l.closeLast(k)
				l.writeFragments(k, c, m)
				break
			}
			for i := 0; i <= pos; i++ {
				fr := frames[i]
				if it.kind == 3 && i == pos {
					fr = foCorruptChecksum(fr)
				}
				send(fr)
			}
			if it.kind == 3 {
				// fragments 0..pos-1 are read, fragment pos fails its checksum
				l.readCallReq(c, k)
				if pos == 0 {
					l.fetch(k, true, false)
				} else {
					l.fetch(k, true, true)
					for i := 1; i < pos; i++ {
						l.readFwd(c, k, 0)
						l.fetch(k, true, true)
					}
					l.readFwd(c, k, 0)
					l.fetch(k, true, false)
				}
				if pos <= a1 {
					l.dispatchFail(k) // still reading arg1: dispatchInbound gives up
				} else {
					expOut++ // the handler's reader keeps the fragment it could not parse
				}
			} else {
				// all sent fragments are read, then the deadline passes while waiting for the next
				l.inboundRequest(c, k, pos+1)
				l.ctx(k)
				l.fetch(k, true, true)
				if pos < a1 {
					l.dispatchFail(k)
				}
				foWait(3*time.Second, func() bool { r, _ := pool.stats(); return r >= expRecs }, pool)
				time.Sleep(200 * time.Millisecond)
			}
		case 5: // ping
			send(rawFrameBytes(0xd0, id, nil))
			f, err := readRawFrame(conn, 2*time.Second)
			if (err != nil || f.Type != 0xd1 || f.ID != id) && verdict == "" {
				verdict = "no ping response"
			}
			expRecs++
			l.readRel(c, false)
			l.sendMsg(c)
			l.write(c)
		case 6: // frame of an unassigned type
			faultFree = false
			send(rawFrameBytes(0x55, id, foArg(rng, 30)))
			l.readRel(c, false)
		case 7: // call req continue for an id without exchange: forwardPeerFrame returns nil, nobody releases
			faultFree = false
			send(rawFrameBytes(0x13, id+5000, append([]byte{0, 0}, foArg(rng, 10)...)))
			l.readFwdNone(c, 0)
			expOut++
		case 8: // error frame (busy) for an id without exchange: same
			faultFree = false
			send(rawFrameBytes(0xff, id+5000, rawErrorPayload(3, foTracing, "busy")))
			l.readFwdNone(c, 1)
			expOut++
		case 9: // call req with an unknown checksum type: parseInboundFragment fails, reader releases
			faultFree = false
			hdr := rawCallReqHeader(2000, foTracing, "svc", [][2]string{{"as", "raw"}, {"cn", "rawpeer"}})
			frames := buildRawCallFrames(true, id, hdr, 0, [3][]byte{[]byte("echo"), it.arg2, nil}, 65519)
			fr := append([]byte(nil), frames[0]...)
			pc, _ := parseRawCall(fr[2], fr[16:])
			fr[16+pc.HeaderLen-1] = 9
			send(fr)
			l.readRel(c, false)
		case 12: // protocol error frame: connectionError, frame released by the reader
			faultFree = false
			send(rawFrameBytes(0xff, 0xffffffff, rawErrorPayload(0xff, foTracing, "proto")))
			l.readRel(c, false)
		case 11: // truncated frame: header announces more than is sent, then the peer goes away
			faultFree = false
			b := rawFrameBytes(0x03, id, foArg(rng, 200))
			send(b[:16+50])
			conn.Close()
			l.readFail(c)
		}
		if !foWait(3*time.Second, reached, pool) {
			break // the pool is not where this item should have left it: the comparison with the model will show it
		}
	}
	conn.Close()
	foSettle(10*time.Millisecond, 300*time.Millisecond, pool)
	srv.Close()
	foSettle(20*time.Millisecond, 600*time.Millisecond, pool)
	cs, v := foJudge(faultFree, pool)
	verdict = foMerge(v, verdict)
	if os.Getenv("FO_DUMP") != "" {
		for _, r := range pool.recs {
			fmt.Fprintf(os.Stderr, "  #%d get=%s rel=%v\n", r.id, r.get, r.rels)
		}
	}
	return l.v, cs, faultFree, verdict
}

// ---------------------------------------------------------------- fo_direct / fo_relay

type foCall struct {
	method     string
	arg2, arg3 []byte
}

func foGenCalls(rng *rand.Rand) []foCall {
	n := 1 + rng.Intn(4)
	var cs []foCall
	for i := 0; i < n; i++ {
		cs = append(cs, foCall{
			method: []string{"echo", "echo", "echo", "apperr", "syserr"}[rng.Intn(5)],
			arg2:   foArg(rng, pick(rng, 0, 1, 100, 3000)),
			arg3:   foArg(rng, pick(rng, 0, 1, 500, 66000, 140000)),
		})
	}
	return cs
}

const (
	siteW = "reqResWriter.newFragment"
)

// direct: client (conn 1) <-> server (conn 2)
func foDirect(rng *rand.Rand, calls []foCall) (labels []int64, codes []int64, verdict string) {
	pc, ps := newFoPool("client"), newFoPool("server")
	// hand-over family (engine_frameown_xfer.go): after every `sendCh <- frame` the connection's writer
	// wins the race; a debug-level logger looks for headers of released frames
	sink := &foxLogSink{}
	foxLogger = &foxLog{sink: sink}
	defer func() { foxLogger = nil }()
	fast := foxInstallFastWriter(pc, ps)
	defer fast.remove()
	srv, err := foServer("svc", ps, nil)
	if err != nil {
		return nil, nil, "harness: " + err.Error()
	}
	defer srv.Close()
	cli, err := foServer("cli", pc, nil)
	if err != nil {
		return nil, nil, "harness: " + err.Error()
	}
	defer cli.Close()
	var l foLabels
	l.local(1, 1)
	l.local(2, 0)
	l.local(2, 1)
	l.local(1, 0)
	// a ping first (Connection.sendMessage / recvMessage on both sides, the other two users of sendCh)
	{
		ctx, cancel := tchannel.NewContext(3 * time.Second)
		perr := cli.Ping(ctx, srv.PeerInfo().HostPort)
		cancel()
		if perr != nil {
			verdict = "ping failed: " + perr.Error()
		}
		foWait(3*time.Second, func() bool { return pc.outstanding() == 0 && ps.outstanding() == 0 }, pc, ps)
		const kp = 90
		l.newMex(kp, 1, 1)
		l.sendMsg(1)
		l.write(1)
		l.readRel(2, false)
		l.sendMsg(2)
		l.write(2)
		l.readFwd(1, kp, 0)
		l.recvMsg(kp)
	}
	k := int64(100)
	for _, cl := range calls {
		if verdict != "" {
			break
		}
		k += 2
		kc, ks := k, k+1
		r0, s0 := pc.count(siteW), ps.count(siteW)
		ctx, cancel := tchannel.NewContext(3 * time.Second)
		a2, a3, _, err := raw.Call(ctx, cli, srv.PeerInfo().HostPort, "svc", cl.method, cl.arg2, cl.arg3)
		cancel()
		foWait(3*time.Second, func() bool { return pc.outstanding() == 0 && ps.outstanding() == 0 }, pc, ps)
		nReq, nRes := pc.count(siteW)-r0, ps.count(siteW)-s0
		l.newMex(kc, 1, 2)
		for j := 1; j <= nReq; j++ {
			l.wNew(kc)
			l.wAcc(kc)
			l.wFlush(kc, j == nReq)
			l.write(1)
			if j == 1 {
				l.readCallReq(2, ks)
			} else {
				l.readFwd(2, ks, 0)
			}
			l.fetch(ks, true, true)
			l.acc(ks)
		}
		l.closeLast(ks)
		if cl.method == "syserr" {
			if err == nil && verdict == "" {
				verdict = "system error call returned no error"
			}
			// the error frame is queued first; the handler's goroutine is parked behind the send
			// until the writer has released the frame, then shuts its exchange down
			l.connSysErr(2)
			l.write(2)
			l.respSysErr(ks)
			l.readFwd(1, kc, 1)
			l.fetch(kc, true, true)
			continue
		}
		if (err != nil || !bytes.Equal(a2, cl.arg2) || !bytes.Equal(a3, cl.arg3)) && verdict == "" {
			verdict = fmt.Sprintf("direct call %s: result differs from what was sent (err %v, poison %v)", cl.method, err, hasPoison(a2) || hasPoison(a3))
		}
		for j := 1; j <= nRes; j++ {
			l.wNew(ks)
			l.wAcc(ks)
			l.wFlush(ks, j == nRes)
			l.write(2)
			l.readFwd(1, kc, 0)
			l.fetch(kc, true, true)
			l.acc(kc)
		}
		l.closeLast(kc)
	}
	cli.Close()
	srv.Close()
	fast.remove()
	foSettle(25*time.Millisecond, 800*time.Millisecond, pc, ps)
	cs, v := foJudge(verdict == "", pc, ps)
	verdict = foMerge(v, verdict)
	if verdict == "" {
		verdict = sink.verdict()
	}
	foxForced, foxInfeasible = fast.counts()
	return l.v, cs, verdict
}

// relay: client (conn 1) -> relay (conn 2 towards the client, conn 3 towards the server) -> server (conn 4)
func foRelay(rng *rand.Rand, calls []foCall, appendArg2 bool) (labels []int64, codes []int64, verdict string) {
	pc, pr, ps := newFoPool("client"), newFoPool("relay"), newFoPool("server")
	sink := &foxLogSink{}
	foxLogger = &foxLog{sink: sink}
	defer func() { foxLogger = nil }()
	srv, err := foServer("svc", ps, nil)
	if err != nil {
		return nil, nil, "harness: " + err.Error()
	}
	defer srv.Close()
	rh := relaytest.NewStubRelayHost()
	if appendArg2 {
		rh.SetFrameFn(func(cf relay.CallFrame, _ *relay.Conn) { cf.Arg2Append([]byte("vk"), []byte("vv")) })
	}
	// hand-over family (engine_frameown_xfer.go): recording relay host, and the destination's writer
	// is made to win the race against the relaying goroutine after every hand-over
	rec := &foxRecHost{inner: rh}
	rly, err := tchannel.NewChannel("relay", &tchannel.ChannelOptions{RelayHost: rec, Logger: foxLogger,
		DefaultConnectionOptions: tchannel.ConnectionOptions{FramePool: pr}})
	if err != nil {
		return nil, nil, "harness: " + err.Error()
	}
	defer rly.Close()
	fast := foxInstallFastWriter(pc, pr, ps)
	defer fast.remove()
	if err := rly.ListenAndServe("127.0.0.1:0"); err != nil {
		return nil, nil, "harness: " + err.Error()
	}
	rh.Add("svc", srv.PeerInfo().HostPort)
	cli, err := foServer("cli", pc, nil)
	if err != nil {
		return nil, nil, "harness: " + err.Error()
	}
	defer cli.Close()
	var l foLabels
	l.local(1, 1)
	l.local(2, 0)
	l.local(2, 1)
	l.local(1, 0)
	l.local(3, 1)
	l.local(4, 0)
	l.local(4, 1)
	l.local(3, 0)
	k := int64(100)
	for _, cl := range calls {
		if verdict != "" {
			break
		}
		k += 2
		kc, ks := k, k+1
		r0, s0, f0 := pc.count(siteW), ps.count(siteW), pr.count("relayFragmentSender.newFragment")
		ctx, cancel := tchannel.NewContext(3 * time.Second)
		arg2 := cl.arg2
		var copts *tchannel.CallOptions
		if appendArg2 {
			arg2 = []byte{0, 0} // thrift arg2 with nh = 0
			copts = &tchannel.CallOptions{Format: tchannel.Thrift}
		}
		call, err := cli.BeginCall(ctx, rly.PeerInfo().HostPort, "svc", cl.method, copts)
		var a2, a3 []byte
		if err == nil {
			a2, a3, _, err = raw.WriteArgs(call, arg2, cl.arg3)
		}
		cancel()
		foWait(3*time.Second, func() bool { return pc.outstanding() == 0 && pr.outstanding() == 0 && ps.outstanding() == 0 }, pc, pr, ps)
		nReq, nRes, nFrag := pc.count(siteW)-r0, ps.count(siteW)-s0, pr.count("relayFragmentSender.newFragment")-f0
		l.newMex(kc, 1, 2)
		srvFrames := nReq
		if appendArg2 {
			srvFrames = nFrag + (nReq - 1)
		}
		for j := 1; j <= nReq; j++ {
			l.wNew(kc)
			l.wAcc(kc)
			l.wFlush(kc, j == nReq)
			l.write(1)
			if appendArg2 && j == 1 {
				// the call req is re-fragmented by relayFragmentSender, the original is released by the reader
				for i := 0; i < nFrag; i++ {
					l.rfsFrag(2, 3, false)
					l.write(3)
				}
				l.readRel(2, false)
			} else {
				l.relaySend(2, 3)
				l.write(3)
			}
		}
		for j := 1; j <= srvFrames; j++ {
			if j == 1 {
				l.readCallReq(4, ks)
			} else {
				l.readFwd(4, ks, 0)
			}
			l.fetch(ks, true, true)
			l.acc(ks)
		}
		l.closeLast(ks)
		if cl.method == "syserr" {
			if err == nil && verdict == "" {
				verdict = "system error call through the relay returned no error"
			}
			l.connSysErr(4)
			l.write(4)
			l.respSysErr(ks)
			l.relaySend(3, 2)
			l.write(2)
			l.readFwd(1, kc, 1)
			l.fetch(kc, true, true)
			continue
		}
		want2 := arg2
		if appendArg2 {
			want2 = []byte{0, 1, 0, 2, 'v', 'k', 0, 2, 'v', 'v'}
		}
		if (err != nil || !bytes.Equal(a2, want2) || !bytes.Equal(a3, cl.arg3)) && verdict == "" {
			verdict = fmt.Sprintf("relayed call %s (append %v): result differs from what was sent (err %v, poison %v)", cl.method, appendArg2, err, hasPoison(a2) || hasPoison(a3))
		}
		for j := 1; j <= nRes; j++ {
			l.wNew(ks)
			l.wAcc(ks)
			l.wFlush(ks, j == nRes)
			l.write(4)
			l.relaySend(3, 2)
			l.write(2)
			l.readFwd(1, kc, 0)
			l.fetch(kc, true, true)
			l.acc(kc)
		}
		l.closeLast(kc)
	}
	xv := ""
	if verdict == "" {
		// every call completed: the relay's statistics must describe the frames that went out
		foWait(2*time.Second, func() bool { _, _, st, en := rec.snapshot(); return st == en }, pr)
		xv = foxJudge(rec, pr)
	}
	cli.Close()
	rly.Close()
	srv.Close()
	fast.remove()
	foSettle(25*time.Millisecond, 800*time.Millisecond, pc, pr, ps)
	cs, v := foJudge(verdict == "", pc, pr, ps)
	verdict = foMerge(v, verdict)
	if verdict == "" {
		verdict = xv
	}
	if verdict == "" {
		verdict = sink.verdict()
	}
	foxForced, foxInfeasible = fast.counts()
	return l.v, cs, verdict
}

// forced / infeasible hand-over schedules of the last foRelay run (for the histogram)
var foxForced, foxInfeasible int

// ---------------------------------------------------------------- fo_chaos (oracle only)

// a net.Conn whose Write blocks for good after a byte budget (a stalled peer)
type foStallConn struct {
	net.Conn
	mu     sync.Mutex
	budget int
	stop   chan struct{}
}

func (s *foStallConn) Write(b []byte) (int, error) {
	s.mu.Lock()
	s.budget -= len(b)
	stalled := s.budget < 0
	s.mu.Unlock()
	if stalled {
		<-s.stop
		return 0, fmt.Errorf("stalled connection closed")
	}
	return s.Conn.Write(b)
}
func (s *foStallConn) Close() error {
	s.mu.Lock()
	select {
	case <-s.stop:
	default:
		close(s.stop)
	}
	s.mu.Unlock()
	return s.Conn.Close()
}

var foChaosKinds = []string{"timeouts", "cancel", "relay-drop-full-buffer", "kill-server-mid-call", "relay-timeout", "hostile-frames", "kill-relay-destination", "concurrent-mixed"}

func foChaos(rng *rand.Rand, kind int) (verdict string, detail string) {
	pc, pr, ps := newFoPool("client"), newFoPool("relay"), newFoPool("server")
	srv, err := foServer("svc", ps, nil)
	if err != nil {
		return "harness: " + err.Error(), ""
	}
	defer srv.Close()
	cli, err := foServer("cli", pc, nil)
	if err != nil {
		return "harness: " + err.Error(), ""
	}
	defer cli.Close()
	var stalls []*foStallConn
	var stallMu sync.Mutex
	mkRelay := func(sendBuf int, stallAfter int, maxTimeout time.Duration) (*tchannel.Channel, error) {
		rh := relaytest.NewStubRelayHost()
		opts := &tchannel.ChannelOptions{RelayHost: rh, Logger: tchannel.NullLogger, RelayMaxTimeout: maxTimeout,
			DefaultConnectionOptions: tchannel.ConnectionOptions{FramePool: pr, SendBufferSize: sendBuf}}
		if stallAfter > 0 {
			opts.Dialer = func(ctx context.Context, network, hostPort string) (net.Conn, error) {
				d := net.Dialer{}
				c, err := d.DialContext(ctx, network, hostPort)
				if err != nil {
					return nil, err
				}
				sc := &foStallConn{Conn: c, budget: stallAfter, stop: make(chan struct{})}
				stallMu.Lock()
				stalls = append(stalls, sc)
				stallMu.Unlock()
				return sc, nil
			}
		}
		rly, err := tchannel.NewChannel("relay", opts)
		if err != nil {
			return nil, err
		}
		if err := rly.ListenAndServe("127.0.0.1:0"); err != nil {
			return nil, err
		}
		rh.Add("svc", srv.PeerInfo().HostPort)
		return rly, nil
	}
	call := func(ch *tchannel.Channel, hp, method string, a2, a3 []byte, d time.Duration, cancelAfter time.Duration) {
		ctx, cancel := tchannel.NewContext(d)
		if cancelAfter > 0 {
			time.AfterFunc(cancelAfter, cancel)
		}
		r2, r3, _, err := raw.Call(ctx, ch, hp, "svc", method, a2, a3)
		cancel()
		if err == nil && method == "echo" && (!bytes.Equal(r2, a2) || !bytes.Equal(r3, a3)) {
			stallMu.Lock()
			if verdict == "" {
				verdict = fmt.Sprintf("echo result differs from what was sent (poison in result: %v)", hasPoison(r2) || hasPoison(r3))
			}
			stallMu.Unlock()
		}
	}
	var wg sync.WaitGroup
	// every goroutine gets its own generator, seeded in order from the case's generator
	par := func(n int, f func(i int, r *rand.Rand)) {
		for i := 0; i < n; i++ {
			wg.Add(1)
			r := rand.New(rand.NewSource(rng.Int63()))
			go func(i int) { defer wg.Done(); f(i, r) }(i)
		}
		wg.Wait()
	}
	size := func(r *rand.Rand) int { return pick(r, 0, 10, 3000, 66000, 70000, 140000, 200000) }
	ms := func(r *rand.Rand, lo, hi int) time.Duration {
		return time.Duration(lo+r.Intn(hi-lo+1)) * time.Millisecond
	}
	var rly *tchannel.Channel
	switch kind {
	case 0: // deadlines shorter than the handler, also with multi-fragment arguments
		par(4, func(i int, r *rand.Rand) {
			call(cli, srv.PeerInfo().HostPort, pickS(r, "slow", "slow", "echo"), foArg(r, size(r)%5000), foArg(r, size(r)), ms(r, 1, 60), 0)
			call(cli, srv.PeerInfo().HostPort, "echo", foArg(r, 10), foArg(r, size(r)), 3*time.Second, 0)
		})
		time.Sleep(130 * time.Millisecond)
	case 1: // cancellation while the call is in flight
		par(4, func(i int, r *rand.Rand) {
			call(cli, srv.PeerInfo().HostPort, pickS(r, "slow", "slow", "echo"), foArg(r, 100), foArg(r, size(r)), time.Second, ms(r, 0, 40))
		})
		time.Sleep(130 * time.Millisecond)
	case 2: // relay destination stalls, send buffer of 2 frames: Receive drops frames and fails the calls
		rly, err = mkRelay(2, 40000+rng.Intn(100000), 0)
		if err != nil {
			return "harness: " + err.Error(), ""
		}
		par(3, func(i int, r *rand.Rand) {
			call(cli, rly.PeerInfo().HostPort, "echo", foArg(r, 100), foArg(r, 200000+size(r)), 300*time.Millisecond, 0)
		})
	case 3: // the server goes away while calls are in flight
		go func() { time.Sleep(time.Duration(5+rng.Intn(30)) * time.Millisecond); srv.Close() }()
		par(4, func(i int, r *rand.Rand) {
			call(cli, srv.PeerInfo().HostPort, pickS(r, "slow", "echo"), foArg(r, 100), foArg(r, size(r)), 400*time.Millisecond, 0)
		})
	case 4: // relay timer fires before the slow destination answers
		rly, err = mkRelay(0, 0, 50*time.Millisecond)
		if err != nil {
			return "harness: " + err.Error(), ""
		}
		par(3, func(i int, r *rand.Rand) {
			call(cli, rly.PeerInfo().HostPort, "slow", foArg(r, 100), foArg(r, size(r)), 400*time.Millisecond, 0)
		})
		time.Sleep(130 * time.Millisecond)
	case 5: // random hostile frames from a raw peer (after a valid handshake), then a valid call
		conn, err := net.Dial("tcp", srv.PeerInfo().HostPort)
		if err == nil {
			if _, err := rawClientHandshake(conn); err == nil {
				for i := 0; i < 12; i++ {
					mt := byte(pick(rng, 0x03, 0x03, 0x13, 0x04, 0x14, 0xff, 0xc0, 0xd0, 0xd1, 0x01, 0x02, 0x77))
					p := foArg(rng, pick(rng, 0, 1, 5, 40, 300, 3000))
					if mt == 0x03 && rng.Intn(2) == 0 {
						hdr := rawCallReqHeader(100, foTracing, "svc", [][2]string{{"as", "raw"}})
						fr := buildRawCallFrames(true, uint32(20+i), hdr, byte(pick(rng, 0, 1, 3)), [3][]byte{[]byte("echo"), p, p}, pick(rng, 65519, 150))
						b := fr[rng.Intn(len(fr))]
						if rng.Intn(3) == 0 {
							b = foCorruptChecksum(b)
						}
						conn.SetWriteDeadline(time.Now().Add(time.Second))
						conn.Write(b)
						continue
					}
					conn.SetWriteDeadline(time.Now().Add(time.Second))
					conn.Write(rawFrameBytes(mt, uint32(pick(rng, 1, 20, 21, 22, 9999)), p))
				}
				if rng.Intn(2) == 0 {
					b := rawFrameBytes(0x03, 77, foArg(rng, 500))
					conn.Write(b[:16+rng.Intn(400)])
				}
			}
			time.Sleep(20 * time.Millisecond)
			conn.Close()
		}
		call(cli, srv.PeerInfo().HostPort, "echo", foArg(rng, 10), foArg(rng, 70000), time.Second, 0)
		time.Sleep(120 * time.Millisecond)
	case 6: // the relay's destination goes away mid-call
		rly, err = mkRelay(0, 0, 0)
		if err != nil {
			return "harness: " + err.Error(), ""
		}
		go func() { time.Sleep(time.Duration(5+rng.Intn(30)) * time.Millisecond); srv.Close() }()
		par(3, func(i int, r *rand.Rand) {
			call(cli, rly.PeerInfo().HostPort, pickS(r, "slow", "echo"), foArg(r, 100), foArg(r, size(r)), 400*time.Millisecond, 0)
		})
	case 7: // many concurrent calls of all kinds, direct and relayed, small send buffers
		rly, err = mkRelay(4, 0, 0)
		if err != nil {
			return "harness: " + err.Error(), ""
		}
		par(8, func(i int, r *rand.Rand) {
			hp := srv.PeerInfo().HostPort
			if i%2 == 0 {
				hp = rly.PeerInfo().HostPort
			}
			m := []string{"echo", "apperr", "syserr", "slow"}[r.Intn(4)]
			call(cli, hp, m, foArg(r, 1000), foArg(r, size(r)), ms(r, 20, 500), 0)
		})
		time.Sleep(130 * time.Millisecond)
	}
	cli.Close()
	if rly != nil {
		rly.Close()
	}
	srv.Close()
	stallMu.Lock()
	for _, s := range stalls {
		s.Close()
	}
	stallMu.Unlock()
	foSettle(30*time.Millisecond, 1500*time.Millisecond, pc, pr, ps)
	_, v := foJudge(false, pc, pr, ps)
	stallMu.Lock()
	verdict = foMerge(v, verdict)
	stallMu.Unlock()
	detail = fmt.Sprintf("frames client %d (unreleased %d) relay %d (unreleased %d) server %d (unreleased %d)",
		len(pc.recs), pc.outstanding(), len(pr.recs), pr.outstanding(), len(ps.recs), ps.outstanding())
	return verdict, detail
}

func pickS(r *rand.Rand, xs ...string) string { return xs[r.Intn(len(xs))] }

// ---------------------------------------------------------------- engine

func foObs(codes []int64, verdict string) []int64 {
	ok := int64(1)
	if strings.Contains(verdict, "released") && strings.Contains(verdict, "times") || strings.Contains(verdict, "never handed out") ||
		strings.Contains(verdict, "written after its release") || strings.Contains(verdict, "after handing it back") {
		ok = 0
	}
	return append([]int64{0, ok}, codes...)
}

func engineFrameOwn(rng *rand.Rand, n int, tier string, o *Out) {
	nRaw, nDirect, nRelay, nChaos := n*50/100, n*15/100, n*15/100, n*20/100
	only := os.Getenv("FO_ONLY")
	top := rng
	tooMany := func() bool { return o.fails >= 12 } // enough failing inputs: do not spend minutes in timeouts
	for i := 0; i < nRaw; i++ {
		rng := rand.New(rand.NewSource(top.Int63()))
		items := foGenItems(rng)
		if tooMany() {
			break
		}
		if only != "" && only != fmt.Sprintf("raw%d", i) {
			continue
		}
		if os.Getenv("FO_DEBUG") != "" {
			var d []string
			for _, it := range items {
				d = append(d, fmt.Sprintf("%s(m=%d,maxP=%d,pos=%d,a2=%d,a3=%d)", foItemNames[it.kind], len(it.method), it.maxP, it.pos, len(it.arg2), len(it.arg3)))
			}
			fmt.Fprintf(os.Stderr, "raw%d: %s\n", i, strings.Join(d, " "))
		}
		labels, codes, ff, verdict := foRaw(rng, items)
		var kinds []string
		for _, it := range items {
			o.Hist("raw item=" + foItemNames[it.kind])
			kinds = append(kinds, foItemNames[it.kind])
		}
		o.Hist(fmt.Sprintf("raw faultfree=%v", ff))
		o.Hist(fmt.Sprintf("raw frames=%d", len(codes)/5*5))
		if i < 2 {
			o.Sample(map[string]interface{}{"sub": "fo_raw", "items": kinds, "frames": len(codes), "fault_free": ff})
		}
		in := append([]int64{0, 512}, labels...)
		o.Case("frameown", fmt.Sprintf("raw%d", i), in, foObs(codes, verdict), len(codes) > 2, verdict)
	}
	for i := 0; i < nDirect; i++ {
		rng := rand.New(rand.NewSource(top.Int63()))
		if only != "" && only != fmt.Sprintf("direct%d", i) || tooMany() {
			continue
		}
		calls := foGenCalls(rng)
		labels, codes, verdict := foDirect(rng, calls)
		for _, c := range calls {
			o.Hist("direct method=" + c.method)
			o.Hist(fmt.Sprintf("direct arg3=%d", len(c.arg3)))
		}
		o.Hist(fmt.Sprintf("direct hand-overs with the writer forced first: %v", foxForced > 0))
		if foxInfeasible > 0 {
			o.Hist("direct hand-over schedule infeasible (writer did not release within 2s)")
		}
		if i < 1 {
			o.Sample(map[string]interface{}{"sub": "fo_direct", "calls": len(calls), "frames": len(codes)})
		}
		in := append([]int64{0, 512}, labels...)
		o.Case("frameown", fmt.Sprintf("direct%d", i), in, foObs(codes, verdict), true, verdict)
	}
	for i := 0; i < nRelay; i++ {
		rng := rand.New(rand.NewSource(top.Int63()))
		if only != "" && only != fmt.Sprintf("relay%d", i) || tooMany() {
			continue
		}
		calls := foGenCalls(rng)
		app := rng.Intn(3) == 0
		if app {
			for j := range calls {
				if calls[j].method == "syserr" {
					calls[j].method = "echo"
				}
			}
		}
		labels, codes, verdict := foRelay(rng, calls, app)
		for _, c := range calls {
			o.Hist(fmt.Sprintf("relay method=%s append=%v", c.method, app))
		}
		o.Hist(fmt.Sprintf("relay hand-overs with the destination writer forced first: %v", foxForced > 0))
		if foxInfeasible > 0 {
			o.Hist("relay hand-over schedule infeasible (writer did not release within 2s)")
		}
		if i < 1 {
			o.Sample(map[string]interface{}{"sub": "fo_relay", "calls": len(calls), "arg2_append": app, "frames": len(codes)})
		}
		in := append([]int64{0, 512}, labels...)
		o.Case("frameown", fmt.Sprintf("relay%d", i), in, foObs(codes, verdict), true, verdict)
	}
	for i := 0; i < nChaos; i++ {
		rng := rand.New(rand.NewSource(top.Int63()))
		if only != "" && only != fmt.Sprintf("chaos%d", i) || tooMany() {
			continue
		}
		kind := i % len(foChaosKinds)
		verdict, detail := foChaos(rng, kind)
		o.Hist("chaos kind=" + foChaosKinds[kind])
		if os.Getenv("FO_DEBUG") != "" {
			fmt.Fprintf(os.Stderr, "chaos%d %s: %s %s\n", i, foChaosKinds[kind], detail, verdict)
		}
		if i < 1 {
			o.Sample(map[string]interface{}{"sub": "fo_chaos", "kind": foChaosKinds[kind], "detail": detail})
		}
		o.Oracle("fo_chaos", fmt.Sprintf("chaos%d", i), true, fmt.Sprintf("%s %d", foChaosKinds[kind], i), verdict)
	}
	// directed family (engine_frameown_latch.go); last, so that the cases above keep their seeds
	foLatchFamily(top, n, o, only, tooMany)
}
