package main

// Property C11, component-level correspondence: the real messageExchangeSet, the real Relayer
// item bookkeeping, the real channel/peer connection bookkeeping and a real connection's
// teardown are driven with generated label sequences and compared with the extracted models
// (Model/MexDrain.v, RelayDrain.v, ConnBook.v, Goroutines.v).

import (
	"fmt"
	"math/rand"
	"net"
	"runtime"
	"sort"
	"strings"
	"sync"
	"sync/atomic"
	"time"

	tchannel "github.com/uber/tchannel-go"
	"github.com/uber/tchannel-go/relay/relaytest"
	"golang.org/x/net/context"
)

// ------------------------------------------------------------------ goroutine dumps

type c11Stack struct {
	id      int
	state   string
	top     string // function on top of the stack
	first   string // function the goroutine started in
	created string // function that created it
	full    string
}

const c11Lib = "github.com/uber/tchannel-go"

func c11AllStacks() []c11Stack {
	var buf []byte
	for n := 1 << 16; ; n *= 2 {
		buf = make([]byte, n)
		if m := runtime.Stack(buf, true); m < n {
			buf = buf[:m]
			break
		}
	}
	var out []c11Stack
	for _, blk := range strings.Split(string(buf), "\n\n") {
		lines := strings.Split(strings.TrimSpace(blk), "\n")
		if len(lines) == 0 || !strings.HasPrefix(lines[0], "goroutine ") {
			continue
		}
		var s c11Stack
		fmt.Sscanf(lines[0], "goroutine %d [", &s.id)
		if i := strings.Index(lines[0], "["); i >= 0 {
			s.state = strings.TrimSuffix(strings.TrimSpace(lines[0][i+1:]), "]:")
		}
		s.full = blk
		var funcs []string
		for _, l := range lines[1:] {
			if strings.HasPrefix(l, "\t") {
				continue
			}
			if strings.HasPrefix(l, "created by ") {
				c := strings.TrimPrefix(l, "created by ")
				if i := strings.Index(c, " in goroutine"); i >= 0 {
					c = c[:i]
				}
				s.created = c
				continue
			}
			if i := strings.LastIndex(l, "("); i > 0 {
				l = l[:i]
			}
			if strings.HasPrefix(l, "runtime.goexit") {
				continue
			}
			funcs = append(funcs, l)
		}
		if len(funcs) > 0 {
			s.top = funcs[0]
			s.first = funcs[len(funcs)-1]
			// `go x.m()` may be compiled into a wrapper "Outer.gowrapN" that calls x.m
			if strings.Contains(s.first, ".gowrap") && len(funcs) > 1 {
				s.first = funcs[len(funcs)-2]
			}
		}
		out = append(out, s)
	}
	return out
}

// library goroutines: any goroutine with a frame of the library (its sub-packages included)
// or created by the library, except the calling goroutine.
func c11LibStacks() []c11Stack {
	var out []c11Stack
	all := c11AllStacks()
	for i, s := range all {
		if i == 0 { // runtime.Stack lists the calling goroutine first
			continue
		}
		if strings.Contains(s.full, c11Lib+".") || strings.Contains(s.full, c11Lib+"/") {
			out = append(out, s)
		}
	}
	return out
}

func c11NewSince(baseline map[int]bool) []c11Stack {
	var out []c11Stack
	for _, s := range c11LibStacks() {
		if !baseline[s.id] {
			out = append(out, s)
		}
	}
	return out
}

func c11Baseline() map[int]bool {
	b := map[int]bool{}
	for _, s := range c11LibStacks() {
		b[s.id] = true
	}
	return b
}

// a goroutine that is blocked (not runnable/running)
func c11Blocked(s c11Stack) bool {
	st := s.state
	if i := strings.Index(st, ","); i >= 0 {
		st = st[:i]
	}
	switch st {
	case "running", "runnable", "syscall":
		return false
	}
	return true
}

// waits until every library goroutine outside the baseline is blocked in two consecutive dumps
// with the same set of (id, top function).
func c11Settle(baseline map[int]bool, max time.Duration) []c11Stack {
	deadline := time.Now().Add(max)
	prev := ""
	var cur []c11Stack
	for {
		cur = c11NewSince(baseline)
		sig := ""
		allBlocked := true
		for _, s := range cur {
			sig += fmt.Sprintf("%d:%s;", s.id, s.top)
			if !c11Blocked(s) {
				allBlocked = false
			}
		}
		if allBlocked && sig == prev {
			return cur
		}
		if !allBlocked {
			sig = "-"
		}
		prev = sig
		if time.Now().After(deadline) {
			return cur
		}
		time.Sleep(2 * time.Millisecond)
	}
}

// creating-site key of a library goroutine as the ledger names it: ("Channel.newConnection", "readFrames")
func c11SiteOf(s c11Stack) (fn, key string, ok bool) {
	if !strings.HasPrefix(s.created, c11Lib+".") {
		return "", "", false
	}
	norm := func(f string) string {
		f = strings.TrimPrefix(f, c11Lib+".")
		f = strings.ReplaceAll(f, "(*", "")
		f = strings.ReplaceAll(f, ")", "")
		return f
	}
	fn = norm(s.created)
	// strip closure suffixes of the creator: "Channel.serve.func1" is created inside Channel.serve
	for {
		i := strings.LastIndex(fn, ".")
		if i < 0 || !strings.HasPrefix(fn[i+1:], "func") {
			break
		}
		fn = fn[:i]
	}
	first := norm(s.first)
	key = first
	if i := strings.LastIndex(first, "."); i >= 0 {
		key = first[i+1:]
	}
	if strings.HasPrefix(key, "func") {
		key = "func"
	}
	if key == "" || strings.HasPrefix(key, "gowrap") {
		return "", "", false // created but not yet running: the dump shows only the go-statement wrapper
	}
	return fn, key, true
}

// the harness' own reading of the source: which kind of goroutine a started function is
var c11KindByStart = map[string]int64{
	"Channel.Serve|serve": 0, "Channel.serve|func": 1, "Channel.newConnection|readFrames": 2,
	"Channel.newConnection|writeFrames": 3, "Connection.callOnActive|healthCheck": 4,
	"idleSweep.start|pollerLoop": 5, "Connection.handleCallReq|dispatchInbound": 6,
	"Connection.dispatchInbound|func": 7,
}

type c11Sites struct {
	mu   sync.Mutex
	seen map[string]int
}

func (cs *c11Sites) sample() {
	for _, s := range c11LibStacks() {
		if fn, key, ok := c11SiteOf(s); ok {
			cs.mu.Lock()
			cs.seen[fn+"|"+key]++
			cs.mu.Unlock()
		}
	}
}

func (cs *c11Sites) emit(o *Out) {
	cs.mu.Lock()
	defer cs.mu.Unlock()
	keys := make([]string, 0, len(cs.seen))
	for k := range cs.seen {
		keys = append(keys, k)
	}
	sort.Strings(keys)
	for i, k := range keys {
		parts := strings.SplitN(k, "|", 2)
		in := putBytes(nil, []byte(parts[0]))
		in = putBytes(in, []byte(parts[1]))
		kind, ok := c11KindByStart[k]
		verdict := ""
		if !ok {
			kind = -1
			verdict = "a goroutine started by the library at " + k + " is not one of the go statements the ledger accounts for"
		}
		o.Hist("ledger-site " + k)
		o.Case("ledger", fmt.Sprintf("g%d", i), in, []int64{kind}, true, verdict)
	}
}

// waits for a WaitGroup for at most max; false when it did not finish
func c11WaitTimeout(wg *sync.WaitGroup, max time.Duration) bool {
	done := make(chan struct{})
	go func() { wg.Wait(); close(done) }()
	select {
	case <-done:
		return true
	case <-time.After(max):
		return false
	}
}

// ------------------------------------------------------------------ sub mexdrain

func c11MexDrain(rng *rand.Rand, n int, o *Out) {
	for c := 0; c < n; c++ {
		v := tchannel.VerifC11NewMexSet()
		var in, outs []int64
		nlab := 0
		pcs := []int{} // 0 live, 2 finished
		stopped := false
		add := func(k, a int64) { in = append(in, k, a); nlab++ }
		steps := 3 + rng.Intn(18)
		idRange := uint32(1 + rng.Intn(4))
		for s := 0; s < steps; s++ {
			live := []int{}
			for h, pc := range pcs {
				if pc == 0 {
					live = append(live, h)
				}
			}
			switch k := rng.Intn(12); {
			case k <= 3: // new exchange
				id := 1 + uint32(rng.Intn(int(idRange)))
				r := v.New(id)
				add(0, int64(id))
				outs = append(outs, int64(r))
				if r == 0 {
					pcs = append(pcs, 0)
				}
				o.Hist(fmt.Sprintf("mexdrain new result=%d", r))
			case k <= 6 && len(pcs) > 0: // shutdown (possibly of an already shut down exchange)
				h := rng.Intn(len(pcs))
				if pcs[h] == 0 {
					v.Shutdown(h)
					add(1, int64(h))
					add(2, int64(h))
					pcs[h] = 2
					o.Hist("mexdrain shutdown live")
				} else if v.IsShutdownObj(h) {
					v.Shutdown(h)
					add(1, int64(h))
					o.Hist("mexdrain shutdown again")
				}
			case k <= 8 && len(pcs) > 0: // expiry at any time, also after shutdown, also repeated
				h := rng.Intn(len(pcs))
				v.Expire(h)
				add(3, int64(h))
				o.Hist(fmt.Sprintf("mexdrain expire pc=%d", pcs[h]))
			case k == 9 && len(live) > 0: // ping style removal by id
				h := live[rng.Intn(len(live))]
				v.RemoveByID(h)
				add(4, int64(h))
				pcs[h] = 2
				o.Hist("mexdrain remove-by-id")
			case k == 10:
				v.Stop()
				add(5, 0)
				stopped = true
				o.Hist("mexdrain stop")
			default:
				id := 1 + uint32(rng.Intn(int(idRange)))
				outs = append(outs, int64(v.Forward(id)))
				add(6, int64(id))
				o.Hist("mexdrain forward")
			}
		}
		// drain: every live exchange shuts down (the quiescence hypothesis of C11_mex_empty)
		finishAll := rng.Intn(4) != 0
		if finishAll {
			for h, pc := range pcs {
				if pc == 0 {
					v.Shutdown(h)
					add(1, int64(h))
					add(2, int64(h))
					pcs[h] = 2
				}
			}
		}
		exch, expired, shutdown, rechecks, added, notified := v.State()
		obs := append([]int64{int64(len(outs))}, outs...)
		obs = append(obs, int64(len(exch)))
		for _, e := range exch {
			obs = append(obs, e[0], e[1])
		}
		obs = append(obs, int64(len(expired)))
		obs = append(obs, expired...)
		obs = append(obs, b2i(shutdown), int64(rechecks), int64(added), int64(len(notified)))
		for _, b := range notified {
			obs = append(obs, b2i(b))
		}
		verdict := ""
		if finishAll && (len(exch) != 0 || len(expired) != 0) {
			verdict = fmt.Sprintf("every exchange has shut down but the set still holds %d exchanges and %d expired ids", len(exch), len(expired))
		}
		_ = stopped
		v.Release()
		full := append([]int64{int64(nlab)}, in...)
		if c < 2 {
			o.Sample(map[string]interface{}{"sub": "mexdrain", "labels": in, "observed": obs})
		}
		o.Case("mexdrain", fmt.Sprintf("m%d", c), full, obs, len(pcs) > 1, verdict)
	}
}

// ------------------------------------------------------------------ sub relaydrain

func c11WaitNoGoroutine(fragment string, max time.Duration) bool {
	deadline := time.Now().Add(max)
	for {
		found := false
		for _, s := range c11AllStacks()[1:] {
			if strings.Contains(s.full, fragment) {
				found = true
			}
		}
		if !found {
			return true
		}
		if time.Now().After(deadline) {
			return false
		}
		time.Sleep(time.Millisecond)
	}
}

// keys with a positive count, ascending (Go map order must not leak into the generated case)
func c11PosKeys(m map[uint32]int) []uint32 {
	var ks []uint32
	for k, v := range m {
		if v > 0 {
			ks = append(ks, k)
		}
	}
	sort.Slice(ks, func(i, j int) bool { return ks[i] < ks[j] })
	return ks
}

func c11RelayDrain(rng *rand.Rand, n int, o *Out) {
	if n == 0 {
		return
	}
	server, _ := tchannel.NewChannel("c11-rd-server", nil)
	server.ListenAndServe("127.0.0.1:0")
	rh := relaytest.NewStubRelayHost()
	rly, err := tchannel.NewChannel("c11-rd-relay", &tchannel.ChannelOptions{RelayHost: rh})
	if err != nil {
		panic(err)
	}
	rly.ListenAndServe("127.0.0.1:0")
	rh.Add("svc", server.PeerInfo().HostPort)
	client, _ := tchannel.NewChannel("c11-rd-client", nil)
	defer func() { client.Close(); rly.Close(); server.Close() }()
	ctx, cancel := tchannel.NewContext(2 * time.Second)
	if err := client.Ping(ctx, rly.PeerInfo().HostPort); err != nil {
		panic(err)
	}
	cancel()
	conns := tchannel.VerifC11Conns(rly)
	if len(conns) == 0 {
		panic("no relay connection")
	}
	rconn := conns[0]
	sched := NewSched()
	defer sched.Close()

	nextID := uint32(5000)
	for c := 0; c < n; c++ {
		maxTombs := []int{30000, 30000, 0, 1}[rng.Intn(4)]
		mt := uint64(maxTombs)
		if maxTombs == 0 {
			mt = 1 << 62 // 0 means "default" to newRelayItems; the model gets the real bound below
		}
		call := tchannel.VerifC11NewRelayCall()
		v := tchannel.VerifC11NewRelay(rconn, mt, call)
		modelMT := int64(maxTombs)
		if maxTombs == 0 {
			modelMT = 1 << 62
		}
		var in, outs []int64
		nlab := 0
		add := func(k int64, id uint32) { in = append(in, k, int64(id)); nlab++ }
		// harness-side bookkeeping of what it did (which labels are enabled), not of the results
		present := map[uint32]bool{}
		fired := map[uint32]bool{}
		stoppedT := map[uint32]bool{}
		held := map[uint32]int{}
		gc := map[uint32]int{}
		firing := map[uint32]bool{}
		var ids []uint32
		panicked := false
		guard := func(f func()) {
			defer func() {
				if r := recover(); r != nil {
					panicked = true
				}
			}()
			f()
		}
		isTomb := func(id uint32) (bool, bool) {
			items, _, _ := v.State()
			for _, it := range items {
				if uint32(it[0]) == id {
					return it[1] == 1, true
				}
			}
			return false, false
		}
		afterEntomb := func(id uint32, ok bool) {
			if ok {
				if t, found := isTomb(id); found && t {
					gc[id]++
				} else {
					present[id] = false
				}
			}
		}
		steps := 4 + rng.Intn(16)
		for s := 0; s < steps && !panicked; s++ {
			pickID := func() (uint32, bool) {
				if len(ids) == 0 {
					return 0, false
				}
				return ids[rng.Intn(len(ids))], true
			}
			switch k := rng.Intn(14); {
			case k <= 2:
				id := nextID
				nextID++
				if v.Add(id) {
					add(0, id)
					ids = append(ids, id)
					present[id] = true
					o.Hist("relaydrain add")
				}
			case k <= 4: // a finishing frame: Get(stop) then finish or fail
				id, ok := pickID()
				if !ok {
					continue
				}
				found, stopped, tomb := v.GetStop(id)
				add(1, id)
				r := int64(0)
				if found {
					r = 1 + 2*b2i(stopped) + 4*b2i(tomb)
					if stopped {
						stoppedT[id] = true
					}
				}
				outs = append(outs, r)
				if found && stopped && !tomb {
					held[id]++
				}
				o.Hist(fmt.Sprintf("relaydrain getstop found=%v stopped=%v tomb=%v", found, stopped, tomb))
			case k <= 6: // the handler that holds the id finishes
				if ks := c11PosKeys(held); len(ks) > 0 {
					id := ks[0]
					var ok bool
					guard(func() { ok = v.Finish(id) })
					add(3, id)
					outs = append(outs, b2i(ok))
					held[id]--
					present[id] = false
					o.Hist(fmt.Sprintf("relaydrain finish ok=%v", ok))
				}
			case k <= 8: // failRelayItem (both halves)
				id, ok := pickID()
				if !ok {
					continue
				}
				_, foundBefore := isTomb(id)
				var dec bool
				guard(func() { dec = v.Fail(id) })
				add(2, id)
				if foundBefore && !fired[id] {
					stoppedT[id] = true
					add(4, id)
					// the model keeps the id in rs_held between the halves; net effect none
					outs = append(outs, b2i(dec))
					afterEntomb(id, dec)
				}
				o.Hist(fmt.Sprintf("relaydrain fail found=%v fired=%v dec=%v", foundBefore, fired[id], dec))
			case k <= 10: // the timer fires (two halves, other labels may come in between)
				id, ok := pickID()
				if !ok || !present[id] || fired[id] || stoppedT[id] {
					continue
				}
				key := fmt.Sprintf("relayTimer.OnTimer#%d", id)
				sched.ParkAtID("relayTimer.OnTimer", id)
				if !v.Fire(id) {
					sched.Unpark(key)
					continue
				}
				if !sched.WaitArrived(key, 1, 2*time.Second) {
					sched.Unpark(key)
					o.Hist("relaydrain fire infeasible")
					continue
				}
				add(5, id)
				fired[id] = true
				firing[id] = true
				if rng.Intn(2) == 0 { // a finishing frame arrives while the callback is starting
					found, stopped, tomb := v.GetStop(id)
					add(1, id)
					r := int64(0)
					if found {
						r = 1 + 2*b2i(stopped) + 4*b2i(tomb)
					}
					outs = append(outs, r)
					o.Hist(fmt.Sprintf("relaydrain getstop-during-fire stopped=%v", stopped))
				}
				_, _, pBefore := v.State()
				sched.Unpark(key)
				sched.Release(key)
				c11WaitNoGoroutine("relayTimer).OnTimer", 2*time.Second)
				_, _, pAfter := v.State()
				add(6, id)
				okE := pAfter != pBefore
				outs = append(outs, b2i(okE))
				firing[id] = false
				afterEntomb(id, okE)
				o.Hist(fmt.Sprintf("relaydrain timer fired entombed=%v", okE))
			default: // tombstone GC callback
				if ks := c11PosKeys(gc); len(ks) > 0 {
					id := ks[0]
					guard(func() { v.Gc(id) })
					add(7, id)
					gc[id]--
					present[id] = false
					o.Hist("relaydrain gc")
				}
			}
		}
		// quiescence for this map: fire every armed timer, finish every held id, run every GC
		drain := rng.Intn(3) != 0
		if drain && !panicked {
			for _, id := range c11PosKeys(held) {
				for cnt := held[id]; cnt > 0; cnt-- {
					var ok bool
					guard(func() { ok = v.Finish(id) })
					add(3, id)
					outs = append(outs, b2i(ok))
					present[id] = false
				}
				held[id] = 0
			}
			for _, id := range ids {
				if present[id] && !fired[id] && !stoppedT[id] {
					key := fmt.Sprintf("relayTimer.OnTimer#%d", id)
					sched.ParkAtID("relayTimer.OnTimer", id)
					if v.Fire(id) && sched.WaitArrived(key, 1, 2*time.Second) {
						add(5, id)
						_, _, pBefore := v.State()
						sched.Unpark(key)
						sched.Release(key)
						c11WaitNoGoroutine("relayTimer).OnTimer", 2*time.Second)
						_, _, pAfter := v.State()
						add(6, id)
						okE := pAfter != pBefore
						outs = append(outs, b2i(okE))
						fired[id] = true
						afterEntomb(id, okE)
					} else {
						sched.Unpark(key)
					}
				}
			}
			for _, id := range c11PosKeys(gc) {
				for cnt := gc[id]; cnt > 0; cnt-- {
					guard(func() { v.Gc(id) })
					add(7, id)
				}
				gc[id] = 0
			}
		}
		items, tombs, pending := v.State()
		obs := append([]int64{int64(len(outs))}, outs...)
		obs = append(obs, int64(len(items)))
		for _, it := range items {
			obs = append(obs, it[0], it[1])
		}
		obs = append(obs, int64(tombs), int64(pending), b2i(panicked))
		verdict := ""
		if drain && !panicked && len(items) != 0 {
			verdict = fmt.Sprintf("no timer armed, no handler, timer callback or GC pending, yet the relay map holds %d entries (%d tombstones)", len(items), tombs)
		}
		if panicked {
			verdict = "relay item bookkeeping panicked"
		}
		full := append([]int64{modelMT, int64(nlab)}, in...)
		if c < 2 {
			o.Sample(map[string]interface{}{"sub": "relaydrain", "maxTombs": maxTombs, "labels": in, "observed": obs})
		}
		o.Case("relaydrain", fmt.Sprintf("r%d", c), full, obs, len(ids) > 0, verdict)
	}
}

// ------------------------------------------------------------------ sub connbook

func c11ConnBook(rng *rand.Rand, n int, o *Out) {
	sched := NewSched()
	defer sched.Close()
	for c := 0; c < n; c++ {
		ch, err := tchannel.NewChannel(fmt.Sprintf("c11-cb-%d", c), nil)
		if err != nil {
			panic(err)
		}
		hp := func(p int) string { return fmt.Sprintf("10.9.%d.%d:4040", c%250, p) }
		npeers := 2 + rng.Intn(2)
		peerOf := map[string]int{}
		arrivals := map[string]int{}
		for p := 0; p < npeers; p++ {
			ch.Peers().Add(hp(p)) // keeps the peer in the root list whatever its connections do
			peerOf[hp(p)] = p
		}
		type cinfo struct {
			conn     *tchannel.Connection
			peers    []int
			state    int
			cbs      int
			ever     map[int]bool
			checking int // peer of the addConnection parked after its check, -1 none
			res      chan error
		}
		var conns []*cinfo
		local := map[uint32]int{}
		var in, outs []int64
		nlab := 0
		add := func(k, a, b, d int64) { in = append(in, k, a, b, d); nlab++ }
		closedCh := false
		steps := 5 + rng.Intn(20)
		for s := 0; s < steps; s++ {
			var ci *cinfo
			cidx := -1
			if len(conns) > 0 {
				cidx = rng.Intn(len(conns))
				ci = conns[cidx]
			}
			switch k := rng.Intn(16); {
			case k <= 1 || ci == nil:
				p1 := rng.Intn(npeers)
				p2 := p1
				if rng.Intn(3) == 0 {
					p2 = rng.Intn(npeers)
				}
				out := ""
				if p2 != p1 {
					out = hp(p2)
				}
				conn := tchannel.VerifC11BareConn(ch, hp(p1), out)
				info := &cinfo{conn: conn, peers: []int{p1}, state: 1, ever: map[int]bool{}, checking: -1}
				if p2 != p1 {
					info.peers = append(info.peers, p2)
				}
				local[tchannel.VerifC11ConnID(conn)] = len(conns)
				add(0, int64(len(conns)), int64(p1), int64(p2))
				conns = append(conns, info)
				o.Hist("connbook new")
			case k <= 3:
				r := tchannel.VerifC11ChanAdd(ch, ci.conn)
				add(1, int64(cidx), 0, 0)
				outs = append(outs, b2i(r))
				o.Hist(fmt.Sprintf("connbook chan-add ok=%v state=%d", r, ci.state))
			case k <= 6: // Peer.addConnection, first half
				if ci.checking >= 0 {
					continue
				}
				p := ci.peers[rng.Intn(len(ci.peers))]
				if ci.ever[p] {
					continue
				}
				ci.ever[p] = true
				id := tchannel.VerifC11ConnID(ci.conn)
				key := fmt.Sprintf("peer.addConnection.afterCheck#%d", id)
				sched.ParkAtID("peer.addConnection.afterCheck", id)
				ci.res = make(chan error, 1)
				go func(ci *cinfo, p int) { ci.res <- tchannel.VerifC11PeerAdd(ch, hp(p), ci.conn) }(ci, p)
				add(2, int64(p), int64(cidx), 0)
				parked := false
				deadline := time.Now().Add(2 * time.Second)
				arrivals[key]++
				for time.Now().Before(deadline) {
					if sched.WaitArrived(key, arrivals[key], time.Millisecond) {
						parked = true
						break
					}
					select {
					case e := <-ci.res:
						ci.res <- e
						deadline = time.Now()
					default:
					}
				}
				if parked {
					ci.checking = p
					outs = append(outs, 1)
				} else {
					<-ci.res
					sched.Unpark(key)
					arrivals[key]--
					outs = append(outs, 0)
				}
				o.Hist(fmt.Sprintf("connbook peer-check passed=%v", parked))
			case k <= 9: // second half
				if ci.checking < 0 {
					continue
				}
				id := tchannel.VerifC11ConnID(ci.conn)
				key := fmt.Sprintf("peer.addConnection.afterCheck#%d", id)
				sched.Unpark(key)
				sched.Release(key)
				var e error
				select {
				case e = <-ci.res:
				case <-time.After(5 * time.Second):
					panic("Peer.addConnection did not return after its schedule point was released")
				}
				add(3, int64(ci.checking), int64(cidx), 0)
				outs = append(outs, b2i(e == nil))
				o.Hist(fmt.Sprintf("connbook peer-append ok=%v connstate=%d", e == nil, ci.state))
				ci.checking = -1
				// the arrival counter of this key must not satisfy a later wait
			case k <= 12: // the connection's state moves forward
				if ci.state >= 4 {
					continue
				}
				st := ci.state + 1 + rng.Intn(4-ci.state)
				tchannel.VerifC11SetConnState(ci.conn, st)
				ci.state = st
				ci.cbs++
				add(4, int64(cidx), int64(st), 0)
				o.Hist(fmt.Sprintf("connbook set-state %d", st))
			case k <= 14:
				if ci.cbs == 0 {
					continue
				}
				tchannel.VerifC11Callback(ch, ci.conn)
				ci.cbs--
				add(5, int64(cidx), 0, 0)
				o.Hist("connbook callback")
			default:
				if !closedCh {
					tchannel.VerifC11SetChannelClosing(ch)
					closedCh = true
					add(6, 0, 0, 0)
					o.Hist("connbook channel-closing")
				}
			}
		}
		// quiescence: finish interrupted registrations, run pending callbacks
		for i, ci := range conns {
			if ci.checking >= 0 {
				id := tchannel.VerifC11ConnID(ci.conn)
				key := fmt.Sprintf("peer.addConnection.afterCheck#%d", id)
				sched.Unpark(key)
				sched.Release(key)
				e := <-ci.res
				add(3, int64(ci.checking), int64(i), 0)
				outs = append(outs, b2i(e == nil))
				ci.checking = -1
			}
			for ; ci.cbs > 0; ci.cbs-- {
				tchannel.VerifC11Callback(ch, ci.conn)
				add(5, int64(i), 0, 0)
			}
		}
		cids, peers := tchannel.VerifC11Book(ch)
		var lc []int64
		for _, id := range cids {
			lc = append(lc, int64(local[id]))
		}
		sort.Slice(lc, func(i, j int) bool { return lc[i] < lc[j] })
		type pe struct{ p, c int64 }
		var lp []pe
		for _, e := range peers {
			p := peerOf[e[0]]
			var id uint32
			fmt.Sscanf(e[1], "%d", &id)
			lp = append(lp, pe{int64(p), int64(local[id])})
		}
		sort.Slice(lp, func(i, j int) bool {
			if lp[i].p != lp[j].p {
				return lp[i].p < lp[j].p
			}
			return lp[i].c < lp[j].c
		})
		obs := append([]int64{int64(len(outs))}, outs...)
		obs = append(obs, int64(len(lc)))
		obs = append(obs, lc...)
		obs = append(obs, int64(len(lp)))
		for _, e := range lp {
			obs = append(obs, e.p, e.c)
		}
		// oracle from the statement: no fully closed connection is held
		verdict := ""
		for i, ci := range conns {
			if ci.state != 4 {
				continue
			}
			for _, x := range lc {
				if int(x) == i {
					verdict = fmt.Sprintf("connection %d is fully closed and all its callbacks ran, yet the channel still lists it", i)
				}
			}
			for _, e := range lp {
				if int(e.c) == i {
					verdict = fmt.Sprintf("[c16:addconn-stale-closed] connection %d is fully closed and all its callbacks ran, yet peer %d still lists it", i, e.p)
				}
			}
		}
		ch.Close()
		full := append([]int64{int64(nlab)}, in...)
		if c < 2 {
			o.Sample(map[string]interface{}{"sub": "connbook", "labels": in, "observed": obs})
		}
		o.Case("connbook", fmt.Sprintf("b%d", c), full, obs, len(conns) > 0, verdict)
	}
}

// ------------------------------------------------------------------ fault-injecting sockets

type c11Conn struct {
	net.Conn
	mu          sync.Mutex
	failWrites  bool
	failReads   bool
	stall       chan struct{} // non-nil: writes block until it is closed
	closedByLib atomic.Bool
	aborted     atomic.Bool
	role        string
	wdeadline   time.Time
}

type c11TimeoutErr struct{}

func (c11TimeoutErr) Error() string   { return "injected stall: write deadline exceeded" }
func (c11TimeoutErr) Timeout() bool   { return true }
func (c11TimeoutErr) Temporary() bool { return true }

func (c *c11Conn) SetDeadline(t time.Time) error {
	c.mu.Lock()
	c.wdeadline = t
	c.mu.Unlock()
	return c.Conn.SetDeadline(t)
}

func (c *c11Conn) SetWriteDeadline(t time.Time) error {
	c.mu.Lock()
	c.wdeadline = t
	c.mu.Unlock()
	return c.Conn.SetWriteDeadline(t)
}

type c11InjectedErr struct{ what string }

func (e c11InjectedErr) Error() string { return "injected " + e.what + " failure" }

func (c *c11Conn) Write(b []byte) (int, error) {
	c.mu.Lock()
	fail, stall, dl := c.failWrites, c.stall, c.wdeadline
	c.mu.Unlock()
	if fail {
		return 0, c11InjectedErr{"write"}
	}
	if stall != nil {
		// like a socket whose peer does not read: blocks until closed, or until the write deadline
		var timer <-chan time.Time
		if !dl.IsZero() {
			timer = time.After(time.Until(dl))
		}
		select {
		case <-stall:
		case <-timer:
			return 0, c11TimeoutErr{}
		}
		c.mu.Lock()
		fail = c.failWrites
		c.mu.Unlock()
		if fail || c.closedByLib.Load() {
			return 0, c11InjectedErr{"write (after stall)"}
		}
	}
	return c.Conn.Write(b)
}

func (c *c11Conn) Read(b []byte) (int, error) {
	n, err := c.Conn.Read(b)
	c.mu.Lock()
	fail := c.failReads
	c.mu.Unlock()
	if fail {
		return 0, c11InjectedErr{"read"}
	}
	return n, err
}

func (c *c11Conn) Close() error {
	c.closedByLib.Store(true)
	c.unstall()
	return c.Conn.Close()
}

func (c *c11Conn) unstall() {
	c.mu.Lock()
	if c.stall != nil {
		select {
		case <-c.stall:
		default:
			close(c.stall)
		}
	}
	c.mu.Unlock()
}

func (c *c11Conn) FailWrites() { c.mu.Lock(); c.failWrites = true; c.mu.Unlock() }
func (c *c11Conn) FailReads() {
	c.mu.Lock()
	c.failReads = true
	c.mu.Unlock()
	c.Conn.SetReadDeadline(time.Now())
}
func (c *c11Conn) Stall() {
	c.mu.Lock()
	if c.stall == nil {
		c.stall = make(chan struct{})
	}
	c.mu.Unlock()
}

// Abort cuts the socket underneath the library (both directions fail), without the library asking.
func (c *c11Conn) Abort() {
	c.aborted.Store(true)
	c.unstall()
	if tc, ok := c.Conn.(*net.TCPConn); ok {
		tc.SetLinger(0)
	}
	c.Conn.Close()
}

type c11Sockets struct {
	mu    sync.Mutex
	conns []*c11Conn
}

func (s *c11Sockets) wrap(c net.Conn, role string) *c11Conn {
	w := &c11Conn{Conn: c, role: role}
	s.mu.Lock()
	s.conns = append(s.conns, w)
	s.mu.Unlock()
	return w
}

func (s *c11Sockets) all() []*c11Conn {
	s.mu.Lock()
	defer s.mu.Unlock()
	return append([]*c11Conn(nil), s.conns...)
}

func (s *c11Sockets) dialer(role string) func(ctx context.Context, network, hostPort string) (net.Conn, error) {
	return func(ctx context.Context, network, hostPort string) (net.Conn, error) {
		d := net.Dialer{}
		c, err := d.DialContext(ctx, network, hostPort)
		if err != nil {
			return nil, err
		}
		return s.wrap(c, role), nil
	}
}

type c11Listener struct {
	net.Listener
	socks *c11Sockets
	role  string
}

func (l *c11Listener) Accept() (net.Conn, error) {
	c, err := l.Listener.Accept()
	if err != nil {
		return nil, err
	}
	return l.socks.wrap(c, l.role), nil
}

// ------------------------------------------------------------------ sub teardown

type c11RawServer struct {
	ln     net.Listener
	mu     sync.Mutex
	conn   net.Conn
	frames chan *rawFrame
	ready  chan struct{}
}

func c11NewRawServer() *c11RawServer {
	ln, err := net.Listen("tcp", "127.0.0.1:0")
	if err != nil {
		panic(err)
	}
	rs := &c11RawServer{ln: ln, frames: make(chan *rawFrame, 256), ready: make(chan struct{})}
	go func() {
		c, err := ln.Accept()
		if err != nil {
			return
		}
		if _, _, err := rawServerHandshake(c); err != nil {
			c.Close()
			return
		}
		rs.mu.Lock()
		rs.conn = c
		rs.mu.Unlock()
		close(rs.ready)
		for {
			f, err := readRawFrame(c, time.Hour)
			if err != nil {
				close(rs.frames)
				return
			}
			if f.Type == 0xd0 { // ping req -> ping res
				writeRawFrame(c, 0xd1, f.ID, nil)
				continue
			}
			select {
			case rs.frames <- f:
			default:
			}
		}
	}()
	return rs
}

func (rs *c11RawServer) addr() string { return rs.ln.Addr().String() }
func (rs *c11RawServer) close() {
	rs.ln.Close()
	rs.mu.Lock()
	if rs.conn != nil {
		rs.conn.Close()
	}
	rs.mu.Unlock()
}

var c11Tracing = make([]byte, 25)

// scripted label sequences that every run covers (labels as in Model/Goroutines.v tlabel_of)
var c11TeardownScripts = [][]int64{
	{2, 5},          // writes start failing, the writer writes
	{10, 2, 5},      // the same with an outbound call in flight
	{110, 2, 5, 0},  // with an inbound call in flight, then Close
	{0, 2, 5},       // Close first (connection already Closed: the frame is never written)
	{110, 0, 2, 5},  // closing connection waiting for an inbound call when the write fails
	{3},             // reads fail
	{1},             // peer goes away
	{110, 14},       // duplicate id: protocol error
	{10, 15},        // peer reports a protocol error
	{10, 0, 11},     // graceful close waits for the outbound call
	{110, 10, 0, 1}, // peer goes away while closing
	{16, 17, 0},     // a write blocks for a while, then the peer reads again
	{16, 0},         // a write blocks for good (the peer never reads again), then Close
}

func c11Teardown(rng *rand.Rand, n int, o *Out) {
	total := n + len(c11TeardownScripts)
	for c := 0; c < total; c++ {
		var script []int64
		if c < len(c11TeardownScripts) {
			script = c11TeardownScripts[c]
		}
		baseline := c11Baseline()
		health := rng.Intn(3) == 0
		socks := &c11Sockets{}
		opts := &tchannel.ChannelOptions{Dialer: socks.dialer("client")}
		if health {
			opts.DefaultConnectionOptions.HealthChecks = tchannel.HealthCheckOptions{Interval: time.Hour, Timeout: time.Second}
		}
		ch, err := tchannel.NewChannel(fmt.Sprintf("c11-td-%d", c), opts)
		if err != nil {
			panic(err)
		}
		release := make(chan struct{})
		ch.Register(tchannel.HandlerFunc(func(ctx context.Context, call *tchannel.InboundCall) {
			var a2, a3 []byte
			if tchannel.NewArgReader(call.Arg2Reader()).Read(&a2) != nil {
				return
			}
			if tchannel.NewArgReader(call.Arg3Reader()).Read(&a3) != nil {
				return
			}
			<-release
			resp := call.Response()
			if tchannel.NewArgWriter(resp.Arg2Writer()).Write(a2) != nil {
				return
			}
			tchannel.NewArgWriter(resp.Arg3Writer()).Write(a3)
		}), "hold")
		rs := c11NewRawServer()
		ctx, cancel := tchannel.NewContext(3 * time.Second)
		conn, err := ch.Connect(ctx, rs.addr())
		cancel()
		ready := err == nil
		if ready {
			select {
			case <-rs.ready:
			case <-time.After(3 * time.Second):
				ready = false
			}
		}
		if !ready {
			o.Hist("teardown setup infeasible")
			rs.close()
			ch.Close()
			continue
		}
		sock := socks.all()[0]
		var wg sync.WaitGroup
		nextIn := uint32(100)
		var outIDs []uint32
		var inIDs []uint32
		peerGone := false
		faulted := false
		stalled := false

		observe := func() []int64 {
			stacks := c11Settle(baseline, 2*time.Second)
			info := tchannel.VerifC11Info(ch, conn)
			rd, wr, hc := int64(1), int64(2), int64(0)
			if health {
				hc = 2
			}
			for _, s := range stacks {
				switch {
				case strings.Contains(s.first, "readFrames"):
					rd = 0
				case strings.Contains(s.first, "writeFrames"):
					wr = 0
					if strings.Contains(s.full, "writeFrames.func1") {
						wr = 1
					} else if strings.Contains(s.full, "c11Conn).Write") {
						wr = 3
					}
				case strings.Contains(s.first, "healthCheck"):
					hc = 1
				}
			}
			return []int64{int64(info.State), b2i(sock.closedByLib.Load()), rd, wr, hc}
		}
		waitCount := func(in bool, want int) {
			deadline := time.Now().Add(2 * time.Second)
			for time.Now().Before(deadline) {
				info := tchannel.VerifC11Info(ch, conn)
				got := info.OutExchanges
				if in {
					got = info.InExchanges
				}
				if got == want {
					return
				}
				time.Sleep(time.Millisecond)
			}
		}
		respond := func(id uint32) {
			frames := buildRawCallFrames(false, id, rawCallResHeader(0, c11Tracing, [][2]string{{"as", "raw"}}), 1, [3][]byte{{}, []byte("r2"), []byte("r3")}, 60000)
			// the handshake / a pong left a write deadline on the raw socket that may have passed by now
			rs.conn.SetWriteDeadline(time.Now().Add(2 * time.Second))
			for _, fr := range frames {
				rs.conn.Write(fr)
			}
		}
		// performs the action of a label; false when the label is not applicable now
		do := func(lab int64) bool {
			info := tchannel.VerifC11Info(ch, conn)
			active := info.State == 1
			switch lab {
			case 0:
				conn.Close()
			case 1:
				peerGone = true
				rs.close()
			case 2:
				if stalled {
					return false
				}
				faulted = true
				sock.FailWrites()
			case 3:
				if stalled {
					return false
				}
				faulted = true
				sock.FailReads()
			case 16: // the peer stops reading: the next frame blocks the writer inside Write
				if faulted || peerGone || stalled || info.State == 4 {
					return false
				}
				stalled = true
				sock.Stall()
				tchannel.VerifC11SendPong(conn, 0xfffffff1)
			case 17: // the peer reads again
				if !stalled {
					return false
				}
				stalled = false
				sock.unstall()
			case 5:
				tchannel.VerifC11SendPong(conn, 0xfffffff0)
			case 10: // outbound call, blocked waiting for its response
				if !active || peerGone || faulted {
					return false
				}
				want := info.OutExchanges + 1
				wg.Add(1)
				go func() {
					defer wg.Done()
					cctx, ccancel := tchannel.NewContext(20 * time.Second)
					defer ccancel()
					call, err := conn2BeginCall(cctx, ch, rs.addr())
					if err != nil {
						return
					}
					if tchannel.NewArgWriter(call.Arg2Writer()).Write([]byte("a2")) != nil {
						return
					}
					if tchannel.NewArgWriter(call.Arg3Writer()).Write([]byte("a3")) != nil {
						return
					}
					var b []byte
					if tchannel.NewArgReader(call.Response().Arg2Reader()).Read(&b) != nil {
						return
					}
					tchannel.NewArgReader(call.Response().Arg3Reader()).Read(&b)
				}()
				waitCount(false, want)
				for got := false; !got; {
					select {
					case f := <-rs.frames:
						if f == nil {
							got = true
						} else if f.Type == 0x03 {
							outIDs = append(outIDs, f.ID)
							got = true
						}
					case <-time.After(2 * time.Second):
						got = true
					}
				}
			case 110: // inbound call whose handler blocks
				if !active || peerGone || faulted {
					return false
				}
				id := nextIn
				nextIn++
				want := info.InExchanges + 1
				frames := buildRawCallFrames(true, id, rawCallReqHeader(20000, c11Tracing, ch.ServiceName(), [][2]string{{"as", "raw"}, {"cn", "rawpeer"}}), 1, [3][]byte{[]byte("hold"), []byte("x"), []byte("y")}, 60000)
				rs.conn.SetWriteDeadline(time.Now().Add(2 * time.Second))
				for _, fr := range frames {
					rs.conn.Write(fr)
				}
				waitCount(true, want)
				inIDs = append(inIDs, id)
			case 11: // the response arrives (or the call has already failed with the connection)
				if len(outIDs) == 0 {
					return false
				}
				id := outIDs[0]
				outIDs = outIDs[1:]
				if !peerGone {
					respond(id)
				}
				time.Sleep(2 * time.Millisecond)
			case 14: // duplicate id on an active inbound call: protocol error
				if len(inIDs) == 0 || peerGone || !active || faulted {
					return false
				}
				frames := buildRawCallFrames(true, inIDs[0], rawCallReqHeader(20000, c11Tracing, ch.ServiceName(), [][2]string{{"as", "raw"}, {"cn", "rawpeer"}}), 1, [3][]byte{[]byte("hold"), []byte("x"), []byte("y")}, 60000)
				rs.conn.SetWriteDeadline(time.Now().Add(2 * time.Second))
				for _, fr := range frames {
					rs.conn.Write(fr)
				}
				time.Sleep(2 * time.Millisecond)
			case 15: // the peer reports a protocol error: connectionError in the reader
				if peerGone || faulted {
					return false
				}
				writeRawFrame(rs.conn, 0xff, 0xffffffff, rawErrorPayload(0xff, c11Tracing, "verif protocol error"))
				time.Sleep(2 * time.Millisecond)
			default:
				return false
			}
			return true
		}

		var labels, obs []int64
		steps := 2 + rng.Intn(7)
		if script != nil {
			steps = len(script)
		}
		choices := []int64{0, 0, 1, 2, 2, 3, 5, 5, 10, 10, 110, 110, 11, 14, 15, 16, 17, 17}
		for s := 0; s < steps; s++ {
			lab := choices[rng.Intn(len(choices))]
			if script != nil {
				lab = script[s]
			}
			if !do(lab) {
				continue
			}
			o.Hist(fmt.Sprintf("teardown label %d", lab))
			labels = append(labels, lab)
			obs = append(obs, observe()...)
		}
		// end of case.  The peer stays alive: calls in flight get their answers, handlers are
		// released, the channel is closed, and the clean state of the statement is required
		// (connection and channel closed, no goroutine of the library left, socket closed).
		if !peerGone {
			// a request that was queued behind a blocked write (label 16) when label 10 stopped
			// waiting for it reaches the peer later (label 17): it is answered as well
			drain := time.After(50 * time.Millisecond)
		drainLoop:
			for {
				select {
				case f, ok := <-rs.frames:
					if !ok {
						break drainLoop
					}
					if f != nil && f.Type == 0x03 {
						known := false
						for _, id := range outIDs {
							known = known || id == f.ID
						}
						if !known {
							outIDs = append(outIDs, f.ID)
						}
					}
				case <-drain:
					break drainLoop
				}
			}
			for _, id := range outIDs {
				respond(id)
			}
		}
		close(release)
		ch.Close()
		final := func() (bool, string) {
			left := c11NewSince(baseline)
			info := tchannel.VerifC11Info(ch, conn)
			if info.State == 4 && len(left) == 0 && ch.Closed() && sock.closedByLib.Load() {
				return true, ""
			}
			msg := fmt.Sprintf("after the calls ended and the channel was closed (the peer still being there: %v): channel state %v, connection state %s, %d library goroutine(s) remain, socket closed by the library: %v",
				!peerGone, ch.State(), info.ConnectionState, len(left), sock.closedByLib.Load())
			for _, s := range left {
				msg += " | " + strings.TrimPrefix(s.first, c11Lib+".") + " in " + strings.TrimPrefix(s.top, c11Lib+".")
			}
			return false, msg
		}
		verdict := ""
		deadline := time.Now().Add(2 * time.Second)
		for {
			ok, msg := final()
			if ok {
				break
			}
			if time.Now().After(deadline) {
				verdict = msg + fmt.Sprintf(" -- labels %v health=%v", labels, health)
				if stalled {
					verdict = "[c11:stalled-writer-outlives-close] the frame writer is held inside Write by a peer that does not read: " + verdict
				}
				break
			}
			time.Sleep(5 * time.Millisecond)
		}
		rs.close()
		sock.unstall()
		if verdict != "" {
			sock.Conn.Close()
		}
		if !c11WaitTimeout(&wg, 25*time.Second) && verdict == "" {
			verdict = "an outbound call did not return although its connection and channel were closed"
		}
		in := []int64{1, b2i(health), int64(len(labels))}
		in = append(in, labels...)
		if c < 2 {
			o.Sample(map[string]interface{}{"sub": "teardown", "health": health, "labels": labels, "observed": obs})
		}
		o.Case("teardown", fmt.Sprintf("t%d", c), in, obs, len(labels) > 1, verdict)
	}
}

func conn2BeginCall(ctx context.Context, ch *tchannel.Channel, hostPort string) (*tchannel.OutboundCall, error) {
	return ch.BeginCall(ctx, hostPort, "rawsvc", "m", nil)
}
