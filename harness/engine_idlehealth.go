package main

// Engine for property C19 (idle sweeps and health checks).
//
// tl:       timelines on a REAL channel with stub TimeNow / TimeTicker: several connections to
//           raw TCP peers (rawpeer.go), frames of every type in both directions, local and
//           relayed calls, user closes, sweep ticks, health ticks with scripted ping outcomes,
//           a wedged connection (Dialer-supplied conn whose Write stalls, SendBufferSize=1).
//           Every event is forced on the implementation and waited for; the observables are
//           compared with the model (run_tl) and judged by an oracle written from the property
//           statement (own bookkeeping of last call activity / pending calls / failure runs).
// hloop:    per connection of a timeline, the sequence of ping results against the loop model.
// ring, hopts, idleopts: healthHistory, withDefaults/enabled, validateIdleCheck + poller start.

import (
	"errors"
	"fmt"
	"math"
	"math/rand"
	"net"
	"sort"
	"sync"
	"time"

	tchannel "github.com/uber/tchannel-go"
	"github.com/uber/tchannel-go/raw"
	"github.com/uber/tchannel-go/relay"
	"golang.org/x/net/context"
)

func init() { engines["idlehealth"] = engineIdleHealth }

// ---------------------------------------------------------------- stubs

type c19Clock struct {
	mu      sync.Mutex
	now     time.Time
	barrier bool
	reads   int
	hit     chan struct{}
}

var c19Ancient = time.Unix(-1<<40, 0)

func (c *c19Clock) Now() time.Time {
	c.mu.Lock()
	defer c.mu.Unlock()
	c.reads++
	if c.barrier {
		select {
		case c.hit <- struct{}{}:
		default:
		}
		return c19Ancient
	}
	return c.now
}
func (c *c19Clock) get() time.Time { c.mu.Lock(); defer c.mu.Unlock(); return c.now }
func (c *c19Clock) readCount() int { c.mu.Lock(); defer c.mu.Unlock(); return c.reads }
func (c *c19Clock) advance(d time.Duration) {
	c.mu.Lock()
	c.now = c.now.Add(d)
	c.mu.Unlock()
}
func (c *c19Clock) setBarrier(b bool) { c.mu.Lock(); c.barrier = b; c.mu.Unlock() }

type c19Ticker struct {
	d  time.Duration
	ch chan time.Time
}

type c19Tickers struct {
	mu   sync.Mutex
	list []*c19Ticker
}

func (t *c19Tickers) New(d time.Duration) *time.Ticker {
	tk := time.NewTicker(time.Hour)
	ch := make(chan time.Time) // unbuffered: a send returns when the loop took the tick
	tk.C = ch
	t.mu.Lock()
	t.list = append(t.list, &c19Ticker{d: d, ch: ch})
	t.mu.Unlock()
	return tk
}
func (t *c19Tickers) count() int { t.mu.Lock(); defer t.mu.Unlock(); return len(t.list) }
func (t *c19Tickers) waitNew(prev int, timeout time.Duration) *c19Ticker {
	dl := time.Now().Add(timeout)
	for time.Now().Before(dl) {
		t.mu.Lock()
		if len(t.list) > prev {
			tk := t.list[prev]
			t.mu.Unlock()
			return tk
		}
		t.mu.Unlock()
		time.Sleep(50 * time.Microsecond)
	}
	return nil
}

// logger that records the health check's own report of its counter
type c19HealthLog struct{ cf, ftc int64 }
type c19Sink struct {
	mu       sync.Mutex
	health   map[uint32][]c19HealthLog
	skipIdle int
}
type c19Logger struct {
	sink   *c19Sink
	fields tchannel.LogFields
}

func toI64(v interface{}) int64 {
	switch x := v.(type) {
	case int:
		return int64(x)
	case int64:
		return x
	case uint32:
		return int64(x)
	}
	return -1
}
func (l c19Logger) field(k string) interface{} {
	for i := len(l.fields) - 1; i >= 0; i-- {
		if l.fields[i].Key == k {
			return l.fields[i].Value
		}
	}
	return nil
}
func (l c19Logger) Enabled(tchannel.LogLevel) bool { return true }
func (l c19Logger) Fatal(msg string)               {}
func (l c19Logger) Error(msg string) {
	if msg == "Skip closing idle Connection as it has pending calls." {
		l.sink.mu.Lock()
		l.sink.skipIdle++
		l.sink.mu.Unlock()
	}
}
func (l c19Logger) Warn(msg string) {
	if msg == "Failed active health check." {
		id := uint32(toI64(l.field("connID")))
		l.sink.mu.Lock()
		l.sink.health[id] = append(l.sink.health[id], c19HealthLog{toI64(l.field("consecutiveFailures")), toI64(l.field("failuresToClose"))})
		l.sink.mu.Unlock()
	}
}
func (l c19Logger) Infof(string, ...interface{})  {}
func (l c19Logger) Info(string)                   {}
func (l c19Logger) Debugf(string, ...interface{}) {}
func (l c19Logger) Debug(string)                  {}
func (l c19Logger) Fields() tchannel.LogFields    { return l.fields }
func (l c19Logger) WithFields(f ...tchannel.LogField) tchannel.Logger {
	nf := make(tchannel.LogFields, 0, len(l.fields)+len(f))
	nf = append(nf, l.fields...)
	nf = append(nf, f...)
	return c19Logger{sink: l.sink, fields: nf}
}
func (s *c19Sink) healthCount(id uint32) int {
	s.mu.Lock()
	defer s.mu.Unlock()
	return len(s.health[id])
}
func (s *c19Sink) healthAt(id uint32, i int) c19HealthLog {
	s.mu.Lock()
	defer s.mu.Unlock()
	return s.health[id][i]
}

// ---- channel configurations that must not change what sweeps and health checks do ----------
// logger: 0 none (ChannelOptions.Logger nil: the library default), 1 tchannel.NullLogger,
//
//	2 the recording logger behind NewLevelLogger(.., LogLevelInfo) (debug off, Enabled(Debug) = false),
//	3 the recording logger itself (Enabled() true for every level)
//
// stats:  0 none (StatsReporter nil), 1 a recording reporter
// The configuration is NOT part of the model's input: the model has one behaviour, every
// configuration is compared with it and judged by the same oracle.  With logger 0 / 1 the health
// loop's own report of its counter (the fields of its Warn line) does not exist: the harness then
// keeps the count itself (c.fails) and waits for the loop by the history total / the done channel.
type c19Cfg struct{ logger, stats int }

var c19CfgSeq int

// the configurations are dealt round-robin over the cases of a run (all 8 equally often)
func c19NextCfg() c19Cfg {
	k := c19CfgSeq
	c19CfgSeq++
	return c19CfgAt(k)
}
func c19CfgAt(k int) c19Cfg {
	// (k%4, (k/4)%2) would give directed pairs of cases the same stats setting: mix
	return c19Cfg{logger: k % 4, stats: ((k / 4) + k) % 2}
}
func (g c19Cfg) String() string { return fmt.Sprintf("L%dS%d", g.logger, g.stats) }
func (g c19Cfg) quiet() bool    { return g.logger < 2 }
func c19LoggerName(k int) string {
	return []string{"nil (library default)", "NullLogger", "level logger at Info (debug off)", "recording logger, all levels on"}[k]
}

type c19Stats struct {
	mu sync.Mutex
	n  map[string]int64
}

func (s *c19Stats) rec(name string, v int64) {
	s.mu.Lock()
	if s.n == nil {
		s.n = map[string]int64{}
	}
	s.n[name] += v
	s.mu.Unlock()
}
func (s *c19Stats) IncCounter(name string, tags map[string]string, value int64)  { s.rec(name, value) }
func (s *c19Stats) UpdateGauge(name string, tags map[string]string, value int64) { s.rec(name, 1) }
func (s *c19Stats) RecordTimer(name string, tags map[string]string, d time.Duration) {
	s.rec(name, 1)
}

func (g c19Cfg) apply(opts *tchannel.ChannelOptions, sink *c19Sink) {
	switch g.logger {
	case 0:
		opts.Logger = nil
	case 1:
		opts.Logger = tchannel.NullLogger
	case 2:
		opts.Logger = tchannel.NewLevelLogger(c19Logger{sink: sink}, tchannel.LogLevelInfo)
	default:
		opts.Logger = c19Logger{sink: sink}
	}
	if g.stats == 1 {
		opts.StatsReporter = &c19Stats{}
	}
}

// net.Conn whose Write can be made to stall (the wedged-connection case)
type c19StallConn struct {
	net.Conn
	mu      sync.Mutex
	stall   bool
	entered chan struct{}
	release chan struct{}
}

func (s *c19StallConn) Write(b []byte) (int, error) {
	s.mu.Lock()
	st := s.stall
	s.mu.Unlock()
	if st {
		select {
		case s.entered <- struct{}{}:
		default:
		}
		<-s.release
		return 0, net.ErrClosed
	}
	return s.Conn.Write(b)
}

// relay host: service "r<hostport>" is served by the peer <hostport>
type c19RelayHost struct{ ch *tchannel.Channel }
type c19RelayCall struct{ peer *tchannel.Peer }

func (h *c19RelayHost) SetChannel(ch *tchannel.Channel) { h.ch = ch }
func (h *c19RelayHost) Start(f relay.CallFrame, _ *relay.Conn) (tchannel.RelayCall, error) {
	svc := string(f.Service())
	if len(svc) < 2 || svc[0] != 'r' {
		return nil, errors.New("unknown relay service")
	}
	return &c19RelayCall{peer: h.ch.RootPeers().GetOrAdd(svc[1:])}, nil
}
func (c *c19RelayCall) Destination() (*tchannel.Peer, bool) { return c.peer, true }
func (c *c19RelayCall) SentBytes(uint16)                    {}
func (c *c19RelayCall) ReceivedBytes(uint16)                {}
func (c *c19RelayCall) CallResponse(relay.RespFrame)        {}
func (c *c19RelayCall) Succeeded()                          {}
func (c *c19RelayCall) Failed(string)                       {}
func (c *c19RelayCall) End()                                {}

// blocking handler for local inbound calls: each call waits for its own release (keyed by arg3)
type c19Block struct {
	mu      sync.Mutex
	arrived chan struct{}
	rel     map[string]chan struct{}
}

func (b *c19Block) releaseCh(key string) chan struct{} {
	b.mu.Lock()
	defer b.mu.Unlock()
	if b.rel[key] == nil {
		b.rel[key] = make(chan struct{})
	}
	return b.rel[key]
}
func (b *c19Block) Handle(ctx context.Context, args *raw.Args) (*raw.Res, error) {
	rel := b.releaseCh(string(args.Arg3))
	b.arrived <- struct{}{}
	<-rel
	return &raw.Res{Arg2: []byte("h"), Arg3: []byte("ok")}, nil
}
func (b *c19Block) OnError(ctx context.Context, err error) {}

// ---------------------------------------------------------------- timeline

type c19Conn struct {
	id       int
	outbound bool
	conn     *tchannel.Connection
	connID   uint32
	sock     net.Conn
	frames   chan *rawFrame
	hostPort string // of the raw listener (outbound only)
	health   *c19Ticker
	stall    *c19StallConn
	dead     bool // no more events are generated for it

	// what the implementation showed / the harness did (for the observables)
	pingID     uint32
	pingFlight bool
	pingTotal0 int // healthHistory.total and log lines before the ping started
	pingLog0   int
	fails      int64
	pingRes    [][]int64 // results of completed pings as the model's error encoding
	closedAt   int
	cleanLoop  bool // only sent pings, nothing else closed it: usable for the hloop sub

	// bookkeeping for the oracle, from the statement only
	oActive       bool
	oLastCall     time.Time
	oPending      int
	oRelayPending int
	oConsec       int
	oStopped      bool

	inCalls   []uint32 // ids of inbound calls blocked in the handler
	outCalls  []c19OutCall
	relayOut  []c19RelayCallRec // relayed calls whose request this connection (as destination) holds
	junkN     uint32
	relaySrcN int
}

type c19OutCall struct {
	id   uint32
	done chan error
}
type c19RelayCallRec struct {
	src    *c19Conn
	srcID  uint32
	destID uint32
}

type c19TL struct {
	rng        *rand.Rand
	ch         *tchannel.Channel
	clock      *c19Clock
	tickers    *c19Tickers
	sink       *c19Sink
	idleTicker *c19Ticker
	block      *c19Block
	conns      []*c19Conn
	relayMode  bool
	cfg        c19Cfg

	idleInterval, maxIdle      int64
	hInterval, hTimeout, hFail int64
	effF                       int64
	t0                         int64
	events                     []int64
	nev                        int
	obs                        []int64
	verdict                    string
	anomaly                    string
	clockSane                  bool
	timeoutMode                bool
	stallConns                 []*c19StallConn
	listeners                  []net.Listener
	nextInID                   uint32
	hist                       map[string]int
}

func (t *c19TL) fail(format string, a ...interface{}) {
	if t.verdict == "" {
		t.verdict = fmt.Sprintf(format, a...)
	}
}
func (t *c19TL) harnessProblem(format string, a ...interface{}) {
	if t.anomaly == "" {
		t.anomaly = fmt.Sprintf(format, a...)
	}
}
func (t *c19TL) ev(xs ...int64) { t.events = append(t.events, xs...); t.nev++ }

func isCallFrameSpec(mt byte) bool {
	return mt == 0x03 || mt == 0x04 || mt == 0x13 || mt == 0x14 || mt == 0xff
}

func (t *c19TL) state(c *c19Conn) tchannel.VerifC19ConnState { return tchannel.VerifC19State(c.conn) }

func (t *c19TL) hstatus(c *c19Conn, st tchannel.VerifC19ConnState) int64 {
	if !st.HealthOn {
		return 0
	}
	if st.HealthDone {
		return 3
	}
	if c.pingFlight {
		return 2
	}
	return 1
}

// wait for the health goroutine of a connection that reached Closed to exit (closeNetwork ->
// stopHealthCheck runs on the writer goroutine)
func (t *c19TL) settleClosed(c *c19Conn) {
	st := t.state(c)
	if st.State == 4 {
		// the goroutine that moved the state to Closed runs the channel's callback
		// (removeClosedConn) next; it may be descheduled in between
		dl := time.Now().Add(3 * time.Second)
		for tchannel.VerifC19Tracked(t.ch, c.conn) && time.Now().Before(dl) {
			time.Sleep(50 * time.Microsecond)
		}
		if tchannel.VerifC19Tracked(t.ch, c.conn) {
			t.fail("connection %d is Closed but the channel still tracks it after 3s", c.id)
		}
	}
	if st.State == 4 && st.HealthOn && !st.HealthDone {
		select {
		case <-tchannel.VerifC19HealthDone(c.conn):
		case <-time.After(2 * time.Second):
			t.fail("connection %d is Closed but its health check goroutine is still running after 2s", c.id)
		}
	}
}

func (t *c19TL) obsStamps(c *c19Conn) {
	st := t.state(c)
	t.obs = append(t.obs, st.LastRead, st.LastWrite)
}
func (t *c19TL) obsShort(c *c19Conn) {
	t.settleClosed(c)
	st := t.state(c)
	t.obs = append(t.obs, int64(st.State), st.LastRead, st.LastWrite)
}
func (t *c19TL) obsState(c *c19Conn) {
	t.settleClosed(c)
	t.obs = append(t.obs, int64(t.state(c).State))
}
func (t *c19TL) obsHealth(c *c19Conn) {
	t.settleClosed(c)
	st := t.state(c)
	t.obs = append(t.obs, int64(st.State), t.hstatus(c, st), c.fails)
}

// the connection must not have been closed by an event that is not supposed to close it
func (t *c19TL) checkStillAsExpected(c *c19Conn, what string) {
	st := t.state(c)
	if c.oActive && st.State != 1 {
		t.fail("connection %d left the Active state (now %d) on %s: neither a sweep nor a health check failure run", c.id, st.State, what)
		c.oActive = false
	}
}

func (c *c19Conn) next(timeout time.Duration) (*rawFrame, bool) {
	select {
	case f, ok := <-c.frames:
		return f, ok
	case <-time.After(timeout):
		return nil, true
	}
}

// wait for a frame of the given type (anything else in between is unexpected)
func (t *c19TL) expect(c *c19Conn, mt byte, what string) *rawFrame {
	f, ok := c.next(3 * time.Second)
	if !ok || f == nil {
		t.harnessProblem("raw peer of connection %d: no frame while waiting for %s (closed=%v)", c.id, what, !ok)
		return nil
	}
	if f.Type != mt {
		t.harnessProblem("raw peer of connection %d: got frame type %#x while waiting for %s", c.id, f.Type, what)
		return nil
	}
	return f
}

func (t *c19TL) startReader(c *c19Conn) {
	c.frames = make(chan *rawFrame, 256)
	go func() {
		defer close(c.frames)
		for {
			f, err := readRawFrame(c.sock, time.Hour)
			if err != nil {
				return
			}
			c.frames <- f
		}
	}()
}

func (t *c19TL) evNewConn(outbound bool) *c19Conn {
	c := &c19Conn{id: len(t.conns), outbound: outbound, cleanLoop: true, closedAt: -1}
	nt := t.tickers.count()
	if outbound {
		ln, err := net.Listen("tcp", "127.0.0.1:0")
		if err != nil {
			t.harnessProblem("listen: %v", err)
			return nil
		}
		t.listeners = append(t.listeners, ln)
		acc := make(chan net.Conn, 1)
		go func() {
			s, err := ln.Accept()
			if err != nil {
				acc <- nil
				return
			}
			if _, _, err := rawServerHandshake(s); err != nil {
				s.Close()
				acc <- nil
				return
			}
			acc <- s
		}()
		ctx, cancel := tchannel.NewContext(3 * time.Second)
		conn, err := t.ch.Connect(ctx, ln.Addr().String())
		cancel()
		if err != nil {
			t.harnessProblem("Connect: %v", err)
			return nil
		}
		c.conn, c.sock, c.hostPort = conn, <-acc, ln.Addr().String()
		if c.sock == nil {
			t.harnessProblem("raw server handshake failed")
			return nil
		}
		if len(t.stallConns) > 0 {
			c.stall = t.stallConns[len(t.stallConns)-1]
		}
	} else {
		before := map[uint32]bool{}
		for _, x := range tchannel.VerifC19Conns(t.ch) {
			before[tchannel.VerifC19ConnID(x)] = true
		}
		s, err := net.Dial("tcp", t.ch.PeerInfo().HostPort)
		if err != nil {
			t.harnessProblem("dial: %v", err)
			return nil
		}
		if _, err := rawClientHandshake(s); err != nil {
			t.harnessProblem("raw client handshake: %v", err)
			return nil
		}
		c.sock = s
		dl := time.Now().Add(3 * time.Second)
		for c.conn == nil && time.Now().Before(dl) {
			for _, x := range tchannel.VerifC19Conns(t.ch) {
				if !before[tchannel.VerifC19ConnID(x)] {
					c.conn = x
				}
			}
			if c.conn == nil {
				time.Sleep(50 * time.Microsecond)
			}
		}
		if c.conn == nil {
			t.harnessProblem("inbound connection did not appear in the channel")
			return nil
		}
	}
	c.connID = tchannel.VerifC19ConnID(c.conn)
	t.startReader(c)
	if t.hInterval > 0 {
		c.health = t.tickers.waitNew(nt, 2*time.Second)
		if c.health == nil {
			t.fail("health checks are enabled (Interval=%d) but connection %d started no health check ticker", t.hInterval, c.id)
		}
	} else if t.tickers.waitNew(nt, 2*time.Millisecond) != nil {
		t.fail("health checks are disabled (Interval=%d) but connection %d started a ticker", t.hInterval, c.id)
	}
	c.oActive, c.oLastCall = true, t.clock.get()
	t.conns = append(t.conns, c)
	t.ev(1, int64(c.id), b2i(t.relayMode))
	t.obsShort(c)
	t.hist["ev:newconn"]++
	return c
}

func (t *c19TL) evAdvance(dt int64) {
	t.clock.advance(time.Duration(dt))
	t.ev(0, dt)
	if dt < 0 {
		t.clockSane = false
	}
	now := t.clock.get()
	if now.Before(time.Unix(0, math.MinInt64)) || now.After(time.Unix(0, math.MaxInt64)) {
		t.clockSane = false
	}
	t.hist["ev:advance"]++
}

func (t *c19TL) junkPayload(mt byte) []byte {
	switch mt {
	case 0xff:
		return rawErrorPayload(byte(pick(t.rng, 1, 3, 4, 5, 6, 7)), make([]byte, 25), "verif")
	case 0x04:
		return append([]byte{0, 0}, make([]byte, 30)...)
	case 0x13, 0x14:
		return []byte{0, 0, 0, 0}
	case 0xc0:
		return append([]byte{0, 0, 0, 0}, append(make([]byte, 25), 0, 0)...)
	}
	return nil
}

// the raw peer sends a frame of type mt (for an id no exchange knows), then a ping request and
// waits for the ping response: frames are handled in order, so the first one has been processed
func (t *c19TL) evRead(c *c19Conn, mt byte) {
	c.junkN++
	if err := writeRawFrame(c.sock, mt, 0x40000000+c.junkN, t.junkPayload(mt)); err != nil {
		t.harnessProblem("raw write: %v", err)
		return
	}
	if isCallFrameSpec(mt) {
		c.oLastCall = t.clock.get()
	}
	t.ev(2, int64(c.id), int64(mt))
	if mt == 0xd0 {
		// a ping request is answered by a ping response: that is the synchronisation
		f := t.expect(c, 0xd1, "ping response")
		if f != nil && f.ID != 0x40000000+c.junkN {
			t.harnessProblem("ping response with id %d, want %d", f.ID, 0x40000000+c.junkN)
		}
		t.obsStamps(c)
		t.ev(3, int64(c.id), 0xd1)
		t.obsStamps(c)
		t.checkStillAsExpected(c, "reading a ping request")
		t.hist["ev:read:ping"]++
		return
	}
	// sync ping (ping traffic in both directions, never activity)
	c.junkN++
	pid := 0x50000000 + c.junkN
	if err := writeRawFrame(c.sock, 0xd0, pid, nil); err != nil {
		t.harnessProblem("raw write: %v", err)
		return
	}
	f := t.expect(c, 0xd1, "ping response (sync)")
	if f != nil && f.ID != pid {
		t.harnessProblem("ping response with id %d, want %d", f.ID, pid)
	}
	t.obsStamps(c)
	t.ev(2, int64(c.id), 0xd0)
	t.obsStamps(c)
	t.ev(3, int64(c.id), 0xd1)
	t.obsStamps(c)
	t.checkStillAsExpected(c, fmt.Sprintf("reading a frame of type %#x", mt))
	t.hist[fmt.Sprintf("ev:read:%s", mtClass(mt))]++
}

func mtClass(mt byte) string {
	if isCallFrameSpec(mt) {
		return "call-frame"
	}
	if mt == 0xd0 || mt == 0xd1 {
		return "ping"
	}
	return "other"
}

// the real writer loop writes a frame of type mt (queued like sendMessage does)
func (t *c19TL) evWrite(c *c19Conn, mt byte) {
	c.junkN++
	if !tchannel.VerifC19Inject(c.conn, mt, 0x60000000+c.junkN, t.junkPayload(mt)) {
		t.harnessProblem("send buffer full on inject")
		return
	}
	if t.expect(c, mt, "injected frame") == nil {
		return
	}
	if isCallFrameSpec(mt) {
		c.oLastCall = t.clock.get()
	}
	t.ev(3, int64(c.id), int64(mt))
	t.obsStamps(c)
	t.checkStillAsExpected(c, fmt.Sprintf("writing a frame of type %#x", mt))
	t.hist[fmt.Sprintf("ev:write:%s", mtClass(mt))]++
}

func (t *c19TL) callReqFrames(id uint32, service, method string) [][]byte {
	first := rawCallReqHeader(60000, make([]byte, 25), service, [][2]string{{"as", "raw"}, {"cn", "verif-raw"}})
	return buildRawCallFrames(true, id, first, 0, [3][]byte{[]byte(method), []byte("a2"), []byte(fmt.Sprint(id))}, 65519)
}
func (t *c19TL) callResFrames(id uint32) [][]byte {
	first := rawCallResHeader(0, make([]byte, 25), nil)
	return buildRawCallFrames(false, id, first, 0, [3][]byte{nil, []byte("r2"), []byte("r3")}, 65519)
}

func (t *c19TL) evInCallStart(c *c19Conn) {
	t.nextInID++
	id := 0x100 + t.nextInID
	for _, fr := range t.callReqFrames(id, "verif-c19", "block") {
		c.sock.SetWriteDeadline(time.Now().Add(2 * time.Second))
		if _, err := c.sock.Write(fr); err != nil {
			t.harnessProblem("raw write: %v", err)
			return
		}
	}
	select {
	case <-t.block.arrived:
	case <-time.After(3 * time.Second):
		t.harnessProblem("inbound call did not reach the handler")
		return
	}
	c.inCalls = append(c.inCalls, id)
	c.oLastCall = t.clock.get()
	c.oPending++
	t.ev(2, int64(c.id), 3)
	t.obsStamps(c)
	t.ev(4, int64(c.id), 0, 1)
	t.obsState(c)
	t.checkStillAsExpected(c, "an inbound call")
	t.hist["ev:incall-start"]++
}

func (t *c19TL) waitCounts(c *c19Conn, what string, ok func(tchannel.VerifC19ConnState) bool) {
	dl := time.Now().Add(3 * time.Second)
	for time.Now().Before(dl) {
		if ok(t.state(c)) {
			return
		}
		time.Sleep(50 * time.Microsecond)
	}
	t.harnessProblem("connection %d: %s did not happen", c.id, what)
}

func (t *c19TL) evInCallFinish(c *c19Conn) {
	before := t.state(c).Inbound
	id := c.inCalls[0]
	c.inCalls = c.inCalls[1:]
	close(t.block.releaseCh(fmt.Sprint(id)))
	if t.expect(c, 0x04, "call response") == nil {
		return
	}
	c.oLastCall = t.clock.get()
	t.waitCounts(c, "inbound exchange removal", func(s tchannel.VerifC19ConnState) bool { return s.Inbound == before-1 })
	c.oPending--
	t.settleClosing(c)
	t.ev(3, int64(c.id), 4)
	t.obsStamps(c)
	t.ev(4, int64(c.id), 0, -1)
	t.obsState(c)
	t.refreshDead(c)
	t.hist["ev:incall-finish"]++
}

func (t *c19TL) evOutCallStart(c *c19Conn) {
	done := make(chan error, 1)
	started := make(chan error, 1)
	go func() {
		ctx, cancel := tchannel.NewContext(60 * time.Second)
		defer cancel()
		call, err := t.ch.BeginCall(ctx, c.hostPort, "rawsvc", "m", nil)
		if err != nil {
			started <- err
			return
		}
		if err := tchannel.NewArgWriter(call.Arg2Writer()).Write([]byte("a2")); err != nil {
			started <- err
			return
		}
		if err := tchannel.NewArgWriter(call.Arg3Writer()).Write([]byte("a3")); err != nil {
			started <- err
			return
		}
		started <- nil
		var a2, a3 []byte
		if err := tchannel.NewArgReader(call.Response().Arg2Reader()).Read(&a2); err != nil {
			done <- err
			return
		}
		done <- tchannel.NewArgReader(call.Response().Arg3Reader()).Read(&a3)
	}()
	select {
	case err := <-started:
		if err != nil {
			t.harnessProblem("outbound call: %v", err)
			return
		}
	case <-time.After(3 * time.Second):
		t.harnessProblem("outbound call did not start")
		return
	}
	f := t.expect(c, 0x03, "call request")
	if f == nil {
		return
	}
	c.outCalls = append(c.outCalls, c19OutCall{id: f.ID, done: done})
	c.oLastCall = t.clock.get()
	c.oPending++
	t.ev(4, int64(c.id), 1, 1)
	t.obsState(c)
	t.ev(3, int64(c.id), 3)
	t.obsStamps(c)
	t.checkStillAsExpected(c, "an outbound call")
	t.hist["ev:outcall-start"]++
}

func (t *c19TL) evOutCallFinish(c *c19Conn) {
	oc := c.outCalls[0]
	c.outCalls = c.outCalls[1:]
	before := t.state(c).OutboundCalls
	for _, fr := range t.callResFrames(oc.id) {
		c.sock.SetWriteDeadline(time.Now().Add(2 * time.Second))
		if _, err := c.sock.Write(fr); err != nil {
			t.harnessProblem("raw write: %v", err)
			return
		}
	}
	select {
	case err := <-oc.done:
		if err != nil {
			t.harnessProblem("outbound call response: %v", err)
		}
	case <-time.After(3 * time.Second):
		t.harnessProblem("outbound call did not finish")
		return
	}
	t.waitCounts(c, "outbound exchange removal", func(s tchannel.VerifC19ConnState) bool { return s.OutboundCalls == before-1 })
	c.oLastCall = t.clock.get()
	c.oPending--
	t.settleClosing(c)
	t.ev(2, int64(c.id), 4)
	t.obsStamps(c)
	t.ev(4, int64(c.id), 1, -1)
	t.obsState(c)
	t.refreshDead(c)
	t.hist["ev:outcall-finish"]++
}

// a relayed call from inbound connection a to outbound connection b
func (t *c19TL) evRelayStart(a, b *c19Conn) {
	t.nextInID++
	id := 0x100 + t.nextInID
	for _, fr := range t.callReqFrames(id, "r"+b.hostPort, "relayed") {
		a.sock.SetWriteDeadline(time.Now().Add(2 * time.Second))
		if _, err := a.sock.Write(fr); err != nil {
			t.harnessProblem("raw write: %v", err)
			return
		}
	}
	f := t.expect(b, 0x03, "relayed call request")
	if f == nil {
		return
	}
	b.relayOut = append(b.relayOut, c19RelayCallRec{src: a, srcID: id, destID: f.ID})
	a.relaySrcN++
	now := t.clock.get()
	a.oLastCall, b.oLastCall = now, now
	a.oRelayPending++
	b.oRelayPending++
	t.ev(2, int64(a.id), 3)
	t.obsStamps(a)
	t.ev(4, int64(a.id), 2, 1)
	t.obsState(a)
	t.ev(4, int64(b.id), 2, 1)
	t.obsState(b)
	t.ev(3, int64(b.id), 3)
	t.obsStamps(b)
	t.checkStillAsExpected(a, "a relayed call")
	t.checkStillAsExpected(b, "a relayed call")
	t.hist["ev:relay-start"]++
}

func (t *c19TL) evRelayFinish(b *c19Conn) {
	rc := b.relayOut[0]
	b.relayOut = b.relayOut[1:]
	a := rc.src
	for _, fr := range t.callResFrames(rc.destID) {
		b.sock.SetWriteDeadline(time.Now().Add(2 * time.Second))
		if _, err := b.sock.Write(fr); err != nil {
			t.harnessProblem("raw write: %v", err)
			return
		}
	}
	f := t.expect(a, 0x04, "relayed call response")
	if f == nil {
		return
	}
	if f.ID != rc.srcID {
		t.harnessProblem("relayed response id %d, want %d", f.ID, rc.srcID)
	}
	a.relaySrcN--
	now := t.clock.get()
	a.oLastCall, b.oLastCall = now, now
	a.oRelayPending--
	b.oRelayPending--
	// the call is over on the wire: wait for the relay's item tables, not for the counter the
	// sweep reads (a counter that stays up is the sweep oracle's business, not a harness anomaly)
	t.c19xSettle(a)
	t.c19xSettle(b)
	t.settleClosing(a)
	t.settleClosing(b)
	t.ev(2, int64(b.id), 4)
	t.obsStamps(b)
	t.ev(4, int64(b.id), 2, -1)
	t.obsState(b)
	t.ev(4, int64(a.id), 2, -1)
	t.obsState(a)
	t.ev(3, int64(a.id), 4)
	t.obsStamps(a)
	t.refreshDead(a)
	t.refreshDead(b)
	t.hist["ev:relay-finish"]++
}

// a closing connection whose last call just finished moves to Closed on the goroutine that
// removed the exchange, after the count has dropped: wait for that move before observing
func (t *c19TL) settleClosing(c *c19Conn) {
	if c.oActive || c.oPending != 0 || c.oRelayPending != 0 || c.pingFlight {
		return
	}
	dl := time.Now().Add(2 * time.Second)
	for t.state(c).State != 4 && time.Now().Before(dl) {
		time.Sleep(50 * time.Microsecond)
	}
}

func (t *c19TL) refreshDead(c *c19Conn) {
	if t.state(c).State == 4 {
		c.dead = true
	}
}

func (t *c19TL) markClosed(c *c19Conn) {
	c.oActive = false
	st := t.state(c)
	if st.State == 4 {
		c.dead = true
	}
}

func (t *c19TL) evClose(c *c19Conn) {
	c.conn.Close()
	c.oActive = false
	c.cleanLoop = false
	t.ev(5, int64(c.id))
	t.obsShort(c)
	st := t.state(c)
	if st.State == 1 {
		t.fail("Connection.Close left connection %d Active", c.id)
	}
	if c.oPending == 0 && c.oRelayPending == 0 && !c.pingFlight && st.State != 4 {
		t.fail("Connection.Close with nothing pending left connection %d in state %d", c.id, st.State)
	}
	t.markClosed(c)
	t.hist["ev:close"]++
}

func (t *c19TL) sendTick(tk *c19Ticker, done <-chan struct{}, timeout time.Duration) int {
	select {
	case tk.ch <- time.Time{}:
		return 0
	case <-done:
		return 1
	case <-time.After(timeout):
		return 2
	}
}

func (t *c19TL) evTick() {
	before := make([]int, len(t.conns))
	for i, c := range t.conns {
		before[i] = t.state(c).State
	}
	if t.idleTicker != nil {
		reads := t.clock.readCount()
		if t.sendTick(t.idleTicker, nil, 3*time.Second) != 0 {
			t.fail("the idle sweep poller did not take a tick within 3s")
			return
		}
		dl := time.Now().Add(3 * time.Second)
		for t.clock.readCount() == reads && time.Now().Before(dl) {
			time.Sleep(20 * time.Microsecond)
		}
		// barrier: a second tick is taken only when the first sweep has returned; that second
		// sweep reads an ancient clock and finds nothing idle
		t.clock.setBarrier(true)
		if t.sendTick(t.idleTicker, nil, 5*time.Second) != 0 {
			t.clock.setBarrier(false)
			t.fail("the idle sweep did not return within 5s")
			return
		}
		select {
		case <-t.clock.hit:
		case <-time.After(3 * time.Second):
			t.harnessProblem("barrier sweep did not read the clock")
		}
		t.clock.setBarrier(false)
	}
	t.ev(6)
	now := t.clock.get()
	var closed []int64
	for i, c := range t.conns {
		st := t.state(c)
		if before[i] == 1 && st.State != 1 {
			closed = append(closed, int64(c.id))
			t.settleClosed(c)
		}
	}
	t.obs = append(t.obs, int64(len(closed)))
	t.obs = append(t.obs, closed...)
	// oracle, from the statement
	sweepOn := t.idleInterval > 0
	for i, c := range t.conns {
		wasActive := before[i] == 1
		isClosed := false
		for _, x := range closed {
			if x == int64(c.id) {
				isClosed = true
			}
		}
		if !t.clockSane {
			if isClosed {
				t.markClosed(c)
				c.cleanLoop = false
			}
			continue
		}
		idle := now.Sub(c.oLastCall)
		want := sweepOn && wasActive && c.oActive && c.oPending == 0 && c.oRelayPending == 0 && idle >= time.Duration(t.maxIdle)
		if t.relayMode && sweepOn && wasActive && c.oActive && c.oPending > 0 && idle >= time.Duration(t.maxIdle) {
			// (engine_c19local.go) a relay connection that only a NON-relayed call keeps open at this sweep
			t.hist[fmt.Sprintf("l:tick:idle-relay-conn-kept-by-nonrelayed-call:in=%d,out=%d,relayed=%d", minInt(len(c.inCalls), 1), minInt(len(c.outCalls), 1), minInt(c.oRelayPending, 1))]++
		}
		if want && !isClosed {
			key := ""
			if c.pingFlight {
				key = "[c19:ping-in-flight-blocks-idle-close] "
			}
			t.fail("%ssweep at clock t0+%v left connection %d open: it is active, has no pending call or relayed call and its last call frame was %v ago (MaxIdleTime %v, ping in flight: %v)",
				key, now.Sub(time.Unix(0, t.t0)), c.id, idle, time.Duration(t.maxIdle), c.pingFlight)
		}
		if !want && isClosed {
			t.fail("sweep at clock t0+%v closed connection %d although it should not: enabled=%v pendingCalls=%d relayPending=%d idleFor=%v MaxIdleTime=%v%s",
				now.Sub(time.Unix(0, t.t0)), c.id, sweepOn, c.oPending, c.oRelayPending, idle, time.Duration(t.maxIdle), t.c19lDescribe(c))
		}
		if isClosed {
			t.markClosed(c)
			c.cleanLoop = false
		}
	}
	t.hist[fmt.Sprintf("ev:tick:closed=%d", len(closed))]++
}

// health tick: the loop takes it and pings
func (t *c19TL) evPingStart(c *c19Conn, wedge bool) {
	done := tchannel.VerifC19HealthDone(c.conn)
	nlog := t.sink.healthCount(c.connID)
	c.pingTotal0, c.pingLog0 = t.state(c).HealthTotal, nlog
	if wedge {
		// wedge the connection: the writer blocks inside Write with one more frame queued
		c.stall.mu.Lock()
		c.stall.stall = true
		c.stall.mu.Unlock()
		c.junkN++
		if !tchannel.VerifC19Inject(c.conn, 0xd1, 0x60000000+c.junkN, nil) {
			t.harnessProblem("inject filler 1 failed")
			return
		}
		select {
		case <-c.stall.entered:
		case <-time.After(3 * time.Second):
			t.harnessProblem("writer did not enter the stalled Write")
			return
		}
		t.ev(3, int64(c.id), 0xd1)
		t.obsStamps(c)
		c.junkN++
		if !tchannel.VerifC19Inject(c.conn, 0xd1, 0x60000000+c.junkN, nil) {
			t.harnessProblem("inject filler 2 failed")
			return
		}
	}
	switch t.sendTick(c.health, done, 5*time.Second) {
	case 1:
		t.harnessProblem("health goroutine of connection %d had already exited", c.id)
		return
	case 2:
		t.fail("[c19:health-ping-not-sent-self-deadlock] health check goroutine of connection %d takes no tick and has not exited (wedged)", c.id)
		c.dead = true
		return
	}
	if !wedge {
		f := t.expect(c, 0xd0, "health check ping request")
		if f == nil {
			return
		}
		c.pingID, c.pingFlight = f.ID, true
		t.ev(7, int64(c.id), 1)
		t.obsHealth(c)
		t.ev(3, int64(c.id), 0xd0)
		t.obsStamps(c)
		t.checkStillAsExpected(c, "a health check ping being sent")
		t.hist["ev:ping-start"]++
		return
	}
	// the ping cannot be queued: the connection error must be processed and the goroutine must exit
	c.cleanLoop = false
	select {
	case <-done:
	case <-time.After(4 * time.Second):
		st := t.state(c)
		t.ev(7, int64(c.id), 0)
		t.obsHealth(c)
		t.fail("[c19:health-ping-not-sent-self-deadlock] the health check's ping could not be queued (send buffer full, writer stalled) and 4s later the health goroutine has not exited; connection %d state %d, history %v", c.id, st.State, st.History)
		c.dead, c.oActive = true, false
		return
	}
	if n := t.sink.healthCount(c.connID); n > nlog {
		c.fails = t.sink.healthAt(c.connID, n-1).cf
	} else if t.cfg.quiet() && t.state(c).HealthTotal > c.pingTotal0 {
		c.fails++ // (no log line with this logger: the loop recorded a failed ping, own count)
	}
	t.ev(7, int64(c.id), 0)
	t.obsHealth(c)
	st := t.state(c)
	if st.State == 1 {
		t.fail("the health check's ping could not be queued on wedged connection %d, yet the connection is still Active", c.id)
	}
	c.oActive, c.dead = false, true
	t.hist["ev:ping-not-sent"]++
}

// reply kinds: 0 ping response, 1 error frame (code), 2 nothing (timeout), 3 a call response frame
func (t *c19TL) evPingEnd(c *c19Conn, kind int, code byte) {
	done := tchannel.VerifC19HealthDone(c.conn)
	total0, nlog := c.pingTotal0, c.pingLog0
	var enc []int64 // nil sys code net invalidState
	class := "fail"
	switch kind {
	case 0:
		writeRawFrame(c.sock, 0xd1, c.pingID, nil)
		enc = []int64{1, 0, 0, 0, 0}
		class = "ok"
		t.ev(2, int64(c.id), 0xd1)
	case 1:
		writeRawFrame(c.sock, 0xff, c.pingID, rawErrorPayload(code, make([]byte, 25), "verif ping error"))
		enc = []int64{0, 1, int64(code), 0, 0}
		if code == 2 {
			class = "stop"
		}
		c.oLastCall = t.clock.get() // an error frame is call activity
		t.ev(2, int64(c.id), 0xff)
	case 2:
		enc = []int64{0, 1, 1, 0, 0}
	case 3:
		for _, fr := range t.callResFrames(c.pingID) {
			c.sock.Write(fr)
		}
		enc = []int64{0, 0, 0, 0, 0}
		c.oLastCall = t.clock.get()
		t.ev(2, int64(c.id), 4)
	}
	// the loop records the result ...
	dl := time.Now().Add(3 * time.Second)
	for t.state(c).HealthTotal == total0 && time.Now().Before(dl) {
		time.Sleep(50 * time.Microsecond)
	}
	if t.state(c).HealthTotal == total0 {
		t.fail("health check of connection %d did not record the result of its ping within 3s", c.id)
		c.dead = true
		return
	}
	c.pingFlight = false
	// ... and then continues, stops, or closes
	switch class {
	case "ok":
		c.fails = 0
	case "stop":
		select {
		case <-done:
		case <-time.After(2 * time.Second):
			t.fail("health check of connection %d got a cancelled ping and did not stop", c.id)
		}
	case "fail":
		if t.cfg.quiet() {
			// the logger shows nothing: the count is the harness's own, the loop is waited for by
			// its done channel -- which it closes iff it closed the connection (or was stopped)
			c.fails++
			if c.fails >= t.effF {
				select {
				case <-done:
				case <-time.After(4 * time.Second):
					t.fail("health check of connection %d (logger configuration %v) had %d consecutive failures (FailuresToClose %d) and has neither closed the connection nor returned after 4s", c.id, t.cfg, c.fails, t.effF)
				}
			} else {
				// it must go back to waiting for its ticker; a loop that wrongly closes does so at
				// once (later events and the final state catch a slower one)
				dl := time.Now().Add(3 * time.Millisecond)
			quiet:
				for time.Now().Before(dl) {
					select {
					case <-done:
						break quiet
					default:
						time.Sleep(50 * time.Microsecond)
					}
				}
			}
			break
		}
		dl := time.Now().Add(2 * time.Second)
		for t.sink.healthCount(c.connID) == nlog && time.Now().Before(dl) {
			time.Sleep(50 * time.Microsecond)
		}
		if n := t.sink.healthCount(c.connID); n > nlog {
			hl := t.sink.healthAt(c.connID, n-1)
			c.fails = hl.cf
			if hl.ftc != t.effF {
				t.fail("health check reports failuresToClose=%d, options say %d", hl.ftc, t.effF)
			}
			if hl.cf >= hl.ftc {
				select {
				case <-done:
				case <-time.After(4 * time.Second):
					t.fail("health check of connection %d counted %d consecutive failures (FailuresToClose %d) and has neither closed the connection nor returned after 4s", c.id, hl.cf, hl.ftc)
				}
			}
		} else {
			t.fail("health check of connection %d did not report its failed ping", c.id)
		}
	}
	if kind != 2 {
		t.obsStamps(c)
	}
	c.pingRes = append(c.pingRes, enc)
	t.ev(append([]int64{8, int64(c.id)}, enc...)...)
	t.obsHealth(c)
	st := t.state(c)
	// oracle, from the statement
	wasActive := c.oActive
	switch class {
	case "ok":
		c.oConsec = 0
	case "stop":
		c.oStopped = true
	case "fail":
		if !c.oStopped {
			c.oConsec++
		}
	}
	if t.effF >= 1 {
		wantClose := class == "fail" && !c.oStopped && int64(c.oConsec) == t.effF
		if wasActive && wantClose && st.State == 1 {
			t.fail("connection %d had %d consecutive health check failures (FailuresToClose %d) and is still Active (channel configuration %v)", c.id, c.oConsec, t.effF, t.cfg)
		}
		if wasActive && !wantClose && st.State != 1 {
			t.fail("connection %d was closed by its health check after %d consecutive failures (%s result), FailuresToClose is %d (channel configuration %v: logger %s)", c.id, c.oConsec, class, t.effF, t.cfg, c19LoggerName(t.cfg.logger))
		}
		if class == "fail" && c.fails != int64(c.oConsec) && !c.oStopped {
			t.fail("health check of connection %d reports %d consecutive failures, the results so far give %d", c.id, c.fails, c.oConsec)
		}
	}
	if wasActive && st.State != 1 {
		if c.closedAt < 0 {
			c.closedAt = len(c.pingRes) - 1
		}
		t.hist[fmt.Sprintf("health-closed-after=%d", c.oConsec)]++
		t.markClosed(c)
	}
	if !wasActive && st.State == 4 {
		c.dead = true
	}
	t.hist["ev:ping-end:"+class]++
}

func (t *c19TL) finalObs(c *c19Conn) {
	t.settleClosed(c)
	st := t.state(c)
	rel := int64(-1)
	if st.HasRelay {
		rel = int64(st.RelayPending)
	}
	t.obs = append(t.obs, int64(c.id), int64(st.State), st.LastRead, st.LastWrite, int64(st.Inbound), int64(st.OutboundCalls),
		int64(st.OutboundPings), rel, b2i(tchannel.VerifC19Tracked(t.ch, c.conn)), t.hstatus(c, st), c.fails, int64(st.HealthTotal), int64(len(st.History)))
	for _, b := range st.History {
		t.obs = append(t.obs, b2i(b))
	}
	// statement-level checks on the final state
	if c.oActive && st.State != 1 {
		t.fail("connection %d ended in state %d although nothing should have closed it", c.id, st.State)
	}
	if st.LastRead > st.LastWrite && t.clockSane {
		if want := c.oLastCall.UnixNano(); st.LastRead != want {
			t.fail("connection %d: later activity stamp %d differs from the time of its last call frame %d", c.id, st.LastRead, want)
		}
	} else if t.clockSane {
		if want := c.oLastCall.UnixNano(); st.LastWrite != want {
			t.fail("connection %d: later activity stamp %d differs from the time of its last call frame %d", c.id, st.LastWrite, want)
		}
	}
}

func (t *c19TL) cleanup() {
	for _, c := range t.conns {
		for _, id := range c.inCalls {
			close(t.block.releaseCh(fmt.Sprint(id)))
		}
	}
	for _, s := range t.stallConns {
		close(s.release)
	}
	for _, c := range t.conns {
		if c.sock != nil {
			c.sock.Close()
		}
	}
	for _, ln := range t.listeners {
		ln.Close()
	}
	if t.ch != nil {
		t.ch.Close()
	}
}

func c19RunTimeline(rng *rand.Rand, idx int, tier string, o *Out) {
	t := &c19TL{rng: rng, clockSane: true, hist: map[string]int{}}
	// ---- options
	t.idleInterval = int64(pick(rng, 0, 30e9, 30e9, 30e9, 1, 7e9, -5))
	t.maxIdle = []int64{180e9, 180e9, 180e9, 1, 3600e9, 5e9, 1000}[rng.Intn(7)]
	if rng.Intn(40) == 0 {
		t.maxIdle = math.MaxInt64
	}
	if t.idleInterval <= 0 && rng.Intn(3) == 0 {
		t.maxIdle = int64(pick(rng, 0, -1))
	}
	if rng.Intn(60) == 0 {
		t.idleInterval, t.maxIdle = 30e9, int64(pick(rng, 0, -7)) // NewChannel must refuse
	}
	t.hInterval = int64(pick(rng, 0, 1e9, 1e9, 1e9, -1))
	t.hTimeout = int64(pick(rng, 0, 2e9, 2e9))
	t.hFail = int64(pick(rng, 0, 1, 2, 2, 3, 3, 5))
	if rng.Intn(40) == 0 {
		t.hFail = -1
	}
	t.timeoutMode = t.hInterval > 0 && rng.Intn(10) == 0
	if t.timeoutMode {
		t.hTimeout = 25e6
	}
	t.effF = t.hFail
	if t.effF == 0 {
		t.effF = 5
	}
	t.relayMode = rng.Intn(4) == 0
	wedgePlanned := t.hInterval > 0 && rng.Intn(6) == 0
	t.t0 = []int64{1700000000e9, 1700000000e9, 0, 1000, -5e9, math.MaxInt64 - 100e9}[rng.Intn(6)]

	t.clock = &c19Clock{now: time.Unix(0, t.t0), hit: make(chan struct{}, 1)}
	t.tickers = &c19Tickers{}
	t.sink = &c19Sink{health: map[uint32][]c19HealthLog{}}
	t.block = &c19Block{arrived: make(chan struct{}, 16), rel: map[string]chan struct{}{}}
	copts := tchannel.ConnectionOptions{HealthChecks: tchannel.HealthCheckOptions{
		Interval: time.Duration(t.hInterval), Timeout: time.Duration(t.hTimeout), FailuresToClose: int(t.hFail)}}
	if wedgePlanned {
		copts.SendBufferSize = 1
	}
	t.cfg = c19NextCfg()
	opts := &tchannel.ChannelOptions{
		TimeNow: t.clock.Now, TimeTicker: t.tickers.New,
		IdleCheckInterval: time.Duration(t.idleInterval), MaxIdleTime: time.Duration(t.maxIdle),
		DefaultConnectionOptions: copts,
		Dialer: func(ctx context.Context, network, hp string) (net.Conn, error) {
			d := net.Dialer{}
			c, err := d.DialContext(ctx, network, hp)
			if err != nil {
				return nil, err
			}
			s := &c19StallConn{Conn: c, entered: make(chan struct{}, 1), release: make(chan struct{})}
			t.stallConns = append(t.stallConns, s)
			return s, nil
		},
	}
	if t.relayMode {
		opts.RelayHost = &c19RelayHost{}
		// calls to the channel's own service are handled by the relay channel itself (engine_c19local.go)
		opts.RelayLocalHandlers = c19lLocalHandlers
	}
	t.cfg.apply(opts, t.sink)
	in := []int64{t.idleInterval, t.maxIdle, t.hInterval, t.hTimeout, t.hFail, t.t0}
	id := fmt.Sprintf("t%d-%v", idx, t.cfg)
	o.Hist("tl:cfg=" + t.cfg.String())
	ch, err := tchannel.NewChannel("verif-c19", opts)
	if err != nil {
		verdict := ""
		if !(t.idleInterval > 0 && t.maxIdle <= 0) {
			verdict = "NewChannel refused options the documentation allows: " + err.Error()
		}
		o.Hist("tl:newchannel-refused")
		o.Case("tl", id, append(in, 0), []int64{-2}, true, verdict)
		return
	}
	if t.idleInterval > 0 && t.maxIdle <= 0 {
		ch.Close()
		o.Case("tl", id, append(in, 0), []int64{0}, true, "NewChannel accepted IdleCheckInterval > 0 with MaxIdleTime <= 0")
		return
	}
	t.ch = ch
	defer t.cleanup()
	ch.Register(raw.Wrap(t.block), "block")
	if err := ch.ListenAndServe("127.0.0.1:0"); err != nil {
		o.Oracle("tl", id, false, "", "")
		return
	}
	if t.idleInterval > 0 {
		t.idleTicker = t.tickers.waitNew(0, 2*time.Second)
		if t.idleTicker == nil {
			t.fail("idle checking is enabled (IdleCheckInterval=%d) but no sweep poller was started", t.idleInterval)
		} else if t.idleTicker.d != time.Duration(t.idleInterval) {
			t.fail("sweep poller ticks every %v, IdleCheckInterval is %v", t.idleTicker.d, time.Duration(t.idleInterval))
		}
	} else if t.tickers.waitNew(0, 3*time.Millisecond) != nil {
		t.fail("idle checking is disabled (IdleCheckInterval=%d) but a poller was started", t.idleInterval)
	}

	// ---- connections and events
	nconn := 1 + rng.Intn(4)
	if t.relayMode && nconn < 2 {
		nconn = 2
	}
	for i := 0; i < nconn && t.anomaly == ""; i++ {
		outbound := rng.Intn(2) == 0
		if t.relayMode {
			outbound = i%2 == 1
		}
		if wedgePlanned && i == 0 {
			outbound = true
		}
		if t.relayMode && wedgePlanned && i == 0 {
			outbound = true
		}
		t.evNewConn(outbound)
		if rng.Intn(3) == 0 {
			t.evAdvance(int64(rng.Intn(50)) * 1e9)
		}
	}
	nev := 8 + rng.Intn(30)
	if tier == "thorough" {
		nev = 10 + rng.Intn(80)
	}
	readTypes := []byte{0x04, 0x13, 0x14, 0xff, 0xd0, 0xd1, 0xc0, 0xc1, 0x01, 0x02, 0x77, 0x00, 0x05}
	writeTypes := []byte{0x03, 0x04, 0x13, 0x14, 0xff, 0xd0, 0xd1, 0xc0, 0x01, 0x02, 0x77, 0x00}
	wedged := false
	for k := 0; k < nev && t.anomaly == "" && t.verdict == ""; k++ {
		var live []*c19Conn
		for _, c := range t.conns {
			if !c.dead {
				live = append(live, c)
			}
		}
		if len(live) == 0 {
			break
		}
		c := live[rng.Intn(len(live))]
		act := t.state(c).State == 1
		r := rng.Intn(100)
		if t.hInterval > 0 && c.health != nil && !t.state(c).HealthDone && rng.Intn(4) == 0 {
			r = 99
		}
		switch {
		case r < 18: // advance, often to just below / at / above the idle threshold of a connection
			var dt int64
			switch rng.Intn(6) {
			case 0:
				dt = int64(rng.Intn(3))
			case 1:
				dt = int64(rng.Intn(400)) * 1e9
			default:
				need := int64(c.oLastCall.Add(time.Duration(t.maxIdle)).Sub(t.clock.get()))
				if t.maxIdle == math.MaxInt64 || need <= 0 || need > 4000e9 {
					need = int64(rng.Intn(200)) * 1e9
				}
				dt = need + int64(pick(rng, -1, 0, 0, 1, 1e9))
				if dt < 0 {
					dt = 0
				}
			}
			if rng.Intn(80) == 0 {
				dt = -int64(rng.Intn(100)) * 1e9 // clock stepping backwards (outside the statement)
			}
			t.evAdvance(dt)
		case r < 34:
			t.evTick()
		case r < 46:
			// (the sync ping needs an Active connection: a ping on a closing one is a protocol error)
			if act {
				t.evRead(c, readTypes[rng.Intn(len(readTypes))])
			}
		case r < 56:
			if !wedged {
				t.evWrite(c, writeTypes[rng.Intn(len(writeTypes))])
			}
		case r < 66: // calls
			if t.relayMode && act && t.c19lRandomCall(c) {
				// a call of the relay channel that is not relayed: handled locally (RelayLocalHandlers)
				// or originated by the relay channel itself -- pending in the exchange sets only
			} else if t.relayMode {
				var srcs, dsts []*c19Conn
				for _, x := range live {
					if t.state(x).State != 1 {
						continue
					}
					if x.outbound {
						dsts = append(dsts, x)
					} else {
						srcs = append(srcs, x)
					}
				}
				if len(srcs) > 0 && len(dsts) > 0 {
					t.evRelayStart(srcs[rng.Intn(len(srcs))], dsts[rng.Intn(len(dsts))])
				}
			} else if act {
				if c.outbound && rng.Intn(2) == 0 && t.t0 < 2000000000e9 {
					// (beginCall computes the TTL as real deadline - stub clock)
					t.evOutCallStart(c)
				} else {
					t.evInCallStart(c)
				}
			}
		case r < 76: // finish a call
			switch {
			case len(c.relayOut) > 0:
				t.evRelayFinish(c)
			case len(c.inCalls) > 0:
				t.evInCallFinish(c)
			case len(c.outCalls) > 0:
				t.evOutCallFinish(c)
			}
		case r < 79:
			if act {
				t.evClose(c)
			}
		default: // health
			if c.health == nil || t.state(c).HealthDone {
				continue
			}
			if c.pingFlight {
				kind, code := 0, byte(0)
				switch x := rng.Intn(20); {
				case t.timeoutMode:
					kind = 2
				case t.relayMode:
					// a relaying connection hands error / call frames to the relayer, never to
					// the ping's exchange: only a ping response (or silence) ends a ping
					kind = 0
				case x < 8:
					kind = 0
				case x < 17:
					kind, code = 1, byte(pick(rng, 1, 3, 4, 5, 6, 7, 0x20))
				case x < 18:
					kind, code = 1, 2 // cancelled: the health check stops
				default:
					kind = 3
				}
				t.evPingEnd(c, kind, code)
			} else if wedgePlanned && !wedged && c.id == 0 && c.stall != nil && c.oPending == 0 && c.oRelayPending == 0 && rng.Intn(3) == 0 {
				wedged = true
				t.evPingStart(c, true)
			} else {
				t.evPingStart(c, false)
				if t.timeoutMode && c.pingFlight && t.anomaly == "" && t.verdict == "" {
					// with a 25 ms Timeout the ping ends by itself: nothing is answered and
					// its end is the next event
					t.evPingEnd(c, 2, 0)
				}
			}
		}
	}
	// pings still in flight get an answer so that every loop is at rest
	for _, c := range t.conns {
		if c.pingFlight && !c.dead && t.anomaly == "" && t.verdict == "" {
			if t.timeoutMode {
				t.evPingEnd(c, 2, 0)
			} else {
				t.evPingEnd(c, 0, 0)
			}
		}
	}
	if rng.Intn(2) == 0 && t.anomaly == "" && t.verdict == "" {
		t.evTick()
	}
	for _, c := range t.conns {
		t.finalObs(c)
	}
	// one poller iff idle checking is enabled, one health ticker per connection iff health checks are
	wantTickers := 0
	if t.idleInterval > 0 {
		wantTickers++
	}
	if t.hInterval > 0 {
		wantTickers += len(t.conns)
	}
	if got := t.tickers.count(); got != wantTickers && t.anomaly == "" {
		t.fail("%d tickers were started, the options call for %d (IdleCheckInterval=%d, health Interval=%d, %d connections)", got, wantTickers, t.idleInterval, t.hInterval, len(t.conns))
	}
	full := append(append([]int64{}, in...), int64(t.nev))
	full = append(full, t.events...)
	if t.anomaly != "" {
		// the harness itself lost track (raw socket error etc.): not a judgement on the library
		o.Hist("tl:harness-anomaly")
		o.Oracle("tl-anomaly", id, false, "", "")
		fmt.Fprintf(&anomalies, "%s: %s (options %v, %d events)\n", id, t.anomaly, in, t.nev)
		return
	}
	keys := make([]string, 0, len(t.hist))
	for k := range t.hist {
		keys = append(keys, k)
	}
	sort.Strings(keys)
	for _, k := range keys {
		for i := 0; i < t.hist[k]; i++ {
			o.Hist(k)
		}
	}
	o.Hist(fmt.Sprintf("tl:conns=%d", len(t.conns)))
	o.Hist(fmt.Sprintf("tl:relay=%v", t.relayMode))
	o.Hist(fmt.Sprintf("tl:idle-enabled=%v", t.idleInterval > 0))
	o.Hist(fmt.Sprintf("tl:health-F=%d", func() int64 {
		if t.hInterval <= 0 {
			return -100
		}
		return t.effF
	}()))
	if idx < 3 {
		o.Sample(map[string]interface{}{"sub": "tl", "options": in, "events": t.nev, "conns": len(t.conns), "relay": t.relayMode, "input_head": full[:minInt(len(full), 60)]})
	}
	o.Case("tl", id, full, t.obs, t.nev > len(t.conns)+2, t.verdict)

	// the loop model against each connection's own sequence of ping results
	if t.verdict == "" {
		for _, c := range t.conns {
			if c.health == nil || !c.cleanLoop || len(c.pingRes) == 0 {
				continue
			}
			st := t.state(c)
			hin := []int64{t.effF, int64(len(c.pingRes))}
			for _, e := range c.pingRes {
				hin = append(hin, e...)
			}
			hobs := []int64{int64(c.closedAt), c.fails, b2i(!st.HealthDone), int64(st.HealthTotal), int64(len(st.History))}
			for _, b := range st.History {
				hobs = append(hobs, b2i(b))
			}
			o.Hist("hloop:results=" + fmt.Sprint(minInt(len(c.pingRes), 10)))
			o.Case("hloop", fmt.Sprintf("%s-c%d", id, c.id), hin, hobs, len(c.pingRes) > 1, "")
		}
	}
}

var anomalies = errBuf{}

type errBuf struct {
	mu sync.Mutex
	b  []byte
}

func (e *errBuf) Write(p []byte) (int, error) {
	e.mu.Lock()
	e.b = append(e.b, p...)
	e.mu.Unlock()
	return len(p), nil
}

func minInt(a, b int) int {
	if a < b {
		return a
	}
	return b
}

// ---------------------------------------------------------------- small subs

func c19Ring(rng *rand.Rand, o *Out) {
	lens := []int{0, 1, 2, 3, 100, 254, 255, 256, 257, 258, 300, 511, 512, 513, 700, 1024, 1025}
	for i, n := range lens {
		for rep := 0; rep < 2; rep++ {
			bs := make([]bool, n)
			in := []int64{int64(n)}
			for j := range bs {
				bs[j] = rng.Intn(3) != 0
				in = append(in, b2i(bs[j]))
			}
			total, ins, out, panicked := tchannel.VerifC19Ring(bs)
			obs := []int64{int64(total), int64(ins), b2i(panicked), int64(len(out))}
			for _, b := range out {
				obs = append(obs, b2i(b))
			}
			verdict := ""
			want := bs
			if len(want) > 256 {
				want = want[len(want)-256:]
			}
			if panicked {
				verdict = "healthHistory panicked"
			} else if len(out) != len(want) {
				verdict = fmt.Sprintf("asBools returns %d results after %d health checks, want the last %d", len(out), n, len(want))
			} else {
				for j := range want {
					if want[j] != out[j] {
						verdict = fmt.Sprintf("asBools[%d] differs from result %d of %d", j, n-len(want)+j, n)
						break
					}
				}
			}
			o.Hist(fmt.Sprintf("ring:len=%d", n))
			o.Case("ring", fmt.Sprintf("g%d_%d", i, rep), in, obs, n > 0, verdict)
		}
	}
}

func c19Hopts(rng *rand.Rand, o *Out) {
	vals := []int64{0, 1, -1, 5, 1e9, 2e9, 25e6, math.MaxInt64, math.MinInt64}
	k := 0
	for _, iv := range []int64{0, 1, -1, 1e9, math.MaxInt64, math.MinInt64} {
		for _, to := range vals {
			for _, f := range []int64{0, 1, -1, 2, 5, 6, 1000, math.MaxInt32} {
				if rng.Intn(3) != 0 {
					continue
				}
				en, out := tchannel.VerifC19HealthDefaults(tchannel.HealthCheckOptions{Interval: time.Duration(iv), Timeout: time.Duration(to), FailuresToClose: int(f)})
				verdict := ""
				if en != (iv > 0) {
					verdict = fmt.Sprintf("health checks enabled=%v for Interval=%d", en, iv)
				}
				wantTo, wantF := to, f
				if to == 0 {
					wantTo = 1e9
				}
				if f == 0 {
					wantF = 5
				}
				if int64(out.Timeout) != wantTo || int64(out.FailuresToClose) != wantF {
					verdict = fmt.Sprintf("defaults: Timeout %d -> %d (want %d), FailuresToClose %d -> %d (want %d)", to, out.Timeout, wantTo, f, out.FailuresToClose, wantF)
				}
				o.Hist("hopts")
				o.Case("hopts", fmt.Sprintf("h%d", k), []int64{iv, to, f}, []int64{b2i(en), int64(out.Timeout), int64(out.FailuresToClose)}, true, verdict)
				k++
			}
		}
	}
}

func c19IdleOpts(rng *rand.Rand, o *Out) {
	k := 0
	for _, iv := range []int64{0, 1, -1, 30e9, math.MaxInt64, math.MinInt64} {
		for _, mi := range []int64{0, 1, -1, 180e9, math.MaxInt64, math.MinInt64} {
			opt := &tchannel.ChannelOptions{IdleCheckInterval: time.Duration(iv), MaxIdleTime: time.Duration(mi)}
			verr := tchannel.VerifC19ValidateIdle(opt)
			tk := &c19Tickers{}
			opt.TimeTicker = tk.New
			opt.Logger = tchannel.NullLogger
			ch, err := tchannel.NewChannel("verif-c19-opts", opt)
			started := false
			if err == nil {
				started = tk.waitNew(0, 300*time.Millisecond) != nil
				if iv <= 0 {
					started = tk.waitNew(0, 2*time.Millisecond) != nil
				}
				ch.Close()
			}
			verdict := ""
			wantErr := iv > 0 && mi <= 0
			if (err != nil) != wantErr || (verr != nil) != wantErr {
				verdict = fmt.Sprintf("IdleCheckInterval=%d MaxIdleTime=%d: NewChannel error=%v validate=%v, want refusal=%v", iv, mi, err, verr, wantErr)
			} else if err == nil && started != (iv > 0) {
				verdict = fmt.Sprintf("IdleCheckInterval=%d: sweep poller started=%v", iv, started)
			}
			o.Hist("idleopts")
			o.Case("idleopts", fmt.Sprintf("i%d", k), []int64{iv, mi}, []int64{b2i(err == nil), b2i(started)}, true, verdict)
			k++
		}
	}
}

func engineIdleHealth(rng *rand.Rand, n int, tier string, o *Out) {
	c19Ring(rng, o)
	c19Hopts(rng, o)
	c19IdleOpts(rng, o)
	for i := 0; i < n; i++ {
		c19RunTimeline(rng, i, tier, o)
	}
	// relay in the middle, relayed calls that end abnormally, then the sweep (engine_idlerelayend.go):
	// two directed timelines per way of ending, then random ones
	for i := 0; i < 2*len(c19xKinds)+n/8; i++ {
		c19xRunTimeline(rng, i, tier, o)
	}
	if len(anomalies.b) > 0 {
		lines := 0
		for _, ch := range anomalies.b {
			if ch == '\n' {
				lines++
			}
		}
		fmt.Printf("harness anomalies in %d timelines (not judged):\n%s", lines, anomalies.b[:minInt(len(anomalies.b), 2000)])
		if lines*10 > n+10 {
			// too many lost timelines means the engine no longer drives the implementation
			o.Oracle("tl-anomaly", "too-many", false, "", fmt.Sprintf("%d of %d timelines could not be driven: %s", lines, n, anomalies.b[:minInt(len(anomalies.b), 300)]))
		}
	}
}
