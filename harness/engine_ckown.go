package main

// ckown (C02): ownership of POOLED CHECKSUM OBJECTS on the real library.
//
// The library runs with the tracking checksum pools of harness/overlay/zz_verif_c02.go: every
// Acquire (ChecksumType.New), Add, Sum and Release of a pooled checksum is recorded with the
// library function performing it.  The recorded trace of a case is
//   (a) judged here (use after release, double release, operation by a function that does
//       not belong to the object's life cycle), and
//   (b) handed as the case input to the extracted Coq checker (Model/CkOwn.run_ckown, the
//       discipline [ck_run] that Proofs/CkOwnP.ck_discipline proves for the life-cycle model);
//       the two verdicts are the correspondence line.
// Directed scenarios (the relay re-fragments a call req after an arg2 append; crc32 / crc32c):
//   slow     the destination connection has a one-frame send queue and a stalled writer, so a
//            NON-FINAL re-emitted frame is refused (relay-dest-conn-slow) and the fragmenting
//            writer goes on producing (and dropping) the remaining fragments; meanwhile a
//            second message of the same checksum type is written in the same process.  Every
//            frame that reaches a destination must carry the independently computed CRC.
//   overlap  a callReqContinue of the mutated call is held right after the relay looked its
//            item up (schedule point relay.nonCallReq.afterGet) while the destination's
//            response finishes the call; then the continuation goes on.
//   timeout  the same, but the call's timer fires instead.
// Rounds alternate between quarantine mode (a released object is never handed out again:
// every stale use is seen, whatever the interleaving) and natural mode (the released object
// goes back to the pool: a stale use corrupts the running CRC of its next owner, visible on
// the wire).

import (
	"bytes"
	"encoding/binary"
	"fmt"
	"math/rand"
	"net"
	"runtime"
	"sort"
	"strings"
	"sync"
	"sync/atomic"
	"time"

	tchannel "github.com/uber/tchannel-go"
	"github.com/uber/tchannel-go/relay"
	"golang.org/x/net/context"
)

func init() { engines["ckown"] = engineCkOwn }

// ---------------------------------------------------------------- trace judge (Go side)

// c02Judge carries the holding state across the cases of one engine run.
type c02Judge struct {
	held map[int64]int // object -> kind of its life cycle
	acq  map[int64]string
}

func newC02Judge() *c02Judge { return &c02Judge{held: map[int64]int{}, acq: map[int64]string{}} }

func c02KindOfAcquirer(fn string) int {
	switch fn {
	case "Connection.beginCall":
		return 0
	case "Connection.handleCallReq":
		return 1
	case "fragmentingReader.recvAndParseNextFragment":
		return 2
	case "Relayer.handleCallReq":
		return 3
	}
	return -1
}

func c02Compat(kind, op int, fn string) bool {
	switch kind {
	case 0, 1:
		return (op == 1 && fn == "writableChunk.writeAsFits") || ((op == 2 || op == 3) && fn == "writableFragment.finish")
	case 2:
		return ((op == 1 || op == 2) && fn == "fragmentingReader.recvAndParseNextFragment") || (op == 3 && fn == "fragmentingReader.doneReading")
	case 3:
		switch op {
		case 1:
			return fn == "writableChunk.writeAsFits" || fn == "Relayer.updateMutatedCallReqContinueChecksum" || fn == "relayFragmentSender.newFragment"
		case 2:
			return fn == "writableFragment.finish" || fn == "Relayer.updateMutatedCallReqContinueChecksum"
		case 3:
			return fn == "Relayer.finishRelayItem"
		}
	}
	return false
}

var c02CodeText = map[int]string{
	1: "a pooled checksum is acquired by a function that starts no life cycle of the model",
	2: "the pool handed out a checksum object that is still held",
	3: "a checksum object is used (Add/Sum) while nobody holds it: use after release",
	5: "a checksum object is released while nobody holds it: second release",
	7: "a checksum object is operated on by a function that does not belong to its life cycle",
}

// judge runs the discipline over the events; it returns the model input, the observable
// ([1; n] or [0; index; code]) and a message for the first offending event.
func (j *c02Judge) judge(evs []tchannel.VerifCkEvent) (in, obs []int64, msg string) {
	names := []string{}
	idx := map[string]int{}
	nameOf := func(s string) int64 {
		if i, ok := idx[s]; ok {
			return int64(i)
		}
		idx[s] = len(names)
		names = append(names, s)
		return int64(len(names) - 1)
	}
	// initial holding state, objects in increasing order
	var objs []int64
	for x := range j.held {
		objs = append(objs, x)
	}
	sort.Slice(objs, func(a, b int) bool { return objs[a] < objs[b] })
	var heldEnc []int64
	for _, x := range objs {
		heldEnc = append(heldEnc, x, nameOf(j.acq[x]))
	}
	var evEnc []int64
	for _, e := range evs {
		evEnc = append(evEnc, nameOf(e.Fn), int64(e.Op), e.Obj)
	}
	in = []int64{1, int64(len(names))}
	for _, s := range names {
		in = putBytes(in, []byte(s))
	}
	in = append(in, int64(len(objs)))
	in = append(in, heldEnc...)
	in = append(in, int64(len(evs)))
	in = append(in, evEnc...)

	for i, e := range evs {
		code := 0
		kind, isHeld := j.held[e.Obj]
		switch {
		case e.Op == 0:
			k := c02KindOfAcquirer(e.Fn)
			if k < 0 {
				code = 1
			} else if isHeld {
				code = 2
			} else {
				j.held[e.Obj], j.acq[e.Obj] = k, e.Fn
			}
		case !isHeld && e.Op == 3:
			code = 5
		case !isHeld:
			code = 3
		case !c02Compat(kind, e.Op, e.Fn):
			code = 7
		case e.Op == 3:
			delete(j.held, e.Obj)
			delete(j.acq, e.Obj)
		}
		if code != 0 {
			msg = fmt.Sprintf("event %d: %s: %s of checksum object #%d (type %d) in %s [%s]", i, c02CodeText[code],
				[]string{"New", "Add", "Sum", "Release"}[e.Op], e.Obj, e.Type, e.Fn, e.Stack)
			if e.Bad != "" {
				msg += "; tracker: " + e.Bad
			}
			later := 0
			for _, e2 := range evs[i+1:] {
				if e2.Obj == e.Obj && (e2.Op == 1 || e2.Op == 2) {
					later++
				}
			}
			if later > 0 && e.Op == 3 {
				msg += fmt.Sprintf("; %d Add/Sum on the object follow this Release", later)
			}
			// after a violation the holding state is no longer meaningful for this object
			delete(j.held, e.Obj)
			delete(j.acq, e.Obj)
			return in, []int64{0, int64(i), int64(code)}, msg
		}
		if e.Bad != "" && msg == "" {
			// natural mode: the tracker saw a released object being used although the object was
			// acquired again in between is impossible here; keep the tracker's word as well
			msg = fmt.Sprintf("event %d: checksum object #%d %s (in %s [%s])", i, e.Obj, e.Bad, e.Fn, e.Stack)
		}
	}
	return in, []int64{1, int64(len(evs))}, msg
}

// c02EmitTrace drains the tracker and records the trace as a case of sub "ckown".
func c02EmitTrace(o *Out, j *c02Judge, id string, nontrivial bool, prefix string) string {
	evs := tchannel.VerifCkDrain()
	in, obs, msg := j.judge(evs)
	verdict := ""
	if msg != "" {
		verdict = prefix + msg
	}
	o.Case("ckown", id, in, obs, nontrivial && len(evs) > 0, verdict)
	return verdict
}

// ---------------------------------------------------------------- independent CRC of received frames

// c02CheckFrames: frames of ONE message in arrival order (call req / continuation); every
// frame's checksum field must be the CRC (by its type byte) of all argument bytes so far.
func c02CheckFrames(frames []*rawFrame) string {
	var cs *rawCsum
	for i, f := range frames {
		if f.Type != 0x03 && f.Type != 0x13 && f.Type != 0x04 && f.Type != 0x14 {
			continue
		}
		rc, err := parseRawCall(f.Type, f.Payload)
		if err != nil {
			return fmt.Sprintf("frame %d/%d (type %#x, %d bytes) does not parse: %v", i+1, len(frames), f.Type, len(f.Payload), err)
		}
		if cs == nil {
			cs = &rawCsum{typ: rc.CsumType}
		} else if cs.typ != rc.CsumType {
			return fmt.Sprintf("frame %d/%d changes the checksum type from %d to %d", i+1, len(frames), cs.typ, rc.CsumType)
		}
		for _, ch := range rc.Chunks {
			cs.add(ch)
		}
		if !bytes.Equal(cs.bytes(), rc.Csum) {
			return fmt.Sprintf("frame %d/%d (type %#x, checksum type %d) carries checksum % x, the independently computed CRC of all argument bytes up to it is % x",
				i+1, len(frames), f.Type, rc.CsumType, rc.Csum, cs.bytes())
		}
	}
	return ""
}

// ---------------------------------------------------------------- raw destination

type c02Dest struct {
	ln     net.Listener
	mu     sync.Mutex
	conns  []net.Conn
	frames map[uint32][]*rawFrame // by message id, arrival order
	order  []uint32
	// respond: answer every completed call req with a call res
	respond atomic.Bool
	got     chan uint32
	wmu     sync.Mutex
	connOf  map[uint32]net.Conn
}

func newC02Dest() *c02Dest {
	ln, err := net.Listen("tcp", "127.0.0.1:0")
	if err != nil {
		panic(err)
	}
	d := &c02Dest{ln: ln, frames: map[uint32][]*rawFrame{}, got: make(chan uint32, 1024), connOf: map[uint32]net.Conn{}}
	d.respond.Store(true)
	go func() {
		for {
			c, err := ln.Accept()
			if err != nil {
				return
			}
			d.mu.Lock()
			d.conns = append(d.conns, c)
			d.mu.Unlock()
			go d.serve(c)
		}
	}()
	return d
}

func (d *c02Dest) hostPort() string { return d.ln.Addr().String() }

func (d *c02Dest) serve(c net.Conn) {
	if _, _, err := rawServerHandshake(c); err != nil {
		c.Close()
		return
	}
	wmu := &d.wmu
	for {
		f, err := readRawFrame(c, 30*time.Second)
		if err != nil {
			return
		}
		if f.Type == 0xd0 { // ping
			wmu.Lock()
			writeRawFrame(c, 0xd1, f.ID, nil)
			wmu.Unlock()
			continue
		}
		if f.Type != 0x03 && f.Type != 0x13 {
			continue
		}
		d.mu.Lock()
		if _, ok := d.frames[f.ID]; !ok {
			d.order = append(d.order, f.ID)
		}
		d.frames[f.ID] = append(d.frames[f.ID], f)
		d.connOf[f.ID] = c
		d.mu.Unlock()
		select {
		case d.got <- f.ID:
		default:
		}
		last := len(f.Payload) > 0 && f.Payload[0]&1 == 0
		if last && d.respond.Load() {
			fr := buildRawCallFrames(false, f.ID, rawCallResHeader(0, make([]byte, 25), [][2]string{{"as", "thrift"}}), 1,
				[3][]byte{{}, {0, 0}, []byte("ok")}, 65519)
			wmu.Lock()
			for _, b := range fr {
				c.SetWriteDeadline(time.Now().Add(2 * time.Second))
				c.Write(b)
			}
			wmu.Unlock()
		}
	}
}

// sendError answers message id with an error frame (busy).
func (d *c02Dest) sendError(id uint32) bool {
	d.mu.Lock()
	c := d.connOf[id]
	d.mu.Unlock()
	if c == nil {
		return false
	}
	d.wmu.Lock()
	defer d.wmu.Unlock()
	return writeRawFrame(c, 0xff, id, rawErrorPayload(0x03, make([]byte, 25), "busy")) == nil
}

// bigID: the id under which a call req with method "big" arrived.
func (d *c02Dest) bigID(timeout time.Duration) (uint32, bool) {
	deadline := time.Now().Add(timeout)
	for {
		for k, fs := range d.snapshot() {
			if len(fs) > 0 && fs[0].Type == 0x03 {
				if rc, err := parseRawCall(0x03, fs[0].Payload); err == nil && len(rc.Chunks) > 0 && string(rc.Chunks[0]) == "big" {
					return k, true
				}
			}
		}
		if time.Now().After(deadline) {
			return 0, false
		}
		time.Sleep(2 * time.Millisecond)
	}
}

func (d *c02Dest) snapshot() map[uint32][]*rawFrame {
	d.mu.Lock()
	defer d.mu.Unlock()
	m := map[uint32][]*rawFrame{}
	for k, v := range d.frames {
		m[k] = append([]*rawFrame(nil), v...)
	}
	return m
}

func (d *c02Dest) waitFrames(id uint32, n int, timeout time.Duration) int {
	deadline := time.Now().Add(timeout)
	for {
		d.mu.Lock()
		k := len(d.frames[id])
		d.mu.Unlock()
		if k >= n || time.Now().After(deadline) {
			return k
		}
		time.Sleep(2 * time.Millisecond)
	}
}

func (d *c02Dest) anyID(timeout time.Duration, not map[uint32]bool) (uint32, bool) {
	deadline := time.Now().Add(timeout)
	for {
		d.mu.Lock()
		for _, id := range d.order {
			if !not[id] {
				d.mu.Unlock()
				return id, true
			}
		}
		d.mu.Unlock()
		if time.Now().After(deadline) {
			return 0, false
		}
		time.Sleep(2 * time.Millisecond)
	}
}

func (d *c02Dest) close() {
	d.ln.Close()
	d.mu.Lock()
	for _, c := range d.conns {
		c.Close()
	}
	d.mu.Unlock()
}

// ---------------------------------------------------------------- relay host

type c02Host struct {
	ch      *tchannel.Channel
	dest    string
	mu      sync.Mutex
	appends [][2][]byte
	st      *c02Window
}

func (h *c02Host) SetChannel(ch *tchannel.Channel) { h.ch = ch }

func (h *c02Host) Start(cf relay.CallFrame, _ *relay.Conn) (tchannel.RelayCall, error) {
	c := &c02Call{peer: h.ch.GetSubChannel(string(cf.Service())).Peers().GetOrAdd(h.dest)}
	if string(cf.Method()) == "big" {
		h.mu.Lock()
		for _, kv := range h.appends {
			cf.Arg2Append(kv[0], kv[1])
		}
		h.mu.Unlock()
		c.st = h.st
	}
	return c, nil
}

type c02Call struct {
	peer   *tchannel.Peer
	st     *c02Window
	reason string
}

func (c *c02Call) Destination() (*tchannel.Peer, bool) { return c.peer, true }
func (c *c02Call) SentBytes(uint16) {
	if c.st != nil {
		atomic.AddInt32(&c.st.sent, 1)
	}
}
func (c *c02Call) ReceivedBytes(uint16)         {}
func (c *c02Call) CallResponse(relay.RespFrame) {}
func (c *c02Call) Succeeded()                   {}
func (c *c02Call) Failed(reason string)         { c.reason = reason }
func (c *c02Call) End() {
	if c.st != nil {
		c.st.mu.Lock()
		c.st.reason = c.reason
		c.st.mu.Unlock()
		if c.reason != "" {
			atomic.StoreInt32(&c.st.armed, 1)
		}
	}
}

// c02Window: what happens between the failure of the mutated call and the end of its
// fragmentingSend, observed through the relay channel's frame pool.
type c02Window struct {
	mu     sync.Mutex
	reason string
	armed  int32
	sent   int32 // SentBytes calls = fragments handed to the destination
	gets   int32 // FramePool.Get calls after the failure
	sig1   chan struct{}
	ack1   chan struct{}
	sig2   chan struct{}
	ack2   chan struct{}
}

func newC02Window() *c02Window {
	return &c02Window{sig1: make(chan struct{}, 1), ack1: make(chan struct{}, 1), sig2: make(chan struct{}, 1), ack2: make(chan struct{}, 1)}
}

type c02Pool struct {
	inner tchannel.FramePool
	st    *c02Window
}

func (p *c02Pool) Release(f *tchannel.Frame) { p.inner.Release(f) }
func (p *c02Pool) Get() *tchannel.Frame {
	st := p.st
	if st != nil && atomic.LoadInt32(&st.armed) == 1 {
		switch atomic.AddInt32(&st.gets, 1) {
		case 1:
			// the relay is about to produce the first fragment after the failure: the other
			// message starts now (takes its checksum from the pool, writes part of arg2)
			st.sig1 <- struct{}{}
			select {
			case <-st.ack1:
			case <-time.After(2 * time.Second):
			}
		case 2:
			// one more fragment of the failed call has been produced: the other message completes
			st.sig2 <- struct{}{}
			select {
			case <-st.ack2:
			case <-time.After(2 * time.Second):
			}
		}
	}
	return p.inner.Get()
}

// ---------------------------------------------------------------- scenario plumbing

type c02World struct {
	dest    *c02Dest
	dest2   *c02Dest
	host    *c02Host
	rly     *tchannel.Channel
	other   *tchannel.Channel
	client  *rawClient
	stalled *atomic.Bool
	gate    chan struct{}
	win     *c02Window
}

func newC02World(csum tchannel.ChecksumType, sendBuf int, stallable bool) (*c02World, error) {
	w := &c02World{dest: newC02Dest(), dest2: newC02Dest(), stalled: &atomic.Bool{}, gate: make(chan struct{}), win: newC02Window()}
	w.dest2.respond.Store(false)
	w.host = &c02Host{dest: w.dest.hostPort(), st: w.win}
	opts := &tchannel.ChannelOptions{
		RelayHost: w.host,
		DefaultConnectionOptions: tchannel.ConnectionOptions{
			FramePool: &c02Pool{inner: tchannel.DefaultFramePool, st: w.win},
		},
	}
	if sendBuf > 0 {
		opts.DefaultConnectionOptions.SendBufferSize = sendBuf
	}
	if stallable {
		opts.Dialer = func(ctx context.Context, network, hostPort string) (net.Conn, error) {
			d := net.Dialer{}
			c, err := d.DialContext(ctx, network, hostPort)
			if err != nil {
				return nil, err
			}
			return &stallConn{Conn: c, stalled: w.stalled, gate: w.gate}, nil
		}
	}
	var err error
	if w.rly, err = tchannel.NewChannel("c02-relay", opts); err != nil {
		return nil, err
	}
	if err = w.rly.ListenAndServe("127.0.0.1:0"); err != nil {
		return nil, err
	}
	if w.other, err = tchannel.NewChannel("c02-other", &tchannel.ChannelOptions{
		DefaultConnectionOptions: tchannel.ConnectionOptions{ChecksumType: csum}}); err != nil {
		return nil, err
	}
	ctx, cancel := context.WithTimeout(context.Background(), 2*time.Second)
	defer cancel()
	if _, err = w.other.Connect(ctx, w.dest2.hostPort()); err != nil {
		return nil, err
	}
	if w.client, err = dialRaw(w.rly.PeerInfo().HostPort); err != nil {
		return nil, err
	}
	return w, nil
}

func (w *c02World) close() {
	select {
	case <-w.gate:
	default:
		close(w.gate)
	}
	w.client.conn.Close()
	w.other.Close()
	w.rly.Close()
	w.dest.close()
	w.dest2.close()
}

func c02ReqFrames(id uint32, ttlMs uint32, csum byte, method string, arg2, arg3 []byte) [][]byte {
	hdr := rawCallReqHeader(ttlMs, make([]byte, 25), "c02svc", [][2]string{{"as", "thrift"}, {"cn", "c02client"}})
	return buildRawCallFrames(true, id, hdr, csum, [3][]byte{[]byte(method), arg2, arg3}, 65519)
}

func (w *c02World) write(b []byte) error {
	w.client.conn.SetWriteDeadline(time.Now().Add(3 * time.Second))
	_, err := w.client.conn.Write(b)
	return err
}

// readUntil reads frames from the relay until one of the given type with the given id arrives.
func (w *c02World) readUntil(mt byte, id uint32, timeout time.Duration) *rawFrame {
	deadline := time.Now().Add(timeout)
	for time.Now().Before(deadline) {
		f, err := readRawFrame(w.client.conn, time.Until(deadline))
		if err != nil {
			return nil
		}
		if f.ID == id && (f.Type == mt || mt == 0) {
			return f
		}
	}
	return nil
}

// warmUp: an ordinary call through the relay (no append) establishes the connection to the
// destination and checks the plumbing.
func (w *c02World) warmUp(id uint32, csum byte) error {
	for _, b := range c02ReqFrames(id, 2000, csum, "warm", []byte{0, 0}, []byte("hello")) {
		if err := w.write(b); err != nil {
			return err
		}
	}
	if f := w.readUntil(0x04, id, 2*time.Second); f == nil {
		return fmt.Errorf("no response to the warm-up call through the relay")
	}
	return nil
}

func c02ErrMsg(f *rawFrame) string {
	if f == nil || len(f.Payload) < 28 {
		return ""
	}
	n := int(binary.BigEndian.Uint16(f.Payload[26:]))
	if 28+n > len(f.Payload) {
		n = len(f.Payload) - 28
	}
	return fmt.Sprintf("code %#x %q", f.Payload[0], f.Payload[28:28+n])
}

// otherMessage writes a second message of the same checksum type from another channel of the
// process to the raw destination dest2, in two steps driven by the window (or on its own when
// the window never opens), and returns once the request is written.
func (w *c02World) otherMessage(arg2, arg3 []byte, split int, done chan<- string) {
	waitSig := func(ch chan struct{}, d time.Duration) bool {
		select {
		case <-ch:
			return true
		case <-time.After(d):
			return false
		}
	}
	in1 := waitSig(w.win.sig1, 4*time.Second)
	ctx, cancel := tchannel.NewContextBuilder(5 * time.Second).Build()
	defer cancel()
	res := ""
	func() {
		call, err := w.other.BeginCall(ctx, w.dest2.hostPort(), "c02svc2", "other", &tchannel.CallOptions{Format: tchannel.Raw})
		if err != nil {
			res = "other message: BeginCall: " + err.Error()
			return
		}
		a2, err := call.Arg2Writer()
		if err != nil {
			res = "other message: arg2 writer: " + err.Error()
			return
		}
		if _, err := a2.Write(arg2[:split]); err != nil {
			res = "other message: arg2 write: " + err.Error()
			return
		}
		if in1 {
			w.win.ack1 <- struct{}{}
			waitSig(w.win.sig2, 600*time.Millisecond)
		}
		// whenever the relay asks for its next frame from now on, it does not wait for us
		defer func() { w.win.ack2 <- struct{}{} }()
		if _, err := a2.Write(arg2[split:]); err != nil {
			res = "other message: arg2 write: " + err.Error()
			return
		}
		if err := a2.Close(); err != nil {
			res = "other message: arg2 close: " + err.Error()
			return
		}
		if err := tchannel.NewArgWriter(call.Arg3Writer()).Write(arg3); err != nil {
			res = "other message: arg3: " + err.Error()
			return
		}
	}()
	done <- res
}

// ---------------------------------------------------------------- scenario "slow"

func c02Slow(rng *rand.Rand, c int, quarantine bool, j *c02Judge, o *Out) {
	csum := byte(pick(rng, 1, 3))
	npairs := pick(rng, 4, 5, 6)
	vlen := pick(rng, 60000, 65000, 65535-8)
	arg3 := []byte(randBytes(rng, pick(rng, 0, 10, 70000)))
	oa2 := []byte(randBytes(rng, pick(rng, 70000, 100000, 140000)))
	oa3 := []byte(randBytes(rng, pick(rng, 1, 3000, 66000)))
	split := pick(rng, 1, 30000, 65000)
	id := uint32(5000 + c)
	key := fmt.Sprint("slow", csum, npairs, vlen, len(arg3), len(oa2), len(oa3), split, quarantine)
	cid := fmt.Sprintf("slow%d", c)

	tchannel.VerifCkQuarantine(quarantine)
	if !quarantine {
		// one P: the pool's per-P cache makes "the next New draws the object released last" certain
		defer runtime.GOMAXPROCS(runtime.GOMAXPROCS(1))
	}
	w, err := newC02World(tchannel.ChecksumType(csum), 1, true)
	if err != nil {
		o.Oracle("ckown-wire", cid, false, key, "scenario setup failed: "+err.Error())
		return
	}
	defer w.close()
	var apps [][2][]byte
	for i := 0; i < npairs; i++ {
		apps = append(apps, [2][]byte{[]byte(fmt.Sprintf("k%d", i)), []byte(randBytes(rng, vlen))})
	}
	w.host.appends = apps
	if err := w.warmUp(id-1000, csum); err != nil {
		o.Oracle("ckown-wire", cid, false, key, "scenario setup failed: "+err.Error())
		return
	}
	c02EmitTrace(o, j, cid+"w", false, "warm-up call: ")

	w.dest.respond.Store(false)
	w.stalled.Store(true)
	done := make(chan string, 1)
	go w.otherMessage(oa2, oa3, split, done)
	for _, b := range c02ReqFrames(id, 3000, csum, "big", []byte{0, 1, 0, 1, 'a', 0, 1, 'b'}, arg3) {
		if err := w.write(b); err != nil {
			break
		}
	}
	ef := w.readUntil(0xff, id, 3*time.Second)
	otherRes := ""
	select {
	case otherRes = <-done:
	case <-time.After(8 * time.Second):
		otherRes = "other message: not written within 8 s"
	}
	// let the queued frames through
	close(w.gate)
	w.stalled.Store(false)
	w.win.mu.Lock()
	reason := w.win.reason
	w.win.mu.Unlock()
	time.Sleep(20 * time.Millisecond)
	sent := int(atomic.LoadInt32(&w.win.sent))
	gets := int(atomic.LoadInt32(&w.win.gets))

	// frames of the failed call that reached the destination (handed over before the refusal)
	destID, okID := w.dest.bigID(500 * time.Millisecond)
	verdict := ""
	nreached := 0
	if okID {
		nreached = w.dest.waitFrames(destID, imin(sent-1, 2), 500*time.Millisecond)
		verdict = c02CheckFrames(w.dest.snapshot()[destID])
		if verdict != "" {
			verdict = "re-emitted call req: " + verdict
		}
	}
	// the other message
	otherID, okO := w.dest2.anyID(time.Second, map[uint32]bool{})
	nother := 0
	if otherRes != "" && verdict == "" {
		verdict = otherRes
	}
	if okO {
		time.Sleep(30 * time.Millisecond)
		fs := w.dest2.snapshot()[otherID]
		nother = len(fs)
		if v := c02CheckFrames(fs); v != "" && verdict == "" {
			verdict = fmt.Sprintf("a message written while the relay was still producing the fragments of the failed call (%s, %d of its fragments handed over, %d produced after the failure): %s",
				reason, sent, gets, v)
		}
	} else if verdict == "" {
		verdict = "the other message never reached its destination"
	}
	happened := reason == "relay-dest-conn-slow" && gets >= 1
	o.Hist(fmt.Sprintf("slow: reason=%q fragments-after-failure=%d quarantine=%v", reason, imin(gets, 3), quarantine))
	if c < 2 {
		o.Sample(map[string]interface{}{"sub": "ckown-slow", "checksum_type": csum, "appended_pairs": npairs, "value_len": vlen,
			"arg3": len(arg3), "fragments_handed_to_destination": sent, "reached_destination": nreached, "fragments_after_failure": gets,
			"relay_failure": reason, "client_saw": c02ErrMsg(ef), "other_message_frames": nother, "quarantine": quarantine})
	}
	c02EmitTrace(o, j, cid, happened, fmt.Sprintf("relay re-fragmenting a call req (crc type %d, %d appended pairs of %d bytes) whose fragment %d of >=%d was refused (%s): ",
		csum, npairs, vlen, sent, sent+gets, reason))
	o.Oracle("ckown-wire", cid, happened, key, verdict)
}

// ---------------------------------------------------------------- scenarios "overlap" / "timeout"

func c02Overlap(rng *rand.Rand, c int, timeoutVariant bool, quarantine bool, j *c02Judge, o *Out) {
	csum := byte(pick(rng, 1, 3))
	npairs := pick(rng, 1, 2)
	vlen := pick(rng, 10, 3000)
	arg3 := []byte(randBytes(rng, pick(rng, 66000, 90000)))
	id := uint32(7000 + c)
	name := "overlap"
	if timeoutVariant {
		name = "timeout"
	}
	key := fmt.Sprint(name, csum, npairs, vlen, len(arg3), quarantine)
	cid := fmt.Sprintf("%s%d", name, c)

	tchannel.VerifCkQuarantine(quarantine)
	w, err := newC02World(tchannel.ChecksumType(csum), 0, false)
	if err != nil {
		o.Oracle("ckown-wire", cid, false, key, "scenario setup failed: "+err.Error())
		return
	}
	defer w.close()
	var apps [][2][]byte
	for i := 0; i < npairs; i++ {
		apps = append(apps, [2][]byte{[]byte(fmt.Sprintf("k%d", i)), []byte(randBytes(rng, vlen))})
	}
	w.host.appends = apps
	if err := w.warmUp(id-1000, csum); err != nil {
		o.Oracle("ckown-wire", cid, false, key, "scenario setup failed: "+err.Error())
		return
	}
	c02EmitTrace(o, j, cid+"w", false, "warm-up call: ")

	s := NewSched()
	defer s.Close()
	pk := key2(id)
	s.ParkAtID("relay.nonCallReq.afterGet", id)
	ttl := uint32(3000)
	if timeoutVariant {
		ttl = 150
	}
	w.dest.respond.Store(false)
	frames := c02ReqFrames(id, ttl, csum, "big", []byte{0, 1, 0, 1, 'a', 0, 1, 'b'}, arg3)
	if len(frames) < 2 {
		o.Oracle("ckown-wire", cid, false, key, "scenario setup failed: the request has a single frame")
		return
	}
	// the call req; the continuation follows at once and is held after the relay's item lookup
	for _, b := range frames {
		if err := w.write(b); err != nil {
			break
		}
	}
	parked := s.WaitArrived(pk, 1, 2*time.Second)
	// the call ends meanwhile: the destination's error response finishes it, or its timer fires
	if !timeoutVariant {
		if did, ok := w.dest.bigID(time.Second); ok {
			w.dest.sendError(did)
		}
	}
	ef := w.readUntil(0xff, id, 2*time.Second)
	time.Sleep(20 * time.Millisecond)
	// in natural mode: another message takes a checksum of that type from the pool now
	var otherCk tchannel.Checksum
	if !quarantine {
		otherCk = tchannel.VerifCkNew(csum)
	}
	s.Unpark(pk)
	s.Release(pk)
	time.Sleep(30 * time.Millisecond)
	_ = otherCk // dropped, not released: its life cycle is the harness's own
	happened := parked && ef != nil
	o.Hist(fmt.Sprintf("%s: continuation held=%v call ended=%v quarantine=%v", name, parked, ef != nil, quarantine))
	if c < 2 {
		o.Sample(map[string]interface{}{"sub": "ckown-" + name, "checksum_type": csum, "appended_pairs": npairs, "request_frames": len(frames),
			"continuation_held_after_item_lookup": parked, "client_saw": c02ErrMsg(ef), "quarantine": quarantine})
	}
	how := "the destination's error response finished the call"
	if timeoutVariant {
		how = "the call timed out"
	}
	evs := tchannel.VerifCkDrain()
	if !quarantine {
		// the harness's own New is not a library life cycle
		var keep []tchannel.VerifCkEvent
		for _, e := range evs {
			if e.Fn != "VerifCkNew" {
				keep = append(keep, e)
			}
		}
		evs = keep
	}
	in, obs, msg := j.judge(evs)
	verdict := ""
	if msg != "" {
		verdict = fmt.Sprintf("[c02:relay-checksum-released-under-inflight-frame] a callReqContinue of a mutated call (crc type %d) was between the relay's item lookup and its re-checksumming when %s: %s",
			csum, how, msg)
		if timeoutVariant {
			verdict = verdict[strings.Index(verdict, "]")+2:]
		}
	}
	o.Case("ckown", cid, in, obs, happened, verdict)
}

func key2(id uint32) string { return key("relay.nonCallReq.afterGet", id) }

// ---------------------------------------------------------------- engine

func engineCkOwn(rng *rand.Rand, n int, tier string, o *Out) {
	tchannel.VerifCkTrack(true, true)
	defer tchannel.VerifCkTrack(false, false)
	j := newC02Judge()
	for c := 0; c < n; c++ {
		quarantine := (c/3)%2 == 0
		switch c % 3 {
		case 0:
			c02Slow(rng, c, quarantine, j, o)
		case 1:
			c02Overlap(rng, c, false, quarantine, j, o)
		case 2:
			c02Overlap(rng, c, true, quarantine, j, o)
		}
	}
}
