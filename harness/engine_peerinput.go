package main

import (
	"bufio"
	"bytes"
	"fmt"
	"math/rand"
	"net"
	"os"
	"os/exec"
	"strings"
	"time"

	tchannel "github.com/uber/tchannel-go"
	"github.com/uber/tchannel-go/raw"
	"github.com/uber/tchannel-go/relay/relaytest"
	"golang.org/x/net/context"
)

// peerinput (C03): arbitrary frame sequences from a raw TCP peer against a channel that
// runs in a CHILD PROCESS (so that a panic in any library goroutine is an observation):
// the child must stay alive, keep serving other connections, and the attacked connection
// must either be closed or still answer.

func init() { engines["peerinput"] = enginePeerInput }

type childHandler struct{}

func (childHandler) Handle(ctx context.Context, args *raw.Args) (*raw.Res, error) {
	if args.Method == "slow" {
		time.Sleep(150 * time.Millisecond)
	}
	if args.Method == "hang" { // never answers within the caller's ttl (id re-use sequences)
		<-ctx.Done()
	}
	return &raw.Res{Arg2: args.Arg2, Arg3: args.Arg3}, nil
}
func (childHandler) OnError(ctx context.Context, err error) {}

// runChild hosts the channel under attack.  Protocol on stdin/stdout:
//
//	-> "READY <hostport>"          after start
//	<- "call <hostport>"           make an outbound call to a (raw) peer; -> "CALLDONE <ok|err ...>"
//	role relays only (forced schedules, engine_peerinput_race.go):
//	<- "addsvc <service> <hostport>"                 -> "OK"
//	<- "park <point> <id>" / "release <point> <id>"  -> "OK" / "RELEASED <bool>"
//	<- "waitarrived <point> <id> <ms>"               -> "ARRIVED <bool>"
//	stdin EOF                      exit 0
func runChild(role string) {
	if strings.HasPrefix(role, "pool") { // engine poolcross (engine_c03pool.go): Thrift + JSON endpoints, pool commands
		c03pRunChild(role)
		return
	}
	opts := &tchannel.ChannelOptions{Logger: tchannel.NullLogger}
	server, err := tchannel.NewChannel("victim", opts)
	if err != nil {
		panic(err)
	}
	server.Register(raw.Wrap(childHandler{}), "echo")
	server.Register(raw.Wrap(childHandler{}), "slow")
	server.Register(raw.Wrap(childHandler{}), "hang")
	if err := server.ListenAndServe("127.0.0.1:0"); err != nil {
		panic(err)
	}
	target := server.PeerInfo().HostPort
	var rh *relaytest.StubRelayHost
	var sched *Sched
	if strings.HasPrefix(role, "relay") {
		rh = relaytest.NewStubRelayHost()
		ropts := &tchannel.ChannelOptions{RelayHost: rh, Logger: tchannel.NullLogger}
		switch role {
		case "relayc": // cancel frames are relayed
			ropts.DefaultConnectionOptions.PropagateCancel = true
		case "relayt": // the "too many tombstones: delete immediately" path of relayItems.Entomb
			ropts.RelayMaxTombs = 1
		case "relays": // schedule points under the harness' control, cancel relayed, a 2-slot send queue
			ropts.DefaultConnectionOptions.PropagateCancel = true
			ropts.DefaultConnectionOptions.SendBufferSize = 2
			sched = NewSched()
		}
		rly, err := tchannel.NewChannel("relay", ropts)
		if err != nil {
			panic(err)
		}
		if err := rly.ListenAndServe("127.0.0.1:0"); err != nil {
			panic(err)
		}
		rh.Add("victim", server.PeerInfo().HostPort)
		target = rly.PeerInfo().HostPort
	}
	fmt.Printf("READY %s\n", target)
	sc := bufio.NewScanner(os.Stdin)
	for sc.Scan() {
		line := sc.Text()
		if strings.HasPrefix(line, "call ") {
			hp := strings.TrimPrefix(line, "call ")
			ctx, cancel := tchannel.NewContext(700 * time.Millisecond)
			_, _, _, err := raw.Call(ctx, server, hp, "rawpeer", "m", []byte("a2"), []byte("a3"))
			cancel()
			if err != nil {
				fmt.Printf("CALLDONE err %v\n", strings.ReplaceAll(err.Error(), "\n", " "))
			} else {
				fmt.Printf("CALLDONE ok\n")
			}
			continue
		}
		if w := strings.Fields(line); sched != nil && len(w) >= 3 {
			var id uint64
			fmt.Sscan(w[2], &id)
			switch w[0] {
			case "addsvc":
				rh.Add(w[1], w[2])
				fmt.Printf("OK\n")
			case "park":
				sched.ParkAtID(w[1], uint32(id))
				fmt.Printf("OK\n")
			case "release":
				sched.Unpark(key(w[1], uint32(id)))
				fmt.Printf("RELEASED %v\n", sched.Release(key(w[1], uint32(id))))
			case "waitarrived":
				ms := 1000
				if len(w) > 3 {
					fmt.Sscan(w[3], &ms)
				}
				fmt.Printf("ARRIVED %v\n", sched.WaitArrived(key(w[1], uint32(id)), 1, time.Duration(ms)*time.Millisecond))
			}
		}
	}
	os.Exit(0)
}

type child struct {
	cmd    *exec.Cmd
	stdin  *bufio.Writer
	out    *bufio.Reader
	hp     string
	stderr *bytes.Buffer
	exited chan struct{}
}

func startChild(role string) (*child, error) {
	cmd := exec.Command(os.Args[0], "child", role)
	in, _ := cmd.StdinPipe()
	out, _ := cmd.StdoutPipe()
	c := &child{cmd: cmd, stdin: bufio.NewWriter(in), out: bufio.NewReader(out), stderr: &bytes.Buffer{}, exited: make(chan struct{})}
	cmd.Stderr = c.stderr
	if err := cmd.Start(); err != nil {
		return nil, err
	}
	line, err := c.out.ReadString('\n')
	if err != nil || !strings.HasPrefix(line, "READY ") {
		return nil, fmt.Errorf("child did not start: %q %v %s", line, err, c.stderr.String())
	}
	c.hp = strings.TrimSpace(strings.TrimPrefix(line, "READY "))
	go func() { cmd.Wait(); close(c.exited) }()
	return c, nil
}

func (c *child) alive() bool {
	select {
	case <-c.exited:
		return false
	default:
		return true
	}
}

func (c *child) stop() {
	c.cmd.Process.Kill()
	<-c.exited
}

var zeroTracing = make([]byte, 25)

func echoReqFrames(id uint32, method string, ttl uint32, a2, a3 []byte, maxPayload int, csum byte) [][]byte {
	hdr := rawCallReqHeader(ttl, zeroTracing, "victim", [][2]string{{"as", "raw"}, {"cn", "rawpeer"}})
	return buildRawCallFrames(true, id, hdr, csum, [3][]byte{[]byte(method), a2, a3}, maxPayload)
}

// a legitimate call on a fresh raw connection; "" if answered correctly
func probeFresh(hp string) string {
	conn, err := net.DialTimeout("tcp", hp, time.Second)
	if err != nil {
		return "cannot connect: " + err.Error()
	}
	defer conn.Close()
	if _, err := rawClientHandshake(conn); err != nil {
		return "handshake on a fresh connection failed: " + err.Error()
	}
	a3 := []byte("probe-arg3")
	for _, f := range echoReqFrames(7, "echo", 1000, []byte("p2"), a3, 65519, 1) {
		conn.Write(f)
	}
	var frags []*rawCall
	for {
		f, err := readRawFrame(conn, 1500*time.Millisecond)
		if err != nil {
			return "no response to a legitimate call on a fresh connection: " + err.Error()
		}
		if f.Type == 0xff {
			return fmt.Sprintf("legitimate call on a fresh connection answered with error frame code %d", f.Payload[0])
		}
		if f.Type != 0x04 && f.Type != 0x14 {
			continue
		}
		pc, err := parseRawCall(f.Type, f.Payload)
		if err != nil {
			return "response does not parse: " + err.Error()
		}
		frags = append(frags, pc)
		if pc.Flags&1 == 0 {
			break
		}
	}
	args := collectArgs(frags)
	if len(args) != 3 || !bytes.Equal(args[2], a3) {
		return "legitimate call on a fresh connection got a wrong response"
	}
	return ""
}

type hostileSeq struct {
	desc            string
	preInit         []byte   // bytes sent instead of / before the handshake ("" = do a valid handshake)
	frames          [][]byte // sent after the handshake
	pauses          map[int]time.Duration
	noSameConnProbe bool // the sequence leaves the stream inside a frame: skip the same-connection probe
}

func genHostile(rng *rand.Rand) *hostileSeq {
	s := &hostileSeq{pauses: map[int]time.Duration{}}
	id := uint32(100 + rng.Intn(1000))
	valid := echoReqFrames(id, "echo", 1000, []byte("a2"), []byte(randBytes(rng, pick(rng, 0, 10, 70000))), 65519, byte(pick(rng, 0, 1, 3)))
	switch k := rng.Intn(16); k {
	case 0: // every message type byte
		t := byte(rng.Intn(256))
		s.desc = fmt.Sprintf("frame with message type %#x and a random payload", t)
		s.frames = [][]byte{rawFrameBytes(t, id, []byte(randBytes(rng, pick(rng, 0, 1, 5, 30, 200))))}
	case 1: // valid call then the same id again while in flight (duplicate) / continuation for unknown id
		s.desc = "duplicate in-flight id / continuation and response frames for unknown ids"
		slow := echoReqFrames(id, "slow", 1000, nil, []byte("x"), 65519, 1)
		s.frames = append(append(append([][]byte{}, slow...), slow...), rawFrameBytes(0x13, id+1, []byte{0, 0, 0, 0}), rawFrameBytes(0x04, id+2, valid[0][16:]), rawFrameBytes(0x14, id+3, []byte{0, 0}))
	case 2: // truncated payload of a valid frame (consistent size)
		p := valid[0][16:]
		cut := rng.Intn(len(p) + 1)
		s.desc = fmt.Sprintf("call req payload truncated to %d of %d bytes", cut, len(p))
		s.frames = [][]byte{rawFrameBytes(0x03, id, p[:cut])}
	case 3: // one byte of a valid first frame set to a boundary value
		f := append([]byte{}, valid[0]...)
		pos := 16 + rng.Intn(imin(len(f)-16, 80))
		f[pos] = byte(pick(rng, 0, 1, 2, 3, 4, 0x7f, 0x80, 0xfe, 0xff))
		s.desc = fmt.Sprintf("call req with payload byte %d set to %#x", pos-16, f[pos])
		s.frames = append([][]byte{f}, valid[1:]...)
	case 4: // size field games
		f := append([]byte{}, valid[0]...)
		sz := pick(rng, 0, 1, 15, 16, 17, len(f)-1, len(f)+1, 65535)
		f[0], f[1] = byte(sz>>8), byte(sz)
		s.desc = fmt.Sprintf("frame header size field set to %d (actual %d)", sz, len(f))
		s.frames = [][]byte{f}
		s.noSameConnProbe = true
	case 5: // tiny ttl to a slow handler, then the id re-used, then another call
		s.desc = "call with a short ttl to a slow handler, then the same id re-used after the timeout"
		s.frames = append(s.frames, echoReqFrames(id, "slow", uint32(pick(rng, 1, 20, 50)), nil, []byte("x"), 65519, 1)...)
		s.pauses[len(s.frames)] = 120 * time.Millisecond
		s.frames = append(s.frames, echoReqFrames(id, "echo", 1000, nil, []byte("y"), 65519, 1)...)
		s.pauses[len(s.frames)] = 250 * time.Millisecond
		s.frames = append(s.frames, echoReqFrames(id+1, "echo", 1000, nil, []byte("z"), 65519, 1)...)
	case 6: // error / cancel frames
		s.desc = "error and cancel frames for unknown and in-flight ids, protocol error code"
		s.frames = append(s.frames, echoReqFrames(id, "slow", 1000, nil, []byte("x"), 65519, 1)...)
		s.frames = append(s.frames, rawFrameBytes(0xc0, id, append(append([]byte{0, 0, 0, 0}, zeroTracing...), str2("why")...)))
		s.frames = append(s.frames, rawFrameBytes(0xff, id+9, rawErrorPayload(byte(pick(rng, 0, 1, 5, 0x7f)), zeroTracing, "boo")))
		s.frames = append(s.frames, rawFrameBytes(0xc0, id+5, []byte{1, 2}))
		s.frames = append(s.frames, rawFrameBytes(0xff, id+6, []byte{3}))
	case 7: // init frames after the handshake, ping variants
		s.desc = "init req/res after the handshake, pings with payloads"
		s.frames = [][]byte{rawFrameBytes(0x01, id, rawInitPayload(2, defaultInitParams)), rawFrameBytes(0x02, id, rawInitPayload(2, defaultInitParams)),
			rawFrameBytes(0xd0, id, []byte(randBytes(rng, 7))), rawFrameBytes(0xd1, id, nil), rawFrameBytes(0x01, id, []byte{0})}
	case 8: // hostile handshake
		s.desc = "hostile bytes instead of a handshake"
		switch rng.Intn(5) {
		case 0:
			s.preInit = []byte(randBytes(rng, 1+rng.Intn(40)))
		case 1:
			s.preInit = rawFrameBytes(0x01, 1, rawInitPayload(uint16(pick(rng, 0, 1, 3, 65535)), defaultInitParams))
		case 2:
			s.preInit = rawFrameBytes(0x01, 1, rawInitPayload(2, nil))
		case 3:
			p := rawInitPayload(2, defaultInitParams)
			s.preInit = rawFrameBytes(0x01, 1, p[:rng.Intn(len(p))])
		case 4:
			s.preInit = rawFrameBytes(byte(pick(rng, 0x02, 0x03, 0xff, 0xd0)), 1, rawInitPayload(2, defaultInitParams))
		}
		s.noSameConnProbe = true
	case 9: // checksum type bytes and chunk-less fragments
		ct := byte(pick(rng, 2, 4, 5, 0x7f, 0xff))
		hdr := rawCallReqHeader(1000, zeroTracing, "victim", [][2]string{{"as", "raw"}})
		p := append(append([]byte{0}, hdr...), ct)
		if rng.Intn(2) == 0 {
			p = append(p, 0, 0, 0, 0)
		}
		if rng.Intn(2) == 0 {
			p = append(p, 0, 4, 'e', 'c', 'h', 'o', 0, 0, 0, 0)
		}
		s.desc = fmt.Sprintf("call req with checksum type %#x", ct)
		s.frames = [][]byte{rawFrameBytes(0x03, id, p)}
	case 10: // fragment with no chunks (checksum none), first and continuation
		hdr := rawCallReqHeader(1000, zeroTracing, "victim", [][2]string{{"as", "raw"}})
		s.desc = "call req fragments without any chunk"
		s.frames = [][]byte{rawFrameBytes(0x03, id, append(append([]byte{byte(pick(rng, 0, 1))}, hdr...), 0)),
			rawFrameBytes(0x03, id+1, append(append([]byte{1}, hdr...), 0, 0, 4, 'e', 'c', 'h', 'o')), rawFrameBytes(0x13, id+1, []byte{0, 0})}
	case 11: // multi-fragment arg1 whose second fragment is bad
		hdr := rawCallReqHeader(1000, zeroTracing, "victim", [][2]string{{"as", "raw"}})
		p := append(append([]byte{1}, hdr...), 1)
		ck := specChecksum(1, []byte("ec"))
		p = append(append(p, ck...), 0, 2, 'e', 'c')
		s.desc = "arg1 split over two fragments, second fragment with a wrong checksum"
		s.frames = [][]byte{rawFrameBytes(0x03, id, p), rawFrameBytes(0x13, id, []byte{0, 1, 9, 9, 9, 9, 0, 2, 'h', 'o', 0, 0, 0, 0})}
	case 12: // chunk length beyond the fragment
		hdr := rawCallReqHeader(1000, zeroTracing, "victim", [][2]string{{"as", "raw"}})
		p := append(append([]byte{0}, hdr...), 0, 0xff, 0xff, 'x')
		s.desc = "chunk length exceeding the fragment"
		s.frames = [][]byte{rawFrameBytes(0x03, id, p)}
	case 13: // many headers / header counts lying
		p := []byte{0, 0, 0, 3, 232}
		p = append(p, zeroTracing...)
		p = append(p, 6, 'v', 'i', 'c', 't', 'i', 'm', byte(pick(rng, 1, 5, 255)), 2, 'a', 's', 3, 'r', 'a', 'w')
		s.desc = "transport header count larger than the headers present"
		s.frames = [][]byte{rawFrameBytes(0x03, id, p)}
	case 14: // legitimate traffic only (control)
		s.desc = "legitimate multi-frame call (control)"
		s.frames = echoReqFrames(id, "echo", 1000, []byte("a2"), []byte(randBytes(rng, 100000)), 65519, 3)
	default: // pure random frames
		s.desc = "random frames"
		for i := 0; i < 4; i++ {
			s.frames = append(s.frames, rawFrameBytes(byte(rng.Intn(256)), uint32(rng.Intn(5)), []byte(randBytes(rng, rng.Intn(60)))))
		}
	}
	return s
}

func runHostile(c *child, s *hostileSeq) string {
	conn, err := net.DialTimeout("tcp", c.hp, time.Second)
	if err != nil {
		if !c.alive() {
			return "[c03:process-died] the process hosting the channel exited: " + lastLines(c.stderr.String())
		}
		return "cannot connect to the channel: " + err.Error()
	}
	defer conn.Close()
	if s.preInit != nil {
		conn.SetWriteDeadline(time.Now().Add(time.Second))
		conn.Write(s.preInit)
		time.Sleep(20 * time.Millisecond)
	} else if _, err := rawClientHandshake(conn); err != nil {
		return "valid handshake refused: " + err.Error()
	}
	for i, f := range s.frames {
		if d, ok := s.pauses[i]; ok {
			time.Sleep(d)
		}
		conn.SetWriteDeadline(time.Now().Add(2 * time.Second))
		if _, err := conn.Write(f); err != nil {
			break // connection closed by the peer: allowed
		}
	}
	if d, ok := s.pauses[len(s.frames)]; ok {
		time.Sleep(d)
	}
	time.Sleep(15 * time.Millisecond)
	if !c.alive() {
		return "[c03:process-died] the process hosting the channel exited (" + s.desc + "): " + lastLines(c.stderr.String())
	}
	// same connection: either closed, or still answering a ping
	if !s.noSameConnProbe {
		if err := writeRawFrame(conn, 0xd0, 0xfffffff0, nil); err == nil {
			deadline := time.Now().Add(1500 * time.Millisecond)
			for {
				f, err := readRawFrame(conn, time.Until(deadline))
				if err != nil {
					if ne, ok := err.(net.Error); ok && ne.Timeout() {
						return "[c03:connection-wedged] after '" + s.desc + "' the connection is neither closed nor answering a ping within 1.5s"
					}
					break // closed: allowed
				}
				if f.Type == 0xd1 && f.ID == 0xfffffff0 {
					break
				}
			}
		}
	}
	if v := probeFresh(c.hp); v != "" {
		if !c.alive() {
			return "[c03:process-died] the process hosting the channel exited (" + s.desc + "): " + lastLines(c.stderr.String())
		}
		return "after '" + s.desc + "': " + v
	}
	return ""
}

func lastLines(s string) string {
	lines := strings.Split(strings.TrimSpace(s), "\n")
	for _, l := range lines {
		if strings.HasPrefix(l, "panic:") || strings.Contains(l, "fatal error") {
			return l
		}
	}
	if len(lines) > 2 {
		lines = lines[:2]
	}
	return strings.Join(lines, " | ")
}

func enginePeerInput(rng *rand.Rand, n int, tier string, o *Out) {
	// id re-use over the tombstone period (engine_peerinput_reuse.go): started first, runs in the
	// background against its own child processes, reported after the other cases
	finishReuse := c03rStart(rng, n, tier, o)
	defer finishReuse()
	for _, role := range []string{"server", "relay"} {
		c, err := startChild(role)
		if err != nil {
			o.Oracle("peerinput", "start-"+role, true, role, "harness: "+err.Error())
			continue
		}
		for i := 0; i < n; i++ {
			s := genHostile(rng)
			v := runHostile(c, s)
			o.Hist(role + ": " + strings.SplitN(s.desc, " ", 4)[0] + " " + strings.SplitN(s.desc+"  ", " ", 4)[1])
			if i < 2 {
				o.Sample(map[string]interface{}{"sub": "peerinput", "role": role, "sequence": s.desc, "frames": len(s.frames)})
			}
			o.Oracle("peerinput", fmt.Sprintf("%s%d", role, i), true, fmt.Sprint(role, i, s.desc, len(s.frames)), v)
			if !c.alive() {
				c, err = startChild(role)
				if err != nil {
					break
				}
			}
		}
		// the outbound (client) side of a connection under attack: the child calls a raw peer
		// that answers with hostile frames
		if role == "server" {
			for i := 0; i < n/4+1; i++ {
				v := runHostileClientSide(rng, c)
				o.Hist("client-side")
				o.Oracle("peerinput-client", fmt.Sprintf("cl%d", i), true, fmt.Sprint(i), v)
				if !c.alive() {
					c, _ = startChild(role)
				}
			}
		}
		if c != nil {
			c.stop()
		}
	}
}

// the child dials a raw listener which handshakes and then answers its call with hostile frames
func runHostileClientSide(rng *rand.Rand, c *child) string {
	ln, err := net.Listen("tcp", "127.0.0.1:0")
	if err != nil {
		return "harness: " + err.Error()
	}
	defer ln.Close()
	done := make(chan struct{})
	go func() {
		defer close(done)
		conn, err := ln.Accept()
		if err != nil {
			return
		}
		defer conn.Close()
		if rng.Intn(6) == 0 {
			conn.Write([]byte(randBytes(rng, 30))) // hostile handshake reply
			return
		}
		if _, _, err := rawServerHandshake(conn); err != nil {
			return
		}
		f, err := readRawFrame(conn, time.Second)
		if err != nil {
			return
		}
		id := f.ID
		var reply [][]byte
		switch rng.Intn(8) {
		case 0:
			reply = [][]byte{rawFrameBytes(0x04, id, []byte(randBytes(rng, rng.Intn(40))))}
		case 1:
			reply = [][]byte{rawFrameBytes(0x04, id, append(append([]byte{0, 0}, zeroTracing...), 0, byte(pick(rng, 4, 9, 255)), 0, 0, 0, 0))}
		case 2:
			reply = [][]byte{rawFrameBytes(0x04, id, append(append([]byte{0, 0}, zeroTracing...), 0, 0))} // no chunks
		case 3:
			reply = [][]byte{rawFrameBytes(0xff, id, []byte{byte(rng.Intn(256))}), rawFrameBytes(0xff, id, rawErrorPayload(0xff, zeroTracing, "protocol"))}
		case 4:
			reply = [][]byte{rawFrameBytes(0x14, id, []byte{0, 0, 0, 0}), rawFrameBytes(0x03, id, []byte{0}), rawFrameBytes(byte(rng.Intn(256)), id, []byte(randBytes(rng, 9)))}
		case 5:
			fr := rawFrameBytes(0x04, id, []byte{0})
			fr[0], fr[1] = 0, byte(pick(rng, 0, 15))
			reply = [][]byte{fr}
		default:
			hdr := rawCallResHeader(0, zeroTracing, nil)
			reply = buildRawCallFrames(false, id, hdr, 1, [3][]byte{{}, []byte("r2"), []byte("r3")}, 65519)
		}
		for _, fr := range reply {
			conn.SetWriteDeadline(time.Now().Add(time.Second))
			conn.Write(fr)
		}
		time.Sleep(30 * time.Millisecond)
	}()
	fmt.Fprintf(c.stdin, "call %s\n", ln.Addr().String())
	c.stdin.Flush()
	res := make(chan string, 1)
	go func() {
		line, err := c.out.ReadString('\n')
		if err != nil {
			res <- "EOF"
			return
		}
		res <- line
	}()
	select {
	case line := <-res:
		if line == "EOF" || !c.alive() {
			time.Sleep(50 * time.Millisecond)
			return "[c03:process-died] the process hosting the channel exited while its outbound call was answered with hostile frames: " + lastLines(c.stderr.String())
		}
	case <-time.After(3 * time.Second):
		return "[c03:caller-wedged] outbound call answered with hostile frames did not return within 3s (700ms deadline)"
	}
	<-done
	if v := probeFresh(c.hp); v != "" {
		return "after hostile frames on an outbound connection: " + v
	}
	return ""
}
