package main

// Engine "handshake" (property C13): the real inbound handshake (Channel.serve, or the same
// code under a chosen deadline through the overlay wrapper VerifServeConn) and the real
// Channel.Connect, each against a raw TCP peer that sends a generated opening and then
// stays silent or closes its side.  What the peer receives, whether the socket gets
// closed, Connect's result and the channel's connection / peer lists (IntrospectState)
// are compared with the model (run_hs_in / run_hs_out / run_hs_hist) and judged by an
// oracle written from the property statement with its own parser of the opening.

import (
	"bytes"
	"encoding/binary"
	"fmt"
	"io"
	"math/rand"
	"net"
	"sort"
	"strings"
	"sync"
	"time"

	tchannel "github.com/uber/tchannel-go"
	"golang.org/x/net/context"
)

func init() { engines["handshake"] = engineHandshake }

const (
	hsSock  = "SOCK"  // stands for the socket address of the raw peer / the dialled address
	hsLocal = "LOCAL" // stands for the listening address of the channel under test
)

// ---------------------------------------------------------------- generation

type hsCase struct {
	out       bool // Connect (outbound) instead of an accepted socket (inbound)
	closed    bool // after its bytes the peer closes its side (else: silent)
	stream    []byte
	viaServe  bool // inbound: through the real accept loop (5 s default deadline)
	listening bool // outbound: the connecting channel is itself listening
	hide      bool // outbound: HideListeningOnOutbound
	longProc  int  // process name length of the channel under test when > 0
	deadline  time.Duration
	label     string
	sockName  string // placeholder of this attempt's socket address (histories use SOCK<i>)
}

type openSpec struct {
	typ      byte
	id       uint32
	version  uint16
	params   [][2]string
	nhDelta  int
	junkIn   []byte
	res1     byte
	res8     []byte
	trailing []byte
	errBody  []byte // payload used instead of the init body (error frames etc.)
	sizeFld  int    // -1: correct
}

var hsHostPorts = []string{"", "0.0.0.0:0", ":0", "1.2.3.4:0", "[::1]:0", "host:0", "10.0.0.1:4040", "localhost:1",
	"0.0.0.0:00", "1.2.3.4:10", "0", ":", "x:0 ", " :0", "0.0.0.0:0\x00", "127.0.0.1:65535"}

func noPercent(b []byte) []byte {
	for i := range b {
		if b[i] == '%' {
			b[i] = '&'
		}
	}
	return b
}

func (s *openSpec) bytes() []byte {
	var payload []byte
	if s.errBody != nil {
		payload = s.errBody
	} else {
		payload = rawInitPayload(s.version, s.params)
		nh := len(s.params) + s.nhDelta
		if nh < 0 {
			nh = 0
		}
		binary.BigEndian.PutUint16(payload[2:], uint16(nh))
		payload = append(payload, s.junkIn...)
	}
	b := rawFrameBytes(s.typ, s.id, payload)
	b[3] = s.res1
	copy(b[8:16], s.res8)
	if s.sizeFld >= 0 {
		binary.BigEndian.PutUint16(b, uint16(s.sizeFld))
	}
	return append(b, s.trailing...)
}

func genOpening(rng *rand.Rand, out bool) ([]byte, string) {
	want := byte(0x01)
	if out {
		want = 0x02
	}
	s := &openSpec{typ: want, id: uint32(pick(rng, 1, 1, 1, 0, 2, 7, 0xffffffff, int(rng.Uint32()))), version: 2, sizeFld: -1, res8: make([]byte, 8)}
	if out {
		s.id = 1
	} else if rng.Intn(4) == 0 {
		s.version = uint16(pick(rng, 2, 3, 65535, 2+rng.Intn(1000)))
	}
	hp := hsHostPorts[rng.Intn(len(hsHostPorts))]
	switch rng.Intn(12) {
	case 0:
		hp = strings.Repeat("h", pick(rng, 300, 5000, 60000)) + pickStr(rng, "", ":0", ":1")
	case 1:
		hp = fmt.Sprintf("10.%d.%d.%d:%d", rng.Intn(256), rng.Intn(256), rng.Intn(256), rng.Intn(65536))
	}
	pn := pickStr(rng, "p", "", "raw-peer", strings.Repeat("n", 300))
	s.params = [][2]string{{"host_port", hp}, {"process_name", pn}}
	if rng.Intn(2) == 0 {
		s.params = append(s.params, [2]string{"tchannel_language", pickStr(rng, "spec", "", "go")})
	}
	if rng.Intn(3) == 0 {
		s.params = append(s.params, [2]string{"tchannel_language_version", "1.0"}, [2]string{"tchannel_version", pickStr(rng, "9", "")})
	}
	if rng.Intn(4) == 0 {
		s.params = append(s.params, [2]string{pickStr(rng, "x", "", "Host_Port", "host_port ", "process_nam"), randAlpha(rng, rng.Intn(5))})
	}
	if rng.Intn(6) == 0 { // duplicate key: the last binding counts
		s.params = append(s.params, [2]string{"host_port", hsHostPorts[rng.Intn(len(hsHostPorts))]})
	}
	rng.Shuffle(len(s.params), func(i, j int) { s.params[i], s.params[j] = s.params[j], s.params[i] })
	if rng.Intn(5) == 0 {
		s.res1 = byte(rng.Intn(256))
		rng.Read(s.res8)
	}
	if rng.Intn(6) == 0 {
		s.junkIn = noPercent([]byte(randBytes(rng, 1+rng.Intn(6))))
	}
	labels := []string{}
	nmut := pick(rng, 0, 0, 0, 0, 0, 0, 0, 1, 1, 1, 1, 1, 1, 1, 1, 1, 2, 2, 2, 3)
	cut := -1
	for m := 0; m < nmut; m++ {
		switch k := rng.Intn(20); {
		case k < 3:
			if out {
				s.version = uint16(pick(rng, 0, 1, 3, 65535, rng.Intn(65536)))
			} else {
				s.version = uint16(pick(rng, 0, 1, 1, 0))
			}
			labels = append(labels, "version")
		case k < 6:
			drop := pickStr(rng, "host_port", "process_name", "both")
			var kept [][2]string
			for _, kv := range s.params {
				if kv[0] == drop || (drop == "both" && (kv[0] == "host_port" || kv[0] == "process_name")) {
					continue
				}
				kept = append(kept, kv)
			}
			s.params = kept
			labels = append(labels, "missing-"+drop)
		case k < 8:
			s.typ = byte(pick(rng, 1, 2, 3, 4, 0x13, 0x14, 0xc0, 0xd0, 0xd1, 0, 5, 0x7f, 0xfe, rng.Intn(256)))
			if s.typ == 0xff {
				s.typ = 0xfe
			}
			labels = append(labels, "type")
		case k < 10:
			s.typ = 0xff
			msg := randAlpha(rng, pick(rng, 0, 5, 40, 40, 40, 65400, 65460, 65491))
			s.errBody = rawErrorPayload(byte(pick(rng, 0, 1, 2, 3, 4, 5, 6, 7, 255, 100, 8)), make([]byte, 25), msg)
			if rng.Intn(5) == 0 {
				s.errBody = s.errBody[:rng.Intn(len(s.errBody)+1)]
				if rng.Intn(2) == 0 && len(s.errBody) > 28 {
					s.errBody = s.errBody[:28]
				}
			}
			labels = append(labels, "error-frame")
		case k < 12:
			if out {
				s.id = uint32(pick(rng, 0, 2, 0xffffffff, 0x01000000, int(rng.Uint32())))
				labels = append(labels, "id")
			} else {
				s.version = 1
				labels = append(labels, "version")
			}
		case k < 16:
			cut = -2 // chosen below, once the length is known
			labels = append(labels, "truncated")
		case k < 18:
			switch rng.Intn(3) {
			case 0:
				s.nhDelta = pick(rng, 1, 2, 60000, -1)
			case 1:
				s.errBody = noPercent([]byte(randBytes(rng, rng.Intn(4))))
			default:
				p := rawInitPayload(s.version, s.params)
				s.errBody = p[:len(p)-1-rng.Intn(len(p)-1)]
			}
			labels = append(labels, "body")
		case k < 19:
			s.sizeFld = pick(rng, 0, 1, 15, 16, 17, 65535, 20000)
			labels = append(labels, "sizefield")
		default:
			return noPercent([]byte(randBytes(rng, pick(rng, 0, 1, 15, 16, 17, 40, 200)))), "random-bytes"
		}
	}
	b := s.bytes()
	if cut == -2 {
		n := len(b) - len(s.trailing)
		c := pick(rng, 0, 0, 1, 2, 15, 16, 16, 17, n-1, n-1, rng.Intn(n))
		if c >= n {
			c = n - 1
		}
		b = b[:c]
	} else if rng.Intn(8) == 0 {
		// more bytes after the first frame: a ping req, or anything when the opening is not valid anyway
		b = append(b, rawFrameBytes(0xd0, 99, nil)...)
		labels = append(labels, "trailing-ping")
	}
	if len(labels) == 0 {
		labels = []string{"well-formed"}
	}
	return noPercent(b), strings.Join(labels, "+")
}

func pickStr(rng *rand.Rand, xs ...string) string { return xs[rng.Intn(len(xs))] }

func randAlpha(rng *rand.Rand, n int) string {
	b := make([]byte, n)
	for i := range b {
		b[i] = "abcdefghijklmnopqrstuvwxyz0123456789 :.-_"[rng.Intn(41)]
	}
	return string(b)
}

// ---------------------------------------------------------------- the statement's reading of an opening

type specOpen struct {
	complete bool // a complete frame is at the head of the stream
	typ      byte
	id       uint32
	version  uint16
	bodyOK   bool
	params   map[string]string // last binding wins
}

func specParseOpening(stream []byte) specOpen {
	var o specOpen
	if len(stream) < 16 {
		return o
	}
	size := int(binary.BigEndian.Uint16(stream))
	if size < 16 || len(stream) < size {
		return o
	}
	o.complete, o.typ, o.id = true, stream[2], binary.BigEndian.Uint32(stream[4:])
	p := stream[16:size]
	if len(p) < 4 {
		return o
	}
	o.version = binary.BigEndian.Uint16(p)
	n := int(binary.BigEndian.Uint16(p[2:]))
	p = p[4:]
	o.params = map[string]string{}
	rd := func() (string, bool) {
		if len(p) < 2 {
			return "", false
		}
		l := int(binary.BigEndian.Uint16(p))
		if len(p) < 2+l {
			return "", false
		}
		s := string(p[2 : 2+l])
		p = p[2+l:]
		return s, true
	}
	for i := 0; i < n; i++ {
		k, ok := rd()
		if !ok {
			return o
		}
		v, ok := rd()
		if !ok {
			return o
		}
		o.params[k] = v
	}
	o.bodyOK = true
	return o
}

// "an init request with version 2 or higher carrying host_port and process_name" /
// "an init response echoing the request's id with version 2 and those parameters"
func specValid(stream []byte, out bool) (bool, specOpen) {
	o := specParseOpening(stream)
	if !o.complete || !o.bodyOK {
		return false, o
	}
	_, hasHP := o.params["host_port"]
	_, hasPN := o.params["process_name"]
	if !hasHP || !hasPN {
		return false, o
	}
	if out {
		return o.typ == 0x02 && o.id == 1 && o.version == 2, o
	}
	return o.typ == 0x01 && o.version >= 2, o
}

func specEphemeral(hp string) bool {
	return hp == "" || hp == "0.0.0.0:0" || strings.HasSuffix(hp, ":0")
}

// ---------------------------------------------------------------- observation

type hsFrame struct {
	typ     byte
	id      uint32
	version int64 // init frames; -1 when the body does not parse
	params  [][2]string
	code    byte // error frames
	trZero  bool
	msg     []byte
	raw     []byte
}

func parseHsFrame(f *rawFrame) hsFrame {
	h := hsFrame{typ: f.Type, id: f.ID, raw: f.Payload, version: -1}
	switch f.Type {
	case 0x01, 0x02:
		if in, err := parseRawInit(f.Payload); err == nil {
			h.version = int64(in.Version)
			for k, v := range in.Params {
				h.params = append(h.params, [2]string{k, v})
			}
			sort.Slice(h.params, func(i, j int) bool { return h.params[i][0] < h.params[j][0] })
		}
	case 0xff:
		p := f.Payload
		if len(p) >= 28 && len(p) == 28+int(binary.BigEndian.Uint16(p[26:])) {
			h.version = 0
			h.code = p[0]
			h.trZero = bytes.Equal(p[1:26], make([]byte, 25))
			h.msg = p[28:]
		}
	}
	return h
}

func (h hsFrame) encode(canon func(string) string) []int64 {
	switch {
	case (h.typ == 0x01 || h.typ == 0x02) && h.version >= 0:
		o := []int64{int64(h.typ), int64(h.id), h.version, int64(len(h.params))}
		for _, kv := range h.params {
			o = putBytes(o, []byte(kv[0]))
			o = putBytes(o, []byte(canon(kv[1])))
		}
		return o
	case h.typ == 0xff && h.version >= 0:
		return putBytes([]int64{255, int64(h.id), int64(h.code), b2i(h.trZero)}, h.msg)
	}
	return putBytes([]int64{int64(h.typ), int64(h.id), -1}, h.raw)
}

type hsPeerEntry struct {
	hp  string
	out bool
}

type hsObs struct {
	accepted  bool
	callerErr error
	frames    []hsFrame
	closed    bool
	reset     bool
	nconns    int
	peers     []hsPeerEntry
	info      *tchannel.PeerInfo
	elapsed   time.Duration
	harness   string // harness-level failure (not a verdict about the library)
}

func peersOf(st *tchannel.RuntimeState) ([]hsPeerEntry, *tchannel.PeerInfo) {
	var ps []hsPeerEntry
	var info *tchannel.PeerInfo
	for hp, p := range st.RootPeers {
		for i := range p.InboundConnections {
			ps = append(ps, hsPeerEntry{hp, false})
			info = &p.InboundConnections[i].RemotePeer
		}
		for i := range p.OutboundConnections {
			ps = append(ps, hsPeerEntry{hp, true})
			info = &p.OutboundConnections[i].RemotePeer
		}
	}
	return ps, info
}

// readUntilQuiet reads frames from the socket until it is closed by the other side, a
// frame of type stopAt arrives, or nothing arrives for the given time.
func readUntilQuiet(c net.Conn, wait time.Duration, stopAt byte, ob *hsObs) {
	for {
		f, err := readRawFrame(c, wait)
		if err != nil {
			if ne, ok := err.(net.Error); ok && ne.Timeout() {
				return
			}
			ob.closed = true
			if err != io.EOF && err != io.ErrUnexpectedEOF {
				ob.reset = true
			}
			if err == io.ErrUnexpectedEOF || (f != nil && err != io.EOF && f.Size < 16) {
				ob.harness = "peer received a partial frame: " + err.Error()
			}
			return
		}
		if f.Type == 0xd1 { // answer to a trailing ping req: the connection is in use already
			continue
		}
		ob.frames = append(ob.frames, parseHsFrame(f))
		if f.Type == stopAt {
			return
		}
	}
}

func newHsChannel(cs *hsCase) (*tchannel.Channel, error) {
	pn := "verif-c13"
	if cs.longProc > 0 {
		pn = strings.Repeat("P", cs.longProc)
	}
	return tchannel.NewChannel("verif-c13-svc", &tchannel.ChannelOptions{ProcessName: pn})
}

func waitConns(ch *tchannel.Channel, n, npeer int, d time.Duration) *tchannel.RuntimeState {
	end := time.Now().Add(d)
	for {
		st := ch.IntrospectState(nil)
		ps, _ := peersOf(st)
		if (st.NumConnections >= n && len(ps) >= npeer) || time.Now().After(end) {
			return st
		}
		time.Sleep(time.Millisecond)
	}
}

// inbound: the raw peer connects and sends the opening.  ch == nil: a fresh channel per case.
func runInbound(cs *hsCase, ch *tchannel.Channel, keep *[]net.Conn) (ob hsObs, local tchannel.LocalPeerInfo, sock string) {
	own := ch == nil
	if own {
		var err error
		if ch, err = newHsChannel(cs); err != nil {
			ob.harness = "NewChannel: " + err.Error()
			return
		}
		defer ch.Close()
	}
	var addr string
	if cs.viaServe {
		if own {
			if err := ch.ListenAndServe("127.0.0.1:0"); err != nil {
				ob.harness = "ListenAndServe: " + err.Error()
				return
			}
		}
		addr = ch.PeerInfo().HostPort
	} else {
		ln, err := net.Listen("tcp", "127.0.0.1:0")
		if err != nil {
			ob.harness = "listen: " + err.Error()
			return
		}
		defer ln.Close()
		addr = ln.Addr().String()
		go func() {
			c, err := ln.Accept()
			if err != nil {
				return
			}
			ctx, cancel := context.WithTimeout(context.Background(), cs.deadline)
			defer cancel()
			ch.VerifServeConn(ctx, c)
		}()
	}
	local = ch.PeerInfo()
	st0 := ch.IntrospectState(nil)
	before := st0.NumConnections
	peersBefore, _ := peersOf(st0)
	t0 := time.Now()
	c, err := net.Dial("tcp", addr)
	if err != nil {
		ob.harness = "dial: " + err.Error()
		return
	}
	sock = c.LocalAddr().String()
	if keep != nil {
		*keep = append(*keep, c)
	} else {
		defer c.Close()
	}
	if len(cs.stream) > 0 {
		c.SetWriteDeadline(time.Now().Add(2 * time.Second))
		if _, err := c.Write(cs.stream); err != nil {
			ob.harness = "write opening: " + err.Error()
			return
		}
	}
	if cs.closed {
		c.(*net.TCPConn).CloseWrite()
	}
	readUntilQuiet(c, cs.deadline+2*time.Second, 0x02, &ob)
	ob.elapsed = time.Since(t0)
	if n := len(ob.frames); n > 0 && ob.frames[n-1].typ == 0x02 && !ob.closed {
		ob.accepted = true
		st := waitConns(ch, before+1, len(peersBefore)+1, time.Second)
		readUntilQuiet(c, 30*time.Millisecond, 0, &ob)
		ob.nconns = st.NumConnections - before
		ob.peers, ob.info = peersOf(st)
	} else {
		st := ch.IntrospectState(nil)
		ob.nconns = st.NumConnections - before
		ob.peers, _ = peersOf(st)
	}
	return
}

// outbound: the channel connects to a raw listener that answers the init req with the opening.
func runOutbound(cs *hsCase, ch *tchannel.Channel, keep *[]net.Conn) (ob hsObs, local tchannel.LocalPeerInfo, sock string) {
	own := ch == nil
	if own {
		var err error
		if ch, err = newHsChannel(cs); err != nil {
			ob.harness = "NewChannel: " + err.Error()
			return
		}
		defer ch.Close()
		if cs.listening {
			if err := ch.ListenAndServe("127.0.0.1:0"); err != nil {
				ob.harness = "ListenAndServe: " + err.Error()
				return
			}
		}
	}
	local = ch.PeerInfo()
	before := ch.IntrospectState(nil).NumConnections
	ln, err := net.Listen("tcp", "127.0.0.1:0")
	if err != nil {
		ob.harness = "listen: " + err.Error()
		return
	}
	defer ln.Close()
	sock = ln.Addr().String()
	connected := make(chan bool, 1)
	done := make(chan struct{})
	var pob hsObs
	go func() {
		defer close(done)
		c, err := ln.Accept()
		if err != nil {
			pob.harness = "accept: " + err.Error()
			return
		}
		if keep != nil {
			*keep = append(*keep, c)
		} else {
			defer c.Close()
		}
		f, err := readRawFrame(c, 2*time.Second)
		if err != nil {
			if f == nil {
				pob.closed = err == io.EOF
				pob.harness = "no init req received: " + err.Error()
				return
			}
			pob.harness = "init req unreadable: " + err.Error()
			return
		}
		pob.frames = append(pob.frames, parseHsFrame(f))
		if len(cs.stream) > 0 {
			c.SetWriteDeadline(time.Now().Add(2 * time.Second))
			c.Write(cs.stream) // fails only when the other side has closed already, which is observed below
		}
		if cs.closed {
			c.(*net.TCPConn).CloseWrite()
		}
		ok := <-connected
		if ok {
			readUntilQuiet(c, 30*time.Millisecond, 0, &pob)
		} else {
			readUntilQuiet(c, 2*time.Second, 0, &pob)
		}
	}()
	cb := tchannel.NewContextBuilder(cs.deadline)
	if cs.hide {
		cb.HideListeningOnOutbound()
	}
	ctx, cancel := cb.Build()
	defer cancel()
	t0 := time.Now()
	conn, cerr := ch.Connect(ctx, sock)
	ob.elapsed = time.Since(t0)
	st := ch.IntrospectState(nil) // before the raw peer goes away
	connected <- conn != nil
	<-done
	ob.frames, ob.closed, ob.reset, ob.harness = pob.frames, pob.closed, pob.reset, pob.harness
	ob.accepted, ob.callerErr = conn != nil, cerr
	ob.nconns = st.NumConnections - before
	ob.peers, _ = peersOf(st)
	if conn != nil {
		pi := conn.RemotePeerInfo()
		ob.info = &pi
	}
	return
}

// ---------------------------------------------------------------- encoding

func hsCanon(local tchannel.LocalPeerInfo, sock, sockName string) func(string) string {
	return func(s string) string {
		if s == sock && sock != "" {
			return sockName
		}
		if s == local.HostPort && !specEphemeral(s) {
			return hsLocal
		}
		return s
	}
}

func hsModelInput(cs *hsCase, local tchannel.LocalPeerInfo, canon func(string) string) []int64 {
	in := []int64{b2i(cs.closed)}
	in = putBytes(in, []byte(canon(local.HostPort)))
	in = putBytes(in, []byte(local.ProcessName))
	in = putBytes(in, []byte(local.Version.Language))
	in = putBytes(in, []byte(local.Version.LanguageVersion))
	in = putBytes(in, []byte(local.Version.TChannelVersion))
	in = append(in, b2i(cs.hide))
	in = putBytes(in, []byte(cs.sockName))
	return putBytes(in, cs.stream)
}

func encodePeers(ps []hsPeerEntry, canon func(string) string) []int64 {
	es := make([]hsPeerEntry, len(ps))
	for i, p := range ps {
		es[i] = hsPeerEntry{canon(p.hp), p.out}
	}
	sort.Slice(es, func(i, j int) bool {
		if es[i].hp != es[j].hp {
			return es[i].hp < es[j].hp
		}
		return !es[i].out && es[j].out
	})
	o := []int64{int64(len(es))}
	for _, e := range es {
		o = putBytes(o, []byte(e.hp))
		o = append(o, b2i(e.out))
	}
	return o
}

func hsEncodeObs(cs *hsCase, ob *hsObs, canon func(string) string) []int64 {
	o := []int64{b2i(ob.accepted)}
	if cs.out {
		if ob.callerErr == nil {
			o = append(o, 0, 0, 0, 0)
		} else {
			se, isSys := ob.callerErr.(tchannel.SystemError)
			code := int64(0)
			if isSys {
				code = int64(se.Code())
			}
			o = putBytes(append(o, 1, b2i(isSys), code), []byte(ob.callerErr.Error()))
		}
	}
	o = append(o, int64(len(ob.frames)))
	for _, f := range ob.frames {
		o = append(o, f.encode(canon)...)
	}
	o = append(o, b2i(ob.closed), int64(ob.nconns))
	o = append(o, encodePeers(ob.peers, canon)...)
	if ob.accepted && ob.info != nil {
		o = putBytes(o, []byte(canon(ob.info.HostPort)))
		o = putBytes(o, []byte(ob.info.ProcessName))
		o = append(o, b2i(ob.info.IsEphemeral))
		o = putBytes(o, []byte(ob.info.Version.Language))
		o = putBytes(o, []byte(ob.info.Version.LanguageVersion))
		o = putBytes(o, []byte(ob.info.Version.TChannelVersion))
	}
	return o
}

// ---------------------------------------------------------------- oracle (from the property statement)

func hsOracle(cs *hsCase, ob *hsObs, sock string) string {
	if ob.harness != "" {
		return "harness: " + ob.harness
	}
	valid, so := specValid(cs.stream, cs.out)
	if cs.longProc > 0 {
		valid = false // the channel under test cannot even write its own init message
	}
	dir := "inbound"
	if cs.out {
		dir = "outbound"
	}
	var errFrame *hsFrame
	for i := range ob.frames {
		if ob.frames[i].typ == 0xff {
			errFrame = &ob.frames[i]
		}
	}
	if valid != ob.accepted {
		return fmt.Sprintf("%s opening [%s] valid=%v per the statement but activated=%v", dir, cs.label, valid, ob.accepted)
	}
	if !valid {
		switch {
		case cs.out && ob.callerErr == nil:
			return dir + " invalid opening [" + cs.label + "]: Connect returned no error"
		case !ob.closed:
			return fmt.Sprintf("%s invalid opening [%s]: the socket was not closed (waited %v, handshake deadline %v)", dir, cs.label, cs.deadline+2*time.Second, cs.deadline)
		case !cs.out && (errFrame == nil || errFrame.version < 0):
			tag := ""
			if !so.complete && !cs.closed {
				tag = "[c13:timeout-error-frame-lost] " // fixed in the library: see known_findings.json
			} else if so.complete && so.typ == 0xff {
				tag = "[c13:oversize-error-echo] " // fixed in the library: see known_findings.json
			}
			return tag + dir + " invalid opening [" + cs.label + "]: the peer received no (well-formed) error frame"
		case ob.nconns != 0 || len(ob.peers) != 0:
			return fmt.Sprintf("%s invalid opening [%s]: %d connection(s) and %d peer connection(s) registered", dir, cs.label, ob.nconns, len(ob.peers))
		}
		return ""
	}
	if ob.closed {
		return dir + " valid opening: the socket was closed"
	}
	if cs.out && ob.callerErr != nil {
		return dir + " valid opening: Connect returned " + ob.callerErr.Error()
	}
	if errFrame != nil {
		return dir + " valid opening: an error frame was sent"
	}
	if !cs.out {
		var res *hsFrame
		for i := range ob.frames {
			if ob.frames[i].typ == 0x02 {
				res = &ob.frames[i]
			}
		}
		if res == nil || res.version != 2 || res.id != so.id {
			return "inbound valid opening: init res must echo the id with version 2"
		}
		has := map[string]bool{}
		for _, kv := range res.params {
			has[kv[0]] = true
		}
		if !has["host_port"] || !has["process_name"] {
			return "inbound valid opening: init res lacks host_port/process_name"
		}
	}
	if ob.nconns != 1 {
		return fmt.Sprintf("%s valid opening: %d connections registered with the channel", dir, ob.nconns)
	}
	if ob.info == nil {
		return dir + " valid opening: the connection is listed under no peer"
	}
	ann := so.params["host_port"]
	wantHP, wantEph := ann, false
	if specEphemeral(ann) {
		wantHP, wantEph = sock, true
	}
	if ob.info.HostPort != wantHP || ob.info.IsEphemeral != wantEph || ob.info.ProcessName != so.params["process_name"] {
		return fmt.Sprintf("%s valid opening announcing host_port %q: peer identified as %q ephemeral=%v (socket %s)", dir, ann, ob.info.HostPort, ob.info.IsEphemeral, sock)
	}
	listed := false
	for _, p := range ob.peers {
		if p.hp == wantHP && p.out == cs.out {
			listed = true
		}
	}
	if !listed {
		return dir + " valid opening: the connection is not listed under its peer " + wantHP
	}
	return ""
}

// ---------------------------------------------------------------- engine

type hsResult struct {
	in, obs []int64
	verdict string
	ob      hsObs
}

func runHsCase(cs *hsCase) hsResult {
	var ob hsObs
	var local tchannel.LocalPeerInfo
	var sock string
	if cs.out {
		ob, local, sock = runOutbound(cs, nil, nil)
	} else {
		ob, local, sock = runInbound(cs, nil, nil)
	}
	canon := hsCanon(local, sock, cs.sockName)
	return hsResult{in: hsModelInput(cs, local, canon), obs: hsEncodeObs(cs, &ob, canon), verdict: hsOracle(cs, &ob, sock), ob: ob}
}

const hsShortDeadline = 80 * time.Millisecond
const hsSlack = 600 * time.Millisecond

func genHsCase(rng *rand.Rand, out bool) *hsCase {
	cs := &hsCase{out: out, sockName: hsSock, deadline: 2 * time.Second}
	cs.stream, cs.label = genOpening(rng, out)
	valid, so := specValid(cs.stream, out)
	// a valid opening is followed by silence (the connection is then in use); anything else
	// by silence or by the peer closing its side
	if !valid {
		cs.closed = rng.Intn(2) == 0
	}
	if !so.complete && !cs.closed {
		cs.deadline = hsShortDeadline // the handshake can only end by its deadline
	}
	if out {
		cs.listening = rng.Intn(4) == 0
		cs.hide = rng.Intn(4) == 0
	} else {
		cs.viaServe = cs.deadline != hsShortDeadline && rng.Intn(2) == 0
	}
	if rng.Intn(60) == 0 {
		cs.longProc = pick(rng, 65530, 70000)
	}
	return cs
}

func engineHandshake(rng *rand.Rand, n int, tier string, o *Out) {
	nHist := n / 40
	nCases := n - nHist
	cases := make([]*hsCase, nCases)
	for i := range cases {
		cases[i] = genHsCase(rng, i%2 == 1)
	}
	// the default deadline of the real accept loop (5 s): a silent peer, a half-sent frame
	nDefault := 2
	if tier != "quick" {
		nDefault = 6
	}
	for i := 0; i < nDefault && i < nCases; i++ {
		cs := &hsCase{sockName: hsSock, viaServe: true, deadline: 5 * time.Second, label: "default-deadline"}
		if i%2 == 1 {
			full, _ := genOpening(rand.New(rand.NewSource(int64(i))), false)
			if len(full) > 20 {
				cs.stream = full[:20]
			}
		}
		cases[i*2] = cs
	}
	hists := make([][]*hsCase, nHist)
	for i := range hists {
		k := 3 + rng.Intn(5)
		for j := 0; j < k; j++ {
			cs := genHsCase(rng, rng.Intn(2) == 0)
			cs.longProc, cs.listening, cs.hide, cs.viaServe = 0, true, false, true
			cs.sockName = fmt.Sprintf("%s%d", hsSock, j)
			if v, so := specValid(cs.stream, cs.out); !v && !so.complete {
				if cs.out {
					cs.deadline = hsShortDeadline
				} else {
					cs.closed, cs.deadline = true, 2*time.Second // the accept loop would wait 5 s
				}
			}
			hists[i] = append(hists[i], cs)
		}
	}

	results := make([]hsResult, nCases)
	histRes := make([]hsResult, nHist)
	var wg sync.WaitGroup
	work := make(chan int, nCases+nHist)
	for i := 0; i < nCases+nHist; i++ {
		work <- i
	}
	close(work)
	for w := 0; w < 16; w++ {
		wg.Add(1)
		go func() {
			defer wg.Done()
			for i := range work {
				if i < nCases {
					results[i] = runHsCase(cases[i])
				} else {
					histRes[i-nCases] = runHsHistory(hists[i-nCases])
				}
			}
		}()
	}
	wg.Wait()

	lateChecked := 0
	for i, cs := range cases {
		r := results[i]
		// timing: a handshake that can only end by its deadline must end by it.  Never alarm
		// on one sample: the first few late cases are run twice more and reported only when
		// late 3 times out of 3.
		if r.verdict == "" && !cs.closed && cs.deadline != 2*time.Second && r.ob.elapsed > cs.deadline+hsSlack && lateChecked < 3 {
			lateChecked++
			late := 1
			for try := 0; try < 2 && r.ob.elapsed > cs.deadline+hsSlack; try++ {
				r = runHsCase(cs)
				if r.ob.elapsed > cs.deadline+hsSlack {
					late++
				}
			}
			if late == 3 {
				r.verdict = fmt.Sprintf("silent peer [%s]: handshake ended only %v after it began, its deadline was %v (3 of 3 runs)", cs.label, r.ob.elapsed, cs.deadline)
			}
		}
		sub := "hs_in"
		if cs.out {
			sub = "hs_out"
		}
		end := "silent"
		if cs.closed {
			end = "closes"
		}
		o.Hist(sub + ":" + cs.label)
		o.Hist(sub + ":peer-" + end)
		o.Hist(fmt.Sprintf("%s:accepted=%v", sub, r.ob.accepted))
		if i < 6 && i%2 == 1 || (i > 6 && i < 12 && i%2 == 0) {
			o.Sample(map[string]interface{}{"sub": sub, "opening": cs.label, "bytes": len(cs.stream), "peer_then": end,
				"accepted": r.ob.accepted, "frames_seen_by_peer": len(r.ob.frames), "socket_closed": r.ob.closed, "connections": r.ob.nconns})
		}
		o.Case(sub, fmt.Sprintf("%s%d", sub, i), r.in, r.obs, true, r.verdict)
	}
	for i, r := range histRes {
		o.Hist(fmt.Sprintf("hs_hist:len=%d", len(hists[i])))
		o.Case("hs_hist", fmt.Sprintf("hist%d", i), r.in, r.obs, true, r.verdict)
	}
}

// a history of handshakes in both directions on one listening channel; accepted
// connections stay open until the end
func runHsHistory(atts []*hsCase) hsResult {
	var res hsResult
	ch, err := newHsChannel(&hsCase{})
	if err != nil {
		res.verdict = "harness: " + err.Error()
		return res
	}
	defer ch.Close()
	if err := ch.ListenAndServe("127.0.0.1:0"); err != nil {
		res.verdict = "harness: " + err.Error()
		return res
	}
	var keep []net.Conn
	defer func() {
		for _, c := range keep {
			c.Close()
		}
	}()
	local := ch.PeerInfo()
	names := map[string]string{}
	in := []int64{int64(len(atts))}
	wantConns, closed := 0, 0
	for _, cs := range atts {
		var ob hsObs
		var sock string
		if cs.out {
			ob, _, sock = runOutbound(cs, ch, &keep)
		} else {
			ob, _, sock = runInbound(cs, ch, &keep)
		}
		if ob.harness != "" {
			res.verdict = "harness: " + ob.harness
			return res
		}
		names[sock] = cs.sockName
		if ob.closed {
			closed++
		}
		if v, _ := specValid(cs.stream, cs.out); v {
			wantConns++
		}
		canon := func(s string) string {
			if s == local.HostPort {
				return hsLocal
			}
			return s
		}
		in = append(in, b2i(cs.out))
		in = append(in, hsModelInput(cs, local, canon)...)
	}
	st := ch.IntrospectState(nil)
	ps, _ := peersOf(st)
	canon := func(s string) string {
		if n, ok := names[s]; ok {
			return n
		}
		if s == local.HostPort {
			return hsLocal
		}
		return s
	}
	res.in = in
	res.obs = append([]int64{int64(st.NumConnections), int64(closed)}, encodePeers(ps, canon)...)
	if st.NumConnections != wantConns || closed != len(atts)-wantConns || len(ps) < wantConns {
		res.verdict = fmt.Sprintf("after %d handshakes with %d valid openings: %d connections, %d peer connections, %d sockets closed", len(atts), wantConns, st.NumConnections, len(ps), closed)
	}
	return res
}
