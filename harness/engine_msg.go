package main

import (
	"fmt"
	"math/rand"
	"sort"
	"strings"
	"time"

	tchannel "github.com/uber/tchannel-go"
	"github.com/uber/tchannel-go/typed"
)

func init() { engines["msg"] = engineMsg }

func randBytes(rng *rand.Rand, n int) string {
	b := make([]byte, n)
	for i := range b {
		b[i] = byte(rng.Intn(256))
	}
	return string(b)
}

func pick(rng *rand.Rand, xs ...int) int { return xs[rng.Intn(len(xs))] }

func randSpan(rng *rand.Rand) [4]uint64 {
	switch rng.Intn(4) {
	case 0:
		return [4]uint64{0, 0, 0, 0}
	case 1:
		return [4]uint64{^uint64(0), ^uint64(0), ^uint64(0), 255}
	default:
		return [4]uint64{rng.Uint64(), rng.Uint64(), rng.Uint64(), uint64(rng.Intn(256))}
	}
}

func encStatus(err error) int64 {
	switch {
	case err == nil:
		return 0
	case err == typed.ErrBufferFull:
		return 1
	case err.Error() == "string is too long":
		return 2
	}
	return 9
}

// order in which a Go map was emitted, recovered from the bytes with a tiny parser
func emittedOrder(b []byte, lenBytes int, count int) [][2]string {
	var out [][2]string
	rd := func() string {
		if len(b) < lenBytes {
			return ""
		}
		n := int(b[0])
		if lenBytes == 2 {
			n = int(b[0])<<8 | int(b[1])
		}
		b = b[lenBytes:]
		if len(b) < n {
			return ""
		}
		s := string(b[:n])
		b = b[n:]
		return s
	}
	for i := 0; i < count; i++ {
		k := rd()
		v := rd()
		out = append(out, [2]string{k, v})
	}
	return out
}

func putKVs(dst []int64, kvs [][2]string) []int64 {
	dst = append(dst, int64(len(kvs)))
	for _, kv := range kvs {
		dst = putBytes(dst, []byte(kv[0]))
		dst = putBytes(dst, []byte(kv[1]))
	}
	return dst
}

func sortedKVs(m map[string]string) [][2]string {
	keys := make([]string, 0, len(m))
	for k := range m {
		keys = append(keys, k)
	}
	sort.Strings(keys)
	out := make([][2]string, 0, len(m))
	for _, k := range keys {
		out = append(out, [2]string{k, m[k]})
	}
	return out
}

func genMap(rng *rand.Rand, maxLen int, n int) map[string]string {
	m := map[string]string{}
	last := ""
	for i := 0; i < n; i++ {
		kl := pick(rng, 0, 1, 2, 3, 8, 16)
		vl := pick(rng, 0, 1, 5, 20)
		if rng.Intn(20) == 0 && n <= 5 { // boundary-length values only in small maps (model cost is quadratic)
			vl = maxLen
		}
		k := fmt.Sprintf("%d", i) + randBytes(rng, kl)
		m[k] = randBytes(rng, vl)
		last = k
	}
	if n > 0 && rng.Intn(5) == 0 {
		// a zero-length key is a valid string of the protocol; it replaces the last key so
		// that the map keeps exactly n entries (the count limits are part of the domain)
		delete(m, last)
		m[""] = randBytes(rng, pick(rng, 0, 1, 5))
	}
	return m
}

func genMsg(rng *rand.Rand, kind int) *tchannel.VerifMsg {
	v := &tchannel.VerifMsg{Kind: kind, ID: uint32(pick(rng, 0, 1, 2, 0x7fffffff, 0xffffffff, rng.Intn(1<<31)))}
	v.Span = randSpan(rng)
	switch kind {
	case 0, 1:
		v.Version = uint16(pick(rng, 0, 1, 2, 3, 65535))
		v.Params = genMap(rng, 65535, pick(rng, 0, 1, 2, 5, 40))
		if rng.Intn(3) == 0 {
			v.Params["host_port"] = "127.0.0.1:4040"
			v.Params["process_name"] = "verif"
		}
	case 2:
		ms := int64(pick(rng, 0, 1, 1000, 1<<31, 1<<32-1, rng.Intn(1<<31)))
		v.TTL = time.Duration(ms) * time.Millisecond
		if rng.Intn(6) == 0 {
			v.TTL += time.Duration(rng.Intn(1000000)) // sub-millisecond part is truncated
		}
		v.Service = randBytes(rng, pick(rng, 0, 1, 7, 254, 255))
		v.Headers = genMap(rng, 255, pick(rng, 0, 1, 2, 16, 100, 255))
	case 3:
		v.Code = byte(pick(rng, 0, 1, 2, 255))
		v.Headers = genMap(rng, 255, pick(rng, 0, 1, 2, 16))
	case 4:
		v.Code = byte(rng.Intn(256))
		v.Message = randBytes(rng, pick(rng, 0, 1, 255, 256, 1000, 65000))
	case 5:
		v.CancelTTL = uint32(pick(rng, 0, 1, 1<<31, 1<<32-1))
		v.Message = randBytes(rng, pick(rng, 0, 1, 255, 256, 1000))
	}
	return v
}

func msgInput(kind int, cap int, v *tchannel.VerifMsg, params, headers [][2]string) []int64 {
	in := []int64{int64(kind), int64(cap), int64(v.ID)}
	span := []int64{int64(v.Span[0]), int64(v.Span[1]), int64(v.Span[2]), int64(v.Span[3])}
	switch kind {
	case 0, 1:
		in = append(in, int64(v.Version))
		in = putKVs(in, params)
	case 2:
		in = append(in, int64(v.TTL))
		in = append(in, span...)
		in = putBytes(in, []byte(v.Service))
		in = putKVs(in, headers)
	case 3:
		in = append(in, int64(v.Code))
		in = append(in, span...)
		in = putKVs(in, headers)
	case 4:
		in = append(in, int64(v.Code))
		in = append(in, span...)
		in = putBytes(in, []byte(v.Message))
	case 5:
		in = append(in, int64(v.CancelTTL))
		in = append(in, span...)
		in = putBytes(in, []byte(v.Message))
	}
	return in
}

// uint64 values above MaxInt64 cannot travel as int64: the harness keeps spans below 2^63
// except for the all-ones pattern, which is sent as the three literals below.
func clampSpan(v *tchannel.VerifMsg) {
	for i := 0; i < 3; i++ {
		if v.Span[i] > 1<<63-1 {
			v.Span[i] = 1<<63 - 1
		}
	}
}

func decObs(kind int, v *tchannel.VerifMsg, rem int) []int64 {
	obs := []int64{0}
	span := []int64{int64(v.Span[0]), int64(v.Span[1]), int64(v.Span[2]), int64(v.Span[3])}
	switch kind {
	case 0, 1:
		obs = append(obs, int64(v.Version))
		obs = putKVs(obs, sortedKVs(v.Params))
	case 2:
		obs = append(obs, int64(v.TTL))
		obs = append(obs, span...)
		obs = putBytes(obs, []byte(v.Service))
		obs = putKVs(obs, sortedKVs(v.Headers))
		obs = append(obs, int64(rem))
	case 3:
		obs = append(obs, int64(v.Code))
		obs = append(obs, span...)
		obs = putKVs(obs, sortedKVs(v.Headers))
		obs = append(obs, int64(rem))
	case 4:
		obs = append(obs, int64(v.Code))
		obs = append(obs, span...)
		obs = putBytes(obs, []byte(v.Message))
	case 5:
		obs = append(obs, int64(v.CancelTTL))
		obs = append(obs, span...)
		obs = putBytes(obs, []byte(v.Message))
	}
	return obs
}

func engineMsg(rng *rand.Rand, n int, tier string, o *Out) {
	id := 0
	for c := 0; c < n; c++ {
		kind := rng.Intn(10)
		v := genMsg(rng, kind)
		clampSpan(v)
		cap := tchannel.MaxFramePayloadSize
		if rng.Intn(5) == 0 {
			cap = pick(rng, 0, 1, 4, 25, 29, 30, 31, 40, 64, 300, 1000)
		}
		// over-limit variants use at most one map entry so that the error kind does not
		// depend on map iteration order
		overlimit := rng.Intn(8) == 0
		if overlimit {
			switch kind {
			case 0, 1:
				v.Params = map[string]string{"k": randBytes(rng, pick(rng, 65535, 65536, 70000))}
				if rng.Intn(2) == 0 {
					v.Params = map[string]string{randBytes(rng, pick(rng, 65536, 65537)): "v"}
				}
			case 2:
				v.Headers = map[string]string{}
				if rng.Intn(2) == 0 {
					v.Service = randBytes(rng, pick(rng, 255, 256, 257, 511, 512))
				} else {
					v.Headers["k"] = randBytes(rng, pick(rng, 255, 256, 300))
				}
			case 3:
				v.Headers = map[string]string{randBytes(rng, pick(rng, 255, 256)): randBytes(rng, pick(rng, 1, 256))}
			case 4, 5:
				v.Message = randBytes(rng, pick(rng, 65000, 65490, 65491, 65492, 65535, 65536, 66000))
			}
		} else if cap != tchannel.MaxFramePayloadSize {
			if len(v.Params) > 1 {
				v.Params = map[string]string{"host_port": "1.2.3.4:5"}
			}
			if len(v.Headers) > 1 {
				v.Headers = map[string]string{"as": "raw"}
			}
		}
		frame, err := tchannel.VerifEncodeFrame(v, cap)
		st := encStatus(err)
		var params, headers [][2]string
		if err == nil {
			body := frame[16:]
			switch kind {
			case 0, 1:
				params = emittedOrder(body[4:], 2, len(v.Params))
			case 2:
				off := 4 + 25 + 1 + len(v.Service) + 1
				headers = emittedOrder(body[off:], 1, len(v.Headers))
			case 3:
				headers = emittedOrder(body[1+25+1:], 1, len(v.Headers))
			}
		} else {
			params, headers = sortedKVs(v.Params), sortedKVs(v.Headers)
		}
		in := msgInput(kind, cap, v, params, headers)
		obs := []int64{st}
		if err == nil {
			obs = putBytes(obs, frame)
		}
		verdict := ""
		if err == nil {
			// statement-level oracle: header carries exact size, type, id, zero reserved bytes
			want := []byte{byte(len(frame) >> 8), byte(len(frame))}
			types := []byte{1, 2, 3, 4, 0xff, 0xc0, 0xd0, 0xd1, 0x13, 0x14}
			if frame[0] != want[0] || frame[1] != want[1] {
				verdict = "frame header size differs from the number of bytes written"
			} else if frame[2] != types[kind] {
				verdict = fmt.Sprintf("frame type byte %#x for message kind %d", frame[2], kind)
			} else if uint32(frame[4])<<24|uint32(frame[5])<<16|uint32(frame[6])<<8|uint32(frame[7]) != v.ID {
				verdict = "frame id differs"
			} else if strings.Trim(string(frame[8:16]), "\x00") != "" || frame[3] != 0 {
				verdict = "reserved header bytes not zero"
			}
			// decode what was encoded: fields must come back
			back, _, derr := tchannel.VerifDecodePayload(kind, frame[16:])
			if derr != nil {
				verdict = "decoding the encoded message failed: " + derr.Error()
			} else if kind == 4 || kind == 5 {
				if back.Message != v.Message || back.Code != v.Code && kind == 4 {
					verdict = "error/cancel message did not round-trip"
				}
			} else if kind == 2 {
				if back.Service != v.Service || back.TTL != v.TTL/time.Millisecond*time.Millisecond || fmt.Sprint(sortedKVs(back.Headers)) != fmt.Sprint(sortedKVs(v.Headers)) || back.Span != v.Span {
					verdict = "call req did not round-trip"
				}
			} else if kind <= 1 {
				if back.Version != v.Version || fmt.Sprint(sortedKVs(back.Params)) != fmt.Sprint(sortedKVs(v.Params)) {
					verdict = "init message did not round-trip"
				}
			}
		} else if st == 9 {
			verdict = "unexpected encode error: " + err.Error()
		}
		o.Hist(fmt.Sprintf("enc kind=%d status=%d", kind, st))
		if c < 2 {
			o.Sample(map[string]interface{}{"sub": "msg_enc", "input": in[:min(len(in), 80)], "status": st})
		}
		o.Case("msg_enc", fmt.Sprintf("e%d", id), in, obs, true, verdict)
		id++

		// decode: the valid encoding, every/some prefixes, mutations, junk appended
		if err == nil && kind <= 5 {
			payload := frame[16:]
			var variants [][]byte
			variants = append(variants, payload)
			variants = append(variants, append(append([]byte{}, payload...), []byte(randBytes(rng, 1+rng.Intn(5)))...))
			cuts := 6
			if tier == "thorough" {
				cuts = 40
			}
			for k := 0; k < cuts && len(payload) > 0; k++ {
				variants = append(variants, payload[:rng.Intn(len(payload))])
			}
			// directed truncations: exactly in front of EVERY field of the layout (one-byte fields
			// included: span flags, service length, nh, header key / value lengths, codes) and one
			// byte into it -- "fails on every strict prefix" where only one-byte fields / empty
			// strings follow the cut is the case a missing sticky error of a single-byte read hides
			nPrefix := cuts
			if len(payload) == 0 {
				nPrefix = 0
			}
			for _, c := range c06MsgFieldCuts(kind, payload) {
				variants = append(variants, payload[:c])
				nPrefix++
			}
			for k := 0; k < 3 && len(payload) > 0; k++ { // (byte mutations come after the nPrefix prefixes)
				mut := append([]byte{}, payload...)
				mut[rng.Intn(min(len(mut), 40))] = byte(pick(rng, 0, 1, 2, 0x7f, 0x80, 0xfe, 0xff))
				variants = append(variants, mut)
			}
			for vi, p := range variants {
				back, rem, derr := tchannel.VerifDecodePayload(kind, p)
				in := []int64{int64(kind)}
				for _, b := range p {
					in = append(in, int64(b))
				}
				var obs []int64
				verdict := ""
				if derr != nil {
					obs = []int64{1}
				} else {
					if back.Span[0] > 1<<63-1 || back.Span[1] > 1<<63-1 || back.Span[2] > 1<<63-1 {
						continue // not representable in the int64 line format
					}
					obs = decObs(kind, back, rem)
				}
				if vi >= 2 && vi < 2+nPrefix && derr == nil && len(p) < len(payload) {
					verdict = fmt.Sprintf("strict prefix (%d of %d bytes) of a valid kind-%d message decoded without error: prefix %x", len(p), len(payload), kind, p[:min(len(p), 64)])
				}
				o.Hist(fmt.Sprintf("dec kind=%d err=%v", kind, derr != nil))
				o.Case("msg_dec", fmt.Sprintf("d%d", id), in, obs, true, verdict)
				id++
			}
			// Frame.ReadIn + Frame.read on a frame buffer holding stale bytes of an earlier,
			// longer message of the same kind: truncated payloads with a consistent header
			if kind <= 1 || kind == 4 || kind == 5 {
				stale := append([]byte{}, payload...)
				if len(stale) == 0 {
					stale = []byte{0xAA}
				}
				cutsF := []int{len(payload)}
				for k := 0; k < 4 && len(payload) > 0; k++ {
					cutsF = append(cutsF, len(payload)-1-rng.Intn(min(len(payload), 17)))
				}
				if rng.Intn(3) == 0 {
					cutsF = append(cutsF, 0)
				}
				for _, cut := range cutsF {
					stream := rawFrameBytes(frame[2], v.ID, payload[:cut])
					code, back, derr := tchannel.VerifFrameDecode(kind, stream, stale)
					in := []int64{int64(kind)}
					for _, b := range stream {
						in = append(in, int64(b))
					}
					obs := []int64{int64(code)}
					verdict := ""
					if code == 0 {
						if derr != nil {
							obs = append(obs, 1)
						} else {
							if back.Span[0] > 1<<63-1 || back.Span[1] > 1<<63-1 || back.Span[2] > 1<<63-1 {
								continue
							}
							obs = append(obs, decObs(kind, back, 0)...)
							if cut < len(payload) {
								verdict = fmt.Sprintf("Frame.read decoded a kind-%d message from a frame whose declared payload is a strict prefix (%d of %d bytes): it looked beyond the declared frame size", kind, cut, len(payload))
							}
						}
					}
					o.Hist(fmt.Sprintf("frame_dec kind=%d cut=%v err=%v", kind, cut < len(payload), derr != nil))
					o.Case("frame_dec", fmt.Sprintf("g%d", id), in, obs, true, verdict)
					id++
				}
			}
			// frame level: ReadIn on frame ++ junk, on prefixes, and with the size field mutated
			var streams [][]byte
			streams = append(streams, append(append([]byte{}, frame...), []byte(randBytes(rng, rng.Intn(4)))...))
			streams = append(streams, frame[:rng.Intn(len(frame))])
			mut := append([]byte{}, frame...)
			sz := pick(rng, 0, 1, 15, 16, 17, len(frame)-1, len(frame)+1, 65535)
			mut[0], mut[1] = byte(sz>>8), byte(sz)
			mut[3] = byte(pick(rng, 0, 0x55))
			streams = append(streams, mut)
			for si, s := range streams {
				if len(s) > 3000 && si > 0 && tier != "thorough" {
					continue
				}
				code, size, mt, res1, fid, pl, rest := tchannel.VerifReadFrame(s)
				in := make([]int64, len(s))
				for i, b := range s {
					in[i] = int64(b)
				}
				obs := []int64{int64(code)}
				verdict := ""
				if code == 0 {
					obs = append(obs, int64(size), int64(mt), int64(res1), int64(fid))
					obs = putBytes(obs, pl)
					obs = append(obs, int64(rest))
					if si == 0 && (string(pl) != string(frame[16:]) || rest != len(s)-len(frame)) {
						verdict = "ReadIn did not return exactly the frame's payload / consumed beyond the declared size"
					}
				} else if si == 0 {
					verdict = "ReadIn failed on a valid frame"
				}
				if si == 1 && code == 0 {
					verdict = "ReadIn accepted a truncated frame"
				}
				o.Hist(fmt.Sprintf("frame_in code=%d", code))
				o.Case("frame_in", fmt.Sprintf("f%d", id), in, obs, true, verdict)
				id++
			}
		}
	}
}

// c06MsgFieldCuts: the offsets at which a field of the message starts (from the layout of the
// protocol document: init version:2 nh:2 (k~2 v~2)*; call req ttl:4 tracing:8+8+8+1 service~1 nh:1
// (k~1 v~1)*; call res code:1 tracing nh:1 (k~1 v~1)*; error code:1 tracing message~2; cancel ttl:4
// tracing why~2), each also one byte further (inside a multi-byte field).  The NUMBER of cuts
// depends only on the kind, the number of map entries and the payload length (not on the order in
// which Go emitted the map): of the entries the first six and the last three are used, none when
// the payload is longer than 20000 bytes (model cost); a cut beyond the payload is the payload
// itself (no prefix: it carries no verdict).
func c06MsgFieldCuts(kind int, p []byte) []int {
	var starts []int
	pos := 0
	add := func(n int) { starts = append(starts, pos); pos += n }
	str := func(lenBytes int) {
		n := 0
		if pos+lenBytes <= len(p) {
			n = int(p[pos])
			if lenBytes == 2 {
				n = int(p[pos])<<8 | int(p[pos+1])
			}
		}
		add(lenBytes)
		add(n)
	}
	tracing := func() { add(8); add(8); add(8); add(1) }
	kvs := func(lenBytes int, count int) {
		for i := 0; i < count; i++ {
			mark := len(starts)
			str(lenBytes)
			str(lenBytes)
			if (i >= 6 && i < count-3) || len(p) > 20000 {
				starts = starts[:mark]
			}
		}
	}
	count := func(lenBytes int) int {
		n := 0
		if pos+lenBytes <= len(p) {
			n = int(p[pos])
			if lenBytes == 2 {
				n = int(p[pos])<<8 | int(p[pos+1])
			}
		}
		add(lenBytes)
		return n
	}
	switch kind {
	case 0, 1:
		add(2)
		kvs(2, count(2))
	case 2:
		add(4)
		tracing()
		str(1)
		kvs(1, count(1))
	case 3:
		add(1)
		tracing()
		kvs(1, count(1))
	case 4:
		add(1)
		tracing()
		str(2)
	case 5:
		add(4)
		tracing()
		str(2)
	}
	var cuts []int
	for _, s := range starts {
		for _, c := range []int{s, s + 1} {
			if c > len(p) {
				c = len(p)
			}
			cuts = append(cuts, c)
		}
	}
	return cuts
}

func min(a, b int) int {
	if a < b {
		return a
	}
	return b
}
