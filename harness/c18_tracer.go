package main

import (
	"fmt"
	"sort"
	"strconv"
	"sync"

	opentracing "github.com/opentracing/opentracing-go"
	"github.com/opentracing/opentracing-go/log"
	"github.com/opentracing/opentracing-go/mocktracer"
	tchannel "github.com/uber/tchannel-go"
)

// c18Tracer (C18, engines hdrpath / hdrseq): a real in-process OpenTracing tracer, small enough
// to be deterministic and to RECORD what it does to the carrier.
//
//   - TextMap / HTTPHeaders: Inject calls carrier.Set("<ns>-trace", id), ("<ns>-span", id), one
//     ("<ns>-bag-<k>", v) per baggage item in sorted order, then the pairs of `extra` verbatim
//     (keys chosen by the engine: empty, upper case, colliding with an application header ...);
//     with `mute` it sets nothing.  Every Set of the last Inject is kept in lastSets.
//     Extract reads the carrier with ForeachKey (kept in lastSeen) and fails with
//     ErrSpanContextNotFound unless both ids of ITS OWN namespace are present and numeric
//     (ErrSpanContextCorrupted when they are not numeric, or always with `corrupt`).
//   - "zipkin-span-format" (the library's private format for the frame's tracing field): only with
//     `zipkin`; then the callee creates its span from the frame and ExtractInboundSpan takes its
//     other branch.
//
// Ids are a per-tracer counter: a run is a function of the seed.
type c18Tracer struct {
	ns      string
	zipkin  bool
	corrupt bool

	mu        sync.Mutex
	next      uint64
	mute      bool
	extra     [][2]string
	lastSets  [][2]string
	injects   int
	extracts  int
	lastSeen  [][2]string
	lastExtOK bool
}

type c18SpanCtx struct {
	trace, span uint64
	baggage     map[string]string
}

func (c c18SpanCtx) ForeachBaggageItem(h func(k, v string) bool) {
	keys := make([]string, 0, len(c.baggage))
	for k := range c.baggage {
		keys = append(keys, k)
	}
	sort.Strings(keys)
	for _, k := range keys {
		if !h(k, c.baggage[k]) {
			return
		}
	}
}

type c18Span struct {
	tr  *c18Tracer
	mu  sync.Mutex
	ctx c18SpanCtx
}

func (s *c18Span) Finish()                                     {}
func (s *c18Span) FinishWithOptions(opentracing.FinishOptions) {}
func (s *c18Span) SetOperationName(string) opentracing.Span    { return s }
func (s *c18Span) SetTag(string, interface{}) opentracing.Span { return s }
func (s *c18Span) LogFields(...log.Field)                      {}
func (s *c18Span) LogKV(...interface{})                        {}
func (s *c18Span) LogEvent(string)                             {}
func (s *c18Span) LogEventWithPayload(string, interface{})     {}
func (s *c18Span) Log(opentracing.LogData)                     {}
func (s *c18Span) Tracer() opentracing.Tracer                  { return s.tr }
func (s *c18Span) BaggageItem(k string) string {
	s.mu.Lock()
	defer s.mu.Unlock()
	return s.ctx.baggage[k]
}
func (s *c18Span) SetBaggageItem(k, v string) opentracing.Span {
	s.mu.Lock()
	defer s.mu.Unlock()
	nb := map[string]string{}
	for a, b := range s.ctx.baggage {
		nb[a] = b
	}
	nb[k] = v
	s.ctx.baggage = nb
	return s
}
func (s *c18Span) Context() opentracing.SpanContext {
	s.mu.Lock()
	defer s.mu.Unlock()
	return s.ctx
}

func (t *c18Tracer) StartSpan(op string, opts ...opentracing.StartSpanOption) opentracing.Span {
	var so opentracing.StartSpanOptions
	for _, o := range opts {
		o.Apply(&so)
	}
	t.mu.Lock()
	t.next++
	id := t.next
	t.mu.Unlock()
	ctx := c18SpanCtx{trace: id, span: id}
	for _, ref := range so.References {
		if p, ok := ref.ReferencedContext.(c18SpanCtx); ok {
			ctx.trace = p.trace
			ctx.baggage = p.baggage
			break
		}
	}
	return &c18Span{tr: t, ctx: ctx}
}

type c18ZipkinWriter interface {
	SetTraceID(uint64)
	SetSpanID(uint64)
	SetParentID(uint64)
	SetFlags(byte)
}

type c18ZipkinReader interface {
	TraceID() uint64
	SpanID() uint64
}

const c18ZipkinFormat = "zipkin-span-format"

func (t *c18Tracer) Inject(sc opentracing.SpanContext, format interface{}, carrier interface{}) error {
	ctx, ok := sc.(c18SpanCtx)
	if !ok {
		return opentracing.ErrInvalidSpanContext
	}
	if f, isS := format.(string); isS && f == c18ZipkinFormat {
		w, ok := carrier.(c18ZipkinWriter)
		if !t.zipkin || !ok {
			return opentracing.ErrUnsupportedFormat
		}
		w.SetTraceID(ctx.trace)
		w.SetSpanID(ctx.span)
		w.SetParentID(0)
		w.SetFlags(1)
		return nil
	}
	if format != opentracing.TextMap && format != opentracing.HTTPHeaders {
		return opentracing.ErrUnsupportedFormat
	}
	w, ok := carrier.(opentracing.TextMapWriter)
	if !ok {
		return opentracing.ErrInvalidCarrier
	}
	t.mu.Lock()
	defer t.mu.Unlock()
	t.injects++
	t.lastSets = nil
	if t.mute {
		return nil
	}
	set := func(k, v string) {
		t.lastSets = append(t.lastSets, [2]string{k, v})
		w.Set(k, v)
	}
	set(t.ns+"-trace", strconv.FormatUint(ctx.trace, 10))
	set(t.ns+"-span", strconv.FormatUint(ctx.span, 10))
	ctx.ForeachBaggageItem(func(k, v string) bool {
		set(t.ns+"-bag-"+k, v)
		return true
	})
	for _, kv := range t.extra {
		set(kv[0], kv[1])
	}
	return nil
}

func (t *c18Tracer) Extract(format interface{}, carrier interface{}) (opentracing.SpanContext, error) {
	if f, isS := format.(string); isS && f == c18ZipkinFormat {
		r, ok := carrier.(c18ZipkinReader)
		if !t.zipkin || !ok {
			return nil, opentracing.ErrUnsupportedFormat
		}
		if r.TraceID() == 0 {
			return nil, opentracing.ErrSpanContextNotFound
		}
		return c18SpanCtx{trace: r.TraceID(), span: r.SpanID()}, nil
	}
	if format != opentracing.TextMap && format != opentracing.HTTPHeaders {
		return nil, opentracing.ErrUnsupportedFormat
	}
	r, ok := carrier.(opentracing.TextMapReader)
	if !ok {
		return nil, opentracing.ErrInvalidCarrier
	}
	t.mu.Lock()
	defer t.mu.Unlock()
	t.extracts++
	t.lastSeen = nil
	t.lastExtOK = false
	var ctx c18SpanCtx
	found, bad := 0, false
	r.ForeachKey(func(k, v string) error {
		t.lastSeen = append(t.lastSeen, [2]string{k, v})
		switch {
		case k == t.ns+"-trace" || k == t.ns+"-span":
			n, err := strconv.ParseUint(v, 10, 64)
			if err != nil {
				bad = true
				return nil
			}
			found++
			if k == t.ns+"-trace" {
				ctx.trace = n
			} else {
				ctx.span = n
			}
		case len(k) > len(t.ns)+5 && k[:len(t.ns)+5] == t.ns+"-bag-":
			if ctx.baggage == nil {
				ctx.baggage = map[string]string{}
			}
			ctx.baggage[k[len(t.ns)+5:]] = v
		}
		return nil
	})
	sort.Slice(t.lastSeen, func(i, j int) bool { return t.lastSeen[i][0] < t.lastSeen[j][0] })
	switch {
	case t.corrupt || bad:
		return nil, opentracing.ErrSpanContextCorrupted
	case found < 2:
		return nil, opentracing.ErrSpanContextNotFound
	}
	t.lastExtOK = true
	return ctx, nil
}

// snapshot of the last Inject / Extract.
func (t *c18Tracer) sets() [][2]string {
	t.mu.Lock()
	defer t.mu.Unlock()
	return append([][2]string(nil), t.lastSets...)
}

func (t *c18Tracer) plan(mute bool, extra [][2]string) {
	t.mu.Lock()
	defer t.mu.Unlock()
	t.mute, t.extra = mute, extra
	t.lastSets = nil
}

// ---------------------------------------------------------------- tracer configurations

// c18Side: one tracer configuration of a channel.
type c18Side struct {
	label string
	own   *c18Tracer             // nil: not a c18Tracer
	mock  *mocktracer.MockTracer // nil: not the mock tracer
}

func (s c18Side) tracer() opentracing.Tracer {
	switch {
	case s.own != nil:
		return s.own
	case s.mock != nil:
		return s.mock
	}
	return nil
}

func (s c18Side) opts() *tchannel.ChannelOptions {
	if tr := s.tracer(); tr != nil {
		return &tchannel.ChannelOptions{Tracer: tr}
	}
	return nil // the default: opentracing.GlobalTracer(), a no-op tracer
}

// callers: none, A (TextMap only), Z (namespace a, also the Zipkin frame format), M (mocktracer).
func c18CallerSides() []c18Side {
	return []c18Side{
		{label: "none"},
		{label: "A", own: &c18Tracer{ns: "a"}},
		{label: "Z", own: &c18Tracer{ns: "a", zipkin: true}},
		{label: "M", mock: mocktracer.New()},
	}
}

// callees: none, A (same namespace as callers A / Z: extraction succeeds), B (another tracer: it
// does not know the caller's keys), Z (span from the frame), M, C (extraction always fails as corrupted).
func c18CalleeSides() []c18Side {
	return []c18Side{
		{label: "none"},
		{label: "A", own: &c18Tracer{ns: "a"}},
		{label: "B", own: &c18Tracer{ns: "b"}},
		{label: "Z", own: &c18Tracer{ns: "a", zipkin: true}},
		{label: "M", mock: mocktracer.New()},
		{label: "C", own: &c18Tracer{ns: "a", corrupt: true}},
	}
}

// c18Class: the statement's five classes of tracer configuration.
func c18Class(caller, callee c18Side) string {
	cn, sn := caller.tracer() == nil, callee.tracer() == nil
	switch {
	case cn && sn:
		return "none"
	case sn:
		return "caller-only"
	case cn:
		return "callee-only"
	}
	same := (caller.mock != nil && callee.mock != nil) ||
		(caller.own != nil && callee.own != nil && caller.own.ns == callee.own.ns && !callee.own.corrupt)
	if same {
		return "both-same"
	}
	return "both-different"
}

const c18Prefix = "$tracing$"

func c18Reserved(k string) bool { return len(k) >= len(c18Prefix) && k[:len(c18Prefix)] == c18Prefix }

// c18LookalikeKeys: application header keys that look like transport keys.  reserved = with the
// exact prefix (the library hides them: known finding c18:reserved-tracing-prefix); the others
// are ordinary application keys and must arrive.
func c18LookalikeKeys(reserved bool, ns string, i int) string {
	if reserved {
		ks := []string{c18Prefix, c18Prefix + "x", c18Prefix + ns + "-trace", c18Prefix + ns + "-span", c18Prefix + ns + "-bag-k",
			c18Prefix + "mockpfx-ids-traceid", c18Prefix + c18Prefix, c18Prefix + "uber-trace-id", c18Prefix + " "}
		return ks[i%len(ks)]
	}
	ks := []string{"", "$", "$tracing", "$tracing$"[:8], "$Tracing$x", "$TRACING$", "tracing$", " $tracing$x", "x$tracing$",
		"$tracin$g$", ns + "-trace", ns + "-span", "mockpfx-ids-traceid", "uber-trace-id", "$tracing\x00$", "$$tracing$"}
	return ks[i%len(ks)]
}

func c18Label(caller, callee c18Side) string {
	return fmt.Sprintf("%s>%s", caller.label, callee.label)
}
