package main

import (
	"errors"
	"fmt"
	"math/rand"
	"sync"
	"time"

	tchannel "github.com/uber/tchannel-go"
	"github.com/uber/tchannel-go/json"
	"github.com/uber/tchannel-go/raw"
	"github.com/uber/tchannel-go/thrift"
	gen "github.com/uber/tchannel-go/thrift/gen-go/test"
	"golang.org/x/net/context"
)

// hdrseq (C18): SEQUENCES of thrift / JSON calls made with the SAME ContextWithHeaders.
//
// A context carries one header container {request headers, response headers}.  The statement
// says the headers attached to a call's context reach the handler exactly and the handler's
// response headers reach the caller; for a context that is used for several calls this means:
// after call k the context's response headers are exactly what the handler of call k set
// (the empty map and nil are the same) and nothing an earlier call left there, and the handler
// of call k sees exactly the request headers the caller attached last.
//
// One case = one sequence of operations on a stack of contexts (model: Model/HdrSlot.v, subs
// hdrseq / hdrseq_err):
//
//	0 variant h      ctx = WithHeaders(ctx, h)         (variant: which package's WithHeaders / nil map)
//	1                ctx = ctx.Child()  (pushed)
//	2                back to the parent context (popped; ignored at depth 1)
//	3 kind outcome variant resp
//	                 a call; kind 0 thrift (generated client -> thrift client.Call), 1 json.Client.Call,
//	                 2 json.CallPeer, 3 json.CallSC (both wrapCall); outcome 0 ok, 1 application error,
//	                 2 system error; resp = the response headers the handler sets (variant: set a map /
//	                 set nil / never call SetResponseHeaders)
//
// Observation after every operation: for a call [result, handler ran?, headers the handler saw],
// then for every operation ctx.Headers() and ctx.ResponseHeaders(), maps in canonical order.
// The oracle below is written from the statement and does not use the model.

func init() { engines["hdrseq"] = engineHdrSeq }

type hqPlan struct {
	outcome int
	variant int
	resp    map[string]string
}

type hqServer struct {
	mu     sync.Mutex
	plan   hqPlan
	calls  int
	seen   map[string]string
	format string
}

// record what the handler sees and apply the plan; returns the outcome to produce.
func (s *hqServer) enter(ctx tchannel.ContextWithHeaders) int {
	s.mu.Lock()
	defer s.mu.Unlock()
	s.calls++
	s.seen = map[string]string{}
	for k, v := range ctx.Headers() {
		s.seen[k] = v
	}
	s.format = ""
	if c := tchannel.CurrentCall(ctx); c != nil {
		s.format = string(c.CallOptions().Format)
	}
	switch s.plan.variant {
	case 0:
		ctx.SetResponseHeaders(s.plan.resp)
	case 1:
		ctx.SetResponseHeaders(nil)
	case 2:
		// the handler never touches the response headers
	}
	return s.plan.outcome
}

type hqSimple struct{ s *hqServer }

func (h hqSimple) Call(ctx thrift.Context, arg *gen.Data) (*gen.Data, error) { return arg, nil }
func (h hqSimple) SimpleFuture(ctx thrift.Context) error                     { return nil }
func (h hqSimple) Simple(ctx thrift.Context) error {
	switch h.s.enter(ctx) {
	case 1:
		return &gen.SimpleErr{Message: "app"}
	case 2:
		return tchannel.NewSystemError(tchannel.ErrCodeBadRequest, "sys")
	}
	return nil
}

// hqFmt: a header map for a verdict (bounded length).
func hqFmt(m map[string]string) string {
	if m == nil {
		return "nil"
	}
	out := fmt.Sprintf("{%d pairs:", len(m))
	for _, kv := range sortedKVs(m) {
		if len(out) > 90 {
			out += " ..."
			break
		}
		out += fmt.Sprintf(" %.12q=%.12q", kv[0], kv[1])
	}
	return out + "}"
}

func hqCopy(m map[string]string) map[string]string {
	out := map[string]string{}
	for k, v := range m {
		out[k] = v
	}
	return out
}

// hqGenMap: a header map from the palette {empty, 1 pair, several pairs, same keys as prev with
// other values, subset of prev, superset of prev}; jsonSafe = printable ASCII only.
func hqGenMap(rng *rand.Rand, prev map[string]string, jsonSafe bool) map[string]string {
	str := func(n int) string {
		if jsonSafe {
			return utf8Safe(rng, n)
		}
		return randBytes(rng, n)
	}
	m := map[string]string{}
	switch rng.Intn(8) {
	case 0, 1:
		// empty
	case 2:
		m["k"+str(pick(rng, 0, 1, 5))] = str(pick(rng, 0, 1, 8, 60))
	case 3:
		for i := pick(rng, 2, 3, 6, 12); i > 0; i-- {
			m[fmt.Sprintf("%d", i)+str(pick(rng, 0, 2, 9))] = str(pick(rng, 0, 1, 20, 300))
		}
	case 4: // same keys, different values
		for _, kv := range sortedKVs(prev) { // sorted: the rng is consumed in a fixed order
			m[kv[0]] = str(pick(rng, 0, 1, 7))
		}
	case 5: // subset
		for _, kv := range sortedKVs(prev) {
			if rng.Intn(2) == 0 {
				m[kv[0]] = kv[1]
			}
		}
	case 6: // superset
		for k, v := range prev {
			m[k] = v
		}
		m["x"+str(2)] = str(3)
	case 7: // fixed small keys: collisions between calls are likely
		for _, k := range []string{"a", "b", "shard"} {
			if rng.Intn(2) == 0 {
				m[k] = str(pick(rng, 0, 1, 2))
			}
		}
	}
	if rng.Intn(4) == 0 {
		// a key that LOOKS like a transport key (no exact "$tracing$" prefix): an ordinary application header
		m[c18LookalikeKeys(false, "a", rng.Intn(64))] = str(pick(rng, 0, 1, 5))
	}
	return m
}

type hqFrame struct {
	ctx      tchannel.ContextWithHeaders
	wantReq  map[string]string // what the caller attached to this context last
	wantResp map[string]string // what the last completed call's handler set (nil: none yet)
}

func hqObsMaps(dst []int64, ctx tchannel.ContextWithHeaders) []int64 {
	dst = putKVs(dst, sortedKVs(ctx.Headers()))
	return putKVs(dst, sortedKVs(ctx.ResponseHeaders()))
}

// hqEnvServer: one callee channel (one tracer configuration) with its handlers' state.
type hqEnvServer struct {
	side      c18Side
	name      string
	ch        *tchannel.Channel
	srv       *hqServer
	rawMu     sync.Mutex
	rawFormat string
	rawCalls  int
}

// hqEnv: one (caller channel, callee channel) pair.
type hqEnv struct {
	caller  c18Side
	server  *hqEnvServer
	client  *tchannel.Channel
	hp      string
	tclient gen.TChanSimpleService
	jclient *json.Client
	peer    *tchannel.Peer
	sc      *tchannel.SubChannel
}

func hqNewServer(i int, side c18Side) *hqEnvServer {
	es := &hqEnvServer{side: side, name: fmt.Sprintf("hs-server-%d", i), srv: &hqServer{}}
	server, err := tchannel.NewChannel(es.name, side.opts())
	if err != nil {
		panic(err)
	}
	if err := server.ListenAndServe("127.0.0.1:0"); err != nil {
		panic(err)
	}
	es.ch = server
	srv := es.srv
	thrift.NewServer(server).Register(gen.NewTChanSimpleServiceServer(hqSimple{srv}))
	json.Register(server, json.Handlers{
		"echo": func(ctx json.Context, arg map[string]string) (map[string]string, error) {
			switch srv.enter(ctx) {
			case 1:
				return nil, errors.New("app")
			case 2:
				return nil, tchannel.NewSystemError(tchannel.ErrCodeBadRequest, "sys")
			}
			return arg, nil
		},
	}, func(ctx context.Context, err error) {})

	// raw handler for the per-call transport state (arg scheme, application-error flag): echoes
	// arg2 / arg3; arg3 starting with 'E' => application error.
	server.Register(tchannel.HandlerFunc(func(ctx context.Context, call *tchannel.InboundCall) {
		a2, a3, err := raw.ReadArgsV2(call)
		if err != nil {
			return
		}
		es.rawMu.Lock()
		es.rawFormat, es.rawCalls = string(call.Format()), es.rawCalls+1
		es.rawMu.Unlock()
		if len(a3) > 0 && a3[0] == 'E' {
			call.Response().SetApplicationError()
		}
		tchannel.NewArgWriter(call.Response().Arg2Writer()).Write(a2)
		tchannel.NewArgWriter(call.Response().Arg3Writer()).Write(a3)
	}), "rawfmt")
	return es
}

func engineHdrSeq(rng *rand.Rand, n int, tier string, o *Out) {
	// one environment per tracer configuration (c18_tracer.go): 4 caller channels x 6 callee
	// channels.  The sequences, their model and their oracle are the same under every
	// configuration: tracing must be transparent for the application headers.
	var envServers []*hqEnvServer
	for i, side := range c18CalleeSides() {
		es := hqNewServer(i, side)
		defer es.ch.Close()
		envServers = append(envServers, es)
	}
	var envs []*hqEnv
	for _, side := range c18CallerSides() {
		client, err := tchannel.NewChannel("hs-client", side.opts())
		if err != nil {
			panic(err)
		}
		defer client.Close()
		for _, es := range envServers {
			hp := es.ch.PeerInfo().HostPort
			sc := client.GetSubChannel(es.name, tchannel.Isolated)
			sc.Peers().Add(hp)
			envs = append(envs, &hqEnv{
				caller: side, server: es, client: client, hp: hp,
				tclient: gen.NewTChanSimpleServiceClient(thrift.NewClient(client, es.name, &thrift.ClientOptions{HostPort: hp})),
				jclient: json.NewClient(client, es.name, &json.ClientOptions{HostPort: hp}),
				peer:    client.Peers().GetOrAdd(hp),
				sc:      sc,
			})
		}
	}
	// order of the environments: callee-major, so that consecutive cases change the caller
	freshKey := 0

	formats := []string{"thrift", "json", "json", "json"}

	rawFormats := []tchannel.Format{tchannel.Raw, tchannel.JSON, tchannel.Thrift, tchannel.HTTP, ""}

	for c := 0; c < n; c++ {
		env := envs[(c*7+c/len(envs))%len(envs)] // 7 is coprime to 24: every configuration in turn, with every case shape
		srv, client, hp := env.server.srv, env.client, env.hp
		tclient, jclient, peer, sc := env.tclient, env.jclient, env.peer, env.sc
		es := env.server
		if tr := env.caller.own; tr != nil {
			// the caller's tracer injects its ids and, in every third case, a key never used before
			var extra [][2]string
			if c%3 == 0 {
				freshKey++
				extra = append(extra, [2]string{fmt.Sprintf("seq-%d", freshKey), "v"})
			}
			tr.plan(c%11 == 10, extra)
		}
		if c%8 == 7 {
			// per-call transport state on a reused connection, context and handler: every call of the
			// sequence must show ITS OWN arg scheme (at the handler and on the response) and ITS OWN
			// application-error flag, not those of the call before
			ctx, cancel := tchannel.NewContext(20 * time.Second)
			nCalls := pick(rng, 2, 3, 4, 5)
			verdict, key := "", ""
			for k := 0; k < nCalls && verdict == ""; k++ {
				f := rawFormats[rng.Intn(len(rawFormats))]
				appErr := rng.Intn(2) == 0
				a3 := []byte("ok" + utf8Safe(rng, pick(rng, 0, 3, 40)))
				if appErr {
					a3[0] = 'E'
				}
				a2 := []byte(utf8Safe(rng, pick(rng, 0, 1, 30)))
				key += fmt.Sprintf("%s/%v/%d/%d ", f, appErr, len(a2), len(a3))
				es.rawMu.Lock()
				es.rawFormat, es.rawCalls = "?", 0
				es.rawMu.Unlock()
				call, err := client.BeginCall(ctx, hp, es.name, "rawfmt", &tchannel.CallOptions{Format: f})
				if err != nil {
					verdict = "raw call could not start: " + err.Error()
					break
				}
				r2, r3, resp, err := raw.WriteArgs(call, a2, a3)
				want := f // documented default: no Format => "raw"
				if want == "" {
					want = tchannel.Raw
				}
				es.rawMu.Lock()
				seenF, seenN := es.rawFormat, es.rawCalls
				es.rawMu.Unlock()
				switch {
				case err != nil:
					verdict = fmt.Sprintf("raw call %d failed: %v", k+1, err)
				case seenN != 1:
					verdict = fmt.Sprintf("raw call %d: the handler ran %d times", k+1, seenN)
				case seenF != string(want):
					verdict = fmt.Sprintf("raw call %d of a sequence on one connection: caller's arg scheme %q, the handler saw %q", k+1, want, seenF)
				case resp.Format() != want:
					verdict = fmt.Sprintf("raw call %d of a sequence on one connection: the call's arg scheme is %q, its response shows %q", k+1, want, resp.Format())
				case resp.ApplicationError() != appErr:
					verdict = fmt.Sprintf("raw call %d of a sequence on one connection: handler set application error = %v, the caller sees %v", k+1, appErr, resp.ApplicationError())
				case string(r2) != string(a2) || string(r3) != string(a3):
					verdict = fmt.Sprintf("raw call %d: arguments did not round-trip", k+1)
				}
			}
			cancel()
			o.Hist(fmt.Sprintf("raw-seq calls=%d", nCalls))
			o.Hist("tracers " + c18Class(env.caller, es.side))
			o.Oracle("hdrseq-raw", fmt.Sprintf("r%d", c), true, key, verdict)
			continue
		}
		// --- shape of the sequence
		mode := rng.Intn(4) // 0 thrift only (binary headers), 1 json only, 2/3 mixed
		withErr := rng.Intn(4) == 0
		jsonSafe := mode != 0
		nCalls := pick(rng, 2, 2, 3, 3, 4)
		if tier == "thorough" && rng.Intn(4) == 0 {
			nCalls = pick(rng, 5, 6, 8)
		}
		sub := "hdrseq"
		if withErr {
			sub = "hdrseq_err"
		}

		base, cancel := tchannel.NewContext(20 * time.Second)
		var first tchannel.ContextWithHeaders
		if rng.Intn(2) == 0 {
			first = thrift.Wrap(base)
		} else {
			first = json.Wrap(base)
		}
		stack := []*hqFrame{{ctx: first, wantReq: map[string]string{}}}
		var in, obs []int64
		nops := 0
		verdict := ""
		fail := func(f string, a ...interface{}) {
			if verdict == "" {
				verdict = fmt.Sprintf(f, a...)
			}
		}
		prevResp := map[string]string{}
		prevReq := map[string]string{}
		sawLeakShape := false // an emptier response after a fuller one on the same context

		for k := 0; k < nCalls; k++ {
			// --- context operations before the call
			for rng.Intn(5) < 2 {
				top := stack[len(stack)-1]
				switch r := rng.Intn(10); {
				case r < 6: // WithHeaders
					h := hqGenMap(rng, prevReq, jsonSafe)
					variant := rng.Intn(4)
					var arg map[string]string = h
					if len(h) == 0 && variant == 3 {
						arg = nil
					}
					var nc tchannel.ContextWithHeaders
					switch variant {
					case 0:
						nc = thrift.WithHeaders(top.ctx, arg)
					case 1:
						nc = json.WithHeaders(top.ctx, arg)
					default:
						nc = tchannel.WrapWithHeaders(top.ctx, arg)
					}
					top.ctx, top.wantReq, top.wantResp = nc, hqCopy(h), nil
					prevReq = h
					in = append(in, 0, int64(variant))
					in = putKVs(in, sortedKVs(h))
				case r < 8: // Child
					stack = append(stack, &hqFrame{ctx: top.ctx.Child(), wantReq: hqCopy(top.wantReq), wantResp: top.wantResp})
					in = append(in, 1)
				default: // back to the parent
					if len(stack) > 1 {
						stack = stack[:len(stack)-1]
					}
					in = append(in, 2)
				}
				nops++
				top = stack[len(stack)-1]
				obs = append(obs, 9)
				obs = hqObsMaps(obs, top.ctx)
				if !sameMap(top.ctx.Headers(), top.wantReq) {
					fail("op %d: the context's request headers are %s, the caller attached %s", nops, hqFmt(top.ctx.Headers()), hqFmt(top.wantReq))
				}
				if !sameMap(top.ctx.ResponseHeaders(), top.wantResp) {
					fail("op %d: the context's response headers are %s, expected %s (fresh container: none; child/parent: its own last response)", nops, hqFmt(top.ctx.ResponseHeaders()), hqFmt(top.wantResp))
				}
			}

			// --- the call
			top := stack[len(stack)-1]
			kind := 0
			switch mode {
			case 1:
				kind = 1 + rng.Intn(3)
			case 2, 3:
				kind = rng.Intn(4)
			}
			outcome := pick(rng, 0, 0, 0, 1)
			if withErr && rng.Intn(3) == 0 {
				outcome = 2
			}
			resp := hqGenMap(rng, prevResp, jsonSafe)
			variant := 0
			if len(resp) == 0 {
				variant = rng.Intn(3)
			}
			if len(resp) < len(prevResp) {
				sawLeakShape = true
			}
			srv.mu.Lock()
			srv.plan = hqPlan{outcome: outcome, variant: variant, resp: hqCopy(resp)}
			srv.calls, srv.seen, srv.format = 0, nil, ""
			srv.mu.Unlock()

			in = append(in, 3, int64(kind), int64(outcome), int64(variant))
			in = putKVs(in, sortedKVs(resp))
			nops++

			var cerr error
			switch kind {
			case 0:
				cerr = tclient.Simple(top.ctx)
			case 1:
				var out map[string]string
				cerr = jclient.Call(top.ctx, "echo", map[string]string{"a": "b"}, &out)
			case 2:
				var out map[string]string
				cerr = json.CallPeer(top.ctx, peer, es.name, "echo", map[string]string{"a": "b"}, &out)
			case 3:
				var out map[string]string
				cerr = json.CallSC(top.ctx, sc, "echo", map[string]string{"a": "b"}, &out)
			}
			result := 0
			switch e := cerr.(type) {
			case nil:
			case *gen.SimpleErr:
				result = 1
			case json.ErrApplication:
				result = 1
			default:
				_ = e
				result = 2
			}
			srv.mu.Lock()
			calls, seen, format := srv.calls, srv.seen, srv.format
			srv.mu.Unlock()

			obs = append(obs, int64(result), b2i(calls > 0))
			obs = putKVs(obs, sortedKVs(seen))
			obs = hqObsMaps(obs, top.ctx)

			// --- oracle (from the statement)
			switch {
			case result != outcome:
				fail("call %d (kind %d): the handler answered with outcome %d (0 ok, 1 application error, 2 system error), the caller got %d (%v)", k+1, kind, outcome, result, cerr)
			case calls != 1:
				fail("call %d (kind %d): the handler ran %d times for one call", k+1, kind, calls)
			case !sameMap(seen, top.wantReq):
				fail("call %d (kind %d): the handler saw request headers %s, the caller attached %s to the context", k+1, kind, hqFmt(seen), hqFmt(top.wantReq))
			case format != formats[kind]:
				fail("call %d (kind %d): the handler saw arg scheme %q, the caller used %q", k+1, kind, format, formats[kind])
			case !sameMap(top.ctx.Headers(), top.wantReq):
				fail("call %d (kind %d): after the call the context's request headers are %s, the caller attached %s", k+1, kind, hqFmt(top.ctx.Headers()), hqFmt(top.wantReq))
			case outcome != 2 && !sameMap(top.ctx.ResponseHeaders(), resp):
				key := ""
				if kind != 0 && outcome == 1 {
					key = "[c18:json-apperror-response-headers] "
				}
				fail("%scall %d of the sequence (kind %d, outcome %d) on a context already used for %d call(s): the handler set response headers %s, the caller's context shows %s (before the call it held %s)",
					key, k+1, kind, outcome, k, hqFmt(resp), hqFmt(top.ctx.ResponseHeaders()), hqFmt(top.wantResp))
			}
			if outcome != 2 {
				top.wantResp = hqCopy(resp)
				prevResp = resp
			}
		}
		cancel()
		o.Hist(fmt.Sprintf("mode=%d calls=%d err=%v shrinking-response=%v", mode, min(nCalls, 5), withErr, sawLeakShape))
		o.Hist("tracers " + c18Class(env.caller, es.side))
		full := append([]int64{int64(nops)}, in...)
		o.Case(sub, fmt.Sprintf("q%d", c), full, obs, true, verdict)
		if c < 2 {
			o.Sample(map[string]interface{}{"sub": sub, "case": c, "ops": nops, "calls": nCalls})
		}
	}
}
