package main

// Engine "errors" (property C20): errors reach the caller with code, message and
// application flag intact.  Sub-engines (model entry points of Model/ErrorPath.v):
//   c20_errfn    the error-value functions of errors.go / connection.go (exhaustive tables)
//   c20_send     Connection.SendSystemError (overlay-built connection + raw TCP peer view)
//   c20_closing  handleCallReq on a closing connection (overlay-built + real closing server)
//   c20_recv     a real client channel against a raw TCP server answering with scripted frames
//   c20_mexrecv  messageExchange.recvPeerFrameOfType priority (overlay-built exchange), and the
//                real deadline / cancellation of calls (direct and through a relay)
//   c20_e2e_err / c20_e2e_res   real client -> 0..2 real relays -> real server
//   c20_relay    errors a real relay originates, seen by a raw TCP client (engine_errors_relay.go)
// Oracles are written from the statement of C20 and from the protocol document; they do
// not use the model.

import (
	"bytes"
	"encoding/binary"
	"errors"
	"fmt"
	"io"
	"math/rand"
	"net"
	"strings"
	"sync"
	"time"

	tchannel "github.com/uber/tchannel-go"
	"github.com/uber/tchannel-go/raw"
	"github.com/uber/tchannel-go/relay"
	"golang.org/x/net/context"
)

func init() { engines["errors"] = engineErrors }

// ---------------------------------------------------------------- error values

// c20Err is the harness-side description of an error value (mirrors the model's gerr).
type c20Err struct {
	kind int // 0 nil 1 system 2 deadline 3 cancelled 4 EOF 5 other
	code int
	msg  string
	net  int // kind 5: 0 plain, 1 net.Error, 2 net.Error with Timeout()
}

type c20PlainErr struct{ s string }

func (e c20PlainErr) Error() string { return e.s }

type c20NetErr struct {
	s       string
	timeout bool
}

func (e c20NetErr) Error() string   { return e.s }
func (e c20NetErr) Timeout() bool   { return e.timeout }
func (e c20NetErr) Temporary() bool { return false }

func (e c20Err) goErr() error {
	switch e.kind {
	case 0:
		return nil
	case 1:
		return tchannel.NewSystemError(tchannel.SystemErrCode(e.code), "%s", e.msg)
	case 2:
		return context.DeadlineExceeded
	case 3:
		return context.Canceled
	case 4:
		return io.EOF
	}
	if e.net > 0 {
		return c20NetErr{e.msg, e.net == 2}
	}
	return c20PlainErr{e.msg}
}

func (e c20Err) enc() []int64 {
	switch e.kind {
	case 1:
		return putBytes([]int64{1, int64(e.code)}, []byte(e.msg))
	case 5:
		return putBytes([]int64{5, int64(e.net)}, []byte(e.msg))
	}
	return []int64{int64(e.kind)}
}

// encGoErr classifies an error returned by the implementation in the model's encoding.
func encGoErr(err error) []int64 {
	if err == nil {
		return []int64{0}
	}
	if se, ok := err.(tchannel.SystemError); ok {
		return putBytes([]int64{1, int64(se.Code())}, []byte(se.Message()))
	}
	switch err {
	case context.DeadlineExceeded:
		return []int64{2}
	case context.Canceled:
		return []int64{3}
	case io.EOF:
		return []int64{4}
	}
	n := int64(0)
	if ne, ok := err.(net.Error); ok {
		n = 1
		if ne.Timeout() {
			n = 2
		}
	}
	return putBytes([]int64{5, n}, []byte(err.Error()))
}

func c20Span(rng *rand.Rand) [4]uint64 {
	s := randSpan(rng)
	for i := 0; i < 3; i++ {
		s[i] &= 1<<63 - 1
	}
	return s
}
func spanInts(s [4]uint64) []int64 {
	return []int64{int64(s[0]), int64(s[1]), int64(s[2]), int64(s[3])}
}
func spanBytes(s [4]uint64) []byte {
	b := make([]byte, 25)
	binary.BigEndian.PutUint64(b, s[0])
	binary.BigEndian.PutUint64(b[8:], s[1])
	binary.BigEndian.PutUint64(b[16:], s[2])
	b[24] = byte(s[3])
	return b
}

// message generator: boundary lengths, printf verbs, arbitrary bytes
func c20Msg(rng *rand.Rand, long bool) string {
	switch rng.Intn(8) {
	case 0:
		return ""
	case 1:
		return "x"
	case 2:
		return []string{"disk 100% full", "%s", "%d items %v", "50%", "%!", "a%%b", "rate=%5.2f%%"}[rng.Intn(7)]
	case 3:
		return randBytes(rng, pick(rng, 255, 256, 1000))
	case 4:
		if long {
			return randBytes(rng, pick(rng, 65490, 65491))
		}
	}
	return "msg-" + randBytes(rng, rng.Intn(40))
}

// parse an error frame as the protocol document lays it out (independent of the library)
func parseRawError(p []byte) (code byte, tracing []byte, msg string, ok bool) {
	if len(p) < 28 {
		return 0, nil, "", false
	}
	n := int(binary.BigEndian.Uint16(p[26:]))
	if len(p) < 28+n {
		return 0, nil, "", false
	}
	return p[0], p[1:26], string(p[28 : 28+n]), true
}

func i64Bytes(b []byte) []int64 {
	out := make([]int64, len(b))
	for i, c := range b {
		out[i] = int64(c)
	}
	return out
}

// bytes after the call res header of a single-fragment response: checksum type, checksum,
// argument chunks -- built by the specification encoder of rawpeer.go
func rawRest(csum byte, args [3][]byte) []byte {
	fr := buildRawCallFrames(false, 1, []byte{}, csum, args, 65519)
	if len(fr) != 1 {
		return nil
	}
	return fr[0][16+1:]
}

// ---------------------------------------------------------------- 1. error-value functions

func c20ErrFn(rng *rand.Rand, o *Out) {
	id := 0
	emit := func(in, obs []int64, verdict string) {
		o.Case("c20_errfn", fmt.Sprintf("f%d", id), in, obs, true, verdict)
		id++
	}
	// fn 0: SystemErrCode.String for all 256 codes; fn 7: connectionState.String
	for c := 0; c < 256; c++ {
		emit([]int64{0, int64(c)}, putBytes(nil, []byte(tchannel.SystemErrCode(c).String())), "")
	}
	for s := 0; s < 7; s++ {
		emit([]int64{7, int64(s)}, putBytes(nil, []byte(tchannel.VerifC20StateString(s))), "")
	}
	// a pool of error values: every system code, context errors, EOF, plain and net errors
	var pool []c20Err
	for c := 0; c < 256; c++ {
		pool = append(pool, c20Err{kind: 1, code: c, msg: c20Msg(rng, false)})
	}
	pool = append(pool, c20Err{kind: 2}, c20Err{kind: 3}, c20Err{kind: 4},
		c20Err{kind: 5, msg: "read tcp 127.0.0.1:1->127.0.0.1:2: connection reset by peer", net: 1},
		c20Err{kind: 5, msg: "i/o timeout", net: 2}, c20Err{kind: 5, msg: "plain 100% error"}, c20Err{kind: 5, msg: ""})
	o.Hist(fmt.Sprintf("errfn-pool=%d", len(pool)))
	for _, e := range pool {
		ge := e.goErr()
		// fn 1 Error()
		emit(append([]int64{1}, e.enc()...), putBytes(nil, []byte(ge.Error())), "")
		// fn 2 GetSystemErrorCode + GetSystemErrorMessage
		emit(append([]int64{2}, e.enc()...), putBytes([]int64{int64(tchannel.GetSystemErrorCode(ge))}, []byte(tchannel.GetSystemErrorMessage(ge))), "")
		// fn 3 NewWrappedSystemError
		for _, wc := range []int{4, 7, 255, rng.Intn(256)} {
			w := tchannel.NewWrappedSystemError(tchannel.SystemErrCode(wc), ge)
			emit(append([]int64{3, int64(wc)}, e.enc()...), encGoErr(w), "")
		}
		// fn 4 GetContextError; statement: deadline -> timeout (0x01), cancellation -> cancelled (0x02)
		g := tchannel.GetContextError(ge)
		verdict := ""
		if e.kind == 2 && tchannel.GetSystemErrorCode(g) != 0x01 {
			verdict = fmt.Sprintf("deadline exceeded is mapped to %v, the statement requires timeout (0x01)", g)
		}
		if e.kind == 3 && tchannel.GetSystemErrorCode(g) != 0x02 {
			verdict = fmt.Sprintf("caller cancellation is mapped to %v, the statement requires cancelled (0x02)", g)
		}
		if _, isSys := g.(tchannel.SystemError); (e.kind == 2 || e.kind == 3) && !isSys {
			verdict = "context error is not mapped to a system error"
		}
		emit(append([]int64{4}, e.enc()...), encGoErr(g), verdict)
		// fn 5 logConnectionError; statement: loss of the connection -> network error (0x07)
		l := tchannel.VerifC20LogConnectionError(ge)
		verdict = ""
		if e.kind != 1 && tchannel.GetSystemErrorCode(l) != 0x07 {
			verdict = fmt.Sprintf("connection failure %q reaches the exchanges as %v, the statement requires a network error (0x07)", ge, l)
		}
		emit(append([]int64{5}, e.enc()...), encGoErr(l), verdict)
	}
	// nil through the nil-tolerant functions
	emit([]int64{3, 7, 0}, encGoErr(tchannel.NewWrappedSystemError(7, nil)), "")
	emit([]int64{4, 0}, encGoErr(tchannel.GetContextError(nil)), "")
	// fn 6 package error values
	for k, e := range tchannel.VerifC20PkgErrors() {
		emit([]int64{6, int64(k)}, encGoErr(e), "")
	}
}

// ---------------------------------------------------------------- 2. SendSystemError

func c20SendCase(rng *rand.Rand, c int) (state, room int, id uint32, span [4]uint64, e c20Err) {
	state = pick(rng, 1, 1, 1, 1, 2, 3, 4)
	room = pick(rng, 1, 1, 1, 1, 1, 0)
	id = uint32(rng.Int63())
	if rng.Intn(8) == 0 {
		id = 0xFFFFFFFF
	}
	span = c20Span(rng)
	switch {
	case c < 256:
		e = c20Err{kind: 1, code: c, msg: c20Msg(rng, false)}
	case c < 256+11:
		lens := []int{0, 1, 255, 256, 65490, 65491, 65492, 65493, 65535, 65536, 70000}
		e = c20Err{kind: 1, code: pick(rng, 1, 3, 5, 255), msg: randBytes(rng, lens[c-256])}
		state, room = 1, 1
	default:
		switch rng.Intn(6) {
		case 0:
			e = c20Err{kind: 5, msg: c20Msg(rng, true), net: rng.Intn(3)}
		case 1:
			e = c20Err{kind: pick(rng, 2, 3, 4)}
		case 2:
			e = c20Err{kind: 0}
		default:
			e = c20Err{kind: 1, code: rng.Intn(256), msg: c20Msg(rng, true)}
		}
	}
	return
}

// oracle for a send: a queued frame must be a well-formed error frame carrying exactly the
// code and message of the error; a message that does not fit must not produce any frame.
func c20SendOracle(wire []byte, sendErr error, id uint32, span [4]uint64, e c20Err, state, room int) string {
	if e.kind == 0 {
		return ""
	}
	ge := e.goErr()
	wantCode, wantMsg := byte(5), ge.Error()
	if e.kind == 1 {
		wantCode, wantMsg = byte(e.code), e.msg
	}
	if wire == nil {
		if len(wantMsg) <= 65491 && state != 4 && room > 0 && sendErr == nil {
			return "SendSystemError reported success but queued no frame"
		}
		if len(wantMsg) <= 65491 && state != 4 && room > 0 {
			return fmt.Sprintf("error with a %d-byte message (fits a frame) was not sent: %v", len(wantMsg), sendErr)
		}
		if sendErr == nil {
			return "nothing was queued and no error was reported to the handler"
		}
		return ""
	}
	if len(wire) < 16 || int(binary.BigEndian.Uint16(wire)) != len(wire) || wire[2] != 0xff || binary.BigEndian.Uint32(wire[4:]) != id {
		return "queued frame is not an error frame (type 0xff) with the call's id and exact size"
	}
	code, tr, msg, ok := parseRawError(wire[16:])
	if !ok || 16+28+len(msg) != len(wire) {
		return "error frame payload does not follow code:1 tracing:25 message~2"
	}
	if code != wantCode || msg != wantMsg {
		return fmt.Sprintf("error frame carries code %#x and a %d-byte message, the error had code %#x and a %d-byte message (truncated or altered)", code, len(msg), wantCode, len(wantMsg))
	}
	if !bytes.Equal(tr, spanBytes(span)) {
		return "error frame carries a different tracing span than the call"
	}
	return ""
}

func c20Send(rng *rand.Rand, n int, o *Out) {
	for c := 0; c < 256+11+n; c++ {
		state, room, id, span, e := c20SendCase(rng, c)
		wire, sendErr, panicked := tchannel.VerifC20SendSystemError(state, room, id, span, e.goErr())
		in := []int64{int64(state), int64(room), int64(id)}
		in = append(in, spanInts(span)...)
		in = append(in, 0) // response.err = nil
		in = append(in, e.enc()...)
		var obs []int64
		switch {
		case panicked:
			obs = []int64{4}
		case wire != nil:
			obs = putBytes([]int64{0}, wire)
		default:
			s := fmt.Sprint(sendErr)
			switch {
			case strings.HasPrefix(s, "failed to create outbound error frame"):
				obs = []int64{1}
			case strings.HasPrefix(s, "failed to send error frame, connection state"):
				obs = []int64{2}
			case strings.HasPrefix(s, "failed to send error frame, buffer full"):
				obs = []int64{3}
			default:
				obs = []int64{9}
			}
		}
		verdict := ""
		if !panicked {
			verdict = c20SendOracle(wire, sendErr, id, span, e, state, room)
		}
		ml := len(e.msg)
		o.Hist(fmt.Sprintf("send state=%d room=%d", state, room))
		o.Hist("send msglen " + lenBucket(ml))
		if c == 3 || c == 256+5 {
			o.Sample(map[string]interface{}{"sub": "c20_send", "state": state, "room": room, "code": e.code, "msglen": ml, "obs0": obs[0]})
		}
		o.Case("c20_send", fmt.Sprintf("s%d", c), in, obs, true, verdict)
	}
}

func lenBucket(n int) string {
	switch {
	case n == 0:
		return "0"
	case n <= 255:
		return "1..255"
	case n <= 65491:
		return "256..65491"
	case n <= 65535:
		return "65492..65535"
	}
	return ">65535"
}

// ---------------------------------------------------------------- real channels

// c20Instr tells the server handler what to do for the current call.
type c20Instr struct {
	kind    int // 0 ok response, 1 application error response, 2 system error, 3 block until released, 4 SetApplicationError after arg2 began
	err     error
	arg2    []byte
	arg3    []byte
	sendRet error
	started chan struct{}
	release chan struct{}
}

type c20Server struct {
	ch *tchannel.Channel
	mu sync.Mutex
	in *c20Instr
}

func (s *c20Server) set(in *c20Instr) {
	s.mu.Lock()
	s.in = in
	s.mu.Unlock()
}

func (s *c20Server) Handle(ctx context.Context, call *tchannel.InboundCall) {
	s.mu.Lock()
	in := s.in
	s.mu.Unlock()
	var a2, a3 []byte
	if err := tchannel.NewArgReader(call.Arg2Reader()).Read(&a2); err != nil {
		return
	}
	if err := tchannel.NewArgReader(call.Arg3Reader()).Read(&a3); err != nil {
		return
	}
	resp := call.Response()
	switch in.kind {
	case 2:
		in.sendRet = resp.SendSystemError(in.err)
		if in.started != nil {
			close(in.started)
		}
	case 3:
		close(in.started)
		<-in.release
		resp.SendSystemError(tchannel.ErrServerBusy)
	case 4:
		w, err := resp.Arg2Writer()
		in.sendRet = resp.SetApplicationError()
		if err == nil {
			w.Write(in.arg2)
			w.Close()
			tchannel.NewArgWriter(resp.Arg3Writer()).Write(in.arg3)
		}
	default:
		if in.kind == 1 {
			resp.SetApplicationError()
		}
		tchannel.NewArgWriter(resp.Arg2Writer()).Write(in.arg2)
		tchannel.NewArgWriter(resp.Arg3Writer()).Write(in.arg3)
	}
}

func newC20Server(name string) *c20Server {
	s := &c20Server{}
	ch, err := tchannel.NewChannel(name, &tchannel.ChannelOptions{Handler: s})
	if err != nil {
		panic(err)
	}
	if err := ch.ListenAndServe("127.0.0.1:0"); err != nil {
		panic(err)
	}
	s.ch = ch
	return s
}

// c20Host is a RelayHost scripted by the harness.
type c20Host struct {
	ch       *tchannel.Channel
	mu       sync.Mutex
	next     string // host:port every call is routed to ("" = no destination)
	startErr error
}

func (h *c20Host) SetChannel(ch *tchannel.Channel) { h.ch = ch }
func (h *c20Host) Start(cf relay.CallFrame, _ *relay.Conn) (tchannel.RelayCall, error) {
	h.mu.Lock()
	next, serr := h.next, h.startErr
	h.mu.Unlock()
	c := &c20RelayCall{}
	if next != "" {
		c.peer = h.ch.GetSubChannel(string(cf.Service())).Peers().GetOrAdd(next)
	}
	return c, serr
}
func (h *c20Host) set(next string, startErr error) {
	h.mu.Lock()
	h.next, h.startErr = next, startErr
	h.mu.Unlock()
}

type c20RelayCall struct{ peer *tchannel.Peer }

func (c *c20RelayCall) Destination() (*tchannel.Peer, bool) { return c.peer, c.peer != nil }
func (c *c20RelayCall) SentBytes(uint16)                    {}
func (c *c20RelayCall) ReceivedBytes(uint16)                {}
func (c *c20RelayCall) CallResponse(relay.RespFrame)        {}
func (c *c20RelayCall) Succeeded()                          {}
func (c *c20RelayCall) Failed(string)                       {}
func (c *c20RelayCall) End()                                {}

func newC20Relay(name string, host *c20Host, opts *tchannel.ChannelOptions) *tchannel.Channel {
	if opts == nil {
		opts = &tchannel.ChannelOptions{}
	}
	opts.RelayHost = host
	ch, err := tchannel.NewChannel(name, opts)
	if err != nil {
		panic(err)
	}
	if err := ch.ListenAndServe("127.0.0.1:0"); err != nil {
		panic(err)
	}
	return ch
}

// one outbound call on a fresh or existing connection of `client` to hostPort; returns the
// response args / flag / error and whether the connection used is still active afterwards.
type c20CallRes struct {
	arg2, arg3 []byte
	app        bool
	err        error
	closed     bool
	elapsed    time.Duration
}

func c20Call(client *tchannel.Channel, hostPort, service string, timeout time.Duration, cancelAfter time.Duration) c20CallRes {
	ctx, cancel := tchannel.NewContext(timeout)
	defer cancel()
	if cancelAfter > 0 {
		t := time.AfterFunc(cancelAfter, cancel)
		defer t.Stop()
	}
	peer := client.Peers().GetOrAdd(hostPort)
	cctx, ccancel := tchannel.NewContext(2 * time.Second)
	conn, err := peer.GetConnection(cctx)
	ccancel()
	if err != nil {
		return c20CallRes{err: fmt.Errorf("harness: connect: %v", err)}
	}
	start := time.Now()
	var r c20CallRes
	call, err := peer.BeginCall(ctx, service, "m", nil)
	if err == nil {
		var resp *tchannel.OutboundCallResponse
		r.arg2, r.arg3, resp, err = raw.WriteArgs(call, []byte("a2"), []byte("a3"))
		if err == nil {
			r.app = resp.ApplicationError()
		}
	}
	r.err = err
	r.elapsed = time.Since(start)
	r.closed = !conn.IsActive()
	return r
}

// observable of a call in the encoding of the model's put_caller
func (r c20CallRes) obs(timeout time.Duration, csum byte) []int64 {
	cl := b2i(r.closed)
	if r.err == nil {
		rest := rawRest(csum, [3][]byte{{}, r.arg2, r.arg3})
		return putBytes([]int64{1, cl, b2i(r.app)}, rest)
	}
	if se, ok := r.err.(tchannel.SystemError); ok && se.Code() == tchannel.ErrCodeTimeout && se.Message() == "timeout" && r.elapsed >= timeout-5*time.Millisecond {
		return []int64{2, cl} // the caller waited until its own deadline
	}
	return append([]int64{0, cl}, encGoErr(r.err)...)
}

// ---------------------------------------------------------------- 4. raw server, scripted answer

type c20Script struct {
	kind    string
	build   func(id uint32) []byte // bytes the raw server writes after the call req
	closeIt bool                   // raw server closes the socket right after writing
	timeout time.Duration
	// expectations from the statement (oracle only)
	wantCode  int // >= 0: a system error with this code ...
	wantMsg   string
	wantMsgOk bool
	wantClose int // 1 connection must be closed, 0 must stay open, -1 unspecified
	wantApp   int // -1 n/a, 0/1 application flag
	args      [3][]byte
	csum      byte
}

func c20RecvScripts(rng *rand.Rand, n int) []c20Script {
	var out []c20Script
	errFrame := func(idDelta uint32, code int, tracing []byte, msg string, junk []byte) func(uint32) []byte {
		return func(id uint32) []byte {
			return rawFrameBytes(0xff, id+idDelta, append(rawErrorPayload(byte(code), tracing, msg), junk...))
		}
	}
	for c := 0; c < 256; c++ {
		msg := c20Msg(rng, c%64 == 0)
		wc := 0
		if c == 0xff {
			wc = 1
		}
		out = append(out, c20Script{kind: "error", build: errFrame(0, c, spanBytes(c20Span(rng)), msg, nil), timeout: time.Second,
			wantCode: c, wantMsg: msg, wantMsgOk: true, wantClose: wc, wantApp: -1})
	}
	for i := 0; i < n; i++ {
		switch rng.Intn(10) {
		case 0: // error frame for another id: nothing reaches this caller
			out = append(out, c20Script{kind: "error-other-id", build: errFrame(1000, pick(rng, 1, 3, 5), spanBytes(c20Span(rng)), "other", nil), timeout: 60 * time.Millisecond, wantCode: -1, wantClose: 0, wantApp: -1})
		case 1: // protocol error with the protocol-error id
			msg := c20Msg(rng, false)
			out = append(out, c20Script{kind: "protocol-error-id-ffffffff", build: func(id uint32) []byte {
				return rawFrameBytes(0xff, 0xFFFFFFFF, rawErrorPayload(0xff, make([]byte, 25), msg))
			}, timeout: time.Second, wantCode: 0xff, wantMsg: msg, wantMsgOk: true, wantClose: 1, wantApp: -1})
		case 2: // malformed error payload
			cut := pick(rng, 0, 1, 26, 27)
			full := rawErrorPayload(3, make([]byte, 25), "some message")
			p := full[:cut]
			if rng.Intn(2) == 0 {
				p = full[:28+rng.Intn(len(full)-28)] // length field larger than what follows
			}
			out = append(out, c20Script{kind: "error-malformed", build: func(id uint32) []byte { return rawFrameBytes(0xff, id, p) }, timeout: time.Second, wantCode: 7, wantClose: 1, wantApp: -1})
		case 3: // error frame with bytes after the message
			msg := c20Msg(rng, false)
			code := rng.Intn(255)
			out = append(out, c20Script{kind: "error-trailing", build: errFrame(0, code, spanBytes(c20Span(rng)), msg, []byte(randBytes(rng, 1+rng.Intn(9)))), timeout: time.Second,
				wantCode: code, wantMsg: msg, wantMsgOk: true, wantClose: 0, wantApp: -1})
		case 4, 5, 6: // call res with a response code
			code := pick(rng, 0, 1, 1, 1, 2, 255)
			args := [3][]byte{{}, []byte(randBytes(rng, pick(rng, 0, 1, 50, 3000))), []byte(randBytes(rng, pick(rng, 0, 1, 300, 20000)))}
			csum := byte(pick(rng, 0, 1, 3))
			hdr := rawCallResHeader(byte(code), spanBytes(c20Span(rng)), [][2]string{{"as", "raw"}})
			wa := 0
			if code == 1 {
				wa = 1
			}
			out = append(out, c20Script{kind: fmt.Sprintf("callres-code-%d", code), build: func(id uint32) []byte {
				fr := buildRawCallFrames(false, id, hdr, csum, args, 65519)
				return fr[0]
			}, timeout: time.Second, wantCode: -1, wantClose: 0, wantApp: wa, args: args, csum: csum})
		case 7: // connection lost: clean close
			out = append(out, c20Script{kind: "conn-eof", build: func(uint32) []byte { return nil }, closeIt: true, timeout: time.Second, wantCode: 7, wantClose: 1, wantApp: -1})
		case 8: // connection lost inside a frame
			k := 1 + rng.Intn(40)
			out = append(out, c20Script{kind: "conn-cut-in-frame", build: func(id uint32) []byte {
				return rawFrameBytes(0xff, id, rawErrorPayload(3, make([]byte, 25), "cut off"))[:k]
			}, closeIt: true, timeout: time.Second, wantCode: 7, wantClose: 1, wantApp: -1})
		case 9: // frame whose size field is below the header size
			sz := rng.Intn(16)
			out = append(out, c20Script{kind: "frame-size-below-16", build: func(id uint32) []byte {
				b := rawFrameBytes(0xff, id, nil)
				binary.BigEndian.PutUint16(b, uint16(sz))
				return b
			}, timeout: time.Second, wantCode: 7, wantClose: 1, wantApp: -1})
		}
	}
	return out
}

func c20Recv(rng *rand.Rand, n int, o *Out) {
	client, err := tchannel.NewChannel("c20-client", nil)
	if err != nil {
		panic(err)
	}
	defer client.Close()
	for c, sc := range c20RecvScripts(rng, n) {
		ln, err := net.Listen("tcp", "127.0.0.1:0")
		if err != nil {
			panic(err)
		}
		type srvRes struct {
			id     uint32
			stream []byte
			err    string
		}
		resCh := make(chan srvRes, 1)
		done := make(chan struct{})
		go func() {
			conn, err := ln.Accept()
			if err != nil {
				resCh <- srvRes{err: err.Error()}
				return
			}
			defer conn.Close()
			if _, _, err := rawServerHandshake(conn); err != nil {
				resCh <- srvRes{err: "handshake: " + err.Error()}
				return
			}
			var id uint32
			for {
				f, err := readRawFrame(conn, 2*time.Second)
				if err != nil {
					resCh <- srvRes{err: "reading call req: " + err.Error()}
					return
				}
				if f.Type != 0x03 && f.Type != 0x13 {
					continue
				}
				id = f.ID
				if len(f.Payload) > 0 && f.Payload[0]&1 == 0 {
					break
				}
			}
			stream := sc.build(id)
			conn.SetWriteDeadline(time.Now().Add(2 * time.Second))
			conn.Write(stream)
			resCh <- srvRes{id: id, stream: stream}
			if sc.closeIt {
				return
			}
			<-done
		}()
		r := c20Call(client, ln.Addr().String(), "svc", sc.timeout, 0)
		close(done)
		sr := <-resCh
		ln.Close()
		if sr.err != "" {
			o.Oracle("c20_recv", fmt.Sprintf("r%d", c), false, fmt.Sprint(c), "")
			o.Hist("recv harness-skip")
			continue
		}
		in := []int64{0, int64(sr.id), 0}
		in = append(in, i64Bytes(sr.stream)...)
		obs := r.obs(sc.timeout, sc.csum)

		// oracle from the statement
		verdict := ""
		if sc.wantCode >= 0 {
			se, ok := r.err.(tchannel.SystemError)
			switch {
			case !ok:
				verdict = fmt.Sprintf("%s: caller got %v, the statement requires a system error with code %#x", sc.kind, r.err, sc.wantCode)
			case int(se.Code()) != sc.wantCode:
				verdict = fmt.Sprintf("%s: caller got code %#x, want %#x", sc.kind, int(se.Code()), sc.wantCode)
			case sc.wantMsgOk && se.Message() != sc.wantMsg:
				verdict = fmt.Sprintf("error frame with code %#x and message %q arrived at the caller with message %q", sc.wantCode, clip(sc.wantMsg), clip(se.Message()))
				if strings.Contains(sc.wantMsg, "%") {
					verdict = "[c20:errmsg-format-string] " + verdict + " (the received message was used as a printf format)"
				}
			}
		}
		if verdict == "" && sc.wantClose == 1 && !r.closed {
			verdict = sc.kind + ": the connection the frame arrived on is still active (the statement requires it to be closed)"
		}
		if verdict == "" && sc.wantClose == 0 && r.closed {
			verdict = sc.kind + ": the connection was closed by a frame that is not a protocol error"
		}
		if verdict == "" && sc.wantApp >= 0 {
			switch {
			case r.err != nil:
				verdict = fmt.Sprintf("%s: caller failed with %v", sc.kind, r.err)
			case r.app != (sc.wantApp == 1):
				verdict = fmt.Sprintf("%s: ApplicationError() = %v", sc.kind, r.app)
			case !bytes.Equal(r.arg2, sc.args[1]) || !bytes.Equal(r.arg3, sc.args[2]):
				verdict = sc.kind + ": response arguments differ from what the peer sent"
			}
		}
		o.Hist("recv " + sc.kind[:min(len(sc.kind), 12)])
		if c == 3 || c == 300 {
			o.Sample(map[string]interface{}{"sub": "c20_recv", "script": sc.kind, "stream_len": len(sr.stream), "obs_head": obs[:min(len(obs), 4)]})
		}
		o.Case("c20_recv", fmt.Sprintf("r%d", c), in, obs, true, verdict)
	}
}

func clip(s string) string {
	if len(s) > 60 {
		return s[:60] + "..."
	}
	return s
}

// ---------------------------------------------------------------- 5. exchange priority

func c20MexRecv(rng *rand.Rand, n int, o *Out) {
	for c := 0; c < n; c++ {
		id := uint32(1 + rng.Intn(1000))
		ctxKind := pick(rng, 0, 0, 0, 2, 3)
		var notified c20Err
		switch rng.Intn(4) {
		case 0:
			notified = c20Err{kind: 1, code: pick(rng, 7, 255, 5), msg: "EOF"}
		case 1:
			notified = c20Err{kind: 5, msg: "mex has been shutdown"}
		}
		nf := pick(rng, 0, 0, 1, 1, 2)
		if ctxKind == 0 && notified.kind == 0 && nf == 0 && rng.Intn(4) != 0 {
			nf = 1 // keep the (30 ms) blocked case rare
		}
		var frames []tchannel.VerifC20QFrame
		in := []int64{int64(id)}
		in = append(in, c20Err{kind: ctxKind}.enc()...)
		in = append(in, notified.enc()...)
		in = append(in, int64(nf))
		for i := 0; i < nf; i++ {
			f := tchannel.VerifC20QFrame{Type: byte(pick(rng, 0x04, 0x04, 0xff, 0xff, 0x14, 0x03)), ID: id}
			if rng.Intn(6) == 0 {
				f.ID = id + 1
			}
			switch f.Type {
			case 0xff:
				f.Payload = rawErrorPayload(byte(rng.Intn(256)), spanBytes(c20Span(rng)), c20Msg(rng, false))
				if rng.Intn(5) == 0 {
					f.Payload = f.Payload[:rng.Intn(28)]
				}
			default:
				f.Payload = []byte(randBytes(rng, rng.Intn(60)))
			}
			frames = append(frames, f)
			in = append(in, int64(f.Type), int64(f.ID))
			in = putBytes(in, f.Payload)
		}
		kind, typ, payload, code, msg, err := tchannel.VerifC20MexRecv(id, ctxKind, notified.goErr(), frames)
		var obs []int64
		switch kind {
		case 0:
			obs = putBytes([]int64{0, int64(typ)}, payload)
		case 1:
			obs = putBytes([]int64{1, int64(code)}, []byte(msg))
		case 2:
			obs = append([]int64{2}, encGoErr(err)...)
		default:
			obs = []int64{3}
		}
		verdict := ""
		if ctxKind == 2 && !(kind == 2 && tchannel.GetSystemErrorCode(err) == 0x01) {
			verdict = "exchange whose deadline passed did not report timeout (0x01)"
		}
		if ctxKind == 3 && !(kind == 2 && tchannel.GetSystemErrorCode(err) == 0x02) {
			verdict = "exchange whose caller cancelled did not report cancelled (0x02)"
		}
		o.Hist(fmt.Sprintf("mexrecv ctx=%d notified=%d frames=%d", ctxKind, notified.kind, nf))
		o.Case("c20_mexrecv", fmt.Sprintf("x%d", c), in, obs, true, verdict)
	}
}

// ---------------------------------------------------------------- 6. end to end through relays

type c20Topo struct {
	server *c20Server
	relays []*tchannel.Channel
	hosts  []*c20Host
	client *tchannel.Channel
	entry  string // host:port the client calls
}

func newC20Topo(k int) *c20Topo {
	t := &c20Topo{server: newC20Server("c20-server")}
	next := t.server.ch.PeerInfo().HostPort
	for i := 0; i < k; i++ {
		h := &c20Host{}
		h.set(next, nil)
		r := newC20Relay(fmt.Sprintf("c20-relay-%d", i), h, nil)
		t.relays = append(t.relays, r)
		t.hosts = append(t.hosts, h)
		next = r.PeerInfo().HostPort
	}
	var err error
	t.client, err = tchannel.NewChannel("c20-client", nil)
	if err != nil {
		panic(err)
	}
	t.entry = next
	return t
}

func (t *c20Topo) close() {
	t.client.Close()
	for _, r := range t.relays {
		r.Close()
	}
	t.server.ch.Close()
}

// hop list of the model for k relays: every item live with a stoppable timer, queues have room
func c20Hops(k int, sid int64) (cid int64, enc []int64) {
	enc = []int64{int64(k)}
	cid = sid
	for i := 0; i < k; i++ {
		cid = sid + int64(i) + 1
		enc = append(enc, 2, 1, cid, 2, 1, 0, 1)
	}
	return
}

func c20E2E(rng *rand.Rand, n int, o *Out) {
	topos := []*c20Topo{newC20Topo(0), newC20Topo(1), newC20Topo(2)}
	defer func() {
		for _, t := range topos {
			t.close()
		}
	}()
	caseNo := 0
	sysCase := func(k int, e c20Err) {
		t := topos[k]
		in0 := &c20Instr{kind: 2, err: e.goErr()}
		t.server.set(in0)
		timeout := time.Second
		if len(e.msg) > 65000 {
			timeout = 100 * time.Millisecond
		}
		r := c20Call(t.client, t.entry, "c20-server", timeout, 0)
		sid := int64(5)
		cid, hops := c20Hops(k, sid)
		in := e.enc()
		in = append(in, sid, 0, 0, 0, 0, cid)
		in = append(in, hops...)
		var obs []int64
		if in0.sendRet != nil && strings.HasPrefix(in0.sendRet.Error(), "failed to create outbound error frame") {
			obs = []int64{9, 1}
		} else {
			obs = r.obs(timeout, 1)
		}
		wantCode, wantMsg := 5, ""
		if e.kind == 1 {
			wantCode, wantMsg = e.code, e.msg
		} else {
			wantMsg = e.goErr().Error()
		}
		verdict := ""
		se, isSys := r.err.(tchannel.SystemError)
		switch {
		case len(wantMsg) > 65491:
			// must fail at frame construction; the caller must never see a truncated message
			if in0.sendRet == nil {
				verdict = fmt.Sprintf("handler's SendSystemError with a %d-byte message reported success", len(wantMsg))
			} else if isSys && se.Code() == tchannel.SystemErrCode(wantCode) && se.Message() != "" && strings.HasPrefix(wantMsg, se.Message()) {
				verdict = "caller received a truncated error message"
			}
		case !isSys:
			verdict = fmt.Sprintf("via %d relay(s): handler sent system error %#x, caller got %v", k, wantCode, r.err)
		case int(se.Code()) != wantCode:
			verdict = fmt.Sprintf("via %d relay(s): handler sent code %#x, caller got code %#x", k, wantCode, int(se.Code()))
		case se.Message() != wantMsg:
			verdict = fmt.Sprintf("via %d relay(s): handler sent code %#x message %q, caller got message %q", k, wantCode, clip(wantMsg), clip(se.Message()))
			if strings.Contains(wantMsg, "%") {
				verdict = "[c20:errmsg-format-string] " + verdict + " (the received message was used as a printf format)"
			}
		case (wantCode == 0xff) != r.closed:
			verdict = fmt.Sprintf("via %d relay(s): code %#x, caller's connection closed = %v (a protocol error must close it, other errors must not)", k, wantCode, r.closed)
		}
		o.Hist(fmt.Sprintf("e2e-err relays=%d", k))
		o.Hist("e2e-err msglen " + lenBucket(len(wantMsg)))
		if caseNo == 7 || caseNo == 600 {
			o.Sample(map[string]interface{}{"sub": "c20_e2e_err", "relays": k, "code": wantCode, "msglen": len(wantMsg), "obs_head": obs[:min(len(obs), 5)]})
		}
		o.Case("c20_e2e_err", fmt.Sprintf("e%d", caseNo), in, obs, true, verdict)
		caseNo++
	}
	// every code on every topology
	for k := 0; k <= 2; k++ {
		for c := 0; c < 256; c++ {
			sysCase(k, c20Err{kind: 1, code: c, msg: c20Msg(rng, false)})
		}
	}
	// boundary message lengths and non-system errors
	for _, l := range []int{0, 1, 255, 65490, 65491, 65492, 65535, 65536} {
		sysCase(rng.Intn(3), c20Err{kind: 1, code: pick(rng, 1, 3, 4, 5, 6, 7), msg: randBytes(rng, l)})
	}
	for i := 0; i < n/4+3; i++ {
		if rng.Intn(2) == 0 {
			sysCase(rng.Intn(3), c20Err{kind: 5, msg: c20Msg(rng, false)})
		} else {
			sysCase(rng.Intn(3), c20Err{kind: 1, code: rng.Intn(256), msg: c20Msg(rng, true)})
		}
	}

	// call responses with / without the application flag
	for i := 0; i < n+20; i++ {
		k := rng.Intn(3)
		t := topos[k]
		app := rng.Intn(3) != 0
		arg2 := []byte(randBytes(rng, pick(rng, 0, 1, 40, 2000)))
		arg3 := []byte(randBytes(rng, pick(rng, 0, 1, 500, 30000)))
		kind := 0
		if app {
			kind = 1
		}
		t.server.set(&c20Instr{kind: kind, arg2: arg2, arg3: arg3})
		r := c20Call(t.client, t.entry, "c20-server", time.Second, 0)
		sid := int64(5)
		cid, hops := c20Hops(k, sid)
		rest := rawRest(1, [3][]byte{{}, arg2, arg3})
		in := []int64{b2i(app), 0, 0, sid, 1}
		in = putBytes(in, []byte("as"))
		in = putBytes(in, []byte("raw"))
		in = putBytes(in, rest)
		in = append(in, cid)
		in = append(in, hops...)
		obs := r.obs(time.Second, 1)
		verdict := ""
		switch {
		case r.err != nil:
			verdict = fmt.Sprintf("via %d relay(s): call with app=%v failed: %v", k, app, r.err)
		case r.app != app:
			verdict = fmt.Sprintf("via %d relay(s): handler set application error = %v, caller's ApplicationError() = %v", k, app, r.app)
		case !bytes.Equal(r.arg2, arg2) || !bytes.Equal(r.arg3, arg3):
			verdict = fmt.Sprintf("via %d relay(s): response arguments of an application-error=%v response differ", k, app)
		case r.closed:
			verdict = "connection closed by a call response"
		}
		o.Hist(fmt.Sprintf("e2e-res relays=%d app=%v", k, app))
		o.Case("c20_e2e_res", fmt.Sprintf("a%d", i), in, obs, true, verdict)
	}

	// SetApplicationError once the arguments have started is refused (writer state preArg3)
	for k := 0; k <= 2; k++ {
		t := topos[k]
		ins := &c20Instr{kind: 4, arg2: []byte("late"), arg3: []byte("x")}
		t.server.set(ins)
		r := c20Call(t.client, t.entry, "c20-server", 120*time.Millisecond, 0)
		sid := int64(5)
		cid, hops := c20Hops(k, sid)
		in := []int64{1, 2, 0, sid, 1}
		in = putBytes(in, []byte("as"))
		in = putBytes(in, []byte("raw"))
		in = putBytes(in, rawRest(1, [3][]byte{{}, ins.arg2, ins.arg3}))
		in = append(in, cid)
		in = append(in, hops...)
		obs := r.obs(120*time.Millisecond, 1)
		if ins.sendRet != nil {
			obs = []int64{7}
		}
		verdict := ""
		if r.err == nil && r.app {
			verdict = "a response whose arguments had started was still turned into an application error"
		}
		o.Hist("e2e-res late-SetApplicationError")
		o.Case("c20_e2e_res", fmt.Sprintf("late%d", k), in, obs, true, verdict)
	}

	// local conditions on real calls: deadline and cancellation, direct and through relays.
	// model: an exchange whose context is done (c20_mexrecv with ctx = deadline / cancelled).
	for i := 0; i < 9; i++ {
		k := i % 3
		t := topos[k]
		cancelled := i >= 6 || (i >= 3 && i%2 == 0)
		ins := &c20Instr{kind: 3, started: make(chan struct{}), release: make(chan struct{})}
		t.server.set(ins)
		cancelAfter := time.Duration(0)
		timeout := 60 * time.Millisecond
		if cancelled {
			cancelAfter, timeout = 30*time.Millisecond, 2*time.Second
		}
		r := c20Call(t.client, t.entry, "c20-server", timeout, cancelAfter)
		select {
		case <-ins.started:
		case <-time.After(time.Second):
		}
		close(ins.release)
		ctxKind, want, what := 2, byte(0x01), "deadline exceeded"
		if cancelled {
			ctxKind, want, what = 3, 0x02, "caller cancellation"
		}
		in := []int64{7, int64(ctxKind), 0, 0}
		obs := append([]int64{2}, encGoErr(r.err)...)
		verdict := ""
		if se, ok := r.err.(tchannel.SystemError); !ok || byte(se.Code()) != want {
			verdict = fmt.Sprintf("via %d relay(s): %s reached the caller as %v, the statement requires code %#x", k, what, r.err, want)
		}
		o.Hist(fmt.Sprintf("local %s relays=%d", what, k))
		o.Case("c20_mexrecv", fmt.Sprintf("l%d", i), in, obs, true, verdict)
		time.Sleep(5 * time.Millisecond)
	}

	// a call reaching a closing peer (real server that started closing while a call is in
	// flight), direct and through relays: declined (0x04).  model: c20_e2e_err with ErrChannelClosed.
	for k := 0; k <= 2; k++ {
		t := newC20Topo(k)
		ins := &c20Instr{kind: 3, started: make(chan struct{}), release: make(chan struct{})}
		t.server.set(ins)
		first := make(chan c20CallRes, 1)
		go func() { first <- c20Call(t.client, t.entry, "c20-server", 2*time.Second, 0) }()
		select {
		case <-ins.started:
		case <-time.After(time.Second):
		}
		t.server.ch.Close() // connections enter start-close; the in-flight call keeps them open
		time.Sleep(10 * time.Millisecond)
		r := c20Call(t.client, t.entry, "c20-server", time.Second, 0)
		close(ins.release)
		<-first
		sid := int64(5)
		cid, hops := c20Hops(k, sid)
		in := c20Err{kind: 1, code: 4, msg: "closed channel"}.enc()
		in = append(in, sid, 0, 0, 0, 0, cid)
		in = append(in, hops...)
		obs := r.obs(time.Second, 1)
		verdict := ""
		if se, ok := r.err.(tchannel.SystemError); !ok || se.Code() != 0x04 {
			verdict = fmt.Sprintf("via %d relay(s): a call reaching a closing peer returned %v, the statement requires declined (0x04)", k, r.err)
		}
		o.Hist(fmt.Sprintf("local closing-peer relays=%d", k))
		o.Case("c20_e2e_err", fmt.Sprintf("c%d", k), in, obs, true, verdict)
		t.close()
	}
}

// ---------------------------------------------------------------- 3. closing connection, unit + raw view

func c20Closing(rng *rand.Rand, n int, o *Out) {
	for c := 0; c < n; c++ {
		state := pick(rng, 2, 2, 3, 4)
		room := pick(rng, 1, 1, 1, 0)
		id := uint32(rng.Int63())
		span := c20Span(rng)
		hdr := rawCallReqHeader(uint32(1+rng.Intn(5000)), spanBytes(span), "svc", [][2]string{{"as", "raw"}, {"cn", "c"}})
		fr := buildRawCallFrames(true, id, hdr, byte(pick(rng, 0, 1, 3)), [3][]byte{[]byte("m"), []byte(randBytes(rng, rng.Intn(20))), []byte(randBytes(rng, rng.Intn(20)))}, 65519)
		handled, out, panicked := tchannel.VerifC20CallReqOnState(state, room, fr[0])
		in := append([]int64{int64(state), int64(room), int64(id)}, spanInts(span)...)
		var obs []int64
		switch {
		case panicked:
			obs = []int64{2}
		case !handled:
			obs = []int64{0}
		case out != nil:
			obs = putBytes([]int64{1, 0}, out)
		case state == 4:
			obs = []int64{1, 2}
		default:
			obs = []int64{1, 3}
		}
		verdict := ""
		if out != nil {
			code, tr, msg, ok := parseRawError(out[16:])
			if !ok || out[2] != 0xff || binary.BigEndian.Uint32(out[4:]) != id || code != 0x04 || !bytes.Equal(tr, spanBytes(span)) {
				verdict = fmt.Sprintf("call req on a closing connection (state %d) answered with type %#x code %#x %q; the statement requires a declined (0x04) error for the call's id", state, out[2], code, msg)
			}
		} else if state != 4 && room > 0 {
			verdict = fmt.Sprintf("call req on a closing connection (state %d) got no error frame", state)
		}
		o.Hist(fmt.Sprintf("closing state=%d room=%d", state, room))
		o.Case("c20_closing", fmt.Sprintf("k%d", c), in, obs, true, verdict)
	}
}

// ---------------------------------------------------------------- protocolError, beginCall (overlay)

func c20ProtoErr(rng *rand.Rand, n int, o *Out) {
	for c := 0; c < n; c++ {
		state := pick(rng, 1, 1, 1, 2, 3, 4)
		room := pick(rng, 1, 1, 1, 0)
		id := uint32(rng.Int63())
		var e c20Err
		switch rng.Intn(4) {
		case 0:
			e = c20Err{kind: 1, code: rng.Intn(256), msg: c20Msg(rng, false)}
		case 1:
			e = c20Err{kind: pick(rng, 2, 3, 4)}
		default:
			e = c20Err{kind: 5, msg: []string{"inbound request is already active; possible duplicate client id", "unsupported protocol version", c20Msg(rng, false)}[rng.Intn(3)]}
		}
		sysErr, wire := tchannel.VerifC20ProtocolError(state, room, id, e.goErr())
		in := append([]int64{int64(state), int64(room), int64(id)}, e.enc()...)
		obs := encGoErr(sysErr)
		switch {
		case wire != nil:
			obs = append(obs, putBytes([]int64{0}, wire)...)
		case state == 4:
			obs = append(obs, 2)
		case room <= 0:
			obs = append(obs, 3)
		default:
			obs = append(obs, 9)
		}
		verdict := ""
		if wire != nil && e.kind != 1 {
			if code, _, _, ok := parseRawError(wire[16:]); !ok || code != 0xff {
				verdict = fmt.Sprintf("protocolError(%q) queued an error frame with code %#x, want the protocol-error code 0xff", e.goErr(), code)
			}
		}
		o.Hist(fmt.Sprintf("protoerr state=%d room=%d", state, room))
		o.Case("c20_protoerr", fmt.Sprintf("p%d", c), in, obs, true, verdict)
	}
}

func c20BeginCall(rng *rand.Rand, n int, o *Out) {
	srv := newC20Server("c20-bc-server")
	defer srv.ch.Close()
	client, err := tchannel.NewChannel("c20-bc-client", nil)
	if err != nil {
		panic(err)
	}
	defer client.Close()
	cctx, ccancel := tchannel.NewContext(2 * time.Second)
	conn, err := client.Peers().GetOrAdd(srv.ch.PeerInfo().HostPort).GetConnection(cctx)
	ccancel()
	if err != nil {
		panic(err)
	}
	for c := 0; c < n; c++ {
		state := pick(rng, 1, 1, 1, 1, 2, 3, 4, 0, 7)
		scenario := rng.Intn(5)
		var ctx context.Context
		cancel := func() {}
		hasDeadline, ttlShort, ctxKind := true, false, 0
		switch scenario {
		case 0: // no deadline
			ctx, hasDeadline = context.Background(), false
		case 1: // live, far deadline
			ctx, cancel = context.WithTimeout(context.Background(), time.Second)
		case 2: // cancelled by the caller before the call begins
			ctx, cancel = context.WithTimeout(context.Background(), time.Second)
			cancel()
			ctxKind = 3
		case 3: // less than a millisecond left
			ctx, cancel = context.WithTimeout(context.Background(), 300*time.Microsecond)
			ttlShort = true
		case 4: // deadline already passed
			ctx, cancel = context.WithDeadline(context.Background(), time.Now().Add(-time.Millisecond))
			ttlShort, ctxKind = true, 2
		}
		force := 0
		if state != 1 {
			force = state
		}
		if state == 0 {
			force = 9 // an out-of-range state value (0 means "do not force")
		}
		st := state
		if state == 0 {
			st = 9
		}
		got := tchannel.VerifC20BeginCall(conn, ctx, force)
		cancel()
		in := []int64{int64(st), b2i(hasDeadline), b2i(ttlShort)}
		in = append(in, c20Err{kind: ctxKind}.enc()...)
		obs := encGoErr(got)
		verdict := ""
		if state == 1 && hasDeadline {
			code := tchannel.GetSystemErrorCode(got)
			if (scenario == 3 || scenario == 4) && code != 0x01 {
				verdict = fmt.Sprintf("beginCall past its deadline returned %v, the statement requires timeout (0x01)", got)
			}
			if scenario == 2 && code != 0x02 {
				verdict = fmt.Sprintf("beginCall on a cancelled context returned %v, the statement requires cancelled (0x02)", got)
			}
		}
		o.Hist(fmt.Sprintf("begincall state=%d scenario=%d", st, scenario))
		o.Case("c20_begincall", fmt.Sprintf("b%d", c), in, obs, true, verdict)
	}
}

// ---------------------------------------------------------------- engine

func engineErrors(rng *rand.Rand, n int, tier string, o *Out) {
	c20ErrFn(rng, o)
	c20Send(rng, n, o)
	c20Closing(rng, n/2+10, o)
	c20ProtoErr(rng, n/2+10, o)
	c20BeginCall(rng, n/2+10, o)
	c20MexRecv(rng, n+60, o)
	c20Recv(rng, n, o)
	c20E2E(rng, n/2, o)
	c20SendWire(rng, n/4+12, o)
	c20RelayOrigin(rng, tier, o)
}

var _ = errors.New
