package main

// Scenario sub-engines of engine "cut" (property C05): dialq, noanswer, cancel, relayscen.
// Each scenario is a case with a structured input (its parameters, the 'input' field of a
// replay file) and an observable in the encoding of Model/CallScen.v (run_c05dialq, run_c05noanswer,
// run_c05cancel, run_c05relay): per caller [failed?, time at which control was back in ms].  The
// time is canonicalised: it is the predicted moment (the caller's deadline / cancellation)
// when the measured time lies within [predicted - 20 ms, predicted + slack], the measured time
// otherwise; a scenario whose observable does not canonicalise is re-run up to 3 times.

import (
	"fmt"
	"math/rand"
	"net"
	"sync"
	"time"

	tchannel "github.com/uber/tchannel-go"
	"github.com/uber/tchannel-go/relay"
	"golang.org/x/net/context"
)

// ---------------------------------------------------------------- a minimal relay host

type cutRelayHost struct {
	mu    sync.Mutex
	ch    *tchannel.Channel
	peers map[string]string // service -> host:port
}

type cutRelayCall struct{ peer *tchannel.Peer }

func (h *cutRelayHost) SetChannel(ch *tchannel.Channel) { h.ch = ch }
func (h *cutRelayHost) Start(cf relay.CallFrame, _ *relay.Conn) (tchannel.RelayCall, error) {
	h.mu.Lock()
	hp, ok := h.peers[string(cf.Service())]
	h.mu.Unlock()
	if !ok {
		return &cutRelayCall{}, nil
	}
	return &cutRelayCall{peer: h.ch.RootPeers().GetOrAdd(hp)}, nil
}
func (c *cutRelayCall) Destination() (*tchannel.Peer, bool) { return c.peer, c.peer != nil }
func (c *cutRelayCall) SentBytes(uint16)                    {}
func (c *cutRelayCall) ReceivedBytes(uint16)                {}
func (c *cutRelayCall) CallResponse(relay.RespFrame)        {}
func (c *cutRelayCall) Succeeded()                          {}
func (c *cutRelayCall) Failed(string)                       {}
func (c *cutRelayCall) End()                                {}

// runRelayCut: client -> [proxy A] -> relay -> [proxy B] -> server; the fault sits on hop
// 1 (proxy A) or hop 2 (proxy B), in either direction.
func runRelayCut(ex *cutExchange, hop int, spec faultSpec) (r cutResult, streams [2][2][]byte) {
	srv, hs, err := realServer(ex, nil)
	if err != nil {
		r.harness = "server: " + err.Error()
		return
	}
	defer srv.Close()
	specA, specB := faultSpec{off: -1}, faultSpec{off: -1}
	if hop == 1 {
		specA = spec
	} else {
		specB = spec
	}
	pxB, err := newFaultProxy(srv.PeerInfo().HostPort, specB)
	if err != nil {
		r.harness = "proxy: " + err.Error()
		return
	}
	defer pxB.close()
	rh := &cutRelayHost{peers: map[string]string{ex.service: pxB.addr()}}
	rl, err := tchannel.NewChannel("c05-relay", &tchannel.ChannelOptions{RelayHost: rh})
	if err != nil {
		r.harness = "relay: " + err.Error()
		return
	}
	defer rl.Close()
	if err := rl.ListenAndServe("127.0.0.1:0"); err != nil {
		r.harness = "relay listen: " + err.Error()
		return
	}
	pxA, err := newFaultProxy(rl.PeerInfo().HostPort, specA)
	if err != nil {
		r.harness = "proxy: " + err.Error()
		return
	}
	defer pxA.close()
	client, err := tchannel.NewChannel("c05-client", nil)
	if err != nil {
		r.harness = "client: " + err.Error()
		return
	}
	defer client.Close()
	r = clientCall(client, pxA.addr(), ex, cutDeadline, 0)
	time.Sleep(5 * time.Millisecond)
	hs.mu.Lock()
	r.handlerStarted, r.handlerOK, r.hMethod, r.h2, r.h3 = hs.started, hs.ok, hs.method, hs.a2, hs.a3
	hs.mu.Unlock()
	streams[0][0], streams[0][1] = pxA.recorded(0), pxA.recorded(1)
	streams[1][0], streams[1][1] = pxB.recorded(0), pxB.recorded(1)
	return
}

// ---------------------------------------------------------------- scenarios

type scenJob struct {
	sub, id string
	in      []int64
	run     func() (string, []int64) // returns the verdict and the observable
	verdict string
	obs     []int64
	hist    []string
}

const c05Early = 20 * time.Millisecond

func c05ms(d time.Duration) int64 { return int64(d / time.Millisecond) }

// c05Snap: the predicted moment when the measured one lies in [predicted-20ms, predicted+slack]
func c05Snap(elapsed, predicted time.Duration) (int64, bool) {
	if elapsed >= predicted-c05Early && elapsed <= predicted+cutSlack {
		return c05ms(predicted), true
	}
	return c05ms(elapsed), false
}

// c05Stable runs a timing-sensitive scenario up to 4 times: the first run without verdict whose
// observable canonicalises decides; a verdict is kept only if all 4 runs have one.
func c05Stable(f func() (string, []int64, bool)) (string, []int64) {
	var v string
	var obs []int64
	clean := false
	for k := 0; k < 4; k++ {
		v1, o1, snapped := f()
		if v1 == "" && snapped {
			return "", o1
		}
		if v1 == "" {
			clean = true
		}
		v, obs = v1, o1
	}
	if clean || v == "" {
		return "", obs
	}
	return v + " (reproduced 4 of 4 runs)", obs
}

func late(elapsed, deadline time.Duration) bool { return elapsed > deadline+cutSlack }

// dialq: callers queued on the same peer while a connection attempt to it hangs.
// kind 0: the listener accepts and never answers the handshake
// kind 1: the dialer itself hangs until its context ends (host unreachable, SYN unanswered)
func dialqScenario(kind int, longD time.Duration, shortDs []time.Duration, stagger time.Duration) (string, []int64, bool) {
	ln, err := net.Listen("tcp", "127.0.0.1:0")
	if err != nil {
		return "[harness-crash] listen: " + err.Error(), nil, false
	}
	defer ln.Close()
	opts := &tchannel.ChannelOptions{}
	if kind == 1 {
		opts.Dialer = func(ctx context.Context, network, hostPort string) (net.Conn, error) {
			<-ctx.Done()
			return nil, ctx.Err()
		}
	}
	ch, err := tchannel.NewChannel("c05-dialq", opts)
	if err != nil {
		return "[harness-crash] " + err.Error(), nil, false
	}
	defer ch.Close()
	target := ln.Addr().String()
	type res struct {
		d, elapsed time.Duration
		err        error
	}
	results := make([]res, 1+len(shortDs))
	var wg sync.WaitGroup
	call := func(i int, d time.Duration) {
		defer wg.Done()
		ctx, cancel := tchannel.NewContext(d)
		defer cancel()
		start := time.Now()
		done := make(chan error, 1)
		go func() {
			_, err := ch.BeginCall(ctx, target, "svc", "m", nil)
			done <- err
		}()
		select {
		case err := <-done:
			results[i] = res{d, time.Since(start), err}
		case <-time.After(d + hangGrace):
			results[i] = res{d, time.Since(start), errHung}
		}
	}
	wg.Add(1)
	go call(0, longD)
	time.Sleep(stagger)
	for i, d := range shortDs {
		wg.Add(1)
		go call(i+1, d)
	}
	wg.Wait()
	var obs []int64
	snapped := true
	for _, r := range results {
		t, ok := c05Snap(r.elapsed, r.d)
		snapped = snapped && ok
		obs = append(obs, b2i(r.err != nil), t)
	}
	for i, r := range results {
		if r.err == nil {
			return fmt.Sprintf("caller %d: BeginCall to a peer that never completes a handshake reported success", i), obs, snapped
		}
		if late(r.elapsed, r.d) {
			who := "the first caller"
			if i > 0 {
				who = fmt.Sprintf("caller %d, queued behind the first caller's connection attempt (deadline %v),", i, longD)
			}
			return fmt.Sprintf("[c05:newconnlock-no-ctx] %s with a %v deadline got control back after %v (err=%v); kind=%d",
				who, r.d, r.elapsed.Round(time.Millisecond), r.err, kind), obs, snapped
		}
	}
	return "", obs, snapped
}

// noanswer: the peer shakes hands, takes the request, and never answers.
func noAnswerScenario(ex *cutExchange, deadline time.Duration) (string, []int64, bool) {
	ln, err := net.Listen("tcp", "127.0.0.1:0")
	if err != nil {
		return "[harness-crash] listen: " + err.Error(), nil, false
	}
	defer ln.Close()
	stop := make(chan struct{})
	defer close(stop)
	go rawResponder(ln, ex, false, stop)
	client, err := tchannel.NewChannel("c05-client", nil)
	if err != nil {
		return "[harness-crash] " + err.Error(), nil, false
	}
	defer client.Close()
	r := clientCall(client, ln.Addr().String(), ex, deadline, 0)
	t, snapped := c05Snap(r.elapsed, deadline)
	obs := []int64{b2i(r.err != nil), t}
	if r.err == nil {
		return "a call whose peer never answered reported success", obs, snapped
	}
	if late(r.elapsed, deadline) {
		return fmt.Sprintf("peer never answers: deadline %v, control back after %v (err=%v)", deadline, r.elapsed.Round(time.Millisecond), r.err), obs, snapped
	}
	return "", obs, snapped
}

// cancel: the caller cancels `after` into an exchange with a peer that answers late or never.
func cancelScenario(ex *cutExchange, deadline, after time.Duration, answer bool) (string, []int64, bool) {
	ln, err := net.Listen("tcp", "127.0.0.1:0")
	if err != nil {
		return "[harness-crash] listen: " + err.Error(), nil, false
	}
	defer ln.Close()
	stop := make(chan struct{})
	defer close(stop)
	go rawResponder(ln, ex, answer, stop)
	client, err := tchannel.NewChannel("c05-client", nil)
	if err != nil {
		return "[harness-crash] " + err.Error(), nil, false
	}
	defer client.Close()
	r := clientCall(client, ln.Addr().String(), ex, deadline, after)
	// the moment the caller's context ends: its cancellation, or the deadline
	bound := deadline
	if after > 0 && after < deadline {
		bound = after
	}
	v := judgeCut(ex, &r, deadline)
	var obs []int64
	var snapped bool
	if answer {
		// the response races with the cancellation: any valid outcome by the end of the context
		if v == "" && r.elapsed <= bound+cutSlack {
			obs, snapped = []int64{2, 0}, true
		} else {
			obs, snapped = []int64{3, c05ms(r.elapsed)}, false
		}
	} else {
		t, ok := c05Snap(r.elapsed, bound)
		obs, snapped = []int64{b2i(r.err != nil), t}, ok
	}
	if v != "" {
		return "cancelled call: " + v, obs, snapped
	}
	if late(r.elapsed, deadline) {
		return fmt.Sprintf("caller cancelled after %v: deadline %v, control back after %v (err=%v)", after, deadline, r.elapsed.Round(time.Millisecond), r.err), obs, snapped
	}
	return "", obs, snapped
}

func engineCutScenarios(rng *rand.Rand, n int, tier string, o *Out) {
	var jobs []*scenJob
	scale := 1
	if tier != "quick" {
		scale = 4
	}

	// dialq
	for i := 0; i < 4*scale; i++ {
		kind := i % 2
		longD := time.Duration(pick(rng, 900, 1200, 1500)) * time.Millisecond
		var shorts []time.Duration
		for k := 0; k < pick(rng, 1, 2, 5); k++ {
			shorts = append(shorts, time.Duration(pick(rng, 100, 150, 200, 300))*time.Millisecond)
		}
		stagger := time.Duration(pick(rng, 20, 50)) * time.Millisecond
		in := []int64{int64(kind), c05ms(longD), c05ms(stagger)}
		for _, d := range shorts {
			in = append(in, c05ms(d))
		}
		j := &scenJob{sub: "c05dialq", id: fmt.Sprintf("q%d", i), in: in}
		j.hist = []string{fmt.Sprintf("dialq:kind=%d", kind), fmt.Sprintf("dialq:queued=%d", len(shorts))}
		j.run = func() (string, []int64) {
			return c05Stable(func() (string, []int64, bool) { return dialqScenario(kind, longD, shorts, stagger) })
		}
		jobs = append(jobs, j)
	}
	o.Sample(map[string]interface{}{"sub": "dialq", "what": "listener that never answers the handshake / dialer hanging until ctx ends; first caller 0.9-1.5 s deadline, 1-5 queued callers 100-300 ms"})

	// noanswer
	for i := 0; i < 6*scale; i++ {
		ex := genExchanges(rng, 2)[1]
		d := time.Duration(pick(rng, 100, 200, 300)) * time.Millisecond
		// input: the deadline (what the model needs), then the exchange for the record
		j := &scenJob{sub: "c05noanswer", id: fmt.Sprintf("na%d", i), in: []int64{c05ms(d)}}
		j.hist = []string{fmt.Sprintf("noanswer:deadline=%v", d), fmt.Sprintf("noanswer:arg3=%d flushes=%d", len(ex.arg3), len(ex.flush3))}
		j.run = func() (string, []int64) {
			return c05Stable(func() (string, []int64, bool) { return noAnswerScenario(ex, d) })
		}
		jobs = append(jobs, j)
	}

	// cancel
	for i := 0; i < 24*scale; i++ {
		ex := genExchanges(rng, 2)[i%2]
		after := time.Duration(rng.Intn(250)) * time.Millisecond
		answer := i%3 == 0
		j := &scenJob{sub: "c05cancel", id: fmt.Sprintf("c%d", i), in: []int64{c05ms(cutDeadline), c05ms(after), b2i(answer)}}
		j.hist = []string{fmt.Sprintf("cancel:after~%dms", int(after/(50*time.Millisecond))*50), fmt.Sprintf("cancel:peer-answers=%v", answer),
			fmt.Sprintf("cancel:dir=%d", ex.dir)}
		j.run = func() (string, []int64) {
			return c05Stable(func() (string, []int64, bool) { return cancelScenario(ex, cutDeadline, after, answer) })
		}
		jobs = append(jobs, j)
	}

	// relay: both hops, both directions, sampled offsets of a small multi-frame exchange
	for i := 0; i < 1*scale; i++ {
		ex := genExchanges(rng, 2)[1]
		ex.name = fmt.Sprintf("rx%d", i)
		ref, streams := runRelayCut(ex, 1, faultSpec{off: -1})
		if ref.harness != "" || ref.err != nil {
			o.Oracle("c05relay", ex.name+"-ref", false, ex.name, fmt.Sprintf("[harness-crash] relay reference run failed: %v %s", ref.err, ref.harness))
			continue
		}
		if v := judgeCut(ex, &ref, cutDeadline); v != "" {
			o.Oracle("c05relay", ex.name+"-ref", true, ex.name, "fault-free relayed exchange: "+v)
			continue
		}
		o.Sample(map[string]interface{}{"sub": "relay", "exchange": ex.name, "hop1_req_bytes": len(streams[0][1]), "hop1_res_bytes": len(streams[0][0]),
			"hop2_req_bytes": len(streams[1][1]), "hop2_res_bytes": len(streams[1][0])})
		for hop := 1; hop <= 2; hop++ {
			for dir := 0; dir <= 1; dir++ {
				total := len(streams[hop-1][dir])
				step := 7
				if tier != "quick" {
					step = 1
				}
				for off := rng.Intn(step); off < total; off += step {
					hop, dir, off := hop, dir, off
					m := []int{modeClose, modeStall, modeHalfClose}[(off/step)%3]
					j := &scenJob{sub: "c05relay", id: fmt.Sprintf("%s-h%d-d%d-o%d-%s", ex.name, hop, dir, off, modeNames[m]),
						in: []int64{int64(hop), int64(dir), int64(off), int64(m), int64(total)}}
					j.hist = []string{fmt.Sprintf("relay:hop=%d dir=%d mode=%s", hop, dir, modeNames[m])}
					j.run = func() (string, []int64) {
						check := func() (string, bool, []int64) {
							r, _ := runRelayCut(ex, hop, faultSpec{dir: dir, off: off, mode: m})
							if r.harness != "" {
								return "[harness-crash] " + r.harness, false, nil
							}
							obs := []int64{b2i(r.err != nil), b2i(!overrun(&r, cutDeadline))}
							if v := judgeCut(ex, &r, cutDeadline); v != "" {
								return v, false, obs
							}
							if overrun(&r, cutDeadline) {
								return fmt.Sprintf("relayed call: deadline %v, control back after %v (err=%v)", cutDeadline, r.elapsed.Round(time.Millisecond), r.err), true, obs
							}
							return "", false, obs
						}
						v, timing, obs := check()
						if v != "" && timing {
							for k := 0; k < 3; k++ {
								if v2, _, obs2 := check(); v2 == "" {
									return "", obs2
								}
							}
						}
						if v != "" {
							v += fmt.Sprintf(" [relay hop %d dir=%d mode=%s offset=%d of %d]", hop, dir, modeNames[m], off, total)
						}
						return v, obs
					}
					jobs = append(jobs, j)
				}
			}
		}
	}

	work := make(chan *scenJob)
	var wg sync.WaitGroup
	for w := 0; w < 16; w++ {
		wg.Add(1)
		go func() {
			defer wg.Done()
			for j := range work {
				j.verdict, j.obs = j.run()
			}
		}()
	}
	for _, j := range jobs {
		work <- j
	}
	close(work)
	wg.Wait()
	for _, j := range jobs {
		for _, h := range j.hist {
			o.Hist(h)
		}
		if j.obs == nil {
			// the scenario could not be set up (harness-level): oracle only
			o.Oracle(j.sub, j.id, false, j.id, j.verdict)
			continue
		}
		o.Case(j.sub, j.id, j.in, j.obs, true, j.verdict)
	}
}
