package main

// Engine "cancelprop" (property C14, clause d): scripts of caller operations, handler
// operations and environment events are executed step by step on REAL channels (client,
// optional relays, server) under every combination of SendCancelOnContextCanceled /
// PropagateCancel, and the final observables (state of the handler's context, the error
// the caller's wait ended with, cancel messages requested/honoured at the server) are
// compared with the model's run_cancel.  Oracles are written from the property statement.

import (
	"fmt"
	"io"
	"math/rand"
	"net"
	"sort"
	"sync"
	"time"

	tchannel "github.com/uber/tchannel-go"
	"github.com/uber/tchannel-go/relay"
	"golang.org/x/net/context"
)

func init() { engines["cancelprop"] = engineCancelProp }

const (
	lBegin = iota
	lWFrag
	lWClose
	lRead
	lCancel
	lDeadline
	lHFrag
	lHClose
	lHBlackhole
	lConnFail
)

var cpLabelNames = []string{"Begin", "WFrag", "WClose", "Read", "Cancel", "Deadline", "HFrag", "HClose", "HBlackhole", "ConnFail"}

const cpChunk = 60000

type cpCase struct {
	sendCancel, srvProp bool
	hops                []bool
	labels              []int
}

func (c *cpCase) encode() []int64 {
	in := []int64{b2i(c.sendCancel), b2i(c.srvProp), int64(len(c.hops))}
	for _, h := range c.hops {
		in = append(in, b2i(h))
	}
	in = append(in, int64(len(c.labels)))
	for _, l := range c.labels {
		in = append(in, int64(l))
	}
	return in
}

func (c *cpCase) allFlags() bool {
	if !c.sendCancel || !c.srvProp {
		return false
	}
	for _, h := range c.hops {
		if !h {
			return false
		}
	}
	return true
}

func (c *cpCase) String() string {
	s := fmt.Sprintf("send=%v srv=%v hops=%v:", c.sendCancel, c.srvProp, c.hops)
	for _, l := range c.labels {
		if l >= len(cpLabelNames) {
			s += " " + c14dcLabelName(l)
			continue
		}
		s += " " + cpLabelNames[l]
	}
	return s
}

// ---- stats reporter counting cancel messages at the server ----
type cpStats struct {
	mu                 sync.Mutex
	requested, honored int64
}

func (s *cpStats) IncCounter(name string, tags map[string]string, value int64) {
	s.mu.Lock()
	switch name {
	case "inbound.cancels.requested":
		s.requested += value
	case "inbound.cancels.honored":
		s.honored += value
	}
	s.mu.Unlock()
}
func (s *cpStats) UpdateGauge(name string, tags map[string]string, value int64)     {}
func (s *cpStats) RecordTimer(name string, tags map[string]string, d time.Duration) {}

// ---- relay host forwarding every call to one destination ----
type cpRelayHost struct {
	ch   *tchannel.Channel
	dest string
}

func (h *cpRelayHost) SetChannel(ch *tchannel.Channel) { h.ch = ch }
func (h *cpRelayHost) Start(f relay.CallFrame, c *relay.Conn) (tchannel.RelayCall, error) {
	return &cpRelayCall{peer: h.ch.RootPeers().GetOrAdd(h.dest)}, nil
}

type cpRelayCall struct{ peer *tchannel.Peer }

func (c *cpRelayCall) Destination() (*tchannel.Peer, bool) { return c.peer, true }
func (c *cpRelayCall) SentBytes(uint16)                    {}
func (c *cpRelayCall) ReceivedBytes(uint16)                {}
func (c *cpRelayCall) CallResponse(relay.RespFrame)        {}
func (c *cpRelayCall) Succeeded()                          {}
func (c *cpRelayCall) Failed(string)                       {}
func (c *cpRelayCall) End()                                {}

// ---- dialer that remembers the sockets it opened, so that the harness can kill them ----
type cpDialer struct {
	mu    sync.Mutex
	conns []net.Conn
}

func (d *cpDialer) dial(ctx context.Context, network, hostPort string) (net.Conn, error) {
	var nd net.Dialer
	c, err := nd.DialContext(ctx, network, hostPort)
	if err == nil {
		d.mu.Lock()
		d.conns = append(d.conns, c)
		d.mu.Unlock()
	}
	return c, err
}
func (d *cpDialer) kill() {
	d.mu.Lock()
	for _, c := range d.conns {
		c.Close()
	}
	d.mu.Unlock()
}

// ---- handler driven by commands ----
type cpHandler struct {
	started chan struct{}
	once    sync.Once
	ctx     context.Context
	cmds    chan int
	acks    chan error
}

func (h *cpHandler) Handle(ctx context.Context, call *tchannel.InboundCall) {
	first := false
	h.once.Do(func() { first = true })
	if !first {
		return
	}
	h.ctx = ctx
	close(h.started)
	// the request is consumed in the background so that the connection never stalls on it
	go func() {
		var a2, a3 []byte
		if err := tchannel.NewArgReader(call.Arg2Reader()).Read(&a2); err != nil {
			return
		}
		tchannel.NewArgReader(call.Arg3Reader()).Read(&a3)
	}()
	resp := call.Response()
	var w3 tchannel.ArgWriter
	ensure := func() error {
		if w3 != nil {
			return nil
		}
		w2, err := resp.Arg2Writer()
		if err != nil {
			return err
		}
		if _, err := w2.Write([]byte("r2")); err != nil {
			return err
		}
		if err := w2.Close(); err != nil {
			return err
		}
		w, err := resp.Arg3Writer()
		if err != nil {
			return err
		}
		w3 = w
		return nil
	}
	chunk := make([]byte, cpChunk)
	for cmd := range h.cmds {
		var err error
		switch cmd {
		case lHFrag:
			if err = ensure(); err == nil {
				if _, err = w3.Write(chunk); err == nil {
					err = w3.Flush()
				}
			}
		case lHClose:
			if err = ensure(); err == nil {
				err = w3.Close()
			}
		case lHBlackhole:
			resp.Blackhole()
		default:
			return
		}
		h.acks <- err
	}
}

func cpErrCode(err error) int64 {
	if err == nil {
		return 0
	}
	if se, ok := err.(tchannel.SystemError); ok {
		switch se.Code() {
		case tchannel.ErrCodeTimeout:
			return 1
		case tchannel.ErrCodeCancelled:
			return 2
		}
	}
	return 3
}

// facts recorded while executing, used by the oracles
type cpFacts struct {
	started          bool // the handler was dispatched
	deadlinePassed   bool // ... and afterwards the deadline passed
	completed        bool // ... the handler completed its response (Close returned nil)
	blackholed       bool
	connFailed       bool
	cancelSeenLive   bool // a caller operation failed with "cancelled" while the handler was running, the path intact and no other cause had occurred
	callerErrs       []string
	timingInvalid    bool
	harnessErr       string
	respWhileRunning bool
	c14dcDrained     []int    // parties (0 server, 1 caller, 2+i relay hop i) that started a graceful Close with the call in flight
	c14dcStates      []string // the connection states of that party right after its Close
}

// runCancelCase executes the script; T is the caller's timeout.
func runCancelCase(c *cpCase, T time.Duration, asyncCancel bool) (obs []int64, facts cpFacts) {
	stats := &cpStats{}
	srv, err := tchannel.NewChannel("svc", &tchannel.ChannelOptions{
		StatsReporter:            stats,
		DefaultConnectionOptions: tchannel.ConnectionOptions{PropagateCancel: c.srvProp},
	})
	if err != nil {
		facts.harnessErr = err.Error()
		return
	}
	defer srv.Close()
	h := &cpHandler{started: make(chan struct{}), cmds: make(chan int, 4), acks: make(chan error, 4)}
	srv.Register(h, "m")
	if err := srv.ListenAndServe("127.0.0.1:0"); err != nil {
		facts.harnessErr = err.Error()
		return
	}
	defer close(h.cmds)
	next := srv.PeerInfo().HostPort
	killer := &cpDialer{}
	relays := make([]*tchannel.Channel, len(c.hops))
	setupCtx, setupCancel := tchannel.NewContext(5 * time.Second)
	defer setupCancel()
	for i := len(c.hops) - 1; i >= 0; i-- {
		opts := &tchannel.ChannelOptions{
			RelayHost:                &cpRelayHost{dest: next},
			DefaultConnectionOptions: tchannel.ConnectionOptions{PropagateCancel: c.hops[i]},
		}
		if i == len(c.hops)-1 {
			opts.Dialer = killer.dial
		}
		rl, err := tchannel.NewChannel(fmt.Sprintf("relay%d", i), opts)
		if err != nil {
			facts.harnessErr = err.Error()
			return
		}
		defer rl.Close()
		relays[i] = rl
		if err := rl.ListenAndServe("127.0.0.1:0"); err != nil {
			facts.harnessErr = err.Error()
			return
		}
		if _, err := rl.RootPeers().GetOrAdd(next).GetConnection(setupCtx); err != nil {
			facts.harnessErr = "relay connect: " + err.Error()
			return
		}
		next = rl.PeerInfo().HostPort
	}
	copts := &tchannel.ChannelOptions{DefaultConnectionOptions: tchannel.ConnectionOptions{SendCancelOnContextCanceled: c.sendCancel}}
	if len(c.hops) == 0 {
		copts.Dialer = killer.dial
	}
	cl, err := tchannel.NewChannel("cl", copts)
	if err != nil {
		facts.harnessErr = err.Error()
		return
	}
	defer cl.Close()
	if _, err := cl.RootPeers().GetOrAdd(next).GetConnection(setupCtx); err != nil {
		facts.harnessErr = "client connect: " + err.Error()
		return
	}

	ctx, cancel := tchannel.NewContext(T)
	defer cancel()
	deadline, _ := ctx.Deadline()

	var (
		call               *tchannel.OutboundCall
		w3                 tchannel.ArgWriter
		r3                 tchannel.ArgReader
		cres               int64 = -1
		begun              bool
		reqClosed          bool
		reqSent            int
		cancelled          bool
		deadlineHit        bool
		pathBroken         bool // the caller's frames can no longer reach the server
		hframes            []bool
		nread              int
		pendingAsyncCancel bool
		pastDeadline       bool // the deadline instant has passed (whatever state the context was in)
		chunk              = make([]byte, cpChunk)
	)
	otherCause := func() bool { return facts.deadlinePassed || facts.completed || facts.blackholed || facts.connFailed }
	handlerStarted := func(wait time.Duration) bool {
		if facts.started {
			return true
		}
		select {
		case <-h.started:
			facts.started = true
			return true
		case <-time.After(wait):
			return false
		}
	}
	callerFail := func(op string, err error) {
		cres = cpErrCode(err)
		facts.callerErrs = append(facts.callerErrs, fmt.Sprintf("%s:%d:cancelled=%v:deadline=%v:past=%v", op, cres, cancelled, deadlineHit, pastDeadline))
		if cres == 2 && handlerStarted(0) && !otherCause() && !pathBroken {
			facts.cancelSeenLive = true
		}
		time.Sleep(30 * time.Millisecond) // a cancel message may be on its way
	}
	ensureW3 := func() error {
		if w3 != nil {
			return nil
		}
		w2, err := call.Arg2Writer()
		if err != nil {
			return err
		}
		if _, err := w2.Write([]byte("a2")); err != nil {
			return err
		}
		if err := w2.Close(); err != nil {
			return err
		}
		w, err := call.Arg3Writer()
		if err != nil {
			return err
		}
		w3 = w
		return nil
	}

	for idx, l := range c.labels {
		switch l {
		case lBegin:
			if begun || cres >= 0 {
				continue
			}
			var err error
			call, err = cl.BeginCall(ctx, next, "svc", "m", nil)
			if err != nil {
				callerFail("begin", err)
				continue
			}
			begun = true
		case lWFrag, lWClose:
			if !begun || cres >= 0 || reqClosed {
				continue
			}
			err := ensureW3()
			if err == nil {
				if l == lWFrag {
					if _, err = w3.Write(chunk); err == nil {
						err = w3.Flush()
					}
				} else {
					err = w3.Close()
				}
			}
			if err != nil {
				callerFail("write", err)
				continue
			}
			reqSent++
			if l == lWClose {
				reqClosed = true
			}
			if reqSent == 1 && !facts.connFailed {
				if !handlerStarted(3 * time.Second) {
					facts.harnessErr = "handler not dispatched within 3s of the first request frame"
				}
			}
		case lRead:
			if !begun || cres >= 0 || !reqClosed {
				continue
			}
			// which read operation: decided by what the handler was told to send
			kind := 0 // nothing sent yet: probe
			if nread < len(hframes) {
				kind = 1 // a non-final fragment
				if hframes[nread] {
					kind = 2 // the final fragment
				}
			}
			type rres struct {
				err  error
				done bool
			}
			ch := make(chan rres, 1)
			go func(first bool, kind int) {
				if first {
					r2, err := call.Response().Arg2Reader()
					if err != nil {
						ch <- rres{err: err}
						return
					}
					if _, err := io.ReadAll(r2); err != nil {
						ch <- rres{err: err}
						return
					}
					if err := r2.Close(); err != nil {
						ch <- rres{err: err}
						return
					}
					rr, err := call.Response().Arg3Reader()
					if err != nil {
						ch <- rres{err: err}
						return
					}
					r3 = rr
				}
				switch kind {
				case 1:
					_, err := io.ReadFull(r3, make([]byte, cpChunk))
					ch <- rres{err: err}
				case 2:
					if _, err := io.ReadAll(r3); err != nil {
						ch <- rres{err: err}
						return
					}
					err := r3.Close()
					ch <- rres{err: err, done: err == nil}
				default:
					_, err := io.ReadFull(r3, make([]byte, 1))
					ch <- rres{err: err}
				}
			}(nread == 0, kind)
			if pendingAsyncCancel {
				// the cancellation arrives while the caller is blocked waiting for a frame
				pendingAsyncCancel = false
				time.Sleep(20 * time.Millisecond)
				cancel()
				if !deadlineHit {
					cancelled = true
				}
			}
			select {
			case r := <-ch:
				if r.err != nil {
					callerFail("read", r.err)
				} else {
					nread++
					if r.done {
						cres = 0
					}
				}
			case <-time.After(600 * time.Millisecond):
				cres = 7
				facts.callerErrs = append(facts.callerErrs, "read:blocked")
			}
		case lCancel:
			if cres == 7 {
				// the caller was abandoned while blocked in a read (the harness gave up on it, the
				// model's caller is finished): cancelling now would wake that read up
				continue
			}
			if asyncCancel && idx+1 < len(c.labels) && c.labels[idx+1] == lRead && begun && cres < 0 && reqClosed && nread >= len(hframes) && !cancelled && !deadlineHit {
				pendingAsyncCancel = true
				continue
			}
			cancel()
			if !deadlineHit {
				cancelled = true
			}
		case lDeadline:
			if !deadlineHit && !cancelled && time.Until(deadline) < 60*time.Millisecond {
				facts.timingInvalid = true
			}
			if d := time.Until(deadline) + 60*time.Millisecond; d > 0 {
				time.Sleep(d)
			}
			if !cancelled {
				deadlineHit = true
			}
			pastDeadline = true
			if handlerStarted(0) {
				facts.deadlinePassed = true
			}
		case lHFrag, lHClose, lHBlackhole:
			if !handlerStarted(0) {
				continue
			}
			h.cmds <- l
			var herr error
			select {
			case herr = <-h.acks:
			case <-time.After(3 * time.Second):
				facts.harnessErr = "handler command not acknowledged"
				continue
			}
			switch l {
			case lHFrag:
				if herr == nil {
					hframes = append(hframes, false)
				}
			case lHClose:
				if herr == nil {
					hframes = append(hframes, true)
					facts.completed = true
				}
			case lHBlackhole:
				facts.blackholed = true
			}
			time.Sleep(15 * time.Millisecond)
		case lConnFail:
			// the connection that carries the call towards the server: the caller's own from
			// BeginCall on; a relay's outbound one once the first frame went through it
			if !begun || (len(c.hops) > 0 && !handlerStarted(0)) {
				continue
			}
			killer.kill()
			pathBroken = true
			time.Sleep(40 * time.Millisecond)
			if handlerStarted(0) {
				facts.connFailed = true
			}
		default:
			// engine_c14drain.go: a party starts a graceful Close (Channel.Close) while the call is in
			// flight; skipped (as in Model/C14DrainCancel.v) unless the handler runs with a live context
			if l < c14dcDrainBase || !handlerStarted(0) || h.ctx.Err() != nil {
				continue
			}
			who := l - c14dcDrainBase
			var ch *tchannel.Channel
			switch {
			case who == 0:
				ch = srv
			case who == 1:
				ch = cl
			case who-2 < len(relays):
				ch = relays[who-2]
			}
			if ch == nil {
				continue
			}
			ch.Close()
			time.Sleep(20 * time.Millisecond)
			facts.c14dcDrained = append(facts.c14dcDrained, who)
			facts.c14dcStates = append(facts.c14dcStates, c14dcConnStates(ch))
		}
	}
	// final observation
	hs := int64(9)
	if handlerStarted(50 * time.Millisecond) {
		hs = 0
		select {
		case <-h.ctx.Done():
			if h.ctx.Err() == context.DeadlineExceeded {
				hs = 1
			} else {
				hs = 2
			}
		case <-time.After(350 * time.Millisecond):
		}
	} else {
		time.Sleep(30 * time.Millisecond)
	}
	stats.mu.Lock()
	req, hon := stats.requested, stats.honored
	stats.mu.Unlock()
	return []int64{hs, cres, req, hon}, facts
}

// oracle from the property statement
func cpOracle(c *cpCase, obs []int64, f *cpFacts) string {
	hs, cres := obs[0], obs[1]
	cause := f.deadlinePassed || f.completed || f.blackholed || f.connFailed
	// soundness: a handler context ends only for one of the listed reasons
	if hs == 1 && !f.deadlinePassed {
		return "handler context reports DeadlineExceeded although the deadline did not pass"
	}
	if hs == 2 && !(f.completed || f.blackholed || f.connFailed || (c.allFlags() && containsLabel(c.labels, lCancel))) {
		return "handler context was cancelled without completion, connection failure, or a caller cancellation with propagation enabled on every hop"
	}
	// completeness
	if f.started && cause && hs == 0 {
		return fmt.Sprintf("handler context still live after deadline=%v completed=%v blackhole=%v connfail=%v", f.deadlinePassed, f.completed, f.blackholed, f.connFailed)
	}
	if f.started && f.cancelSeenLive && c.allFlags() && hs != 2 {
		return fmt.Sprintf("[c14:no-cancel-message] caller's wait ended with 'cancelled' while the handler was running and cancel propagation is enabled on every hop, but the handler context is %d (0 live, 1 deadline)", hs)
	}
	// the caller's error
	for _, e := range f.callerErrs {
		var op string
		var code int
		var cancelled, deadline bool
		if n, _ := fmt.Sscanf(e, "%s", &op); n == 1 && op == "read:blocked" {
			continue
		}
		parts := splitColon(e)
		if len(parts) != 5 {
			continue
		}
		fmt.Sscanf(parts[1], "%d", &code)
		cancelled = parts[2] == "cancelled=true"
		deadline = parts[3] == "deadline=true"
		if parts[0] == "begin" && parts[4] == "past=true" {
			// under a millisecond left: local timeout, whatever the state of the context
			if code != 1 {
				return fmt.Sprintf("BeginCall after the deadline ended with code %d, not ErrTimeout", code)
			}
			continue
		}
		if cancelled && !f.connFailed && code != 2 {
			return fmt.Sprintf("caller operation %s after its context was cancelled ended with code %d, not ErrRequestCancelled", parts[0], code)
		}
		if deadline && !f.connFailed && code != 1 {
			return fmt.Sprintf("caller operation %s after its deadline ended with code %d, not ErrTimeout", parts[0], code)
		}
		if !cancelled && !deadline && (code == 1 || code == 2) {
			return fmt.Sprintf("caller operation %s ended with timeout/cancelled code %d although its context is live", parts[0], code)
		}
	}
	_ = cres
	if obs[3] > obs[2] || (!c.srvProp && obs[3] != 0) {
		return fmt.Sprintf("server honoured %d cancel messages of %d requested (PropagateCancel=%v)", obs[3], obs[2], c.srvProp)
	}
	if obs[2] > 1 {
		return fmt.Sprintf("%d cancel messages for one call reached the server", obs[2])
	}
	return ""
}

func splitColon(s string) []string {
	var out []string
	cur := ""
	for _, r := range s {
		if r == ':' {
			out = append(out, cur)
			cur = ""
		} else {
			cur += string(r)
		}
	}
	return append(out, cur)
}

func containsLabel(ls []int, l int) bool {
	for _, x := range ls {
		if x == l {
			return true
		}
	}
	return false
}

func genCancelCase(rng *rand.Rand) *cpCase {
	c := &cpCase{sendCancel: rng.Intn(3) != 0, srvProp: rng.Intn(3) != 0}
	switch rng.Intn(10) {
	case 0, 1, 2, 3:
		c.hops = []bool{rng.Intn(4) != 0}
	case 4:
		c.hops = []bool{rng.Intn(4) != 0, rng.Intn(4) != 0}
	}
	reqFrags := pick(rng, 0, 0, 1, 2)
	respFrags := pick(rng, 0, 0, 1, 2)
	base := []int{lBegin}
	for i := 0; i < reqFrags; i++ {
		base = append(base, lWFrag)
	}
	base = append(base, lWClose)
	// handler and reader labels, interleaved but with each frame written before it is read
	for i := 0; i <= respFrags; i++ {
		if i < respFrags {
			base = append(base, lHFrag)
		} else {
			base = append(base, lHClose)
		}
		if rng.Intn(3) != 0 {
			base = append(base, lRead)
		}
	}
	for n := 0; n < respFrags+1; n++ {
		base = append(base, lRead)
	}
	// sometimes the handler answers before the request is complete
	if reqFrags > 0 && rng.Intn(5) == 0 {
		for i := range base {
			if base[i] == lHFrag || base[i] == lHClose {
				hl := base[i]
				copy(base[3:i+1], base[2:i])
				base[2] = hl
				break
			}
		}
	}
	// truncate: the handler never answers / the caller stops
	if rng.Intn(4) == 0 {
		base = base[:1+rng.Intn(len(base))]
	}
	events := [][]int{{}, {lCancel}, {lCancel}, {lCancel}, {lDeadline}, {lConnFail}, {lHBlackhole}, {lCancel, lDeadline}, {lConnFail, lCancel}, {lCancel, lCancel}, {lHBlackhole, lCancel}}
	ev := events[rng.Intn(len(events))]
	for _, e := range ev {
		pos := rng.Intn(len(base) + 1)
		base = append(base[:pos], append([]int{e}, base[pos:]...)...)
	}
	// after a cancel the caller usually goes on (and so observes it)
	c.labels = base
	return c
}

func engineCancelProp(rng *rand.Rand, n int, tier string, o *Out) {
	cases := make([]*cpCase, n)
	// fixed matrix first: every option combination x {cancel while writing, while waiting, while reading}
	fixed := [][]int{
		{lBegin, lWFrag, lCancel, lWFrag},
		{lBegin, lWFrag, lCancel, lWClose},
		{lBegin, lWClose, lCancel, lRead},
		{lBegin, lWClose, lHFrag, lRead, lCancel, lRead},
		{lBegin, lWClose, lHFrag, lHClose, lRead, lRead, lCancel},
		{lCancel, lBegin},
		{lBegin, lWClose, lDeadline, lRead},
		{lBegin, lWFrag, lConnFail, lWClose},
		{lBegin, lWClose, lHBlackhole, lCancel, lRead},
		{lBegin, lWFrag, lWFrag, lCancel},
		{lCancel, lDeadline, lBegin},
		{lDeadline, lCancel, lBegin, lWClose},
	}
	var fixedCases []*cpCase
	for _, hops := range [][]bool{nil, {true}, {false}} {
		for m := 3; m >= 0; m-- {
			for j, ls := range fixed {
				if m == 3 || (j+m)%2 == 0 { // the all-enabled column is complete, the others thinned out
					fixedCases = append(fixedCases, &cpCase{sendCancel: m&1 != 0, srvProp: m&2 != 0, hops: hops, labels: ls})
				}
			}
		}
	}
	k := 0
	for ; k < len(fixedCases) && k < n/2; k++ {
		cases[k] = fixedCases[k]
	}
	for ; k < n; k++ {
		cases[k] = genCancelCase(rng)
	}
	type result struct {
		obs   []int64
		facts cpFacts
		verd  string
	}
	results := make([]result, n)
	asyncs := make([]bool, n)
	for i := range asyncs {
		asyncs[i] = rng.Intn(2) == 0
	}
	var wg sync.WaitGroup
	sem := make(chan struct{}, 12)
	for i := range cases {
		wg.Add(1)
		sem <- struct{}{}
		go func(i int) {
			defer wg.Done()
			defer func() { <-sem }()
			c := cases[i]
			T := 30 * time.Second
			if containsLabel(c.labels, lDeadline) {
				T = 700 * time.Millisecond
			}
			var r result
			for attempt := 0; attempt < 3; attempt++ {
				r.obs, r.facts = runCancelCase(c, T, asyncs[i])
				if r.facts.harnessErr != "" || r.facts.timingInvalid {
					T *= 2
					continue
				}
				r.verd = cpOracle(c, r.obs, &r.facts)
				if r.verd == "" {
					break
				}
			}
			if r.facts.harnessErr != "" {
				r.verd = "harness: " + r.facts.harnessErr
				if r.obs == nil {
					r.obs = []int64{-2}
				}
			} else if r.facts.timingInvalid {
				r.verd = "harness: steps before the deadline did not finish in time (3 attempts)"
			}
			results[i] = r
		}(i)
	}
	wg.Wait()
	for i, c := range cases {
		r := results[i]
		o.Hist(fmt.Sprintf("hops=%d", len(c.hops)))
		o.Hist(fmt.Sprintf("send=%v,srv=%v,relays_all=%v", c.sendCancel, c.srvProp, c.allFlags() || len(c.hops) == 0 || allTrue(c.hops)))
		evs := []string{}
		for _, l := range []int{lCancel, lDeadline, lConnFail, lHBlackhole, lHClose} {
			if containsLabel(c.labels, l) {
				evs = append(evs, cpLabelNames[l])
			}
		}
		sort.Strings(evs)
		o.Hist("events=" + fmt.Sprint(evs))
		if len(r.obs) == 4 {
			o.Hist(fmt.Sprintf("handler_ctx=%d", r.obs[0]))
			o.Hist(fmt.Sprintf("caller_result=%d", r.obs[1]))
		}
		if i < 2 || i == n-1 {
			o.Sample(map[string]interface{}{"sub": "cancel", "case": c.String(), "obs(handler_ctx,caller,requested,honoured)": r.obs})
		}
		nontrivial := len(r.obs) == 4 && r.obs[0] != 9
		o.Case("cancel", fmt.Sprintf("c%d", i), c.encode(), r.obs, nontrivial, r.verd)
	}
}

func allTrue(bs []bool) bool {
	for _, b := range bs {
		if !b {
			return false
		}
	}
	return true
}
