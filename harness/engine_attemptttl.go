package main

// Engine "attemptttl" (property C14, clauses a/b/d through the clients of the SUB-PACKAGES):
// thrift (generated client of thrift/gen-go/test -> thrift.client.Call) and json
// (json.Client.Call) calls made under RetryOptions.TimeoutPerAttempt.  Channel.RunWithRetry
// gives every attempt its own context; the time-to-live of the attempt's call req, the
// handler's deadline and the caller's wait have to follow THAT context, not the caller's
// overall one.
//
//   ttl_attempt      client -> [0..2 real relays] -> raw server that records the ttl field of
//                    every call req and answers "busy" (the next attempt follows at once) or
//                    nothing (the attempt runs into its timeout).  Model: Model/AttemptCtx.v
//                    run_ttl_attempt = per attempt the largest field a correct attempt can
//                    deliver (proved: C14_attempt_bound).  Input: overall deadline and
//                    TimeoutPerAttempt in ns relative to the start of the call, the relays'
//                    configured maxima, and per attempt a LOWER bound of its start (0; towards a
//                    silent destination reached directly (k-1) x TimeoutPerAttempt).  Observable per attempt: the
//                    bound the harness computes from the statement when the field seen is
//                    within (0, bound], otherwise the field seen (so both an excessive field and
//                    a disagreement between the two computations of the bound show up).
//   ttl_attempt_e2e  (oracle only) client -> [0..1 real relay] -> real server whose handler
//                    records the time left in its context and then waits for ctx.Done():
//                    handler budget <= TimeoutPerAttempt (and <= the overall remaining time),
//                    the handler's context ends within TimeoutPerAttempt (+ slack) of its
//                    arrival, the caller's Call returns a timeout within attempts x
//                    TimeoutPerAttempt (+ slack) although the overall deadline is seconds away.
//
// Timing: an upper bound on a ttl field is never flaky (delays only shrink the field); the
// two wait oracles use 1 s of slack against a 2.5 s gap and are repeated up to 3 times.

import (
	"fmt"
	"math/rand"
	"sync"
	"time"

	tchannel "github.com/uber/tchannel-go"
	"github.com/uber/tchannel-go/json"
	"github.com/uber/tchannel-go/thrift"
	gen "github.com/uber/tchannel-go/thrift/gen-go/test"
	"golang.org/x/net/context"
)

func init() { engines["attemptttl"] = engineAttemptTTL }

type atCase struct {
	kind     int // 0 thrift, 1 json
	overall  time.Duration
	tpa      time.Duration
	attempts int
	maxes    []time.Duration // configured RelayMaxTimeout of each relay (0 = default)
	busy     bool            // the raw server answers busy (else: silent)
	viaPeers bool            // no HostPort option: the client goes through the (sub)channel's peer list
	policy   tchannel.RetryOn
}

func (c *atCase) String() string {
	return fmt.Sprintf("kind=%d overall=%v tpa=%v attempts=%d relays=%v busy=%v viaPeers=%v", c.kind, c.overall, c.tpa, c.attempts, c.maxes, c.busy, c.viaPeers)
}

// atChain builds relays in front of dest; returns the entry host:port, the maxima in force and a closer.
func atChain(maxes []time.Duration, dest string) (string, []time.Duration, func(), error) {
	var chans []*tchannel.Channel
	closeAll := func() {
		for _, c := range chans {
			c.Close()
		}
	}
	inForce := make([]time.Duration, len(maxes))
	next := dest
	setupCtx, cancel := tchannel.NewContext(5 * time.Second)
	defer cancel()
	for i := len(maxes) - 1; i >= 0; i-- {
		rl, err := tchannel.NewChannel(fmt.Sprintf("at-relay%d", i), &tchannel.ChannelOptions{RelayHost: &cpRelayHost{dest: next}, RelayMaxTimeout: maxes[i]})
		if err != nil {
			closeAll()
			return "", nil, nil, err
		}
		chans = append(chans, rl)
		if err := rl.ListenAndServe("127.0.0.1:0"); err != nil {
			closeAll()
			return "", nil, nil, err
		}
		if _, err := rl.RootPeers().GetOrAdd(next).GetConnection(setupCtx); err != nil {
			closeAll()
			return "", nil, nil, err
		}
		inForce[i] = tchannel.VerifRelayMaxTimeout(rl)
		next = rl.PeerInfo().HostPort
	}
	return next, inForce, closeAll, nil
}

// atCall makes the call of the case through the client of its kind.
func atCall(cl *tchannel.Channel, c *atCase, hostPort, service string) (t0 time.Time, deadline time.Time, err error) {
	ctx, cancel := tchannel.NewContextBuilder(c.overall).
		SetRetryOptions(&tchannel.RetryOptions{MaxAttempts: c.attempts, RetryOn: c.policy, TimeoutPerAttempt: c.tpa}).Build()
	defer cancel()
	t0 = time.Now() // before RunWithRetry starts, after the deadline was fixed
	deadline, _ = ctx.Deadline()
	var topts *thrift.ClientOptions
	var jopts *json.ClientOptions
	if c.viaPeers {
		// startCall's other branch: SubChannel.BeginCall on the peer list
		cl.GetSubChannel(service).Peers().Add(hostPort)
	} else {
		topts = &thrift.ClientOptions{HostPort: hostPort}
		jopts = &json.ClientOptions{HostPort: hostPort}
	}
	switch c.kind {
	case 0:
		tc := gen.NewTChanSimpleServiceClient(thrift.NewClient(cl, service, topts))
		err = tc.Simple(thrift.Wrap(ctx))
	default:
		jc := json.NewClient(cl, service, jopts)
		var out map[string]string
		err = jc.Call(json.Wrap(ctx), "Simple", map[string]string{"a": "b"}, &out)
	}
	return
}

type atSeen struct {
	ttl uint32
	at  time.Time
}

// atWire runs one ttl_attempt case.
func atWire(c *atCase, idx int) (in []int64, obs []int64, verdict string, harnessErr string) {
	service := fmt.Sprintf("atsvc%d", idx)
	col, err := newRawCollector(func(string) bool { return c.busy })
	if err != nil {
		return nil, nil, "", err.Error()
	}
	defer col.close()
	entry, inForce, closeRelays, err := atChain(c.maxes, col.ln.Addr().String())
	if err != nil {
		return nil, nil, "", err.Error()
	}
	defer closeRelays()
	cl, err := tchannel.NewChannel("at-client", nil)
	if err != nil {
		return nil, nil, "", err.Error()
	}
	defer cl.Close()
	// connect first: the attempt's time must not be spent on dialling
	setupCtx, cancel := tchannel.NewContext(5 * time.Second)
	_, err = cl.RootPeers().GetOrAdd(entry).GetConnection(setupCtx)
	cancel()
	if err != nil {
		return nil, nil, "", err.Error()
	}
	t0, deadline, _ := atCall(cl, c, entry, service)
	time.Sleep(20 * time.Millisecond)
	var seen []atSeen
drain:
	for {
		select {
		case s := <-col.seen:
			if s.service == service {
				seen = append(seen, atSeen{s.ttl, s.at})
			}
		default:
			break drain
		}
	}
	// the overall time left at the start, rounded UP to a whole millisecond (an upper bound stays
	// one, and the model input does not depend on the microseconds Build took)
	odl := (deadline.Sub(t0) + time.Millisecond - 1) / time.Millisecond * time.Millisecond
	in = []int64{int64(odl), int64(c.tpa), int64(len(c.maxes))}
	for _, m := range c.maxes {
		in = append(in, int64(m))
	}
	in = append(in, int64(len(seen)))
	start := time.Duration(0)
	for k, s := range seen {
		in = append(in, int64(start))
		// the statement: the field never exceeds the time the attempt has left, nor any relay maximum
		left := odl - start
		if c.tpa != 0 && c.tpa < left {
			left = c.tpa
		}
		bound := int64(0)
		if left >= time.Millisecond {
			bound = int64(left / time.Millisecond)
		}
		for _, m := range inForce {
			if mm := int64(m / time.Millisecond); mm < bound {
				bound = mm
			}
		}
		if int64(s.ttl) >= 1 && int64(s.ttl) <= bound {
			obs = append(obs, bound)
		} else {
			obs = append(obs, int64(s.ttl))
			if verdict == "" {
				verdict = fmt.Sprintf("attempt %d of a %s call (overall timeout %v, TimeoutPerAttempt %v, relay maxima %v): the call req that reached the destination carries ttl %d ms, the attempt had at most %d ms left", k+1, []string{"thrift", "json"}[c.kind], c.overall, c.tpa, inForce, s.ttl, bound)
			}
		}
		// Lower bound of the next attempt's start, independent of the timing of this run: 0 in
		// general; towards a silent destination reached directly an attempt ends when its own
		// context expires, so the next one starts at least TimeoutPerAttempt later.
		if !c.busy && len(c.maxes) == 0 && c.tpa != 0 {
			start += c.tpa
		}
	}
	if len(seen) > c.attempts && verdict == "" {
		verdict = fmt.Sprintf("%d call reqs for MaxAttempts %d", len(seen), c.attempts)
	}
	return in, obs, verdict, ""
}

// ---- real server for the end-to-end oracle ----

type atArrival struct {
	has    bool
	budget time.Duration
	at     time.Time
	doneIn time.Duration // arrival -> ctx.Done()
	cause  error
}

type atServer struct {
	mu   sync.Mutex
	seen []atArrival
	hold time.Duration // give up waiting for ctx.Done() after this
}

func (s *atServer) enter(ctx context.Context) {
	at := time.Now()
	dl, has := ctx.Deadline()
	a := atArrival{has: has, at: at}
	if has {
		a.budget = dl.Sub(at)
	}
	select {
	case <-ctx.Done():
		a.doneIn = time.Since(at)
		a.cause = ctx.Err()
	case <-time.After(s.hold):
		a.doneIn = -1
	}
	s.mu.Lock()
	s.seen = append(s.seen, a)
	s.mu.Unlock()
}

type atSimple struct{ s *atServer }

func (h atSimple) Call(ctx thrift.Context, arg *gen.Data) (*gen.Data, error) { return arg, nil }
func (h atSimple) SimpleFuture(ctx thrift.Context) error                     { return nil }
func (h atSimple) Simple(ctx thrift.Context) error {
	h.s.enter(ctx)
	return nil
}

func atE2E(c *atCase, idx int) string {
	const slack = time.Second
	srv, err := tchannel.NewChannel(fmt.Sprintf("ate2e%d", idx), nil)
	if err != nil {
		return "harness: " + err.Error()
	}
	defer srv.Close()
	as := &atServer{hold: c.overall + 2*time.Second}
	thrift.NewServer(srv).Register(gen.NewTChanSimpleServiceServer(atSimple{as}))
	if err := json.Register(srv, json.Handlers{
		"Simple": func(ctx json.Context, arg map[string]string) (map[string]string, error) {
			as.enter(ctx)
			return arg, nil
		},
	}, func(ctx context.Context, err error) {}); err != nil {
		return "harness: " + err.Error()
	}
	if err := srv.ListenAndServe("127.0.0.1:0"); err != nil {
		return "harness: " + err.Error()
	}
	entry, inForce, closeRelays, err := atChain(c.maxes, srv.PeerInfo().HostPort)
	if err != nil {
		return "harness: " + err.Error()
	}
	defer closeRelays()
	cl, err := tchannel.NewChannel("at-client", nil)
	if err != nil {
		return "harness: " + err.Error()
	}
	defer cl.Close()
	setupCtx, cancel := tchannel.NewContext(5 * time.Second)
	_, err = cl.RootPeers().GetOrAdd(entry).GetConnection(setupCtx)
	cancel()
	if err != nil {
		return "harness: " + err.Error()
	}
	t0, _, cerr := atCall(cl, c, entry, srv.ServiceName())
	elapsed := time.Since(t0)
	// let the handlers finish recording
	time.Sleep(50 * time.Millisecond)
	wait := time.Now().Add(c.overall + 3*time.Second)
	for {
		as.mu.Lock()
		n := len(as.seen)
		as.mu.Unlock()
		if n >= 1 || time.Now().After(wait) {
			break
		}
		time.Sleep(10 * time.Millisecond)
	}
	as.mu.Lock()
	seen := append([]atArrival(nil), as.seen...)
	as.mu.Unlock()
	who := []string{"thrift", "json"}[c.kind]
	if len(seen) == 0 {
		return "harness: handler never invoked"
	}
	limit := c.tpa
	for _, m := range inForce {
		if m < limit {
			limit = m
		}
	}
	for k, a := range seen {
		if !a.has {
			return fmt.Sprintf("%s call, invocation %d: the handler's context has no deadline", who, k+1)
		}
		if a.budget > limit {
			return fmt.Sprintf("%s call (overall timeout %v, TimeoutPerAttempt %v, relay maxima %v), invocation %d: the handler's context had %v left on arrival, more than the %v the attempt had", who, c.overall, c.tpa, inForce, k+1, a.budget, limit)
		}
		if a.doneIn < 0 || a.doneIn > limit+slack {
			return fmt.Sprintf("%s call (overall timeout %v, TimeoutPerAttempt %v), invocation %d: the handler's context was still live %v after arrival although the attempt had only %v", who, c.overall, c.tpa, k+1, limit+slack, limit)
		}
	}
	if len(seen) > c.attempts {
		return fmt.Sprintf("%d handler invocations for MaxAttempts %d", len(seen), c.attempts)
	}
	if cerr == nil {
		return fmt.Sprintf("%s call to a handler that never answers in time returned no error", who)
	}
	if elapsed > time.Duration(c.attempts)*c.tpa+slack {
		return fmt.Sprintf("%s call (overall timeout %v, TimeoutPerAttempt %v, MaxAttempts %d): the caller waited %v; its %d attempt(s) had %v each", who, c.overall, c.tpa, c.attempts, elapsed.Round(time.Millisecond), c.attempts, c.tpa)
	}
	if code := tchannel.GetSystemErrorCode(cerr); code != tchannel.ErrCodeTimeout {
		// the json client wraps the error into text
		if c.kind == 0 {
			return fmt.Sprintf("thrift call whose attempts all timed out ended with %v, not a timeout", cerr)
		}
	}
	return ""
}

func engineAttemptTTL(rng *rand.Rand, n int, tier string, o *Out) {
	ms := time.Millisecond
	nWire := n - n/4
	nE2E := n / 4
	wire := make([]*atCase, nWire)
	for i := range wire {
		c := &atCase{kind: i % 2, busy: true, policy: tchannel.RetryDefault}
		c.tpa = time.Duration(pick(rng, 40, 75, 120, 200, 350, 1000)) * ms
		c.overall = c.tpa*time.Duration(pick(rng, 3, 5, 12)) + time.Duration(pick(rng, 0, 333, 2000))*ms
		c.attempts = pick(rng, 1, 1, 2, 3, 5)
		switch rng.Intn(12) {
		case 0: // no per-attempt timeout: the attempt has the overall time
			c.tpa = 0
		case 1: // the overall time is the smaller one
			c.overall = c.tpa / 2
		case 2, 3: // silent destination: every attempt runs into its timeout
			c.busy = false
			c.policy = tchannel.RetryIdempotent
			c.tpa = time.Duration(pick(rng, 40, 75, 120)) * ms
			c.overall = 3*c.tpa + 2000*ms
			c.attempts = pick(rng, 1, 2, 3)
		}
		switch (i / 2) % 4 {
		case 1:
			c.maxes = []time.Duration{time.Duration(pick(rng, 0, 0, 30, 90, 5000)) * ms}
		case 3:
			c.maxes = []time.Duration{time.Duration(pick(rng, 0, 150, 5000)) * ms, time.Duration(pick(rng, 0, 60, 700)) * ms}
		}
		if i%12 == 10 || i%12 == 11 { // the overall budget becomes the binding one in the last attempt
			c.busy = false
			c.policy = tchannel.RetryIdempotent
			c.tpa = time.Duration(pick(rng, 60, 100)) * ms
			c.overall = c.tpa*5/2 + 1*ms
			c.attempts = 3
			c.maxes = nil
		}
		c.viaPeers = (i/4)%3 == 1
		wire[i] = c
	}
	e2e := make([]*atCase, nE2E)
	for i := range e2e {
		c := &atCase{kind: i % 2, policy: tchannel.RetryIdempotent}
		c.tpa = time.Duration(pick(rng, 80, 120, 200)) * ms
		c.attempts = pick(rng, 1, 1, 2)
		c.overall = time.Duration(c.attempts)*c.tpa + 2500*ms
		if (i/2)%2 == 1 {
			c.maxes = []time.Duration{time.Duration(pick(rng, 0, 5000)) * ms}
		}
		c.viaPeers = (i/4)%2 == 1
		e2e[i] = c
	}
	type wres struct {
		in, obs []int64
		verdict string
	}
	wr := make([]wres, nWire)
	er := make([]string, nE2E)
	var wg sync.WaitGroup
	sem := make(chan struct{}, 8)
	for i := range wire {
		wg.Add(1)
		sem <- struct{}{}
		go func(i int) {
			defer wg.Done()
			defer func() { <-sem }()
			var r wres
			for attempt := 0; attempt < 3; attempt++ {
				in, obs, v, herr := atWire(wire[i], i)
				if herr != "" {
					r = wres{in: []int64{-1}, obs: []int64{-2}, verdict: "harness: " + herr}
					continue
				}
				r = wres{in, obs, v}
				if v == "" {
					break
				}
			}
			wr[i] = r
		}(i)
	}
	for i := range e2e {
		wg.Add(1)
		sem <- struct{}{}
		go func(i int) {
			defer wg.Done()
			defer func() { <-sem }()
			for attempt := 0; attempt < 3; attempt++ {
				er[i] = atE2E(e2e[i], i)
				if er[i] == "" {
					break
				}
			}
		}(i)
	}
	wg.Wait()
	for i, c := range wire {
		r := wr[i]
		o.Hist(fmt.Sprintf("ttl_attempt:client=%s,relays=%d,via_peer_list=%v", []string{"thrift", "json"}[c.kind], len(c.maxes), c.viaPeers))
		o.Hist(fmt.Sprintf("ttl_attempt:per_attempt=%v,busy=%v,attempts_seen=%d", c.tpa != 0, c.busy, len(r.obs)))
		if i < 2 {
			o.Sample(map[string]interface{}{"sub": "ttl_attempt", "case": c.String(), "obs(ttl bound per attempt, ms)": r.obs})
		}
		o.Case("ttl_attempt", fmt.Sprintf("w%d", i), r.in, r.obs, len(r.obs) > 0 && c.tpa != 0, r.verdict)
	}
	for i, c := range e2e {
		o.Hist(fmt.Sprintf("ttl_attempt_e2e:client=%s,relays=%d,attempts=%d", []string{"thrift", "json"}[c.kind], len(c.maxes), c.attempts))
		o.Oracle("ttl_attempt_e2e", fmt.Sprintf("e%d", i), true, fmt.Sprintf("%d %s", i, c.String()), er[i])
	}
}
