package main

// Engine "cutbegin" (property C05), two directed families that run after the scenarios of
// engine_cutbegin.go (sub c05vlock, model Model/C05VLockFam.v run_c05vlock).  Both are about
// lock waits on FAILURE PATHS THAT THE CALLER'S OWN GOROUTINE RUNS: a mutex acquisition does
// not look at the caller's context, so a lock that is re-acquired by its holder, or left locked
// on a rare return path, takes the caller's deadline away for good.
//
// Family 3 -- a caller gives up on a STALLED connection.
//   Real client (ChannelOptions.Dialer, SendBufferSize 1-4, SendCancelOnContextCanceled on -- or
//   off, as a control) and real server.  After a warm-up call the send direction of the
//   connection is stalled (the Dialer's net.Conn blocks in Write).  Caller X makes a call with a
//   multi-frame arg3: the frame writer blocks in Write with the first frame, the send buffer
//   fills, X blocks in reqResWriter.flushFragment (observed: a Write is blocked and X's count
//   of accepted argument bytes has stopped growing).  Optionally caller W has sent a complete
//   request BEFORE the stall and waits for a response the handler withholds.  Then one of them
//   (who = X | W) CANCELS its context (mode cancel) or lets its deadline EXPIRE (mode expire,
//   the control: no cancel frame is sent on a timeout).  With the option on, the cancel frame
//   does not fit into the full buffer: Connection.onCancel -> sendMessage = ErrSendBufferFull ->
//   connectionError, all in the cancelling caller's goroutine.  Afterwards caller Z makes a
//   small call to the same host:port with a short deadline.
//   Oracle (statement of C05): the caller that gives up has control back by the moment of the
//   cancellation resp. its deadline + slack; the OTHER calls on the connection (X or W, and Z)
//   are back by their deadlines + slack; a success carries exactly the echoed arguments.
//
// Family 4 -- the connection dies WHILE IT IS BEING REGISTERED with its peer.
//   Two real channels, both listening.  A makes the first call to B (directly, or through a
//   TCP forwarder so that the host:port B reports differs from the one dialed and
//   Channel.Connect registers the connection a second time, with the frame reader already
//   running).  The goroutine that registers the connection is parked at the schedule point
//   peer.addConnection.afterCheck -- between the unlocked and the locked state check -- for
//   the chosen registration (side 0: A's outbound connection, first or second registration;
//   side 1: B's inbound connection); while it is parked the connection leaves the active
//   state: Connection.Close() on exactly that connection (what the idle sweep / Channel.Close
//   do), or the forwarder closes both sockets / half-closes towards the client / resets the
//   client's socket (second registration only: the reader must be running to notice).  The
//   harness waits until IsActive() is false, releases the goroutine, waits for the first call,
//   and then makes 1-3 follow-up calls with short deadlines to the same host:port (side 0: to
//   the dialed address and to the address B reports; side 1: from B to A's listening address).
//   Oracle: the first call and every follow-up are back by their deadlines + slack, with an
//   error or with exactly the echoed arguments (the peer is alive: a new connection works).
//
// A failing scenario is re-run and alarms only when it fails 3 of 3 runs; a schedule the
// implementation does not follow within the timeouts is counted as infeasible, never as a failure.

import (
	"bytes"
	"fmt"
	"math/rand"
	"net"
	"sync"
	"sync/atomic"
	"time"

	tchannel "github.com/uber/tchannel-go"
	"github.com/uber/tchannel-go/raw"
	"golang.org/x/net/context"
)

const (
	c05vSlack = 400 * time.Millisecond
	c05vGrace = 700 * time.Millisecond // after bound + slack a call is declared blocked
	c05vSub   = "c05vlock"
)

// ---------------------------------------------------------------- a Dialer whose connections can be stalled in Write

type c05vStallConn struct {
	*net.TCPConn
	mu        sync.Mutex
	gate      chan struct{} // non-nil: Write waits until it is closed
	closed    chan struct{}
	closeOnce sync.Once
	blocked   int32
}

func (c *c05vStallConn) Write(b []byte) (int, error) {
	c.mu.Lock()
	g := c.gate
	c.mu.Unlock()
	if g != nil {
		atomic.AddInt32(&c.blocked, 1)
		select {
		case <-g:
		case <-c.closed:
		}
		atomic.AddInt32(&c.blocked, -1)
	}
	return c.TCPConn.Write(b)
}

func (c *c05vStallConn) Close() error {
	c.closeOnce.Do(func() { close(c.closed) })
	return c.TCPConn.Close()
}

type c05vNet struct {
	mu    sync.Mutex
	conns []*c05vStallConn
}

func (n *c05vNet) dial(ctx context.Context, network, hostPort string) (net.Conn, error) {
	d := net.Dialer{}
	conn, err := d.DialContext(ctx, network, hostPort)
	if err != nil {
		return nil, err
	}
	sc := &c05vStallConn{TCPConn: conn.(*net.TCPConn), closed: make(chan struct{})}
	n.mu.Lock()
	n.conns = append(n.conns, sc)
	n.mu.Unlock()
	return sc, nil
}

// stall: the send direction of every connection dialed so far stops making progress
func (n *c05vNet) stall() {
	n.mu.Lock()
	for _, c := range n.conns {
		c.mu.Lock()
		if c.gate == nil {
			c.gate = make(chan struct{})
		}
		c.mu.Unlock()
	}
	n.mu.Unlock()
}

func (n *c05vNet) release() {
	n.mu.Lock()
	for _, c := range n.conns {
		c.mu.Lock()
		if c.gate != nil {
			cbCloseOnce(c.gate)
		}
		c.mu.Unlock()
	}
	n.mu.Unlock()
}

func (n *c05vNet) blockedWrites() int {
	n.mu.Lock()
	defer n.mu.Unlock()
	t := 0
	for _, c := range n.conns {
		t += int(atomic.LoadInt32(&c.blocked))
	}
	return t
}

// ---------------------------------------------------------------- calls and handlers

type c05vCall struct {
	label   string
	target  string
	service string
	method  string
	timeout time.Duration
	arg2    []byte
	arg3    []byte
	ctx     context.Context
	cancel  context.CancelFunc
	start   time.Time
	written int64         // bytes of arg3 the writer has accepted so far
	sentReq chan struct{} // closed when the request has been written completely
	done    chan struct{}

	mu         sync.Mutex
	returned   bool
	err        error
	got2, got3 []byte
	elapsed    time.Duration
}

func c05vNewCall(label, target, service, method string, timeout time.Duration, arg2, arg3 []byte) *c05vCall {
	return &c05vCall{label: label, target: target, service: service, method: method, timeout: timeout, arg2: arg2, arg3: arg3,
		sentReq: make(chan struct{}), done: make(chan struct{})}
}

// launch starts the call in its own goroutine (the caller).
func (c *c05vCall) launch(ch *tchannel.Channel) {
	c.start = time.Now()
	c.ctx, c.cancel = tchannel.NewContext(c.timeout)
	go c.run(ch)
}

func (c *c05vCall) run(ch *tchannel.Channel) {
	var err error
	var got2, got3 []byte
	defer func() {
		if p := recover(); p != nil {
			err = fmt.Errorf("PANIC: %v", p)
		}
		c.mu.Lock()
		c.returned, c.err, c.got2, c.got3, c.elapsed = true, err, got2, got3, time.Since(c.start)
		c.mu.Unlock()
		close(c.done)
	}()
	call, e := ch.BeginCall(c.ctx, c.target, c.service, c.method, nil)
	if e != nil {
		err = e
		return
	}
	w2, e := call.Arg2Writer()
	if err = cbWriteArg(w2, e, c.arg2); err != nil {
		return
	}
	w3, e := call.Arg3Writer()
	if e != nil {
		err = e
		return
	}
	const chunk = 16 * 1024
	for off := 0; off < len(c.arg3); off += chunk {
		end := off + chunk
		if end > len(c.arg3) {
			end = len(c.arg3)
		}
		if _, err = w3.Write(c.arg3[off:end]); err != nil {
			return
		}
		atomic.StoreInt64(&c.written, int64(end))
	}
	if err = w3.Close(); err != nil {
		return
	}
	cbCloseOnce(c.sentReq)
	got2, got3, err = raw.ReadArgsV2(call.Response())
}

// judge: [class, in time] and a verdict.  bound: the moment after the call's start by which
// control must be back.  class 1: the call must fail (nothing can have answered it); 0: any
// valid outcome.  A success with other arguments than the echo is class 2.
func (c *c05vCall) judge(bound time.Duration, boundWhat string, class int64) (int64, int64, string, string) {
	c.mu.Lock()
	defer c.mu.Unlock()
	intime := int64(1)
	v := ""
	switch {
	case !c.returned:
		intime = 0
		v = fmt.Sprintf("%s (%s %v after its start, deadline %v) is still blocked %v after that", c.label, boundWhat, bound.Round(time.Millisecond), c.timeout, c05vSlack+c05vGrace)
	case c.elapsed > bound+c05vSlack:
		intime = 0
		v = fmt.Sprintf("%s (%s %v after its start, deadline %v) got control back only after %v, err=%v", c.label, boundWhat, bound.Round(time.Millisecond), c.timeout, c.elapsed.Round(time.Millisecond), c.err)
	case c.err == nil:
		if !bytes.Equal(c.got2, c.arg2) || !bytes.Equal(c.got3, c.arg3) {
			class = 2
			v = fmt.Sprintf("%s reported success with a response that is not the one sent", c.label)
		} else if class == 1 {
			class = 0 // a success nobody can have produced is reported through the correspondence
		}
	case len(c.err.Error()) >= 5 && c.err.Error()[:5] == "PANIC":
		v = fmt.Sprintf("%s panicked: %v", c.label, c.err)
	}
	detail := fmt.Sprintf("%s: returned=%v after %v err=%v; ", c.label, c.returned, c.elapsed.Round(time.Millisecond), c.err)
	return class, intime, v, detail
}

func (c *c05vCall) isReturned() bool {
	c.mu.Lock()
	defer c.mu.Unlock()
	return c.returned
}

// waitBy waits for the call until `bound` after its start + slack + grace.
func (c *c05vCall) waitBy(bound time.Duration) {
	cbWaitCh(c.done, time.Until(c.start.Add(bound+c05vSlack+c05vGrace)))
}

type c05vServer struct {
	gate    chan struct{} // "hold" handlers answer when it is closed
	mu      sync.Mutex
	entered chan struct{} // closed when a "hold" handler has read its arguments
}

func (s *c05vServer) handle(ctx context.Context, call *tchannel.InboundCall) {
	defer func() { recover() }()
	var a2, a3 []byte
	if err := tchannel.NewArgReader(call.Arg2Reader()).Read(&a2); err != nil {
		return
	}
	if err := tchannel.NewArgReader(call.Arg3Reader()).Read(&a3); err != nil {
		return
	}
	if call.MethodString() == "hold" {
		cbCloseOnce(s.entered)
		select {
		case <-s.gate:
		case <-time.After(4 * time.Second):
		}
	}
	resp := call.Response()
	if tchannel.NewArgWriter(resp.Arg2Writer()).Write(a2) != nil {
		return
	}
	tchannel.NewArgWriter(resp.Arg3Writer()).Write(a3)
}

func c05vNewServer(name string) (*tchannel.Channel, *c05vServer, error) {
	srv := &c05vServer{gate: make(chan struct{}), entered: make(chan struct{})}
	ch, err := tchannel.NewChannel(name, nil)
	if err != nil {
		return nil, nil, err
	}
	ch.Register(tchannel.HandlerFunc(srv.handle), "echo")
	ch.Register(tchannel.HandlerFunc(srv.handle), "hold")
	if err := ch.ListenAndServe("127.0.0.1:0"); err != nil {
		return nil, nil, err
	}
	return ch, srv, nil
}

// c05vCloseAll closes channels without ever blocking the engine (a tree that leaks a lock can block Close).
func c05vCloseAll(fs ...func()) {
	fin := make(chan struct{})
	go func() {
		for _, f := range fs {
			f()
		}
		close(fin)
	}()
	cbWaitCh(fin, 300*time.Millisecond)
}

// c05vOutcome: a scenario's outcome plus labels for the histogram of what was actually exercised
type c05vOutcome struct {
	cbOutcome
	tags []string
}

func c05vErrTag(c *c05vCall) string {
	c.mu.Lock()
	defer c.mu.Unlock()
	switch {
	case !c.returned:
		return "blocked"
	case c.err == nil:
		return "success"
	}
	return tchannel.GetSystemErrorCode(c.err).String()
}

// ---------------------------------------------------------------- family 3: giving up on a stalled connection

type c05vStallP struct {
	sendCancel bool
	sb         int
	who        int // 0: X (blocked in flushFragment) gives up; 1: W (waiting for its response) gives up
	mode       int // 0: cancel; 1: the deadline expires
	hasW       bool
	dX, dW, dZ time.Duration
	tc         time.Duration // the cancellation comes tc after X was seen blocked
}

func c05vB(b bool) int64 {
	if b {
		return 1
	}
	return 0
}

func (p *c05vStallP) input() []int64 {
	dw := int64(0)
	if p.hasW {
		dw = int64(p.dW / time.Millisecond)
	}
	return []int64{3, c05vB(p.sendCancel), int64(p.sb), int64(p.who), int64(p.mode), c05vB(p.hasW),
		int64(p.dX / time.Millisecond), dw, int64(p.dZ / time.Millisecond), int64(p.tc / time.Millisecond)}
}

func (p *c05vStallP) id(i int) string {
	return fmt.Sprintf("stall%d-sendcancel%d-buf%d-%s-%s-w%d", i, c05vB(p.sendCancel), p.sb, []string{"X", "W"}[p.who], []string{"cancel", "expire"}[p.mode], c05vB(p.hasW))
}

func c05vRunStall(p *c05vStallP, rng *rand.Rand) (out c05vOutcome) {
	sch, srv, err := c05vNewServer("c05v-server")
	if err != nil {
		out.infeasible = "server: " + err.Error()
		return
	}
	nw := &c05vNet{}
	client, err := tchannel.NewChannel("c05v-client", &tchannel.ChannelOptions{
		Dialer: nw.dial,
		DefaultConnectionOptions: tchannel.ConnectionOptions{
			SendCancelOnContextCanceled: p.sendCancel,
			SendBufferSize:              p.sb,
		},
	})
	if err != nil {
		sch.Close()
		out.infeasible = "client: " + err.Error()
		return
	}
	defer func() {
		cbCloseOnce(srv.gate)
		nw.release()
		c05vCloseAll(client.Close, sch.Close)
	}()
	target := sch.PeerInfo().HostPort
	small := func() ([]byte, []byte) {
		return []byte(randBytes(rng, 1+rng.Intn(20))), []byte(randBytes(rng, 40+rng.Intn(200)))
	}

	// warm-up: the connection exists and works
	{
		a2, a3 := small()
		wu := c05vNewCall("warm-up", target, "c05v-server", "echo", time.Second, a2, a3)
		wu.launch(client)
		cbWaitCh(wu.done, 1500*time.Millisecond)
		if !wu.isReturned() || wu.err != nil {
			out.infeasible = fmt.Sprintf("warm-up call failed: %v", wu.err)
			return
		}
	}

	// W: request complete before the stall, the handler withholds the response
	var w *c05vCall
	if p.hasW {
		a2, a3 := small()
		w = c05vNewCall("W (request sent before the stall, waiting for the response)", target, "c05v-server", "hold", p.dW, a2, a3)
		w.launch(client)
		if !cbWaitCh(srv.entered, time.Second) {
			out.infeasible = "W's request did not reach its handler"
			return
		}
	}

	nw.stall()

	// X: a multi-frame argument; the writer goroutine blocks in Write, the buffer fills, X blocks
	xa2, _ := small()
	xa3 := []byte(randBytes(rng, (p.sb+3)*65536+rng.Intn(4096)))
	x := c05vNewCall(fmt.Sprintf("X (blocked in flushFragment, send buffer of %d full)", p.sb), target, "c05v-server", "echo", p.dX, xa2, xa3)
	x.launch(client)
	{
		limit := time.Now().Add(time.Second)
		last, since := int64(-1), time.Now()
		for {
			wr := atomic.LoadInt64(&x.written)
			if wr != last {
				last, since = wr, time.Now()
			}
			if nw.blockedWrites() > 0 && wr > 0 && time.Since(since) >= 25*time.Millisecond {
				break
			}
			if x.isReturned() {
				out.infeasible = "X ended before it was blocked"
				return
			}
			if time.Now().After(limit) {
				out.infeasible = "X did not block behind the stalled connection"
				return
			}
			time.Sleep(2 * time.Millisecond)
		}
		if last < int64(p.sb)*60000 || last > int64(p.sb+2)*65536+16*1024 {
			out.infeasible = fmt.Sprintf("X blocked after %d bytes: not what a full buffer of %d frames means", last, p.sb)
			return
		}
	}
	if p.hasW && w.isReturned() {
		out.infeasible = "W ended before anybody gave up"
		return
	}

	// one of them gives up
	giver, other := x, w
	if p.who == 1 {
		giver, other = w, x
	}
	bound, boundWhat := giver.timeout, "deadline"
	if p.mode == 0 {
		time.Sleep(p.tc)
		bound, boundWhat = time.Since(giver.start), "cancelled"
		giver.cancel()
	}
	giver.waitBy(bound)

	// Z: a new call to the same host:port
	za2, za3 := small()
	z := c05vNewCall("Z (new call to the same host:port afterwards)", target, "c05v-server", "echo", p.dZ, za2, za3)
	z.launch(client)
	z.waitBy(z.timeout)
	if other != nil {
		other.waitBy(other.timeout)
	}

	// observable order: X, W, Z; the verdict names the caller that gave up first
	verdicts := map[*c05vCall]string{}
	add := func(c *c05vCall, b time.Duration, what string, class int64) {
		cl, it, v, d := c.judge(b, what, class)
		out.obs = append(out.obs, cl, it)
		out.detail += d
		verdicts[c] = v
	}
	if p.who == 0 {
		add(x, bound, boundWhat, 1)
		if w != nil {
			add(w, w.timeout, "deadline", 1)
		}
	} else {
		add(x, x.timeout, "deadline", 1)
		add(w, bound, boundWhat, 1)
	}
	add(z, z.timeout, "deadline", 0)
	for _, c := range []*c05vCall{giver, other, z} {
		if c != nil && verdicts[c] != "" && out.verdict == "" {
			out.verdict = verdicts[c]
		}
	}
	out.tags = append(out.tags, fmt.Sprintf("c05v-stall:%s sendcancel=%v: giver=%s Z=%s", []string{"cancel", "expire"}[p.mode], p.sendCancel, c05vErrTag(giver), c05vErrTag(z)))
	if other != nil {
		out.tags = append(out.tags, fmt.Sprintf("c05v-stall:%s sendcancel=%v: other=%s", []string{"cancel", "expire"}[p.mode], p.sendCancel, c05vErrTag(other)))
	}
	return
}

// ---------------------------------------------------------------- family 4: the connection dies while it is being registered

type c05vRegP struct {
	side  int // 0: A's outbound connection; 1: B's inbound connection
	topo  int // 0: direct; 1: through a forwarder (host:port mismatch -> second registration in Channel.Connect)
	phase int // which registration of the connection with a peer is hit: 1 (connectionActive) or 2 (Channel.Connect)
	kind  int // 0: Connection.Close(); 1: forwarder closes both sockets; 2: half-close towards the client; 3: reset of the client's socket
	d0    time.Duration
	dZ    []time.Duration
}

var c05vKindNames = []string{"local-close", "close-both", "half-close-to-client", "reset-client"}

func (p *c05vRegP) input() []int64 {
	in := []int64{4, int64(p.side), int64(p.topo), int64(p.phase), int64(p.kind), int64(p.d0 / time.Millisecond)}
	for _, d := range p.dZ {
		in = append(in, int64(d/time.Millisecond))
	}
	return in
}

func (p *c05vRegP) id(i int) string {
	return fmt.Sprintf("reg%d-%s-%s-registration%d-%s-followups%d", i, []string{"outbound", "inbound"}[p.side], []string{"direct", "forwarder"}[p.topo], p.phase, c05vKindNames[p.kind], len(p.dZ))
}

// c05vRegCtl parks the goroutine that performs the wanted registration of a connection of the
// owner channel at peer.addConnection.afterCheck; every other arrival passes.
type c05vRegCtl struct {
	mu      sync.Mutex
	owner   *tchannel.Channel
	want    int
	seen    int
	armed   bool
	parked  chan struct{}
	release chan struct{}
	conn    *tchannel.Connection
}

func (g *c05vRegCtl) hook(name string, id uint32) {
	if name != "peer.addConnection.afterCheck" {
		return
	}
	g.mu.Lock()
	armed := g.armed
	g.mu.Unlock()
	if !armed {
		return
	}
	c := tchannel.VerifC05VConn(g.owner, id)
	if c == nil {
		return
	}
	g.mu.Lock()
	if !g.armed {
		g.mu.Unlock()
		return
	}
	g.seen++
	if g.seen != g.want {
		g.mu.Unlock()
		return
	}
	g.armed = false
	g.conn = c
	close(g.parked)
	g.mu.Unlock()
	<-g.release
}

func c05vRunReg(p *c05vRegP, rng *rand.Rand) (out c05vOutcome) {
	chA, _, err := c05vNewServer("c05v-a")
	if err != nil {
		out.infeasible = "channel A: " + err.Error()
		return
	}
	chB, _, err := c05vNewServer("c05v-b")
	if err != nil {
		chA.Close()
		out.infeasible = "channel B: " + err.Error()
		return
	}
	hpA, hpB := chA.PeerInfo().HostPort, chB.PeerInfo().HostPort
	dialed := hpB
	var fwd *cbForwarder
	if p.topo == 1 {
		if fwd, err = cbNewForwarder(hpB); err != nil {
			chA.Close()
			chB.Close()
			out.infeasible = "forwarder: " + err.Error()
			return
		}
		dialed = fwd.addr()
	}
	ctl := &c05vRegCtl{owner: chA, want: p.phase, armed: true, parked: make(chan struct{}), release: make(chan struct{})}
	if p.side == 1 {
		ctl.owner = chB
	}
	tchannel.VerifSetHook(ctl.hook)
	defer func() {
		ctl.mu.Lock()
		ctl.armed = false
		ctl.mu.Unlock()
		cbCloseOnce(ctl.release)
		tchannel.VerifSetHook(nil)
		c05vCloseAll(chA.Close, chB.Close, func() {
			if fwd != nil {
				fwd.close()
			}
		})
	}()
	small := func() ([]byte, []byte) {
		return []byte(randBytes(rng, 1+rng.Intn(20))), []byte(randBytes(rng, 40+rng.Intn(200)))
	}

	// the first call: A -> B; it establishes the connection
	a2, a3 := small()
	first := c05vNewCall("the first call (it establishes the connection)", dialed, "c05v-b", "echo", p.d0, a2, a3)
	first.launch(chA)
	if !cbWaitCh(ctl.parked, time.Second) {
		out.infeasible = fmt.Sprintf("registration %d did not reach peer.addConnection.afterCheck", p.phase)
		return
	}
	// the connection leaves the active state while its registration is parked
	if p.kind == 0 {
		fin := make(chan struct{})
		go func() { ctl.conn.Close(); close(fin) }()
		if !cbWaitCh(fin, 500*time.Millisecond) {
			out.infeasible = "Connection.Close did not return"
			return
		}
	} else {
		fwd.cut(p.kind - 1)
	}
	{
		gone := make(chan struct{})
		stop := make(chan struct{})
		go func() {
			for ctl.conn.IsActive() {
				select {
				case <-stop:
					return
				case <-time.After(time.Millisecond):
				}
			}
			close(gone)
		}()
		ok := cbWaitCh(gone, 500*time.Millisecond)
		close(stop)
		if !ok {
			out.infeasible = "the connection did not leave the active state"
			return
		}
	}
	close(ctl.release)
	first.waitBy(first.timeout)

	// follow-up calls to the same host:port
	var ups []*c05vCall
	for i, d := range p.dZ {
		b2, b3 := small()
		var c *c05vCall
		switch {
		case p.side == 1:
			c = c05vNewCall(fmt.Sprintf("follow-up %d (B calls A's host:port)", i), hpA, "c05v-a", "echo", d, b2, b3)
		case p.topo == 1 && i%2 == 1:
			c = c05vNewCall(fmt.Sprintf("follow-up %d (to the host:port the peer reports)", i), hpB, "c05v-b", "echo", d, b2, b3)
		default:
			c = c05vNewCall(fmt.Sprintf("follow-up %d (to the dialed host:port)", i), dialed, "c05v-b", "echo", d, b2, b3)
		}
		ups = append(ups, c)
	}
	for _, c := range ups {
		if p.side == 1 {
			c.launch(chB)
		} else {
			c.launch(chA)
		}
	}
	for _, c := range ups {
		c.waitBy(c.timeout)
	}
	for _, c := range append([]*c05vCall{first}, ups...) {
		cl, it, v, d := c.judge(c.timeout, "deadline", 0)
		out.obs = append(out.obs, cl, it)
		out.detail += d
		if v != "" && out.verdict == "" {
			out.verdict = v
		}
	}
	out.tags = append(out.tags, "c05v-reg:first="+c05vErrTag(first))
	for _, c := range ups {
		out.tags = append(out.tags, "c05v-reg:followup="+c05vErrTag(c))
	}
	return
}

// ---------------------------------------------------------------- generator and driver

func c05vDl(rng *rand.Rand, xs ...int) time.Duration {
	return time.Duration(pick(rng, xs...)) * time.Millisecond
}

func c05vGenStall(rng *rand.Rand, n int) []*c05vStallP {
	var ps []*c05vStallP
	mk := func(sendCancel bool, sb, who, mode int) *c05vStallP {
		p := &c05vStallP{sendCancel: sendCancel, sb: sb, who: who, mode: mode}
		p.hasW = who == 1 || rng.Intn(2) == 0
		p.dX, p.dW = c05vDl(rng, 500, 600, 700), c05vDl(rng, 500, 600, 700)
		p.dZ = c05vDl(rng, 300, 350, 400)
		p.tc = c05vDl(rng, 10, 20, 40, 60)
		if mode == 1 {
			// the one that lets its deadline expire has the short deadline
			if who == 0 {
				p.dX = c05vDl(rng, 250, 300, 350)
			} else {
				p.dW = c05vDl(rng, 250, 300, 350)
			}
			p.tc = 0
		}
		return p
	}
	rounds := n / 3
	if rounds < 1 {
		rounds = 1
	}
	for r := 0; r < rounds; r++ {
		for sb := 1; sb <= 4; sb++ {
			for who := 0; who < 2; who++ {
				ps = append(ps, mk(true, sb, who, 0))
			}
		}
	}
	// controls: the deadline expires (no cancel frame); the option is off
	for i := 0; i < n; i++ {
		ps = append(ps, mk(true, 1+rng.Intn(4), i%2, 1))
	}
	for i := 0; i < (n+1)/2; i++ {
		ps = append(ps, mk(false, 1+rng.Intn(4), i%2, 0))
	}
	return ps
}

func c05vGenReg(rng *rand.Rand, n int) []*c05vRegP {
	var ps []*c05vRegP
	mk := func(side, topo, phase, kind int) {
		p := &c05vRegP{side: side, topo: topo, phase: phase, kind: kind, d0: c05vDl(rng, 400, 500, 600)}
		for j, m := 0, 1+rng.Intn(3); j < m; j++ {
			p.dZ = append(p.dZ, c05vDl(rng, 200, 250, 300, 400))
		}
		if topo == 1 && len(p.dZ) < 2 {
			p.dZ = append(p.dZ, c05vDl(rng, 200, 250, 300, 400)) // both host:ports
		}
		ps = append(ps, p)
	}
	rounds := n / 3
	if rounds < 1 {
		rounds = 1
	}
	for r := 0; r < rounds; r++ {
		mk(0, 0, 1, 0)
		mk(0, 1, 1, 0)
		for kind := 0; kind < 4; kind++ {
			mk(0, 1, 2, kind)
		}
		mk(1, 0, 1, 0)
	}
	return ps
}

// c05vFamilies runs both families; verdicts counts the alarms of the whole engine run.
func c05vFamilies(rng *rand.Rand, n int, tier string, o *Out, verdicts *int) {
	type job struct {
		id      string
		in      []int64
		seed    int64
		run     func(*rand.Rand) c05vOutcome
		hist    []string
		sample  map[string]interface{}
		out     c05vOutcome
		skipped bool
	}
	report := func(j *job) {
		if j.skipped {
			o.Hist("skipped-after-verdicts")
			return
		}
		out := j.out
		for attempt := 0; attempt < 2 && out.infeasible != ""; attempt++ {
			out = j.run(rand.New(rand.NewSource(j.seed)))
		}
		if out.infeasible != "" {
			o.Hist("infeasible: " + out.infeasible)
			o.Oracle(c05vSub, j.id, false, j.id, "")
			return
		}
		verdict := ""
		if out.verdict != "" {
			if *verdicts >= 2 {
				o.Hist("skipped-after-verdicts")
				return
			}
			// alarm only when it reproduces: 3 of 3 runs, the re-runs alone (no other scenario in parallel)
			repro := 1
			for k := 0; k < 2; k++ {
				o2 := j.run(rand.New(rand.NewSource(j.seed)))
				if o2.infeasible == "" && o2.verdict != "" {
					repro++
					out = o2
				} else {
					out = o2
					break
				}
			}
			if repro == 3 {
				verdict = fmt.Sprintf("%s [scenario %s; reproduced 3 of 3 runs; %s]", out.verdict, j.id, out.detail)
				*verdicts++
			} else if out.infeasible != "" {
				o.Hist("infeasible: " + out.infeasible)
				o.Oracle(c05vSub, j.id, false, j.id, "")
				return
			}
		}
		for _, h := range append(j.hist, out.tags...) {
			o.Hist(h)
		}
		j.sample["observed"] = out.detail
		o.Sample(j.sample)
		o.Case(c05vSub, j.id, j.in, out.obs, true, verdict)
	}

	// ---- family 3: the scenarios do not use the schedule controller and run in parallel
	var jobs []*job
	for i, p := range c05vGenStall(rng, n) {
		p := p
		j := &job{id: p.id(i), in: p.input(), seed: rng.Int63(), run: func(r *rand.Rand) c05vOutcome { return c05vRunStall(p, r) }}
		j.hist = []string{
			fmt.Sprintf("c05v-stall:sendcancel=%v %s by %s", p.sendCancel, []string{"cancel", "expire"}[p.mode], []string{"X(flushFragment)", "W(recvPeerFrame)"}[p.who]),
			fmt.Sprintf("c05v-stall:sendbuffer=%d", p.sb), fmt.Sprintf("c05v-stall:W-present=%v", p.hasW)}
		j.sample = map[string]interface{}{"sub": c05vSub, "id": j.id, "family": "stall", "send_cancel": p.sendCancel, "send_buffer": p.sb,
			"gives_up": []string{"X", "W"}[p.who], "mode": []string{"cancel", "expire"}[p.mode], "input": j.in}
		j.skipped = *verdicts >= 2
		jobs = append(jobs, j)
	}
	const par = 16
	for lo := 0; lo < len(jobs); lo += par {
		hi := lo + par
		if hi > len(jobs) {
			hi = len(jobs)
		}
		var wg sync.WaitGroup
		for _, j := range jobs[lo:hi] {
			if j.skipped {
				continue
			}
			j := j
			wg.Add(1)
			go func() {
				defer wg.Done()
				j.out = j.run(rand.New(rand.NewSource(j.seed)))
			}()
		}
		wg.Wait()
	}
	for _, j := range jobs {
		report(j)
	}

	// ---- family 4: one at a time (the schedule hook is global)
	for i, p := range c05vGenReg(rng, n) {
		p := p
		j := &job{id: p.id(i), in: p.input(), seed: rng.Int63(), run: func(r *rand.Rand) c05vOutcome { return c05vRunReg(p, r) }}
		j.hist = []string{
			fmt.Sprintf("c05v-reg:%s %s registration=%d failure=%s", []string{"outbound", "inbound"}[p.side], []string{"direct", "forwarder"}[p.topo], p.phase, c05vKindNames[p.kind]),
			fmt.Sprintf("c05v-reg:followups=%d", len(p.dZ))}
		j.sample = map[string]interface{}{"sub": c05vSub, "id": j.id, "family": "registration", "side": p.side, "forwarder": p.topo == 1,
			"registration": p.phase, "failure": c05vKindNames[p.kind], "input": j.in}
		if *verdicts >= 2 {
			j.skipped = true
		} else {
			j.out = j.run(rand.New(rand.NewSource(j.seed)))
		}
		report(j)
	}
}
