package main

// A raw TCP peer speaking the TChannel protocol through an encoder/decoder written here
// from the protocol specification, sharing no code with the library under test.

import (
	"encoding/binary"
	"errors"
	"hash/crc32"
	"io"
	"net"
	"time"
)

type rawFrame struct {
	Size    int
	Type    byte
	Res1    byte
	ID      uint32
	Res8    []byte
	Payload []byte
}

func readRawFrame(c net.Conn, deadline time.Duration) (*rawFrame, error) {
	c.SetReadDeadline(time.Now().Add(deadline))
	hdr := make([]byte, 16)
	if _, err := io.ReadFull(c, hdr); err != nil {
		return nil, err
	}
	f := &rawFrame{Size: int(binary.BigEndian.Uint16(hdr)), Type: hdr[2], Res1: hdr[3], ID: binary.BigEndian.Uint32(hdr[4:]), Res8: hdr[8:16]}
	if f.Size < 16 {
		return f, errors.New("frame size below header size")
	}
	f.Payload = make([]byte, f.Size-16)
	if _, err := io.ReadFull(c, f.Payload); err != nil {
		return f, err
	}
	return f, nil
}

func rawFrameBytes(mt byte, id uint32, payload []byte) []byte {
	b := make([]byte, 16+len(payload))
	binary.BigEndian.PutUint16(b, uint16(16+len(payload)))
	b[2] = mt
	binary.BigEndian.PutUint32(b[4:], id)
	copy(b[16:], payload)
	return b
}

func writeRawFrame(c net.Conn, mt byte, id uint32, payload []byte) error {
	c.SetWriteDeadline(time.Now().Add(2 * time.Second))
	_, err := c.Write(rawFrameBytes(mt, id, payload))
	return err
}

func str1(s string) []byte { return append([]byte{byte(len(s))}, s...) }
func str2(s string) []byte {
	return append([]byte{byte(len(s) >> 8), byte(len(s))}, s...)
}

func rawInitPayload(version uint16, params [][2]string) []byte {
	b := []byte{byte(version >> 8), byte(version), byte(len(params) >> 8), byte(len(params))}
	for _, kv := range params {
		b = append(b, str2(kv[0])...)
		b = append(b, str2(kv[1])...)
	}
	return b
}

var defaultInitParams = [][2]string{{"host_port", "0.0.0.0:0"}, {"process_name", "verif-rawpeer"}, {"tchannel_language", "spec"}}

type rawInit struct {
	Version uint16
	Params  map[string]string
}

func parseRawInit(p []byte) (*rawInit, error) {
	if len(p) < 4 {
		return nil, errors.New("short init")
	}
	r := &rawInit{Version: binary.BigEndian.Uint16(p), Params: map[string]string{}}
	n := int(binary.BigEndian.Uint16(p[2:]))
	p = p[4:]
	rd := func() (string, error) {
		if len(p) < 2 {
			return "", errors.New("short init param")
		}
		l := int(binary.BigEndian.Uint16(p))
		p = p[2:]
		if len(p) < l {
			return "", errors.New("short init param value")
		}
		s := string(p[:l])
		p = p[l:]
		return s, nil
	}
	for i := 0; i < n; i++ {
		k, err := rd()
		if err != nil {
			return nil, err
		}
		v, err := rd()
		if err != nil {
			return nil, err
		}
		r.Params[k] = v
	}
	if len(p) != 0 {
		return nil, errors.New("trailing bytes after init params")
	}
	return r, nil
}

// serverHandshake: read init req, answer init res (as a listener-side raw peer).
func rawServerHandshake(c net.Conn) (*rawFrame, *rawInit, error) {
	f, err := readRawFrame(c, 2*time.Second)
	if err != nil {
		return f, nil, err
	}
	if f.Type != 0x01 {
		return f, nil, errors.New("first frame is not init req")
	}
	in, err := parseRawInit(f.Payload)
	if err != nil {
		return f, nil, err
	}
	return f, in, writeRawFrame(c, 0x02, f.ID, rawInitPayload(2, defaultInitParams))
}

// clientHandshake: send init req, read init res (as a connecting raw peer).
func rawClientHandshake(c net.Conn) (*rawInit, error) {
	if err := writeRawFrame(c, 0x01, 1, rawInitPayload(2, defaultInitParams)); err != nil {
		return nil, err
	}
	f, err := readRawFrame(c, 2*time.Second)
	if err != nil {
		return nil, err
	}
	if f.Type != 0x02 || f.ID != 1 {
		return nil, errors.New("bad init res")
	}
	return parseRawInit(f.Payload)
}

// ---- call req / call res fragments (spec layout) ----

type rawCall struct {
	Flags     byte
	TTL       uint32 // call req
	Code      byte   // call res
	Tracing   []byte // 25 bytes
	Service   string
	Headers   [][2]string
	CsumType  byte
	Csum      []byte
	Chunks    [][]byte // argument chunks of this fragment
	HeaderLen int      // bytes before the first chunk
}

var errShort = errors.New("short call frame")

// parseRawCall parses a call req (0x03), call res (0x04) or continuation (0x13/0x14) payload.
func parseRawCall(mt byte, p []byte) (*rawCall, error) {
	orig := len(p)
	c := &rawCall{}
	take := func(n int) ([]byte, error) {
		if len(p) < n {
			return nil, errShort
		}
		b := p[:n]
		p = p[n:]
		return b, nil
	}
	b, err := take(1)
	if err != nil {
		return nil, err
	}
	c.Flags = b[0]
	if mt == 0x03 || mt == 0x04 {
		if mt == 0x03 {
			if b, err = take(4); err != nil {
				return nil, err
			}
			c.TTL = binary.BigEndian.Uint32(b)
		} else {
			if b, err = take(1); err != nil {
				return nil, err
			}
			c.Code = b[0]
		}
		if c.Tracing, err = take(25); err != nil {
			return nil, err
		}
		if mt == 0x03 {
			if b, err = take(1); err != nil {
				return nil, err
			}
			if b, err = take(int(b[0])); err != nil {
				return nil, err
			}
			c.Service = string(b)
		}
		if b, err = take(1); err != nil {
			return nil, err
		}
		nh := int(b[0])
		for i := 0; i < nh; i++ {
			var kv [2]string
			for j := 0; j < 2; j++ {
				if b, err = take(1); err != nil {
					return nil, err
				}
				if b, err = take(int(b[0])); err != nil {
					return nil, err
				}
				kv[j] = string(b)
			}
			c.Headers = append(c.Headers, kv)
		}
	}
	if b, err = take(1); err != nil {
		return nil, err
	}
	c.CsumType = b[0]
	cs := 0
	if c.CsumType >= 1 && c.CsumType <= 3 {
		cs = 4
	}
	if c.Csum, err = take(cs); err != nil {
		return nil, err
	}
	c.HeaderLen = orig - len(p)
	for len(p) > 0 {
		if b, err = take(2); err != nil {
			return nil, err
		}
		if b, err = take(int(binary.BigEndian.Uint16(b))); err != nil {
			return nil, err
		}
		c.Chunks = append(c.Chunks, b)
	}
	return c, nil
}

// running checksum over argument bytes as the protocol document defines it
type rawCsum struct {
	typ byte
	crc uint32
}

func (r *rawCsum) add(b []byte) {
	switch r.typ {
	case 1:
		r.crc = crc32.Update(r.crc, crc32.IEEETable, b)
	case 3:
		r.crc = crc32.Update(r.crc, crc32.MakeTable(crc32.Castagnoli), b)
	}
}
func (r *rawCsum) bytes() []byte {
	switch r.typ {
	case 1, 3:
		return []byte{byte(r.crc >> 24), byte(r.crc >> 16), byte(r.crc >> 8), byte(r.crc)}
	case 2:
		return []byte{0, 0, 0, 0}
	}
	return nil
}

// buildRawCallFrames fragments three arguments into call req (or res) frames with at
// most maxPayload bytes of payload each, following the protocol document: every frame is
// flags:1 [message header] csumtype:1 [csum:4] (chunklen:2 chunk)*; chunk 0 of a frame
// continues the current argument, every further chunk starts the next argument; an
// argument that ends exactly at the end of a frame is closed by an empty first chunk in
// the next frame; the checksum covers all argument bytes so far.
func buildRawCallFrames(isReq bool, id uint32, first []byte, csumType byte, args [3][]byte, maxPayload int) [][]byte {
	var frames [][]byte
	cs := &rawCsum{typ: csumType}
	mt, mtc := byte(0x04), byte(0x14)
	if isReq {
		mt, mtc = 0x03, 0x13
	}
	csz := len(cs.bytes())
	argi, off := 0, 0
	needMarker := false
	for fi := 0; ; fi++ {
		head := []byte{0}
		curType := mtc
		if fi == 0 {
			head = append(head, first...)
			curType = mt
		}
		head = append(head, csumType)
		csumPos := len(head)
		head = append(head, make([]byte, csz)...)
		room := maxPayload - len(head)
		body := []byte{}
		if needMarker {
			body = append(body, 0, 0)
			room -= 2
			needMarker = false
		}
		done := false
		for room > 2 || (len(body) == 0 && room >= 2) {
			n := len(args[argi]) - off
			if n > room-2 {
				n = room - 2
			}
			chunk := args[argi][off : off+n]
			body = append(body, byte(n>>8), byte(n))
			body = append(body, chunk...)
			cs.add(chunk)
			room -= 2 + n
			off += n
			if off < len(args[argi]) {
				break // frame full, argument continues in the next frame
			}
			if argi == 2 {
				done = true
				break
			}
			argi, off = argi+1, 0
			if room <= 2 {
				needMarker = true
				break
			}
		}
		payload := append(head, body...)
		if !done {
			payload[0] = 0x01
		}
		copy(payload[csumPos:], cs.bytes())
		frames = append(frames, rawFrameBytes(curType, id, payload))
		if done {
			return frames
		}
	}
}

func rawCallReqHeader(ttlMs uint32, tracing []byte, service string, headers [][2]string) []byte {
	b := []byte{byte(ttlMs >> 24), byte(ttlMs >> 16), byte(ttlMs >> 8), byte(ttlMs)}
	b = append(b, tracing...)
	b = append(b, str1(service)...)
	b = append(b, byte(len(headers)))
	for _, kv := range headers {
		b = append(b, str1(kv[0])...)
		b = append(b, str1(kv[1])...)
	}
	return b
}

func rawCallResHeader(code byte, tracing []byte, headers [][2]string) []byte {
	b := []byte{code}
	b = append(b, tracing...)
	b = append(b, byte(len(headers)))
	for _, kv := range headers {
		b = append(b, str1(kv[0])...)
		b = append(b, str1(kv[1])...)
	}
	return b
}

func rawErrorPayload(code byte, tracing []byte, msg string) []byte {
	b := []byte{code}
	b = append(b, tracing...)
	return append(b, str2(msg)...)
}

// collectArgs reassembles the arguments from a sequence of parsed fragments per the
// protocol document: chunk 0 continues the current argument, later chunks start the next.
func collectArgs(frags []*rawCall) [][]byte {
	args := [][]byte{{}}
	for _, f := range frags {
		for i, ch := range f.Chunks {
			if i > 0 {
				args = append(args, []byte{})
			}
			args[len(args)-1] = append(args[len(args)-1], ch...)
		}
	}
	return args
}
