package main

// C07 engine "c07closecfg" (fourth strengthening, V07): repeated and concurrent Channel.Close over
// channel CONFIGURATIONS -- idle sweeper on/off (IdleCheckInterval + MaxIdleTime; a long or a very
// short interval), health checks on/off (a long or a very short interval; the raw peers answer the
// pings), relay host on/off, listening or client-only -- with 0..2 connections to raw peers and
// 0..1 inbound call (handler blocked) and 0..1 outbound call (peer has not answered) in flight on
// each.  Script: a batch of 1..3 Close calls (concurrent or one after the other) BEFORE anything has
// closed; while calls are in flight further batches DURING the drain, each followed by the end of
// one call (sometimes a batch runs concurrently with that end); when nothing is in flight the
// channel must be ChannelClosed; then a batch AFTER it closed.  Every Close runs under recover():
// a panic is an observation, never a crash of the harness.
//
// Model (Model/C07CloseStop.v): after every batch / call end the connection states the
// implementation shows are handed to the model as connection moves (+ their callbacks); compared
// at every quiescent point:
//
//	sub c07closecfg   channel state, #tracked connections, closed signalled, sweeper started,
//	                  sweeper stopCh closed, #panics
//	sub c07closestop  the last three (proved equal to the specification for every input:
//	                  C07_closestop_spec -- a disagreement is a concrete failing input)
//
// Oracle (from the statement): no Close panics; every Close returns (3 s); State() only moves
// forward; ClosedChan only with ChannelClosed; with calls in flight the channel is in StartClose
// (an inbound call) / InboundClosed (outbound calls only), their results are delivered; with
// nothing in flight it is ChannelClosed and has signalled it within 2 s; then the sweeper is
// stopped and the health-check goroutine of every connection has exited.

import (
	"fmt"
	"math/rand"
	"strings"
	"sync"
	"time"

	tchannel "github.com/uber/tchannel-go"
	"golang.org/x/net/context"
)

func init() { engines["c07closecfg"] = engineC07CloseCfg }

type c07ccConn struct {
	conn   *tchannel.Connection
	peer   *c07Peer
	inH    *c07Handler // inbound call in flight (handler blocked), nil = none
	inID   uint32
	out    *c07ccOut // outbound call in flight
	mstate int       // the state the model has for this connection
}

type c07ccOut struct {
	id      uint32
	resDone chan error
}

type c07ccCfg struct {
	sweep, health, relay, listen int // sweep / health: 0 off, 1 long interval, 2 very short interval
	nconns                       int
}

type c07ccWorld struct {
	cfg      c07ccCfg
	ch       *tchannel.Channel
	hs       *c07Handlers
	conns    []*c07ccConn
	ops      []int64
	nops     int64
	obsFull  []int64
	obsStop  []int64
	ncloses  int
	panics   int
	lastSt   int
	verdict  string
	labels   []string
	nextInID uint32
}

func (w *c07ccWorld) fail(v string) {
	// the first verdict is reported; one that is not a known finding takes precedence over one that is
	if w.verdict == "" || (strings.HasPrefix(w.verdict, "[c07:") && !strings.HasPrefix(v, "[c07:")) {
		w.verdict = v
	}
}

func (w *c07ccWorld) emit(op, a, b int64) {
	w.ops = append(w.ops, op, a, b)
	w.nops++
}

func (c c07ccCfg) String() string {
	onoff := func(v int) string { return [...]string{"off", "on", "on(short interval)"}[v] }
	role := "client-only"
	if c.listen == 1 {
		role = "listening"
	}
	return fmt.Sprintf("idle sweep %s, health checks %s, relay host %s, %s, %d connection(s)", onoff(c.sweep), onoff(c.health), onoff(c.relay), role, c.nconns)
}

func c07ccNew(cfg c07ccCfg) (*c07ccWorld, error) {
	w := &c07ccWorld{cfg: cfg, hs: &c07Handlers{m: map[uint32][]*c07Handler{}}, nextInID: 100}
	opts := &tchannel.ChannelOptions{Logger: tchannel.NullLogger}
	switch cfg.sweep {
	case 1:
		opts.IdleCheckInterval, opts.MaxIdleTime = time.Minute, time.Hour
	case 2:
		opts.IdleCheckInterval, opts.MaxIdleTime = 2*time.Millisecond, time.Hour
	}
	switch cfg.health {
	case 1:
		opts.DefaultConnectionOptions.HealthChecks = tchannel.HealthCheckOptions{Interval: time.Minute, Timeout: time.Second, FailuresToClose: 5}
	case 2:
		opts.DefaultConnectionOptions.HealthChecks = tchannel.HealthCheckOptions{Interval: 3 * time.Millisecond, Timeout: time.Second, FailuresToClose: 5}
	}
	if cfg.relay == 1 {
		opts.RelayHost = c07RelayHost{}
		opts.RelayLocalHandlers = []string{"svc"}
	}
	ch, err := tchannel.NewChannel("svc", opts)
	if err != nil {
		return nil, err
	}
	ch.Register(tchannel.HandlerFunc(w.hs.handle), "echo")
	w.ch = ch
	if cfg.listen == 1 {
		if err := ch.ListenAndServe("127.0.0.1:0"); err != nil {
			return nil, err
		}
	}
	known := map[uint32]bool{}
	for i := 0; i < cfg.nconns; i++ {
		var peer *c07Peer
		var conn *tchannel.Connection
		if cfg.listen == 1 {
			peer, conn, err = c07Dial(ch, known)
		} else {
			peer, conn, err = c07xDialOut(ch, known)
		}
		if err != nil {
			w.cleanup()
			return nil, err
		}
		w.conns = append(w.conns, &c07ccConn{conn: conn, peer: peer, mstate: 1})
	}
	w.lastSt = int(ch.State())
	return w, nil
}

func (w *c07ccWorld) cleanup() {
	for _, c := range w.conns {
		if c.inH != nil {
			select {
			case <-c.inH.release:
			default:
				close(c.inH.release)
			}
		}
		c.peer.conn.Close()
	}
	func() {
		defer func() { recover() }()
		w.ch.Close()
	}()
	select {
	case <-w.ch.ClosedChan():
	case <-time.After(300 * time.Millisecond):
	}
}

// startIn puts an inbound call in flight on c (its handler blocks).
func (w *c07ccWorld) startIn(c *c07ccConn) bool {
	id := w.nextInID
	w.nextInID++
	h := w.hs.expect(id)
	if c.peer.sendCallReq(id, 60000) != nil {
		return false
	}
	select {
	case <-h.entered:
	case <-time.After(2 * time.Second):
		return false
	}
	c.inH, c.inID = h, id
	return true
}

// startOut begins an outbound call on c and waits until its call req has reached the peer.
func (w *c07ccWorld) startOut(c *c07ccConn) bool {
	ctx, _ := context.WithTimeout(context.Background(), 60*time.Second)
	call, id, err := tchannel.VerifC07BeginCall(ctx, c.conn, "peer", "m")
	if err != nil {
		return false
	}
	e := tchannel.NewArgWriter(call.Arg2Writer()).Write([]byte("a2"))
	if e == nil {
		e = tchannel.NewArgWriter(call.Arg3Writer()).Write([]byte("a3"))
	}
	if e != nil {
		return false
	}
	oc := &c07ccOut{id: id, resDone: make(chan error, 1)}
	go func() {
		var r2, r3 []byte
		e := tchannel.NewArgReader(call.Response().Arg2Reader()).Read(&r2)
		if e == nil {
			e = tchannel.NewArgReader(call.Response().Arg3Reader()).Read(&r3)
		}
		if e == nil && string(r3) != fmt.Sprintf("r3-%d", id) {
			e = fmt.Errorf("wrong response %q", r3)
		}
		oc.resDone <- e
	}()
	deadline := time.Now().Add(2 * time.Second)
	for time.Now().Before(deadline) {
		for _, x := range c.peer.cr07CallReqs() {
			if x == id {
				c.out = oc
				return true
			}
		}
		time.Sleep(100 * time.Microsecond)
	}
	return false
}

// expected states, from the statement: a connection under an accepted inbound call stays in
// StartClose, under outbound calls only in InboundClosed, otherwise it closes; the channel reports
// the least advanced of its connections.
func (w *c07ccWorld) expectConn(c *c07ccConn) int {
	switch {
	case w.ncloses == 0:
		return 1
	case c.inH != nil:
		return 2
	case c.out != nil:
		return 3
	}
	return 4
}

func (w *c07ccWorld) expectChan() (state int, tracked int) {
	if w.ncloses == 0 {
		if w.cfg.listen == 1 {
			return int(tchannel.ChannelListening), len(w.conns)
		}
		return int(tchannel.ChannelClient), len(w.conns)
	}
	min := 4
	for _, c := range w.conns {
		e := w.expectConn(c)
		if e < min {
			min = e
		}
		if e != 4 {
			tracked++
		}
	}
	switch {
	case min == 4:
		return int(tchannel.ChannelClosed), 0
	case min == 3:
		return int(tchannel.ChannelInboundClosed), tracked
	}
	return int(tchannel.ChannelStartClose), tracked
}

func c07ccClosed(ch *tchannel.Channel) bool {
	select {
	case <-ch.ClosedChan():
		return true
	default:
		return false
	}
}

// settle waits (2 s) until the channel and its connections show the expected states.
func (w *c07ccWorld) settle(after string) {
	wantSt, wantTr := w.expectChan()
	deadline := time.Now().Add(2 * time.Second)
	ok := false
	for !ok && time.Now().Before(deadline) {
		ok = int(w.ch.State()) == wantSt && len(tchannel.VerifC07Conns(w.ch)) == wantTr &&
			(wantSt != int(tchannel.ChannelClosed) || c07ccClosed(w.ch))
		for _, c := range w.conns {
			if tchannel.VerifC07State(c.conn) != w.expectConn(c) {
				ok = false
			}
		}
		if !ok {
			time.Sleep(100 * time.Microsecond)
		}
	}
	st := int(w.ch.State())
	if st < w.lastSt {
		w.fail(fmt.Sprintf("%s: State() went backwards from %d to %d", after, w.lastSt, st))
	}
	w.lastSt = st
	if c07ccClosed(w.ch) && st != int(tchannel.ChannelClosed) {
		w.fail(fmt.Sprintf("%s: ClosedChan is closed but State() = %d", after, st))
	}
	if !ok {
		var cs []int
		for _, c := range w.conns {
			cs = append(cs, tchannel.VerifC07State(c.conn))
		}
		what := "the accepted calls keep it draining"
		if wantSt == int(tchannel.ChannelClosed) {
			what = "nothing is in flight any more: it must reach ChannelClosed and signal it"
		}
		w.fail(fmt.Sprintf("%s: within 2s the channel is in state %d with %d tracked connection(s) (closed signalled: %v; connection states %v), want state %d with %d tracked (%s)",
			after, st, len(tchannel.VerifC07Conns(w.ch)), c07ccClosed(w.ch), cs, wantSt, wantTr, what))
	}
}

// observe hands the implementation's connection states to the model and records one observation.
func (w *c07ccWorld) observe() {
	for i, c := range w.conns {
		st := tchannel.VerifC07State(c.conn)
		if st > c.mstate && w.ncloses > 0 {
			// (Close itself moves an Active connection to StartClose in the model)
			if !(st == 2 && c.mstate == 1) {
				w.emit(2, int64(i), int64(st))
			}
			c.mstate = st
		}
	}
	w.emit(3, 0, 0)
	_, started, stopClosed := tchannel.VerifC07Sweep(w.ch)
	comp := []int64{b2i(started), b2i(stopClosed), int64(w.panics)}
	w.obsFull = append(w.obsFull, int64(w.ch.State()), int64(len(tchannel.VerifC07Conns(w.ch))), b2i(c07ccClosed(w.ch)))
	w.obsFull = append(w.obsFull, comp...)
	w.obsStop = append(w.obsStop, comp...)
}

// closeBatch runs k Close calls, all at once or one after the other, each under recover().
func (w *c07ccWorld) closeBatch(k int, concurrent bool, stage string, with func()) {
	w.emit(1, int64(k), b2i(concurrent))
	type res struct {
		n     int
		panic interface{}
		st    int
	}
	var wg sync.WaitGroup
	var mu sync.Mutex
	var results []res
	gate := make(chan struct{}) // concurrent calls are released together
	one := func(n int) {
		defer wg.Done()
		if concurrent {
			<-gate
		}
		st := int(w.ch.State())
		var p interface{}
		func() {
			defer func() { p = recover() }()
			w.ch.Close()
		}()
		mu.Lock()
		results = append(results, res{n, p, st})
		mu.Unlock()
	}
	done := make(chan struct{})
	go func() {
		if with != nil {
			wg.Add(1)
			go func() { defer wg.Done(); with() }()
		}
		for i := 0; i < k; i++ {
			wg.Add(1)
			w.ncloses++
			if concurrent {
				go one(w.ncloses)
			} else {
				one(w.ncloses)
			}
		}
		close(gate)
		wg.Wait()
		close(done)
	}()
	select {
	case <-done:
	case <-time.After(3 * time.Second):
		w.fail(fmt.Sprintf("%s: a batch of %d Close call(s) did not return within 3s", stage, k))
		return
	}
	for _, r := range results {
		if r.panic != nil {
			w.panics++
			w.fail(fmt.Sprintf("%s: Close #%d on a channel in state %d PANICKED: %v (unrecovered this kills the process together with every call being drained)", stage, r.n, r.st, r.panic))
		}
	}
}

// finishOne lets one call in flight end; returns a description ("" = nothing in flight).
func (w *c07ccWorld) pickInFlight(rng *rand.Rand) (c *c07ccConn, inbound bool) {
	type cand struct {
		c  *c07ccConn
		in bool
	}
	var cs []cand
	for _, c := range w.conns {
		if c.inH != nil {
			cs = append(cs, cand{c, true})
		}
		if c.out != nil {
			cs = append(cs, cand{c, false})
		}
	}
	if len(cs) == 0 {
		return nil, false
	}
	x := cs[rng.Intn(len(cs))]
	return x.c, x.in
}

func (w *c07ccWorld) finish(c *c07ccConn, inbound bool) {
	if inbound {
		h, id := c.inH, c.inID
		close(h.release)
		select {
		case <-h.done:
		case <-time.After(2 * time.Second):
			w.fail(fmt.Sprintf("the handler of inbound call %d did not return within 2s", id))
		}
		deadline := time.Now().Add(2 * time.Second)
		for !c.peer.gotRes(id) && time.Now().Before(deadline) {
			time.Sleep(100 * time.Microsecond)
		}
		if !c.peer.gotRes(id) {
			// with 3 ms health-check pings the raw peer is writing pongs while the channel closes its
			// socket: the kernel's reset can discard a response the peer has not read yet (known finding)
			tag := ""
			if w.cfg.health == 2 {
				tag = "[c07:close-reset-loses-response] "
			}
			w.fail(tag + fmt.Sprintf("inbound call %d was accepted before Close; its response did not reach the peer within 2s (handler write error: %v, error frames at the peer: %v)", id, h.werr, c.peer.errFrames()))
		}
		c.inH = nil
		return
	}
	oc := c.out
	c.peer.sendCallRes(oc.id)
	select {
	case e := <-oc.resDone:
		if e != nil {
			w.fail(fmt.Sprintf("outbound call %d was begun before Close; the peer's response was not delivered to the caller: %v", oc.id, e))
		}
	case <-time.After(2 * time.Second):
		w.fail(fmt.Sprintf("outbound call %d begun before Close: no result within 2s of the peer's response", oc.id))
	}
	c.out = nil
}

func c07ccCase(rng *rand.Rand, cfg c07ccCfg, directed int) (w *c07ccWorld, ok bool) {
	w, err := c07ccNew(cfg)
	if err != nil {
		return nil, false
	}
	defer w.cleanup()
	// calls in flight
	for i, c := range w.conns {
		nin, nout := rng.Intn(2), rng.Intn(2)
		if directed == 1 { // the draining server: one inbound call on the first connection
			nin, nout = b2int(i == 0), 0
		} else if directed == 2 { // the draining client: one outbound call on the first connection
			nin, nout = 0, b2int(i == 0)
		}
		if nin == 1 && !w.startIn(c) {
			return nil, false
		}
		if nout == 1 && !w.startOut(c) {
			return nil, false
		}
	}
	w.observe()
	batch := func(stage string, with func()) {
		k := 1 + rng.Intn(3)
		conc := rng.Intn(2) == 0
		if rng.Intn(6) == 0 { // a storm: eight calls released at the same moment
			k, conc = 8, true
		}
		if directed != 0 && stage == "during the drain" {
			k, conc = 2, false
		}
		w.labels = append(w.labels, fmt.Sprintf("%s:close x%d conc=%v", stage, k, conc))
		st := fmt.Sprintf("%s (%s)", stage, cfg)
		w.closeBatch(k, conc, st, with)
		w.settle("after " + st)
		w.observe()
	}
	batch("before anything closed", nil)
	for {
		c, in := w.pickInFlight(rng)
		if c == nil {
			break
		}
		r := rng.Intn(3)
		if directed != 0 {
			r = 0
		}
		switch r {
		case 0: // more Close calls while draining, then a call ends
			batch("during the drain", nil)
			w.finish(c, in)
			w.labels = append(w.labels, "call-end")
			w.settle("after a call in flight ended")
			w.observe()
		case 1: // a batch runs concurrently with the end of the call
			w.labels = append(w.labels, "close||call-end")
			batch("during the drain, concurrently with the end of a call", func() { w.finish(c, in) })
		default:
			w.finish(c, in)
			w.labels = append(w.labels, "call-end")
			w.settle("after a call in flight ended")
			w.observe()
		}
	}
	batch("after the channel closed", nil)
	// the components are stopped
	if conf, started, stopClosed := tchannel.VerifC07Sweep(w.ch); conf && (started || !stopClosed) && w.panics == 0 {
		w.fail(fmt.Sprintf("the channel is closed but its idle sweeper is not stopped (started=%v, stopCh closed=%v)", started, stopClosed))
	}
	deadline := time.Now().Add(2 * time.Second)
	for i, c := range w.conns {
		for {
			en, _, exited := tchannel.VerifC07Health(c.conn)
			if !en || exited {
				break
			}
			if time.Now().After(deadline) {
				w.fail(fmt.Sprintf("connection %d is Closed but its health-check goroutine has not exited within 2s", i))
				break
			}
			time.Sleep(200 * time.Microsecond)
		}
	}
	return w, true
}

func b2int(b bool) int {
	if b {
		return 1
	}
	return 0
}

func engineC07CloseCfg(rng *rand.Rand, n int, tier string, o *Out) {
	infeasible := 0
	for c := 0; c < n; c++ {
		if o.fails >= 8 || infeasible >= 10 {
			break
		}
		cfg := c07ccCfg{sweep: rng.Intn(3), health: rng.Intn(3), relay: rng.Intn(2), listen: rng.Intn(2), nconns: 1 + rng.Intn(2)}
		directed := 0
		if c < 16 {
			// the first cases walk through the configuration matrix with the two directed drains
			cfg = c07ccCfg{sweep: c & 1, health: (c >> 1) & 1, relay: (c >> 2) & 1, listen: 1 - (c>>3)&1, nconns: 1}
			directed = 1 + (c>>3)&1 // listening: a draining server; client-only: a draining client
		} else if rng.Intn(12) == 0 {
			cfg.nconns = 0
		}
		w, ok := c07ccCase(rng, cfg, directed)
		id := fmt.Sprintf("k%d", c)
		if !ok {
			infeasible++
			o.Hist("infeasible")
			continue
		}
		iv := int64(0)
		if cfg.sweep != 0 {
			iv = 1
		}
		in := append([]int64{iv, int64(cfg.listen), int64(cfg.nconns), w.nops}, w.ops...)
		o.Hist(fmt.Sprintf("sweep=%d", cfg.sweep))
		o.Hist(fmt.Sprintf("health=%d", cfg.health))
		o.Hist(fmt.Sprintf("relay=%d", cfg.relay))
		o.Hist(fmt.Sprintf("listen=%d", cfg.listen))
		o.Hist(fmt.Sprintf("nconns=%d", cfg.nconns))
		o.Hist(fmt.Sprintf("closes=%d", w.ncloses))
		if c < 2 {
			o.Sample(map[string]interface{}{"sub": "c07closecfg", "config": cfg.String(), "script": w.labels, "observed": w.obsFull})
		}
		verdict := w.verdict
		if verdict != "" {
			verdict += fmt.Sprintf(" [c07closecfg: %s; script %v]", cfg, w.labels)
		}
		o.Case("c07closecfg", id, in, w.obsFull, w.ncloses >= 2, verdict)
		o.Case("c07closestop", id+"s", in, w.obsStop, w.ncloses >= 2, "")
	}
	if infeasible >= 10 || (n >= 10 && infeasible*5 > n) {
		o.Oracle("c07closecfg", "infeasible", false, "infeasible", fmt.Sprintf("harness: %d of %d cases could not be set up", infeasible, n))
	}
}

// c07ccWireOpts: channel options of the closewire engine; bit 0 of optcfg: idle sweeper, bit 1:
// health checks (both with intervals far beyond a case: only their start / stop paths run).
func c07ccWireOpts(optcfg int, rh tchannel.RelayHost) *tchannel.ChannelOptions {
	opts := &tchannel.ChannelOptions{Logger: tchannel.NullLogger}
	if rh != nil {
		opts.RelayHost = rh
	}
	if optcfg&1 != 0 {
		opts.IdleCheckInterval, opts.MaxIdleTime = time.Minute, time.Hour
	}
	if optcfg&2 != 0 {
		opts.DefaultConnectionOptions.HealthChecks = tchannel.HealthCheckOptions{Interval: time.Minute, Timeout: time.Second, FailuresToClose: 5}
	}
	return opts
}

// c07ccSafeClose runs Channel.Close under recover() and returns the panic value, if any.
func c07ccSafeClose(ch *tchannel.Channel) (p interface{}) {
	defer func() { p = recover() }()
	ch.Close()
	return nil
}
