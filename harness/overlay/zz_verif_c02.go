//go:build verif

// Added to package tchannel at build time through `go build -overlay` by /verif (property C02).
//
// Ownership tracking of POOLED CHECKSUM OBJECTS.  VerifCkTrack(true, ...) makes every checksum
// pool hand out tracked objects: a tracked object forwards TypeCode/Size/Add/Sum/Reset to the
// real pooled implementation it wraps and records every Acquire (the Reset of ChecksumType.New),
// Add, Sum and Release together with the library function that performed it.  An operation on
// an object that is in the released state (use after release, double release) is recorded as a
// violation.  Nothing of the library is replaced: Release still goes through
// ChecksumType.Release and the sync.Pool of the type.
//
// Quarantine mode: Release hands a FRESH tracked object to the pool instead of the released
// one, which stays "released" for ever -- every later use through a stale reference is seen,
// whatever the interleaving (for a program that respects the ownership discipline the two are
// indistinguishable).  Natural mode: the released object itself goes back to the pool, so a
// stale reference really shares the running CRC with the object's next owner (the effect is
// then visible on the wire).
package tchannel

import (
	"runtime"
	"strings"
	"sync"
	"sync/atomic"
)

// VerifCkEvent is one operation on a tracked pooled checksum.
type VerifCkEvent struct {
	Op    int    // 0 acquire, 1 add, 2 sum, 3 release
	Obj   int64  // identity of the pooled object
	Fn    string // library function performing it, as "Recv.name" (go2v's naming)
	Stack string // a few callers, for messages
	Bad   string // non-empty: the operation hit an object in the released state
	Type  byte
}

type verifCkTracker struct {
	mu         sync.Mutex
	on         bool
	quarantine bool
	installed  bool
	orig       [checksumCount]func() interface{}
	nextID     int64
	events     []VerifCkEvent
}

var verifCk verifCkTracker

type verifCkObj struct {
	inner    Checksum
	id       int64
	state    int32 // 0 in the pool (fresh or released in natural mode), 1 held, 2 released
	relBy    string
	relStack string
}

// VerifCkTrack switches tracking on or off.  Call it before any channel exists.
func VerifCkTrack(on, quarantine bool) {
	t := &verifCk
	t.mu.Lock()
	defer t.mu.Unlock()
	t.on = on
	t.quarantine = quarantine
	if on && !t.installed {
		t.installed = true
		for i := range checksumPools {
			i := i
			t.orig[i] = checksumPools[i].New
			checksumPools[i].New = func() interface{} { return verifCkFresh(i) }
		}
	}
}

// VerifCkQuarantine switches between quarantine and natural mode.
func VerifCkQuarantine(q bool) {
	verifCk.mu.Lock()
	verifCk.quarantine = q
	verifCk.mu.Unlock()
}

func verifCkFresh(i int) Checksum {
	inner := verifCk.orig[i]().(Checksum)
	if _, null := inner.(nullChecksum); null {
		return inner // nothing to share: the null checksum has no state
	}
	return &verifCkObj{inner: inner, id: atomic.AddInt64(&verifCk.nextID, 1)}
}

// VerifCkDrain returns and clears the recorded events.
func VerifCkDrain() []VerifCkEvent {
	verifCk.mu.Lock()
	defer verifCk.mu.Unlock()
	ev := verifCk.events
	verifCk.events = nil
	return ev
}

// verifCkCaller names the library function that performs the operation: the first frame
// that is neither a Checksum implementation (tracked object, noReleaseChecksum and other
// wrappers) nor ChecksumType.New / Release.
func verifCkCaller() (fn, stack string) {
	var pcs [16]uintptr
	n := runtime.Callers(3, pcs[:])
	frames := runtime.CallersFrames(pcs[:n])
	var names []string
	for {
		f, more := frames.Next()
		name := f.Function
		if i := strings.LastIndex(name, "/"); i >= 0 {
			name = name[i+1:]
		}
		if i := strings.Index(name, "."); i >= 0 {
			name = name[i+1:]
		}
		name = strings.NewReplacer("(*", "", ")", "").Replace(name)
		skip := strings.HasPrefix(name, "verifCkObj.") || strings.HasPrefix(name, "noReleaseChecksum.") ||
			strings.HasPrefix(name, "verifPoisonChecksum.") || strings.HasPrefix(name, "hashChecksum.") ||
			name == "ChecksumType.New" || name == "ChecksumType.Release"
		if !skip && name != "" {
			names = append(names, name)
		}
		if !more || len(names) >= 5 {
			break
		}
	}
	if len(names) == 0 {
		return "?", ""
	}
	return names[0], strings.Join(names, " <- ")
}

func (c *verifCkObj) record(op int) {
	t := &verifCk
	t.mu.Lock()
	defer t.mu.Unlock()
	if !t.on {
		if op == 0 {
			c.state = 1
		} else if op == 3 {
			c.state = 0
		}
		return
	}
	fn, stack := verifCkCaller()
	ev := VerifCkEvent{Op: op, Obj: c.id, Fn: fn, Stack: stack, Type: byte(c.inner.TypeCode())}
	switch op {
	case 0:
		// acquire: ChecksumType.New drew the object from the pool and resets it
		if c.state == 1 {
			ev.Bad = "the pool handed out an object that is still held"
		}
		c.state = 1
	case 1, 2:
		if c.state != 1 {
			ev.Bad = "used after its release by " + c.relBy + " [" + c.relStack + "]"
			if c.relBy == "" {
				ev.Bad = "used without having been acquired"
			}
		}
	case 3:
		if c.state != 1 {
			ev.Bad = "released again after its release by " + c.relBy + " [" + c.relStack + "]"
			if c.relBy == "" {
				ev.Bad = "released without having been acquired"
			}
		}
		c.relBy, c.relStack = fn, stack
		if t.quarantine {
			c.state = 2
		} else {
			c.state = 0
		}
	}
	t.events = append(t.events, ev)
}

func (c *verifCkObj) TypeCode() ChecksumType { return c.inner.TypeCode() }
func (c *verifCkObj) Size() int              { return c.inner.Size() }

func (c *verifCkObj) Add(b []byte) []byte {
	c.record(1)
	return c.inner.Add(b)
}

func (c *verifCkObj) Sum() []byte {
	c.record(2)
	return c.inner.Sum()
}

func (c *verifCkObj) Reset() {
	c.record(0)
	c.inner.Reset()
}

func (c *verifCkObj) Release() {
	verifCk.mu.Lock()
	q := verifCk.quarantine && verifCk.on
	verifCk.mu.Unlock()
	c.record(3)
	if q {
		// the pool gets an equivalent object nobody has a reference to
		c.TypeCode().Release(verifCkFresh(int(c.TypeCode())))
		return
	}
	c.TypeCode().Release(c)
}

// VerifCkNew draws a checksum of the given type from the pool like any message does.
func VerifCkNew(t byte) Checksum { return ChecksumType(t).New() }
