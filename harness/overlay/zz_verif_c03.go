//go:build verif

// Added to package tchannel at build time through `go build -overlay` by /verif (property C03,
// engine peerfx).  It only ADDS exported accessors around unexported state so that the
// correspondence harness can observe what one iteration of the reader loop did.
package tchannel

import (
	"time"

	"golang.org/x/net/context"
)

// VerifC03Mex is what messageExchange.forwardPeerFrame looks at, for one exchange.
type VerifC03Mex struct {
	ID       uint32
	QLen     int  // len(recvCh)
	QCap     int  // cap(recvCh)
	CtxErr   bool // ctx.Err() != nil
	Notified bool // errCh notified
	Dropped  bool // frameDropped
}

// VerifC03Snap is the part of the connection state the per-frame handlers read and write.
type VerifC03Snap struct {
	State       int
	Stopped     bool // stoppedExchanges
	InShutdown  bool // inbound.shutdown
	OutShutdown bool // outbound.shutdown
	SendQ       int  // len(sendCh)
	SendCap     int
	In, Out     []VerifC03Mex
}

func verifC03Set(ms *messageExchangeSet) (bool, []VerifC03Mex) {
	ms.RLock()
	defer ms.RUnlock()
	out := make([]VerifC03Mex, 0, len(ms.exchanges))
	for id, mex := range ms.exchanges {
		out = append(out, VerifC03Mex{
			ID: id, QLen: len(mex.recvCh), QCap: cap(mex.recvCh),
			CtxErr:   mex.ctx.Err() != nil,
			Notified: mex.errCh.checkErr() != nil,
			Dropped:  mex.frameDropped.Load(),
		})
	}
	return ms.shutdown, out
}

// VerifC03Snapshot reads the snapshot (each field under the lock the code itself uses).
func VerifC03Snapshot(c *Connection) VerifC03Snap {
	s := VerifC03Snap{State: int(c.readState()), Stopped: c.stoppedExchanges.Load(), SendQ: len(c.sendCh), SendCap: cap(c.sendCh)}
	s.InShutdown, s.In = verifC03Set(c.inbound)
	s.OutShutdown, s.Out = verifC03Set(c.outbound)
	return s
}

// VerifC03Flush queues an (empty) ping res frame with the given id behind everything the
// connection has queued so far; the real writeFrames loop writes it.  A reader of the wire
// that has seen the marker has seen every frame queued before it.
func VerifC03Flush(c *Connection, id uint32, timeout time.Duration) bool {
	frame := c.opts.FramePool.Get()
	frame.Header.messageType = messageTypePingRes
	frame.Header.ID = id
	frame.Header.reserved1 = 0
	frame.Header.SetPayloadSize(0)
	select {
	case c.sendCh <- frame:
		return true
	case <-time.After(timeout):
		c.opts.FramePool.Release(frame)
		return false
	}
}

// VerifC03SendQ lists (message type, id, first payload byte) of the frames waiting in sendCh.
// Only meaningful while the writer goroutine is blocked in a Write and the reader goroutine
// is idle: the queue is drained and refilled in the same order.
func VerifC03SendQ(c *Connection) [][3]uint32 {
	n := len(c.sendCh)
	frames := make([]*Frame, 0, n)
	for i := 0; i < n; i++ {
		select {
		case f := <-c.sendCh:
			frames = append(frames, f)
		default:
		}
	}
	out := make([][3]uint32, 0, len(frames))
	for _, f := range frames {
		var b0 uint32
		if f.Header.PayloadSize() > 0 {
			b0 = uint32(f.Payload[0])
		}
		out = append(out, [3]uint32{uint32(f.Header.messageType), f.Header.ID, b0})
		c.sendCh <- f
	}
	return out
}

// VerifC03CallID is the message id of an inbound call (the key of its exchange).
func VerifC03CallID(call *InboundCall) uint32 { return call.mex.msgID }

// VerifC03BeginCall starts an outbound call on this very connection (Connection.beginCall).
func VerifC03BeginCall(c *Connection, ctx context.Context, service, method string) (*OutboundCall, error) {
	return c.beginCall(ctx, service, method, &CallOptions{})
}
