//go:build verif

// Added to package tchannel at build time through `go build -overlay` by /verif.
// It only ADDS exported wrappers around unexported declarations so that the
// correspondence harness can drive the real code; it replaces no source file.
package tchannel

// VerifCanRetry exposes RetryOn.CanRetry (already public) for symmetry.
func VerifCanRetry(r RetryOn, err error) bool { return r.CanRetry(err) }
