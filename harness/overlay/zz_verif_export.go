//go:build verif

// Added to package tchannel at build time through `go build -overlay` by /verif.
// It only ADDS exported wrappers around unexported declarations so that the
// correspondence harness can drive the real code; it replaces no source file.
package tchannel

import (
	"bytes"
	"io"
	"time"

	"github.com/uber/tchannel-go/typed"
)

// VerifCanRetry exposes RetryOn.CanRetry (already public) for symmetry.
func VerifCanRetry(r RetryOn, err error) bool { return r.CanRetry(err) }

// ---- message / frame codecs (C06) ----

// VerifMsg carries the fields of any protocol message.
type VerifMsg struct {
	Kind      int // 0 initReq 1 initRes 2 callReq 3 callRes 4 error 5 cancel 6 pingReq 7 pingRes 8 callReqContinue 9 callResContinue
	ID        uint32
	Version   uint16
	Params    map[string]string
	TTL       time.Duration
	Span      [4]uint64 // span, parent, trace, flags
	Service   string
	Headers   map[string]string
	Code      byte
	Message   string
	CancelTTL uint32
}

func (v *VerifMsg) span() Span {
	return Span{spanID: v.Span[0], parentID: v.Span[1], traceID: v.Span[2], flags: byte(v.Span[3])}
}

func (v *VerifMsg) message() message {
	th := transportHeaders{}
	for k, val := range v.Headers {
		th[TransportHeaderName(k)] = val
	}
	switch v.Kind {
	case 0:
		return &initReq{initMessage{id: v.ID, Version: v.Version, initParams: initParams(v.Params)}}
	case 1:
		return &initRes{initMessage{id: v.ID, Version: v.Version, initParams: initParams(v.Params)}}
	case 2:
		return &callReq{id: v.ID, TimeToLive: v.TTL, Tracing: v.span(), Headers: th, Service: v.Service}
	case 3:
		return &callRes{id: v.ID, ResponseCode: ResponseCode(v.Code), Tracing: v.span(), Headers: th}
	case 4:
		return &errorMessage{id: v.ID, errCode: SystemErrCode(v.Code), tracing: v.span(), message: v.Message}
	case 5:
		return &cancelMessage{id: v.ID, ttl: v.CancelTTL, tracing: v.span(), message: v.Message}
	case 6:
		return &pingReq{id: v.ID}
	case 7:
		return &pingRes{id: v.ID}
	case 8:
		return &callReqContinue{id: v.ID}
	default:
		return &callResContinue{id: v.ID}
	}
}

// VerifEncodeFrame runs Frame.write(msg) on a frame with the given payload capacity and,
// on success, Frame.WriteOut.
func VerifEncodeFrame(v *VerifMsg, payloadCap int) ([]byte, error) {
	f := NewFrame(payloadCap)
	if err := f.write(v.message()); err != nil {
		return nil, err
	}
	var buf bytes.Buffer
	if err := f.WriteOut(&buf); err != nil {
		return nil, err
	}
	return buf.Bytes(), nil
}

// VerifDecodePayload runs message.read on the payload; returns the fields and the number
// of unread bytes.
func VerifDecodePayload(kind int, payload []byte) (*VerifMsg, int, error) {
	v := &VerifMsg{Kind: kind}
	msg := v.message()
	rbuf := typed.NewReadBuffer(payload)
	if err := msg.read(rbuf); err != nil {
		return nil, 0, err
	}
	getSpan := func(s Span) [4]uint64 { return [4]uint64{s.spanID, s.parentID, s.traceID, uint64(s.flags)} }
	getTH := func(th transportHeaders) map[string]string {
		m := map[string]string{}
		for k, val := range th {
			m[string(k)] = val
		}
		return m
	}
	switch m := msg.(type) {
	case *initReq:
		v.Version, v.Params = m.Version, m.initParams
	case *initRes:
		v.Version, v.Params = m.Version, m.initParams
	case *callReq:
		v.TTL, v.Span, v.Service, v.Headers = m.TimeToLive, getSpan(m.Tracing), m.Service, getTH(m.Headers)
	case *callRes:
		v.Code, v.Span, v.Headers = byte(m.ResponseCode), getSpan(m.Tracing), getTH(m.Headers)
	case *errorMessage:
		v.Code, v.Span, v.Message = byte(m.errCode), getSpan(m.tracing), m.message
	case *cancelMessage:
		v.CancelTTL, v.Span, v.Message = m.ttl, getSpan(m.tracing), m.message
	}
	return v, rbuf.BytesRemaining(), nil
}

// VerifFrameDecode reads a frame from the stream into a frame whose buffer holds stale
// bytes (as a pooled frame does) and decodes it with Frame.read -- the path used for
// init, error and ping messages.
func VerifFrameDecode(kind int, stream []byte, stale []byte) (code int, v *VerifMsg, err error) {
	f := NewFrame(MaxFramePayloadSize)
	for i := range f.Payload {
		f.Payload[i] = stale[i%len(stale)]
	}
	if rerr := f.ReadIn(bytes.NewReader(stream)); rerr != nil {
		if rerr == io.EOF || rerr == io.ErrUnexpectedEOF {
			return 2, nil, nil
		}
		return 1, nil, nil
	}
	v = &VerifMsg{Kind: kind}
	msg := v.message()
	if err := f.read(msg); err != nil {
		return 0, nil, err
	}
	getSpan := func(s Span) [4]uint64 { return [4]uint64{s.spanID, s.parentID, s.traceID, uint64(s.flags)} }
	switch m := msg.(type) {
	case *initReq:
		v.Version, v.Params = m.Version, m.initParams
	case *initRes:
		v.Version, v.Params = m.Version, m.initParams
	case *errorMessage:
		v.Code, v.Span, v.Message = byte(m.errCode), getSpan(m.tracing), m.message
	case *cancelMessage:
		v.CancelTTL, v.Span, v.Message = m.ttl, getSpan(m.tracing), m.message
	}
	return 0, v, nil
}

// VerifReadFrame runs Frame.ReadIn on a pooled-size frame.
// code: 0 ok, 1 invalid size, 2 short read / EOF.
func VerifReadFrame(stream []byte) (code int, size uint16, mt byte, res1 byte, id uint32, payload []byte, rest int) {
	f := NewFrame(MaxFramePayloadSize)
	r := bytes.NewReader(stream)
	if err := f.ReadIn(r); err != nil {
		if err == io.EOF || err == io.ErrUnexpectedEOF {
			return 2, 0, 0, 0, 0, nil, 0
		}
		return 1, 0, 0, 0, 0, nil, 0
	}
	return 0, f.Header.size, byte(f.Header.messageType), f.Header.reserved1, f.Header.ID, append([]byte(nil), f.SizedPayload()...), r.Len()
}
