//go:build verif

// Added to package tchannel at build time through `go build -overlay` by /verif (property C13).
package tchannel

import (
	"net"

	"golang.org/x/net/context"
)

// VerifServeConn does for an accepted socket what the goroutine started by Channel.serve
// does (same connection events, inboundHandshake, close on error), but under the caller's
// context so that the handshake deadline can be chosen (serve always uses
// context.Background(), i.e. the 5 s default).
func (ch *Channel) VerifServeConn(ctx context.Context, netConn net.Conn) error {
	events := connectionEvents{
		OnActive:           ch.inboundConnectionActive,
		OnCloseStateChange: ch.connectionCloseStateChange,
		OnExchangeUpdated:  ch.exchangeUpdated,
	}
	_, err := ch.inboundHandshake(ctx, netConn, events)
	if err != nil {
		netConn.Close()
	}
	return err
}
