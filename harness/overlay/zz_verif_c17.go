//go:build verif

// Added to package tchannel at build time through `go build -overlay` by /verif (property C17).
// Only ADDS exported wrappers around unexported declarations; replaces no source file.
package tchannel

import (
	"time"

	"golang.org/x/net/context"
)

// VerifC17RetryOptions: what getRetryOptions (the lookup RunWithRetry starts with) yields for ctx.
// isNil = the lookup returned a nil pointer (RunWithRetry would panic).
func VerifC17RetryOptions(ctx context.Context) (maxAttempts int, retryOn int, timeoutPerAttempt time.Duration, isNil bool) {
	o := getRetryOptions(ctx)
	if o == nil {
		return 0, 0, 0, true
	}
	return o.MaxAttempts, int(o.RetryOn), o.TimeoutPerAttempt, false
}

// VerifC17GetErrCode exposes getErrCode (retry.go), the code the retry policy looks at.
func VerifC17GetErrCode(err error) int { return int(getErrCode(err)) }

// VerifC17SystemError builds SystemError{code, msg, wrapped} directly, so that shapes the public
// constructor refuses to build (a SystemError wrapping a SystemError, wrapping nil) exist too.
func VerifC17SystemError(code int, wrapped error) error {
	return SystemError{code: SystemErrCode(code), msg: "verif c17", wrapped: wrapped}
}
