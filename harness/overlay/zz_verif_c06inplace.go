//go:build verif

// C06, in-place accessors: exported wrappers around the SECONDARY decoders / encoders that read
// or write a message field straight in a frame's payload (messages.go callReqSpan,
// relay_messages.go lazyCallReq / lazyCallRes / lazyError accessors, finishesCall, ...).  Added to
// package tchannel at build time (go build -overlay); it replaces no source file.
package tchannel

import (
	"bytes"
	"fmt"
	"time"
)

// verifC06IPFrame builds a pooled-size frame whose payload array holds `payload` followed by a
// stale byte pattern (what a recycled frame carries), with a consistent header.
func verifC06IPFrame(mt byte, id uint32, payload []byte, stale byte) *Frame {
	f := NewFrame(MaxFramePayloadSize)
	for i := range f.Payload {
		f.Payload[i] = stale
	}
	copy(f.Payload, payload)
	f.Header.messageType = messageType(mt)
	f.Header.ID = id
	f.Header.SetPayloadSize(uint16(len(payload)))
	return f
}

func verifC06IPSpan(s Span) [4]uint64 {
	return [4]uint64{s.spanID, s.parentID, s.traceID, uint64(s.flags)}
}

// verifC06IPConn: a Connection value with exactly what SendSystemError / handleCallReq's state
// check read: frame pool, logger, close state, a send queue with one free slot.
func verifC06IPConn(state connectionState) *Connection {
	c := &Connection{
		channelConnectionCommon: channelConnectionCommon{log: NullLogger, timeNow: time.Now},
		state:                   state,
		sendCh:                  make(chan *Frame, 1),
	}
	c.opts.FramePool = DefaultFramePool
	return c
}

func verifC06IPDrain(c *Connection) []byte {
	select {
	case f := <-c.sendCh:
		var buf bytes.Buffer
		f.WriteOut(&buf)
		return buf.Bytes()
	default:
		return nil
	}
}

// VerifC06IPReq is what the in-place accessors return for one call req frame.
type VerifC06IPReq struct {
	Panic       string
	Span        [4]uint64 // callReqSpan(frame): spanID, parentID, traceID, flags
	LazySpan    [4]uint64 // (&lazyCallReq{Frame: frame}).Span()
	TTL         time.Duration
	More        bool // hasMoreFragments(frame)
	LazyMore    bool // lazyCallReq.HasMoreFragments()
	Finishes    bool // finishesCall(frame)
	Service     []byte
	ErrFrame    []byte // wire bytes of the frame Connection.SendSystemError(id, callReqSpan(frame), err) queued
	AfterSetTTL []byte // the payload after lazyCallReq.SetTTL(newTTL)
	TTLAfter    time.Duration

	// newLazyCallReq(frame) and the accessors that depend on its parse
	ParseErr  string
	Caller    []byte
	Method    []byte
	Delegate  []byte
	Key       []byte
	As        []byte
	CsumType  int
	Arg2      []byte
	Arg3      []byte
	Arg2Start int
	Arg2End   int
	Arg2Frag  bool
	ParseSpan [4]uint64
	ParseTTL  time.Duration
	ParseSvc  []byte
}

// VerifC06IPCallReq runs every in-place accessor of a call req frame.  The accessors that do
// not need a parse run on a bare &lazyCallReq{Frame: f}; the parse-dependent ones on the result
// of newLazyCallReq.  SetTTL runs last (it mutates the frame).
func VerifC06IPCallReq(id uint32, payload []byte, stale byte, newTTL time.Duration, errCode byte, errMsg string) (v VerifC06IPReq) {
	defer func() {
		if r := recover(); r != nil {
			v.Panic = fmt.Sprint(r)
		}
	}()
	f := verifC06IPFrame(byte(messageTypeCallReq), id, payload, stale)
	v.Span = verifC06IPSpan(callReqSpan(f))
	bare := &lazyCallReq{Frame: f}
	v.LazySpan = verifC06IPSpan(bare.Span())
	v.TTL = bare.TTL()
	v.More = hasMoreFragments(f)
	v.LazyMore = bare.HasMoreFragments()
	v.Finishes = finishesCall(f)
	v.Service = append([]byte(nil), bare.Service()...)

	c := verifC06IPConn(connectionActive)
	c.SendSystemError(id, callReqSpan(f), NewSystemError(SystemErrCode(errCode), "%s", errMsg))
	v.ErrFrame = verifC06IPDrain(c)

	if cr, err := newLazyCallReq(f); err != nil {
		v.ParseErr = err.Error()
	} else {
		v.Caller, v.Method, v.Delegate, v.Key = verifC06IPCopy(cr.Caller()), verifC06IPCopy(cr.Method()), verifC06IPCopy(cr.RoutingDelegate()), verifC06IPCopy(cr.RoutingKey())
		v.As = verifC06IPCopy(cr.as)
		v.CsumType = int(cr.checksumType)
		v.Arg2Start = cr.Arg2StartOffset()
		v.Arg2End, v.Arg2Frag = cr.Arg2EndOffset()
		v.Arg2 = verifC06IPCopy(cr.arg2())
		if !v.Arg2Frag {
			v.Arg3 = verifC06IPCopy(cr.arg3())
		}
		v.ParseSpan, v.ParseTTL, v.ParseSvc = verifC06IPSpan(cr.Span()), cr.TTL(), verifC06IPCopy(cr.Service())
	}

	bare.SetTTL(newTTL)
	v.AfterSetTTL = append([]byte(nil), f.SizedPayload()...)
	v.TTLAfter = bare.TTL()
	return v
}

func verifC06IPCopy(b []byte) []byte { return append([]byte(nil), b...) }

// VerifC06IPRes is what the in-place accessors return for a frame with a flags byte (call res,
// call res continue, ...).
type VerifC06IPRes struct {
	Panic    string
	OK       bool // isCallResOK(frame)
	LazyOK   bool // lazyCallRes{Frame: frame}.OK()
	More     bool
	Finishes bool

	ParseErr string // newLazyCallRes (only for type call res)
	As       []byte
	Arg2     []byte
	Arg2Frag bool
	ParseOK  bool
}

func VerifC06IPCallRes(mt byte, id uint32, payload []byte, stale byte) (v VerifC06IPRes) {
	defer func() {
		if r := recover(); r != nil {
			v.Panic = fmt.Sprint(r)
		}
	}()
	f := verifC06IPFrame(mt, id, payload, stale)
	v.OK = isCallResOK(f)
	v.LazyOK = lazyCallRes{Frame: f}.OK()
	v.More = hasMoreFragments(f)
	v.Finishes = finishesCall(f)
	if messageType(mt) == messageTypeCallRes {
		if cr, err := newLazyCallRes(f); err != nil {
			v.ParseErr = err.Error()
		} else {
			v.As, v.Arg2, v.Arg2Frag, v.ParseOK = verifC06IPCopy(cr.ArgScheme()), verifC06IPCopy(cr.Arg2()), cr.Arg2IsFragmented(), cr.OK()
		}
	}
	return v
}

// VerifC06IPError: lazyError.Code and finishesCall of an error frame.
func VerifC06IPError(id uint32, payload []byte, stale byte) (code int, finishes bool, panicked string) {
	defer func() {
		if r := recover(); r != nil {
			panicked = fmt.Sprint(r)
		}
	}()
	f := verifC06IPFrame(byte(messageTypeError), id, payload, stale)
	return int(newLazyError(f).Code()), finishesCall(f), ""
}

// VerifC06IPDecline runs the real Connection.handleCallReq on a connection in the given close
// state (1 start-close, 2 inbound-closed) with a call req frame read from `wire`: the connection
// declines the call with an error frame.  Returns the wire bytes of that frame.
func VerifC06IPDecline(state int, wire []byte) (out []byte, panicked string) {
	defer func() {
		if r := recover(); r != nil {
			panicked = fmt.Sprint(r)
		}
	}()
	st := connectionStartClose
	if state == 2 {
		st = connectionInboundClosed
	}
	c := verifC06IPConn(st)
	f := NewFrame(MaxFramePayloadSize)
	if err := f.ReadIn(bytes.NewReader(wire)); err != nil {
		return nil, "ReadIn: " + err.Error()
	}
	c.handleCallReq(f)
	return verifC06IPDrain(c), ""
}
