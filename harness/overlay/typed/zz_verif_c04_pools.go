//go:build verif

// Added to package typed at build time through `go build -overlay` by /verif (property C04,
// pool discipline): exports the package-level sync.Pools so that the harness can take a census
// of their content.  Nothing of the library is replaced.
package typed

import "sync"

// VerifSyncPools returns the package-level pools by name.
func VerifSyncPools() map[string]*sync.Pool {
	return map[string]*sync.Pool{
		"typed.readerPool":    &readerPool,
		"typed.intBufferPool": &intBufferPool,
	}
}
