//go:build verif

// Added to package typed at build time through `go build -overlay` by /verif (property C03,
// engine poolcross).  It only ADDS: a way to put objects in an ARBITRARY prior state into the
// package's sync.Pools, the state a hostile previous user may have left (sticky error set,
// scratch bytes of another message, a stale underlying reader).  The fields are found by
// reflection, so a field that a change adds to a pooled struct is poisoned too.
package typed

import (
	"reflect"
	"unsafe"
)

// VerifPoison is the value interface-typed fields are poisoned with: as an error it is "the error
// of a previous user"; as an io.Reader / io.Writer it is "the stream of a previous user".
type VerifPoison struct{}

func (VerifPoison) Error() string { return "verif: state of a previous user of a pooled object" }
func (VerifPoison) Read(p []byte) (int, error) {
	return 0, VerifPoison{}
}
func (VerifPoison) Write(p []byte) (int, error) {
	return 0, VerifPoison{}
}

// VerifPoisonObject overwrites every leaf field of the struct / array behind ptr: byte arrays and
// byte slices with 0xAA, bools with true, integers with 0x5A..., strings, interface fields that
// VerifPoison can be assigned to with VerifPoison{}.  Structs and non-nil pointers to structs of
// the SAME package are entered; pointers to foreign structs (set once by the constructor), maps,
// channels and funcs are left alone.  Returns the number of leaves written.
func VerifPoisonObject(ptr interface{}) int {
	v := reflect.ValueOf(ptr)
	if v.Kind() != reflect.Ptr || v.IsNil() {
		return 0
	}
	home := v.Elem().Type().PkgPath()
	return verifPoisonValue(v.Elem(), home, 0)
}

func verifPoisonValue(v reflect.Value, home string, depth int) int {
	if depth > 4 || !v.CanAddr() {
		return 0
	}
	w := reflect.NewAt(v.Type(), unsafe.Pointer(v.UnsafeAddr())).Elem() // settable view of an unexported field
	poison := reflect.ValueOf(VerifPoison{})
	switch w.Kind() {
	case reflect.Struct:
		if w.Type().PkgPath() != home && w.Type().PkgPath() != "" {
			return 0
		}
		n := 0
		for i := 0; i < w.NumField(); i++ {
			n += verifPoisonValue(w.Field(i), home, depth+1)
		}
		return n
	case reflect.Ptr:
		if w.IsNil() || w.Elem().Kind() != reflect.Struct || w.Elem().Type().PkgPath() != home {
			return 0
		}
		return verifPoisonValue(w.Elem(), home, depth+1)
	case reflect.Interface:
		if poison.Type().Implements(w.Type()) {
			w.Set(poison)
			return 1
		}
	case reflect.Array:
		if w.Type().Elem().Kind() == reflect.Uint8 {
			for i := 0; i < w.Len(); i++ {
				w.Index(i).SetUint(0xAA)
			}
			return 1
		}
		n := 0
		for i := 0; i < w.Len(); i++ {
			n += verifPoisonValue(w.Index(i), home, depth+1)
		}
		return n
	case reflect.Slice:
		if w.Type().Elem().Kind() == reflect.Uint8 {
			if w.IsNil() || w.Len() == 0 {
				w.Set(reflect.MakeSlice(w.Type(), 16, 16))
			}
			for i := 0; i < w.Len(); i++ {
				w.Index(i).SetUint(0xAA)
			}
			return 1
		}
	case reflect.Bool:
		w.SetBool(true)
		return 1
	case reflect.Int, reflect.Int8, reflect.Int16, reflect.Int32, reflect.Int64:
		w.SetInt(0x5A)
		return 1
	case reflect.Uint, reflect.Uint8, reflect.Uint16, reflect.Uint32, reflect.Uint64:
		w.SetUint(0x5A)
		return 1
	case reflect.String:
		w.SetString("\xaapoison")
		return 1
	}
	return 0
}

// VerifPoisonReaderPool puts n Readers in a poisoned state into the Reader pool -- through
// Release, the way a user gives a Reader back, so that a reset on the Put path is honoured.
func VerifPoisonReaderPool(n int) int {
	leaves := 0
	for i := 0; i < n; i++ {
		r := readerPool.New().(*Reader)
		leaves = VerifPoisonObject(r)
		r.Release()
	}
	return leaves
}

// VerifPoisonIntBufferPool puts n poisoned scratch buffers into the pool of Writer.WriteUint16.
func VerifPoisonIntBufferPool(n int) int {
	leaves := 0
	for i := 0; i < n; i++ {
		b := intBufferPool.New()
		leaves = VerifPoisonObject(b)
		intBufferPool.Put(b)
	}
	return leaves
}
