//go:build verif

// C08: exported wrappers around the relay's lazy call req parser and the connection's
// message id counter.  Added to package tchannel at build time (go build -overlay).
package tchannel

import (
	"time"

	"github.com/uber/tchannel-go/typed"
)

// VerifLazy is what newLazyCallReq computed for a call req payload.
type VerifLazy struct {
	Code     int // 0 ok, 11 typed.ErrEOF, 14 errUnknownChecksumType, 9 other error
	CTOff    int
	CType    int
	A2Start  int
	A2End    int
	A2Frag   bool
	A3Start  int
	Method   []byte
	As       []byte
	Caller   []byte
	Delegate []byte
	Key      []byte
	Service  []byte
	TTL      time.Duration
	Arg2     []byte
	Arg3     []byte
}

// VerifLazyCallReq runs newLazyCallReq on a pooled-size frame that holds the payload
// (the rest of the payload array is filled with a stale byte, as a recycled frame has).
func VerifLazyCallReq(payload []byte, stale byte) (v VerifLazy, panicked interface{}) {
	defer func() {
		if r := recover(); r != nil {
			panicked = r
		}
	}()
	f := NewFrame(MaxFramePayloadSize)
	for i := range f.Payload {
		f.Payload[i] = stale
	}
	copy(f.Payload, payload)
	f.Header.messageType = messageTypeCallReq
	f.Header.SetPayloadSize(uint16(len(payload)))
	cr, err := newLazyCallReq(f)
	if err != nil {
		switch err {
		case typed.ErrEOF:
			v.Code = 11
		case errUnknownChecksumType:
			v.Code = 14
		default:
			v.Code = 9
		}
		return v, nil
	}
	v.CTOff, v.CType = int(cr.checksumTypeOffset), int(cr.checksumType)
	v.A2Start, v.A2End, v.A2Frag, v.A3Start = int(cr.arg2StartOffset), int(cr.arg2EndOffset), cr.isArg2Fragmented, int(cr.arg3StartOffset)
	v.Method, v.As, v.Caller, v.Delegate, v.Key = cr.Method(), cr.as, cr.Caller(), cr.RoutingDelegate(), cr.RoutingKey()
	v.Service = cr.Service()
	v.TTL = cr.TTL()
	v.Arg2 = cr.arg2()
	if !cr.isArg2Fragmented {
		v.Arg3 = cr.arg3()
	}
	return v, nil
}

// VerifSetNextMessageID sets the connection's message id counter (the next id handed
// out by NextMessageID is v+1 modulo 2^32).
func VerifSetNextMessageID(c *Connection, v uint32) { c.nextMessageID.Store(v) }

// VerifRelayItems returns the number of live (non-tomb) relay items of the connection's
// relayer: (inbound, outbound); -1 when the connection does not relay.
func VerifRelayItems(c *Connection) (in, out int) {
	if c.relay == nil {
		return -1, -1
	}
	return c.relay.inbound.Count(), c.relay.outbound.Count()
}
