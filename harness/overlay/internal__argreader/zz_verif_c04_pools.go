//go:build verif

// Added to package argreader at build time through `go build -overlay` by /verif (property C04,
// pool discipline): exports the package-level sync.Pool so that the harness can take a census
// of its content.  Nothing of the library is replaced.
package argreader

import "sync"

// VerifSyncPools returns the package-level pools by name.
func VerifSyncPools() map[string]*sync.Pool {
	return map[string]*sync.Pool{"argreader._bufPool": &_bufPool}
}
