//go:build verif

// Added to package tchannel at build time (go build -overlay) for property C16.
// Read-only accessors: they expose handles and fields, they perform no bookkeeping.
package tchannel

// VerifConnInfo16 is what the C16 engine needs to know about a connection.
type VerifConnInfo16 struct {
	ID         uint32
	Dir        int // 1 inbound, 2 outbound
	State      int // connectionState
	RemoteHP   string
	OutboundHP string
	LocalAddr  string
	RemoteAddr string
}

// VerifConnInfoOf reads the identifying fields and the current state of c.
func VerifConnInfoOf(c *Connection) VerifConnInfo16 {
	return VerifConnInfo16{
		ID:         c.connID,
		Dir:        int(c.connDirection),
		State:      int(c.readState()),
		RemoteHP:   c.remotePeerInfo.HostPort,
		OutboundHP: c.outboundHP,
		LocalAddr:  c.conn.LocalAddr().String(),
		RemoteAddr: c.conn.RemoteAddr().String(),
	}
}

// VerifConnState is c.readState().
func VerifConnState(c *Connection) int { return int(c.readState()) }

// VerifChannelConn returns the connection registered in ch.mutable.conns under id.
func VerifChannelConn(ch *Channel, id uint32) (*Connection, bool) {
	ch.mutable.RLock()
	c, ok := ch.mutable.conns[id]
	ch.mutable.RUnlock()
	return c, ok
}
