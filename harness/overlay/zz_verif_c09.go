//go:build verif

// Added to package tchannel at build time through `go build -overlay` by /verif (C09/C10).
// Read-only views of the relay bookkeeping of a channel's connections, plus three drivers the
// schedule engine needs: make a pending relay timer fire now (stands for time passing), fill a
// connection's send channel (stands for a slow peer), start a graceful connection close.
package tchannel

import "sort"

// VerifRelayConn is a snapshot of one connection's relayer.
type VerifRelayConn struct {
	ConnID     uint32
	Remote     string
	IsOutbound bool
	State      int // 1 active 2 startClose 3 inboundClosed 4 closed (connectionState)
	Pending    uint32
	OutItems   int // len(relay.outbound.items) including tombstones
	OutTombs   int
	InItems    int
	InTombs    int
	SendChLen  int
	SendChCap  int
	NextID     uint32 // the id the next NextMessageID() call returns
	Conn       *Connection
}

// VerifRelayConns lists the relay state of every connection of ch, ordered by connection id.
func VerifRelayConns(ch *Channel) []VerifRelayConn {
	ch.mutable.RLock()
	conns := make([]*Connection, 0, len(ch.mutable.conns))
	for _, c := range ch.mutable.conns {
		conns = append(conns, c)
	}
	ch.mutable.RUnlock()
	sort.Slice(conns, func(i, j int) bool { return conns[i].connID < conns[j].connID })
	var out []VerifRelayConn
	for _, c := range conns {
		out = append(out, VerifRelayConnOf(c))
	}
	return out
}

// VerifRelayConnOf snapshots one connection (also after the channel has dropped it).
func VerifRelayConnOf(c *Connection) VerifRelayConn {
	{
		v := VerifRelayConn{Conn: c, ConnID: c.connID, Remote: c.conn.RemoteAddr().String(), IsOutbound: c.connDirection == outbound,
			State: int(c.readState()), SendChLen: len(c.sendCh), SendChCap: cap(c.sendCh), NextID: c.nextMessageID.Load() + 1}
		if r := c.relay; r != nil {
			v.Pending = r.pending.Load()
			r.outbound.RLock()
			v.OutItems, v.OutTombs = len(r.outbound.items), int(r.outbound.tombs)
			r.outbound.RUnlock()
			r.inbound.RLock()
			v.InItems, v.InTombs = len(r.inbound.items), int(r.inbound.tombs)
			r.inbound.RUnlock()
		}
		return v
	}
}

// VerifRelayFire makes the timeout timer of the relay item (connection, table, id) fire now
// if it is still pending, exactly as if its duration had elapsed.  It does not touch the
// relayTimer's own flags.  Returns false when there is no such item or the underlying timer
// is not pending (already fired or stopped).
func VerifRelayFire(c *Connection, inboundTable bool, id uint32) bool {
	if c == nil || c.relay == nil {
		return false
	}
	items := c.relay.outbound
	if inboundTable {
		items = c.relay.inbound
	}
	items.RLock()
	defer items.RUnlock()
	it, ok := items.items[id]
	if !ok || it.timeout == nil {
		return false
	}
	if !it.timeout.timer.Stop() {
		return false
	}
	it.timeout.timer.Reset(0)
	return true
}

// VerifFillSendCh pushes ping-response frames (ignored by the peer) into the connection's
// send channel until it is full; returns how many were pushed.
func VerifFillSendCh(c *Connection) int {
	if c == nil {
		return 0
	}
	n := 0
	for {
		f := c.opts.FramePool.Get()
		if err := f.write(&pingRes{id: 0}); err != nil {
			c.opts.FramePool.Release(f)
			return n
		}
		select {
		case c.sendCh <- f:
			n++
		default:
			c.opts.FramePool.Release(f)
			return n
		}
	}
}

// VerifConnClose starts a graceful close of one connection (Connection.Close).
func VerifConnClose(c *Connection) error {
	if c == nil {
		return nil
	}
	return c.Close()
}
