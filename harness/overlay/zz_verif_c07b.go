//go:build verif

// Added to package tchannel at build time through `go build -overlay` by /verif (property C07,
// third strengthening: Serve / ListenAndServe as operations of the chanclose engine).
package tchannel

// VerifC07ServeErrKind classifies what Channel.Serve / Channel.ListenAndServe returned:
// 0 nil, 1 errAlreadyListening, 2 errInvalidStateForOp, 9 anything else (e.g. net.Listen failed).
func VerifC07ServeErrKind(err error) int {
	switch err {
	case nil:
		return 0
	case errAlreadyListening:
		return 1
	case errInvalidStateForOp:
		return 2
	}
	return 9
}
