//go:build verif

// Added to package thrift at build time through `go build -overlay` by /verif (property C03,
// engine poolcross): puts protocol objects in an arbitrary prior state into thriftProtocolPool
// (see typed.VerifPoisonObject).
package thrift

import "github.com/uber/tchannel-go/typed"

// VerifPoisonProtocolPool puts n poisoned thriftProtocol objects into the pool.
func VerifPoisonProtocolPool(n int) int {
	leaves := 0
	for i := 0; i < n; i++ {
		p := thriftProtocolPool.New()
		leaves = typed.VerifPoisonObject(p)
		thriftProtocolPool.Put(p)
	}
	return leaves
}
