//go:build verif

// Added to package thrift at build time through `go build -overlay` by /verif (property C04,
// pool discipline): exports the package-level sync.Pool so that the harness can take a census
// of its content, and hands on the pool of internal/argreader (an internal package the harness
// module cannot import).  Nothing of the library is replaced.
package thrift

import (
	"sync"

	"github.com/uber/tchannel-go/internal/argreader"
)

// VerifSyncPools returns the package-level pools by name.
func VerifSyncPools() map[string]*sync.Pool {
	m := map[string]*sync.Pool{"thrift.thriftProtocolPool": &thriftProtocolPool}
	for k, v := range argreader.VerifSyncPools() {
		m[k] = v
	}
	return m
}
