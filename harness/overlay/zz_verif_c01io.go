//go:build verif

package tchannel

// C01, the io.Writer / io.Reader face of the argument streams: the real fragmentingWriter /
// fragmentingReader driven (a) call by call with the returned (n, err) recorded, and (b) by
// standard-library callers that rely on the io contracts (io.Copy, bufio, io.ReadFull, a loop
// that re-offers what a short count left).  Every underlying Write / Read call is logged.

import (
	"bufio"
	"bytes"
	"io"
	"io/ioutil"
)

// VerifIOCall is one Write (Data = the bytes offered) or Read (Len = len(buf), Data = buf[:n]) call.
type VerifIOCall struct {
	Data []byte
	Len  int
	N    int
	Code int
}

// VerifIORes is what one scripted operation returned, with the calls it made on the stream.
type VerifIORes struct {
	Code  int
	Calls []VerifIOCall
	Got   []byte // reader consumers: the bytes the consumer ended up with
}

// VerifIOOp: Kind 0 Begin(Last) 1 Write(Data) 2 Flush 3 Close
//
//	10 io.Copy(w, bytes.NewReader(Data))                        (WriterTo: one Write of everything)
//	11 io.CopyBuffer(w, plain reader over Data, make([]byte, N)) (N-byte Writes)
//	12 bufio.NewWriterSize(w, N): Write(Data) in pieces of M, then Flush
//	13 for len(p) > 0 { n, err := w.Write(p); if err != nil { break }; p = p[n:] }
//	14 io.WriteString(w, string(Data))
type VerifIOOp struct {
	Kind int
	Last bool
	Data []byte
	N, M int
}

type verifLogWriter struct {
	w     io.Writer
	calls []VerifIOCall
	limit int
}

func (l *verifLogWriter) Write(p []byte) (int, error) {
	n, err := l.w.Write(p)
	c := verifWErr(err)
	if err == io.ErrShortWrite {
		c = 30
	}
	l.calls = append(l.calls, VerifIOCall{Data: append([]byte(nil), p...), Len: len(p), N: n, Code: c})
	return n, err
}

type verifPlainReader struct{ r io.Reader }

func (p verifPlainReader) Read(b []byte) (int, error) { return p.r.Read(b) }

func verifIOErr(err error) int {
	switch err {
	case io.ErrShortWrite:
		return 30
	case io.ErrUnexpectedEOF:
		return 31
	case io.ErrNoProgress:
		return 32
	case bufio.ErrNegativeCount:
		return 33
	}
	return -1
}

// VerifFragWriteIO drives a real fragmentingWriter over a capturing sender.
func VerifFragWriteIO(capI, capC int, ctype byte, ops []VerifIOOp) (panicked interface{}, res []VerifIORes, state int, done bool, frags [][]byte) {
	s := &verifSender{capI: capI, capC: capC}
	defer func() {
		if r := recover(); r != nil {
			panicked = r
		}
	}()
	w := newFragmentingWriter(NullLogger, s, &verifPoisonChecksum{Checksum: ChecksumType(ctype).New()})
	for _, op := range ops {
		lw := &verifLogWriter{w: w}
		var err error
		switch op.Kind {
		case 0:
			err = w.BeginArgument(op.Last)
		case 1:
			_, err = lw.Write(op.Data)
		case 2:
			err = w.Flush()
		case 3:
			err = w.Close()
		case 10:
			_, err = io.Copy(lw, bytes.NewReader(op.Data))
		case 11:
			_, err = io.CopyBuffer(lw, verifPlainReader{bytes.NewReader(op.Data)}, make([]byte, op.N))
		case 12:
			bw := bufio.NewWriterSize(lw, op.N)
			p := op.Data
			for len(p) > 0 && err == nil {
				k := op.M
				if k > len(p) || k <= 0 {
					k = len(p)
				}
				_, err = bw.Write(p[:k])
				p = p[k:]
			}
			if err == nil {
				err = bw.Flush()
			}
		case 13:
			p := op.Data
			for i := 0; len(p) > 0 && i < 64; i++ {
				var n int
				n, err = lw.Write(p)
				if err != nil || n < 0 || n > len(p) {
					break
				}
				p = p[n:]
			}
		case 14:
			_, err = io.WriteString(lw, string(op.Data))
		}
		code := verifWErr(err)
		if c := verifIOErr(err); c >= 0 {
			code = c
		}
		res = append(res, VerifIORes{Code: code, Calls: lw.calls})
	}
	return nil, res, int(w.state), s.done, s.frags
}

type verifLogReader struct {
	r     io.Reader
	calls []VerifIOCall
}

func (l *verifLogReader) Read(p []byte) (int, error) {
	n, err := l.r.Read(p)
	k := n
	if k < 0 {
		k = 0
	}
	if k > len(p) {
		k = len(p)
	}
	l.calls = append(l.calls, VerifIOCall{Data: append([]byte(nil), p[:k]...), Len: len(p), N: n, Code: verifRErr(err)})
	return n, err
}

// VerifRIOOp: Kind 0 Begin(Last) 1 Read(N) 2 Close
//
//	20 io.ReadFull(r, make([]byte, N))
//	21 ioutil.ReadAll(r)
//	22 bufio.NewReaderSize(r, N): Read(make([]byte, M)) until an error
//	23 io.Copy(&bytes.Buffer{}, r)             (32 KiB reads)
//	24 io.ReadAtLeast(r, make([]byte, N), M)
//	25 io.CopyN(&bytes.Buffer{}, r, N)
type VerifRIOOp struct {
	Kind int
	Last bool
	N, M int
}

// VerifFragReadIO drives a real fragmentingReader over the given fragment payloads.
func VerifFragReadIO(payloads [][]byte, ops []VerifRIOOp) (panicked interface{}, res []VerifIORes, state int, released int, finished bool) {
	pool := &verifCountPool{}
	rc := &verifReceiver{payloads: payloads, pool: pool}
	defer func() {
		if r := recover(); r != nil {
			panicked = r
		}
	}()
	rd := newFragmentingReader(NullLogger, rc)
	for _, op := range ops {
		lr := &verifLogReader{r: rd}
		var err error
		var got []byte
		switch op.Kind {
		case 0:
			err = rd.BeginArgument(op.Last)
		case 1:
			buf := make([]byte, op.N)
			var n int
			n, err = lr.Read(buf)
			if n >= 0 && n <= len(buf) {
				got = buf[:n]
			}
		case 2:
			err = rd.Close()
		case 20:
			buf := make([]byte, op.N)
			var n int
			n, err = io.ReadFull(lr, buf)
			got = buf[:n]
		case 21:
			got, err = ioutil.ReadAll(lr)
		case 22:
			br := bufio.NewReaderSize(lr, op.N)
			for i := 0; err == nil && i < 1<<20; i++ {
				buf := make([]byte, op.M)
				var n int
				n, err = br.Read(buf)
				got = append(got, buf[:n]...)
			}
			if err == io.EOF {
				err = nil
			}
		case 23:
			var b bytes.Buffer
			_, err = io.Copy(&b, lr)
			got = b.Bytes()
		case 24:
			buf := make([]byte, op.N)
			var n int
			n, err = io.ReadAtLeast(lr, buf, op.M)
			got = buf[:n]
		case 25:
			var b bytes.Buffer
			_, err = io.CopyN(&b, lr, int64(op.N))
			got = b.Bytes()
		}
		code := verifRErr(err)
		if c := verifIOErr(err); c >= 0 {
			code = c
		}
		res = append(res, VerifIORes{Code: code, Calls: lr.calls, Got: got})
	}
	return nil, res, int(rd.state), pool.released, rc.finished
}
