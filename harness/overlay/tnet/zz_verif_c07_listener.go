//go:build verif

// Added to package tnet at build time through `go build -overlay` by /verif (property C07).
// Read access to the reference count of the listener wrapper; no source file is replaced.
package tnet

import "net"

// VerifC07ListenerRefs returns the refs field of a listener made by Wrap, read under its
// lock (-1 when l is not such a listener).
func VerifC07ListenerRefs(l net.Listener) int {
	s, ok := l.(*listener)
	if !ok {
		return -1
	}
	s.cond.L.Lock()
	defer s.cond.L.Unlock()
	return s.refs
}
