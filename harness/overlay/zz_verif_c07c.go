//go:build verif

// Added to package tchannel at build time through `go build -overlay` by /verif (property C07,
// fourth strengthening: the optional components a closing channel stops -- engine c07closecfg).
package tchannel

// VerifC07Sweep reads the idle sweeper of ch: configured (IdleCheckInterval > 0), the started flag
// and whether its stopCh has been closed (read under ch.mutable, as Channel.Close writes them).
func VerifC07Sweep(ch *Channel) (configured, started, stopClosed bool) {
	ch.mutable.RLock()
	defer ch.mutable.RUnlock()
	is := ch.mutable.idleSweep
	if is == nil {
		return false, false, false
	}
	configured = is.idleCheckInterval > 0
	started = is.started
	if is.stopCh != nil {
		select {
		case <-is.stopCh:
			stopClosed = true
		default:
		}
	}
	return
}

// VerifC07Health reads the health-check state of a connection: enabled (the goroutine was
// started), cancelled (healthCheckCtx is done) and exited (healthCheckDone is closed).
func VerifC07Health(c *Connection) (enabled, cancelled, exited bool) {
	if c.healthCheckDone == nil {
		return false, false, false
	}
	enabled = true
	cancelled = c.healthCheckCtx.Err() != nil
	select {
	case <-c.healthCheckDone:
		exited = true
	default:
	}
	return
}
