//go:build verif

// Added to package tchannel at build time through `go build -overlay` by /verif (property C19).
// It only ADDS exported accessors/wrappers around unexported state so that the correspondence
// harness can observe and drive the real idle sweep / health check code.
package tchannel

// VerifC19Conns returns the connections the channel tracks (ch.mutable.conns), i.e. the set
// the idle sweep iterates over.
func VerifC19Conns(ch *Channel) []*Connection {
	ch.mutable.RLock()
	defer ch.mutable.RUnlock()
	out := make([]*Connection, 0, len(ch.mutable.conns))
	for _, c := range ch.mutable.conns {
		out = append(out, c)
	}
	return out
}

// VerifC19Tracked reports whether c is a member of ch.mutable.conns.
func VerifC19Tracked(ch *Channel, c *Connection) bool {
	ch.mutable.RLock()
	defer ch.mutable.RUnlock()
	return ch.mutable.conns[c.connID] == c
}

// VerifC19ConnID is the connection's debugging id (it is a field of its log lines).
func VerifC19ConnID(c *Connection) uint32 { return c.connID }

// VerifC19ConnState is a snapshot of the fields the sweep and the health check look at.
type VerifC19ConnState struct {
	State         int
	LastRead      int64
	LastWrite     int64
	Inbound       int // inbound exchanges
	OutboundCalls int // outbound exchanges that are not pings
	OutboundPings int // outbound ping exchanges
	HasRelay      bool
	RelayPending  int
	Stopped       bool
	HealthOn      bool // a health goroutine was started
	HealthDone    bool // ... and has exited
	HealthTotal   int
	History       []bool
	SendQueued    int
}

// VerifC19State reads the snapshot (each field under the lock the code itself uses).
func VerifC19State(c *Connection) VerifC19ConnState {
	st := VerifC19ConnState{
		State:     int(c.readState()),
		LastRead:  c.lastActivityRead.Load(),
		LastWrite: c.lastActivityWrite.Load(),
		Inbound:   c.inbound.count(),
		Stopped:   c.stoppedExchanges.Load(),
	}
	c.outbound.RLock()
	for _, mex := range c.outbound.exchanges {
		if mex.msgType == messageTypePingReq {
			st.OutboundPings++
		} else {
			st.OutboundCalls++
		}
	}
	c.outbound.RUnlock()
	if c.relay != nil {
		st.HasRelay = true
		st.RelayPending = int(c.relay.countPending())
	}
	if c.healthCheckDone != nil {
		st.HealthOn = true
		select {
		case <-c.healthCheckDone:
			st.HealthDone = true
		default:
		}
	}
	c.healthCheckHistory.RLock()
	st.HealthTotal = c.healthCheckHistory.total
	c.healthCheckHistory.RUnlock()
	st.History = c.healthCheckHistory.asBools()
	st.SendQueued = len(c.sendCh)
	return st
}

// VerifC19HealthDone is the channel the health goroutine closes when it exits (nil: none).
func VerifC19HealthDone(c *Connection) <-chan struct{} { return c.healthCheckDone }

// VerifC19HasPendingCalls exposes Connection.hasPendingCalls.
func VerifC19HasPendingCalls(c *Connection) bool { return c.hasPendingCalls() }

// VerifC19Inject queues an (empty-payload) frame of the given type on the connection's send
// channel, exactly as sendMessage does; the real writeFrames loop then stamps and writes it.
func VerifC19Inject(c *Connection, mt byte, id uint32, payload []byte) bool {
	frame := c.opts.FramePool.Get()
	frame.Header.messageType = messageType(mt)
	frame.Header.ID = id
	frame.Header.reserved1 = 0
	copy(frame.Payload, payload)
	frame.Header.SetPayloadSize(uint16(len(payload)))
	select {
	case c.sendCh <- frame:
		return true
	default:
		c.opts.FramePool.Release(frame)
		return false
	}
}

// VerifC19Ring runs newHealthHistory / add / asBools.
func VerifC19Ring(bs []bool) (total int, insertAt int, out []bool, panicked bool) {
	defer func() {
		if r := recover(); r != nil {
			panicked = true
		}
	}()
	hh := newHealthHistory()
	for _, b := range bs {
		hh.add(b)
	}
	return hh.total, hh.insertAt, hh.asBools(), false
}

// VerifC19HealthDefaults runs ConnectionOptions.withDefaults (which applies
// HealthCheckOptions.withDefaults) and HealthCheckOptions.enabled.
func VerifC19HealthDefaults(o HealthCheckOptions) (bool, HealthCheckOptions) {
	co := ConnectionOptions{HealthChecks: o}.withDefaults()
	return co.HealthChecks.enabled(), co.HealthChecks
}

// VerifC19ValidateIdle runs ChannelOptions.validateIdleCheck.
func VerifC19ValidateIdle(o *ChannelOptions) error { return o.validateIdleCheck() }
