//go:build verif

// Added to package tchannel at build time through `go build -overlay` by /verif (property C11).
// Exported wrappers around unexported state so that the quiescence harness can observe what a
// channel still holds and drive the real bookkeeping code; it replaces no source file.
package tchannel

import (
	"errors"
	"sort"
	"sync"
	"time"

	"github.com/uber/tchannel-go/relay"
	"golang.org/x/net/context"
)

// ---------------------------------------------------------------- observation of live channels

// VerifC11ConnInfo is what a connection still holds.
type VerifC11ConnInfo struct {
	ConnID          uint32
	State           int
	InExchanges     int
	InExpired       int
	OutExchanges    int
	OutExpired      int
	HasRelay        bool
	RelayItems      int // all entries of both maps, tombstones included
	RelayTombs      int
	RelayPending    int
	SendChQueued    int
	InChannelConns  bool
	InPeerLists     int
	StopChClosed    bool
	NetworkClosed   bool // closeNetwork was called
	HealthEnabled   bool
	HealthCtxDone   bool
	RemoteHostPort  string
	OutboundHP      string
	ConnectionState string
}

// VerifC11Conns returns every connection reachable from the channel: the channel's connection
// map and every root peer's inbound/outbound lists.
func VerifC11Conns(ch *Channel) []*Connection {
	seen := map[*Connection]bool{}
	var out []*Connection
	ch.mutable.RLock()
	for _, c := range ch.mutable.conns {
		if !seen[c] {
			seen[c] = true
			out = append(out, c)
		}
	}
	ch.mutable.RUnlock()
	for _, p := range ch.RootPeers().Copy() {
		p.RLock()
		for _, c := range p.inboundConnections {
			if !seen[c] {
				seen[c] = true
				out = append(out, c)
			}
		}
		for _, c := range p.outboundConnections {
			if !seen[c] {
				seen[c] = true
				out = append(out, c)
			}
		}
		p.RUnlock()
	}
	return out
}

func mexsetSizes(m *messageExchangeSet) (int, int) {
	m.RLock()
	defer m.RUnlock()
	return len(m.exchanges), len(m.expiredExchanges)
}

func relayItemsSizes(r *relayItems) (items int, tombs int) {
	r.RLock()
	defer r.RUnlock()
	for _, it := range r.items {
		items++
		if it.tomb {
			tombs++
		}
	}
	return
}

// VerifC11Info inspects one connection (which may no longer be reachable from ch).
func VerifC11Info(ch *Channel, c *Connection) VerifC11ConnInfo {
	st := c.readState()
	info := VerifC11ConnInfo{ConnID: c.connID, State: int(st), ConnectionState: st.String(),
		RemoteHostPort: c.remotePeerInfo.HostPort, OutboundHP: c.outboundHP, SendChQueued: len(c.sendCh)}
	info.InExchanges, info.InExpired = mexsetSizes(c.inbound)
	info.OutExchanges, info.OutExpired = mexsetSizes(c.outbound)
	if c.relay != nil {
		info.HasRelay = true
		i1, t1 := relayItemsSizes(c.relay.inbound)
		i2, t2 := relayItemsSizes(c.relay.outbound)
		info.RelayItems, info.RelayTombs = i1+i2, t1+t2
		info.RelayPending = int(c.relay.pending.Load())
	}
	ch.mutable.RLock()
	info.InChannelConns = ch.mutable.conns[c.connID] == c
	ch.mutable.RUnlock()
	for _, p := range ch.RootPeers().Copy() {
		p.RLock()
		for _, x := range p.inboundConnections {
			if x == c {
				info.InPeerLists++
			}
		}
		for _, x := range p.outboundConnections {
			if x == c {
				info.InPeerLists++
			}
		}
		p.RUnlock()
	}
	select {
	case <-c.stopCh:
		info.StopChClosed = true
	default:
	}
	info.NetworkClosed = c.closeNetworkCalled.Load()
	if c.healthCheckDone != nil {
		info.HealthEnabled = true
		info.HealthCtxDone = c.healthCheckCtx.Err() != nil
	}
	return info
}

// VerifC11ConnOfInbound returns the connection an inbound call arrived on.
func VerifC11ConnOfInbound(call *InboundCall) *Connection { return call.conn }

// VerifC11ConnID returns the connection id.
func VerifC11ConnID(c *Connection) uint32 { return c.connID }

// VerifC11SendPong queues a harmless pingRes frame for the frame writer (to make it write).
func VerifC11SendPong(c *Connection, id uint32) error { return c.sendMessage(&pingRes{id: id}) }

// VerifC11Ping pings over this connection.
func VerifC11Ping(ctx context.Context, c *Connection) error { return c.ping(ctx) }

// ---------------------------------------------------------------- message exchange set (sub mexdrain)

// VerifC11MexSet drives a real messageExchangeSet.
type VerifC11MexSet struct {
	set      *messageExchangeSet
	objs     []*messageExchange
	cancels  []context.CancelFunc
	mu       sync.Mutex
	rechecks int
	added    int
}

func VerifC11NewMexSet() *VerifC11MexSet {
	v := &VerifC11MexSet{}
	v.set = newMessageExchangeSet(NullLogger, "verif")
	v.set.onRemoved = func() { v.mu.Lock(); v.rechecks++; v.mu.Unlock() }
	v.set.onAdded = func() { v.mu.Lock(); v.added++; v.mu.Unlock() }
	return v
}

// New runs newExchange; 0 = ok, 1 = errMexSetShutdown, 2 = errDuplicateMex, 3 = other error.
func (v *VerifC11MexSet) New(id uint32) int {
	ctx, cancel := context.WithCancel(context.Background())
	mex, err := v.set.newExchange(ctx, cancel, DefaultFramePool, messageTypeCallReq, id, 64)
	switch err {
	case nil:
		v.objs = append(v.objs, mex)
		v.cancels = append(v.cancels, cancel)
		return 0
	case errMexSetShutdown:
		cancel()
		return 1
	case errDuplicateMex:
		cancel()
		return 2
	}
	cancel()
	return 3
}

func (v *VerifC11MexSet) NumObjs() int             { return len(v.objs) }
func (v *VerifC11MexSet) Shutdown(h int)           { v.objs[h].shutdown() }
func (v *VerifC11MexSet) Expire(h int)             { v.objs[h].inboundExpired() }
func (v *VerifC11MexSet) RemoveByID(h int)         { v.set.removeExchange(v.objs[h].msgID) }
func (v *VerifC11MexSet) Stop()                    { v.set.stopExchanges(errors.New("verif stop")) }
func (v *VerifC11MexSet) IsShutdownObj(h int) bool { return v.objs[h].shutdownAtomic.Load() }

// Forward runs the real forwardPeerFrame for a frame with the given id and reports the handle
// of the exchange object whose receive channel got the frame (-1 = none).
func (v *VerifC11MexSet) Forward(id uint32) int {
	before := make([]int, len(v.objs))
	for i, m := range v.objs {
		before[i] = len(m.recvCh)
	}
	f := NewFrame(MaxFramePayloadSize)
	f.Header.ID = id
	f.Header.messageType = messageTypeCallReqContinue
	v.set.forwardPeerFrame(f)
	for i, m := range v.objs {
		if len(m.recvCh) != before[i] {
			return i
		}
	}
	return -1
}

// State: exchanges as (id, handle) sorted by id, expired ids sorted, shutdown flag, callback
// counts, errChNotified per object.
func (v *VerifC11MexSet) State() (exch [][2]int64, expired []int64, shutdown bool, rechecks, added int, notified []bool) {
	v.set.RLock()
	for id, m := range v.set.exchanges {
		h := -1
		for i, o := range v.objs {
			if o == m {
				h = i
			}
		}
		exch = append(exch, [2]int64{int64(id), int64(h)})
	}
	for id := range v.set.expiredExchanges {
		expired = append(expired, int64(id))
	}
	shutdown = v.set.shutdown
	v.set.RUnlock()
	sort.Slice(exch, func(i, j int) bool { return exch[i][0] < exch[j][0] })
	sort.Slice(expired, func(i, j int) bool { return expired[i] < expired[j] })
	v.mu.Lock()
	rechecks, added = v.rechecks, v.added
	v.mu.Unlock()
	for _, o := range v.objs {
		notified = append(notified, o.errChNotified.Load())
	}
	return
}

func (v *VerifC11MexSet) Release() {
	for _, c := range v.cancels {
		c()
	}
}

// ---------------------------------------------------------------- relay items (sub relaydrain)

type verifC11Call struct {
	mu     sync.Mutex
	ends   int
	failed []string
}

func (c *verifC11Call) Destination() (*Peer, bool)   { return nil, false }
func (c *verifC11Call) SentBytes(uint16)             {}
func (c *verifC11Call) ReceivedBytes(uint16)         {}
func (c *verifC11Call) CallResponse(relay.RespFrame) {}
func (c *verifC11Call) Succeeded()                   {}
func (c *verifC11Call) Failed(r string) {
	c.mu.Lock()
	c.failed = append(c.failed, r)
	c.mu.Unlock()
}
func (c *verifC11Call) End() { c.mu.Lock(); c.ends++; c.mu.Unlock() }

// VerifC11NewRelayCall returns a RelayCall that only counts End/Failed.
func VerifC11NewRelayCall() RelayCall { return &verifC11Call{} }

// VerifC11CallEnds returns how often End was called on a call made by VerifC11NewRelayCall.
func VerifC11CallEnds(c RelayCall) int {
	v := c.(*verifC11Call)
	v.mu.Lock()
	defer v.mu.Unlock()
	return v.ends
}

// VerifC11Relay drives the real Relayer of a live relay connection on a private relayItems map.
type VerifC11Relay struct {
	r        *Relayer
	items    *relayItems
	baseline int
	call     RelayCall
}

// VerifC11NewRelay replaces the connection's outbound relay item map by a fresh one with the
// given maxTombs (the previous map stays referenced by its own timers only).
func VerifC11NewRelay(c *Connection, maxTombs uint64, call RelayCall) *VerifC11Relay {
	if c.relay == nil {
		return nil
	}
	r := c.relay
	items := newRelayItems(NullLogger, maxTombs)
	r.outbound = items
	return &VerifC11Relay{r: r, items: items, baseline: int(r.pending.Load()), call: call}
}

// Add: canHandleNewCall (pending.Inc) + addRelayItem with a timer that will not fire by itself.
func (v *VerifC11Relay) Add(id uint32) bool {
	if _, _, found := v.items.Get(id, false); found {
		return false
	}
	if ok, _ := v.r.canHandleNewCall(); !ok {
		return false
	}
	v.r.addRelayItem(true, id, id+1000000, v.r, time.Hour, Span{}, v.call, nil)
	return true
}

// GetStop: items.Get(id, true) -> found, stopped, tomb
func (v *VerifC11Relay) GetStop(id uint32) (bool, bool, bool) {
	item, stopped, found := v.items.Get(id, true)
	return found, stopped, item.tomb
}

// Finish: the real finishRelayItem on behalf of a frame path that looked the item up just now
// (the looked-up copy is the item currently under the id, so relayItems.deleteCall's identity
// check passes whenever an item is there); returns whether pending was decremented.
func (v *VerifC11Relay) Finish(id uint32) bool {
	before := v.r.pending.Load()
	lookedUp, _, _ := v.items.Get(id, false)
	v.r.finishRelayItem(v.items, id, lookedUp)
	return v.r.pending.Load() != before
}

// FailEntomb is the second half of failRelayItem (after its Get): the real Entomb followed by
// what failRelayItem does on success.  Fail is the whole real failRelayItem.
func (v *VerifC11Relay) Fail(id uint32) bool {
	before := v.r.pending.Load()
	v.r.failRelayItem(v.items, id, "verif", errFrameNotSent)
	return v.r.pending.Load() != before
}

// Fire makes the item's own timer fire now (the real OnTimer -> timeoutRelayItem runs in the
// timer goroutine).  Returns false when the item or its timer is not armed.
func (v *VerifC11Relay) Fire(id uint32) bool {
	v.items.RLock()
	item, ok := v.items.items[id]
	v.items.RUnlock()
	if !ok || item.timeout == nil || !item.timeout.active {
		return false
	}
	item.timeout.timer.Reset(0)
	return true
}

// Gc runs what the AfterFunc scheduled by Entomb runs.
func (v *VerifC11Relay) Gc(id uint32) { v.items.Delete(id) }

func (v *VerifC11Relay) State() (items [][2]int64, tombs int, pending int) {
	v.items.RLock()
	for id, it := range v.items.items {
		t := int64(0)
		if it.tomb {
			t = 1
		}
		items = append(items, [2]int64{int64(id), t})
	}
	tombs = int(v.items.tombs)
	v.items.RUnlock()
	sort.Slice(items, func(i, j int) bool { return items[i][0] < items[j][0] })
	pending = int(v.r.pending.Load()) - v.baseline
	return
}

// ---------------------------------------------------------------- connection book (sub connbook)

// VerifC11BareConn creates a Connection object without goroutines or socket, for driving the
// channel/peer bookkeeping code.
func VerifC11BareConn(ch *Channel, remoteHP, outboundHP string) *Connection {
	c := &Connection{
		channelConnectionCommon: ch.channelConnectionCommon,
		connID:                  _nextConnID.Inc(),
		state:                   connectionActive,
		stopCh:                  make(chan struct{}),
		sendCh:                  make(chan *Frame, 1),
		remotePeerInfo:          PeerInfo{HostPort: remoteHP},
		outboundHP:              outboundHP,
		healthCheckHistory:      newHealthHistory(),
	}
	c.log = NullLogger
	c.inbound = newMessageExchangeSet(NullLogger, messageExchangeSetInbound)
	c.outbound = newMessageExchangeSet(NullLogger, messageExchangeSetOutbound)
	c.inbound.onRemoved, c.outbound.onRemoved = func() {}, func() {}
	c.inbound.onAdded, c.outbound.onAdded = func() {}, func() {}
	if outboundHP != "" {
		c.connDirection = outbound
	}
	return c
}

func VerifC11ChanAdd(ch *Channel, c *Connection) bool { return ch.addConnection(c, c.connDirection) }

// VerifC11PeerAdd runs the real Peer.addConnection of the root peer for hostPort.
func VerifC11PeerAdd(ch *Channel, hostPort string, c *Connection) error {
	return ch.RootPeers().GetOrAdd(hostPort).addConnection(c, c.connDirection)
}

func VerifC11SetConnState(c *Connection, st int) {
	c.stateMut.Lock()
	c.state = connectionState(st)
	c.stateMut.Unlock()
}

func VerifC11Callback(ch *Channel, c *Connection) { ch.connectionCloseStateChange(c) }

func VerifC11SetChannelClosing(ch *Channel) {
	ch.mutable.Lock()
	ch.mutable.state = ChannelStartClose
	ch.mutable.Unlock()
}

// VerifC11Book: connection ids in ch.mutable.conns and (peer hostPort, connID) entries.
func VerifC11Book(ch *Channel) (conns []uint32, peers [][2]string) {
	ch.mutable.RLock()
	for id := range ch.mutable.conns {
		conns = append(conns, id)
	}
	ch.mutable.RUnlock()
	for hp, p := range ch.RootPeers().Copy() {
		p.RLock()
		for _, c := range p.inboundConnections {
			peers = append(peers, [2]string{hp, itoa(c.connID)})
		}
		for _, c := range p.outboundConnections {
			peers = append(peers, [2]string{hp, itoa(c.connID)})
		}
		p.RUnlock()
	}
	return
}

func itoa(v uint32) string {
	if v == 0 {
		return "0"
	}
	var b [12]byte
	i := len(b)
	for v > 0 {
		i--
		b[i] = byte('0' + v%10)
		v /= 10
	}
	return string(b[i:])
}
