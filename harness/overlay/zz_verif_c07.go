//go:build verif

// Added to package tchannel at build time through `go build -overlay` by /verif (property C07).
// Exported wrappers around unexported declarations of the close state machines; no source file
// is replaced.
package tchannel

import (
	"io"
	"sort"

	"golang.org/x/net/context"
)

// VerifC07Conns returns the connections tracked in ch.mutable.conns, ordered by connection id.
func VerifC07Conns(ch *Channel) []*Connection {
	ch.mutable.RLock()
	out := make([]*Connection, 0, len(ch.mutable.conns))
	for _, c := range ch.mutable.conns {
		out = append(out, c)
	}
	ch.mutable.RUnlock()
	sort.Slice(out, func(i, j int) bool { return out[i].connID < out[j].connID })
	return out
}

// VerifC07ConnID is the connection id used in the schedule points.
func VerifC07ConnID(c *Connection) uint32 { return c.connID }

// VerifC07ConnObs reads what the connection-close model calls the shared variables.
type VerifC07ConnObs struct {
	State      int
	Inbound    int
	Outbound   int
	HasRelay   bool
	Pending    int
	StopClosed bool
	Stopped    bool
	NextID     uint32
}

func VerifC07Observe(c *Connection) VerifC07ConnObs {
	o := VerifC07ConnObs{
		State:    int(c.readState()),
		Inbound:  c.inbound.count(),
		Outbound: c.outbound.count(),
		HasRelay: c.relay != nil,
		Stopped:  c.stoppedExchanges.Load(),
		NextID:   c.nextMessageID.Load(),
	}
	if c.relay != nil {
		o.Pending = int(c.relay.countPending())
	}
	select {
	case <-c.stopCh:
		o.StopClosed = true
	default:
	}
	return o
}

// VerifC07State is Connection.readState().
func VerifC07State(c *Connection) int { return int(c.readState()) }

// VerifC07BeginCall is Connection.beginCall.
func VerifC07BeginCall(ctx context.Context, c *Connection, service, method string) (*OutboundCall, uint32, error) {
	call, err := c.beginCall(ctx, service, method, &CallOptions{})
	if err != nil {
		return nil, 0, err
	}
	return call, call.callReq.id, nil
}

// VerifC07ConnectionError is Connection.connectionError with an EOF, as the frame reader calls it.
func VerifC07ConnectionError(c *Connection) { c.connectionError("verif", io.EOF) }

// VerifC07CheckExchanges is Connection.checkExchanges.
func VerifC07CheckExchanges(c *Connection) { c.checkExchanges() }

// VerifC07RelayAdmit is Relayer.canHandleNewCall (the admission of a relayed call).
func VerifC07RelayAdmit(c *Connection) (hasRelay bool, admitted bool) {
	if c.relay == nil {
		return false, false
	}
	ok, _ := c.relay.canHandleNewCall()
	return true, ok
}

// VerifC07RelayDone is Relayer.decrementPending (a relayed call ends).
func VerifC07RelayDone(c *Connection) { c.relay.decrementPending() }

// VerifC07IsConnClosedErr reports whether err is the local "connection is closed" error.
func VerifC07ErrKind(err error) int {
	switch err {
	case nil:
		return 0
	case ErrConnectionClosed:
		return 1
	case errMexSetShutdown:
		return 2
	case errDuplicateMex:
		return 3
	case errInvalidStateForOp:
		return 4
	}
	return 9
}
