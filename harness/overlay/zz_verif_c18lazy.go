//go:build verif

// C18: exported wrappers around the relay's lazy frame parsers (relay_messages.go) as a relay
// uses them: a frame object that is READ INTO twice (an earlier frame, then the frame under
// test -- what the frame pool does), newLazyCallReq / newLazyCallRes on it, and everything a
// RelayHost can ask the resulting relay.CallFrame / relay.RespFrame for, each step under
// recover().  Added to package tchannel at build time (go build -overlay).
package tchannel

import (
	"bytes"
	"fmt"
	"io"

	"github.com/uber/tchannel-go/typed"
)

// VerifC18LazyFrame reads the wire bytes of `earlier` (may be nil) and then of `frame` into ONE
// pool-sized frame object whose payload array was first filled with `fill`.
func VerifC18LazyFrame(fill byte, earlier, frame []byte) (*Frame, error) {
	f := NewFrame(MaxFramePayloadSize)
	for i := range f.Payload {
		f.Payload[i] = fill
	}
	if earlier != nil {
		if err := f.ReadIn(bytes.NewReader(earlier)); err != nil {
			return nil, fmt.Errorf("earlier frame: %v", err)
		}
	}
	if err := f.ReadIn(bytes.NewReader(frame)); err != nil {
		return nil, err
	}
	return f, nil
}

// VerifC18LazyArray returns the frame's payload array and its sized length.
func VerifC18LazyArray(f *Frame) (array []byte, size int) {
	return f.Payload, len(f.SizedPayload())
}

// VerifC18LazyKV is one pair yielded by the arg2 iterator, with the offset of its key and
// value in the frame's payload array (-1 = not a slice of the array).
type VerifC18LazyKV struct {
	Key, Val       []byte
	KeyOff, ValOff int
}

// VerifC18LazyReq is what a relay host can see of a call req frame.
type VerifC18LazyReq struct {
	Code      int // 0 ok, 11 typed.ErrEOF, 14 errUnknownChecksumType, 9 other error, -9 panic in the parser
	CTOff     int
	CType     int
	A2Start   int
	A2End     int
	A2Frag    bool
	A3Start   int
	Method    []byte
	As        []byte
	Iter      int  // 0 iterated, 2 refused (not thrift), -9 panic
	IterFin   bool // ended with io.EOF
	IterErr   string
	Pairs     []VerifC18LazyKV
	Arg2      []byte
	Arg2Panic bool
	Arg3      []byte
	Arg3Panic bool
	Panic     string
}

func verifC18Off(arr, b []byte) int {
	if cap(b) == 0 || cap(b) > cap(arr) {
		return -1
	}
	off := cap(arr) - cap(b)
	full := arr[:cap(arr)]
	if len(b) > 0 && &full[off] != &b[0] {
		return -1
	}
	return off
}

// VerifC18LazyCallReq runs newLazyCallReq on the frame and, when it is accepted, the accessors.
func VerifC18LazyCallReq(f *Frame) (v VerifC18LazyReq) {
	var cr *lazyCallReq
	func() {
		defer func() {
			if r := recover(); r != nil {
				v.Code, v.Panic = -9, fmt.Sprint(r)
			}
		}()
		c, err := newLazyCallReq(f)
		switch err {
		case nil:
			cr = c
		case typed.ErrEOF:
			v.Code = 11
		case errUnknownChecksumType:
			v.Code = 14
		default:
			v.Code = 9
		}
	}()
	if cr == nil {
		return v
	}
	v.CTOff, v.CType = int(cr.checksumTypeOffset), int(cr.checksumType)
	v.A2Start = cr.Arg2StartOffset()
	v.A2End, v.A2Frag = cr.Arg2EndOffset()
	v.A3Start = int(cr.arg3StartOffset)
	v.Method, v.As = cr.Method(), cr.as
	func() {
		defer func() {
			if r := recover(); r != nil {
				v.Iter, v.Panic = -9, fmt.Sprint(r)
			}
		}()
		it, err := cr.Arg2Iterator()
		if err != nil && err != io.EOF && !bytes.Equal(cr.as, _tchanThriftValueBytes) {
			v.Iter = 2
			return
		}
		for err == nil {
			v.Pairs = append(v.Pairs, VerifC18LazyKV{Key: it.Key(), Val: it.Value(),
				KeyOff: verifC18Off(f.Payload, it.Key()), ValOff: verifC18Off(f.Payload, it.Value())})
			it, err = it.Next()
		}
		v.IterFin = err == io.EOF
		v.IterErr = err.Error()
	}()
	func() {
		defer func() {
			if r := recover(); r != nil {
				v.Arg2Panic, v.Panic = true, fmt.Sprint(r)
			}
		}()
		v.Arg2 = cr.arg2()
	}()
	if !v.A2Frag {
		func() {
			defer func() {
				if r := recover(); r != nil {
					v.Arg3Panic, v.Panic = true, fmt.Sprint(r)
				}
			}()
			v.Arg3 = cr.arg3()
		}()
	}
	return v
}

// VerifC18LazyRes is what a relay host can see of a call res frame.
type VerifC18LazyRes struct {
	Code    int // 0 ok, 1 error, -9 panic
	Frag    bool
	As      []byte
	Arg2    []byte
	Arg2Off int // offset of Arg2 in the payload array (-1: not a slice of it / empty)
	OK      bool
	Panic   string
}

// VerifC18LazyCallRes runs newLazyCallRes on the frame.
func VerifC18LazyCallRes(f *Frame) (v VerifC18LazyRes) {
	defer func() {
		if r := recover(); r != nil {
			v.Code, v.Panic = -9, fmt.Sprint(r)
		}
	}()
	cr, err := newLazyCallRes(f)
	if err != nil {
		v.Code = 1
		return v
	}
	v.Frag, v.As, v.Arg2 = cr.Arg2IsFragmented(), cr.ArgScheme(), cr.Arg2()
	v.Arg2Off = verifC18Off(f.Payload, v.Arg2)
	v.OK = cr.OK()
	return v
}
