//go:build verif

// Added to package tchannel at build time through `go build -overlay` by /verif (property C15).
// Only ADDS exported wrappers around unexported peer-list internals; replaces no source file.
package tchannel

import "math/rand"

// VerifPS is one element of peerHeap.peerScores as the code holds it.
type VerifPS struct {
	HostPort string
	Score    uint64
	Order    uint64
	Index    int
}

// VerifPeerListState is a snapshot of a PeerList's internals taken under its read lock.
type VerifPeerListState struct {
	Heap    []VerifPS // peerHeap.peerScores in array order
	Counter uint64    // peerHeap.order
	Keys    []string  // keys of peersByHostPort (unsorted)
	// MapAgrees: every map value is the very object stored at heap[value.index] and carries
	// the key as its host:port.
	MapAgrees bool
}

// VerifPeerListSnapshot reads the heap array, the order counter and the membership map.
func VerifPeerListSnapshot(l *PeerList) VerifPeerListState {
	l.RLock()
	defer l.RUnlock()
	st := VerifPeerListState{Counter: l.peerHeap.order, MapAgrees: true}
	for _, ps := range l.peerHeap.peerScores {
		st.Heap = append(st.Heap, VerifPS{HostPort: ps.Peer.hostPort, Score: ps.score, Order: ps.order, Index: ps.index})
	}
	for k, ps := range l.peersByHostPort {
		st.Keys = append(st.Keys, k)
		if ps.index < 0 || ps.index >= len(l.peerHeap.peerScores) || l.peerHeap.peerScores[ps.index] != ps || ps.Peer.hostPort != k {
			st.MapAgrees = false
		}
	}
	return st
}

// VerifSetPeerListRng replaces peerHeap.rng by a generator over the given (logged) source.
func VerifSetPeerListRng(l *PeerList, src rand.Source) {
	l.Lock()
	l.peerHeap.rng = rand.New(src)
	l.Unlock()
}

// VerifSetPeerLoad gives the peer the stated numbers of inbound / outbound connections and
// pending outbound calls, as NumConnections and NumPendingOutbound report them.  The
// connections are inert objects that only carry an exchange set.
func VerifSetPeerLoad(p *Peer, inbound, outbound, pending int) {
	mk := func(n int) []*Connection {
		var cs []*Connection
		for i := 0; i < n; i++ {
			cs = append(cs, &Connection{outbound: &messageExchangeSet{exchanges: map[uint32]*messageExchange{}}})
		}
		return cs
	}
	in, out := mk(inbound), mk(outbound)
	all := append(append([]*Connection{}, out...), in...)
	for i := 0; i < pending && len(all) > 0; i++ {
		all[i%len(all)].outbound.exchanges[uint32(i)] = nil
	}
	p.Lock()
	p.inboundConnections = in
	p.outboundConnections = out
	p.Unlock()
}

// VerifChannelUpdatePeer runs Channel.updatePeer(p): what connection and exchange changes call.
func VerifChannelUpdatePeer(ch *Channel, p *Peer) { ch.updatePeer(p) }

// VerifScoreCalculator returns the library's calculators: 0 preferIncoming, 1 leastPending, 2 zero.
func VerifScoreCalculator(kind int) ScoreCalculator {
	switch kind {
	case 0:
		return newPreferIncomingCalculator()
	case 1:
		return newLeastPendingCalculator()
	default:
		return newZeroCalculator()
	}
}

// VerifPeerChosenCount reads Peer.chosenCount.
func VerifPeerChosenCount(p *Peer) uint64 { return p.chosenCount.Load() }
