//go:build verif

// Added to package tchannel at build time through `go build -overlay` by /verif (property C15).
// Only ADDS exported wrappers around unexported peer-list internals; replaces no source file.
package tchannel

import "math/rand"

// VerifPS is one element of peerHeap.peerScores as the code holds it.
type VerifPS struct {
	HostPort string
	Score    uint64
	Order    uint64
	Index    int
}

// VerifPeerListState is a snapshot of a PeerList's internals taken under its read lock.
type VerifPeerListState struct {
	Heap    []VerifPS // peerHeap.peerScores in array order
	Counter uint64    // peerHeap.order
	Keys    []string  // keys of peersByHostPort (unsorted)
	// MapAgrees: every map value is the very object stored at heap[value.index] and carries
	// the key as its host:port.
	MapAgrees bool
}

// VerifPeerListSnapshot reads the heap array, the order counter and the membership map.
func VerifPeerListSnapshot(l *PeerList) VerifPeerListState {
	l.RLock()
	defer l.RUnlock()
	st := VerifPeerListState{Counter: l.peerHeap.order, MapAgrees: true}
	for _, ps := range l.peerHeap.peerScores {
		st.Heap = append(st.Heap, VerifPS{HostPort: ps.Peer.hostPort, Score: ps.score, Order: ps.order, Index: ps.index})
	}
	for k, ps := range l.peersByHostPort {
		st.Keys = append(st.Keys, k)
		if ps.index < 0 || ps.index >= len(l.peerHeap.peerScores) || l.peerHeap.peerScores[ps.index] != ps || ps.Peer.hostPort != k {
			st.MapAgrees = false
		}
	}
	return st
}

// VerifSetPeerListRng replaces peerHeap.rng by a generator over the given (logged) source.
func VerifSetPeerListRng(l *PeerList, src rand.Source) {
	l.Lock()
	l.peerHeap.rng = rand.New(src)
	l.Unlock()
}

// VerifConnLoad is one inert connection of a peer: the numbers of entries of its two exchange
// sets.  Out = calls WE make over the connection (what NumPendingOutbound must count, whoever
// dialled the connection), In = calls the peer makes to us over it (never counted).
type VerifConnLoad struct{ In, Out int }

func verifInertConn(l VerifConnLoad) *Connection {
	// every field a load accessor could plausibly read is a real object, so that a mixed-up
	// field yields a wrong number, not a nil dereference
	mk := func(n int, name string) *messageExchangeSet {
		s := &messageExchangeSet{name: name, exchanges: map[uint32]*messageExchange{}, expiredExchanges: map[uint32]struct{}{}}
		for i := 0; i < n; i++ {
			s.exchanges[uint32(i+1)] = &messageExchange{msgID: uint32(i + 1), msgType: messageTypeCallReq}
		}
		// ids of exchanges that timed out earlier (kept by the library to recognise late frames): not load
		for i := 0; i <= n%3; i++ {
			s.expiredExchanges[uint32(1000+i)] = struct{}{}
		}
		return s
	}
	return &Connection{inbound: mk(l.In, "inbound"), outbound: mk(l.Out, "outbound")}
}

// VerifSetPeerConns gives the peer exactly these inert inbound / outbound connections.
func VerifSetPeerConns(p *Peer, inbound, outbound []VerifConnLoad) {
	var in, out []*Connection
	for _, l := range inbound {
		in = append(in, verifInertConn(l))
	}
	for _, l := range outbound {
		out = append(out, verifInertConn(l))
	}
	p.Lock()
	p.inboundConnections = in
	p.outboundConnections = out
	p.Unlock()
}

// VerifPeerConnLoads reads, field by field, the sizes of the two exchange sets of every live
// connection of the peer (inbound list, outbound list): an accessor that shares no code with
// NumPendingOutbound.
func VerifPeerConnLoads(p *Peer) (inbound, outbound []VerifConnLoad) {
	rd := func(c *Connection) VerifConnLoad {
		c.inbound.RLock()
		i := len(c.inbound.exchanges)
		c.inbound.RUnlock()
		c.outbound.RLock()
		o := len(c.outbound.exchanges)
		c.outbound.RUnlock()
		return VerifConnLoad{In: i, Out: o}
	}
	p.RLock()
	defer p.RUnlock()
	for _, c := range p.inboundConnections {
		inbound = append(inbound, rd(c))
	}
	for _, c := range p.outboundConnections {
		outbound = append(outbound, rd(c))
	}
	return
}

// VerifSetPeerLoad gives the peer the stated numbers of inbound / outbound connections and
// pending outbound calls (spread round-robin over all connections, inbound ones first), as
// NumConnections and NumPendingOutbound report them.
func VerifSetPeerLoad(p *Peer, inbound, outbound, pending int) {
	in, out := make([]VerifConnLoad, inbound), make([]VerifConnLoad, outbound)
	for i := 0; i < pending && inbound+outbound > 0; i++ {
		if k := i % (inbound + outbound); k < inbound {
			in[k].Out++
		} else {
			out[k-inbound].Out++
		}
	}
	VerifSetPeerConns(p, in, out)
}

// VerifChannelUpdatePeer runs Channel.updatePeer(p): what connection and exchange changes call.
func VerifChannelUpdatePeer(ch *Channel, p *Peer) { ch.updatePeer(p) }

// VerifScoreCalculator returns the library's calculators: 0 preferIncoming, 1 leastPending, 2 zero.
func VerifScoreCalculator(kind int) ScoreCalculator {
	switch kind {
	case 0:
		return newPreferIncomingCalculator()
	case 1:
		return newLeastPendingCalculator()
	default:
		return newZeroCalculator()
	}
}

// VerifPeerChosenCount reads Peer.chosenCount.
func VerifPeerChosenCount(p *Peer) uint64 { return p.chosenCount.Load() }
