//go:build verif

// Added to package tchannel at build time through `go build -overlay` by /verif (property C15,
// engine c15score).  Only ADDS exported wrappers around unexported internals.
package tchannel

import "golang.org/x/net/context"

// VerifC15ScConn is one connection of a peer as the peer's lists hold it.
type VerifC15ScConn struct {
	Conn   *Connection
	ID     uint32
	In     int // entries of the inbound exchange set (calls the peer makes to us)
	Out    int // entries of the outbound exchange set (calls WE make over it)
	Active bool
}

// VerifC15ScPeerConns reads the peer's two connection lists field by field.
func VerifC15ScPeerConns(p *Peer) (inbound, outbound []VerifC15ScConn) {
	rd := func(c *Connection) VerifC15ScConn {
		c.inbound.RLock()
		i := len(c.inbound.exchanges)
		c.inbound.RUnlock()
		c.outbound.RLock()
		o := len(c.outbound.exchanges)
		c.outbound.RUnlock()
		return VerifC15ScConn{Conn: c, ID: c.connID, In: i, Out: o, Active: c.IsActive()}
	}
	p.RLock()
	defer p.RUnlock()
	for _, c := range p.inboundConnections {
		inbound = append(inbound, rd(c))
	}
	for _, c := range p.outboundConnections {
		outbound = append(outbound, rd(c))
	}
	return
}

// VerifC15ScConnID returns the connection's id.
func VerifC15ScConnID(c *Connection) uint32 { return c.connID }

// VerifC15ScBeginCall starts a call over exactly this connection (what Peer.BeginCall does once it
// has chosen the connection).
func VerifC15ScBeginCall(c *Connection, ctx context.Context, service, method string) (*OutboundCall, error) {
	return c.beginCall(ctx, service, method, defaultCallOptions)
}

// ---- engine c15scunit: the channel's connection callbacks, one at a time, on inert connections ----

// VerifC15ScInertConn makes a connection object that is never served: active, with the announced
// and the dialled host:port ("" for an inbound connection) and two empty exchange sets.
func VerifC15ScInertConn(id uint32, announced, dialled string) *Connection {
	mk := func(name string) *messageExchangeSet {
		return &messageExchangeSet{log: NullLogger, name: name, exchanges: map[uint32]*messageExchange{}, expiredExchanges: map[uint32]struct{}{}}
	}
	c := &Connection{connID: id, state: connectionActive, outboundHP: dialled, inbound: mk("inbound"), outbound: mk("outbound")}
	c.remotePeerInfo.HostPort = announced
	c.log = NullLogger
	c.connDirection = inbound
	if dialled != "" {
		c.connDirection = outbound
	}
	return c
}

// VerifC15ScAddToPeer runs Channel.addConnectionToPeer(hostPort, c, direction of c): what
// connectionActive does with the announced host:port and Channel.Connect with the dialled one.
func VerifC15ScAddToPeer(ch *Channel, hostPort string, c *Connection) {
	ch.addConnectionToPeer(hostPort, c, c.connDirection)
}

// VerifC15ScCloseStateChange marks the connection closed and runs the channel's
// OnCloseStateChange callback, Channel.connectionCloseStateChange(c).
func VerifC15ScCloseStateChange(ch *Channel, c *Connection) {
	c.stateMut.Lock()
	c.state = connectionClosed
	c.stateMut.Unlock()
	ch.connectionCloseStateChange(c)
}

// VerifC15ScExchange adds (delta > 0) or removes (delta < 0) one entry of the connection's outbound
// exchange set and runs the channel's OnExchangeUpdated callback, Channel.exchangeUpdated(c).
func VerifC15ScExchange(ch *Channel, c *Connection, delta int) {
	c.outbound.Lock()
	if delta > 0 {
		id := uint32(len(c.outbound.exchanges) + 1)
		for c.outbound.exchanges[id] != nil {
			id++
		}
		c.outbound.exchanges[id] = &messageExchange{msgID: id, msgType: messageTypeCallReq}
	} else {
		for id := range c.outbound.exchanges {
			delete(c.outbound.exchanges, id)
			break
		}
	}
	c.outbound.Unlock()
	ch.exchangeUpdated(c)
}
