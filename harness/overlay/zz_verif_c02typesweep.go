//go:build verif

// Added to package tchannel at build time through `go build -overlay` by /verif (property C02,
// engine c02typesweep): a real fragmentingReader over frames parsed by the real
// parseInboundFragment, reporting -- besides what VerifFragRead reports -- how many fragments
// the reader took from the receiver and how doneReading was called.
package tchannel

type verifC02TypeSweepReceiver struct {
	payloads  [][]byte // continuation-style payloads: flags ctype ck chunks
	pool      *verifCountPool
	got       int // fragments handed to the reader (parsed or not)
	doneCalls int
	doneNil   int // doneReading(nil): the message was reported complete
}

func (r *verifC02TypeSweepReceiver) recvNextFragment(initial bool) (*readableFragment, error) {
	if r.got >= len(r.payloads) {
		return nil, errVerifNoFragment
	}
	p := r.payloads[r.got]
	r.got++
	f := NewFrame(MaxFramePayloadSize)
	copy(f.Payload, p)
	f.Header.SetPayloadSize(uint16(len(p)))
	return parseInboundFragment(r.pool, f, &callReqContinue{})
}

func (r *verifC02TypeSweepReceiver) doneReading(err error) {
	r.doneCalls++
	if err == nil {
		r.doneNil++
	}
}

// VerifC02TypeSweepRead drives a real fragmentingReader over the given fragment payloads.
// obs: per op the code (verifRErr), and for reads the bytes (length-prefixed), as VerifFragRead.
func VerifC02TypeSweepRead(payloads [][]byte, ops []VerifROp) (panicked interface{}, obs []int64, state int, released int, finished bool, received int, doneNil int) {
	pool := &verifCountPool{}
	rc := &verifC02TypeSweepReceiver{payloads: payloads, pool: pool}
	defer func() {
		if r := recover(); r != nil {
			panicked = r
			received = rc.got
			doneNil = rc.doneNil
		}
	}()
	rd := newFragmentingReader(NullLogger, rc)
	for _, op := range ops {
		switch op.Kind {
		case 0:
			obs = append(obs, int64(verifRErr(rd.BeginArgument(op.Last))))
		case 1:
			buf := make([]byte, op.N)
			n, err := rd.Read(buf)
			obs = append(obs, int64(verifRErr(err)), int64(n))
			for _, b := range buf[:n] {
				obs = append(obs, int64(b))
			}
		case 2:
			obs = append(obs, int64(verifRErr(rd.Close())))
		default:
			var bs []byte
			err := NewArgReader(rd, nil).Read(&bs)
			obs = append(obs, int64(verifRErr(err)), int64(len(bs)))
			for _, b := range bs {
				obs = append(obs, int64(b))
			}
		}
	}
	return nil, obs, int(rd.state), pool.released, rc.doneCalls > 0, rc.got, rc.doneNil
}
