//go:build verif

package tchannel

// Wrappers for the C10 `respwire` correspondence engine: they only expose unexported state
// and methods of the real response writer / connection, they implement nothing.

// VerifRespArgWriter calls reqResWriter.arg1Writer / arg2Writer / arg3Writer (k = 1, 2, 3)
// of the response, one at a time (InboundCallResponse.Arg2Writer bundles the first two).
func VerifRespArgWriter(r *InboundCallResponse, k int) (ArgWriter, error) {
	switch k {
	case 1:
		return r.arg1Writer()
	case 2:
		return r.arg2Writer()
	default:
		return r.arg3Writer()
	}
}

// VerifFindConn returns the connection of ch whose remote socket address is remoteAddr.
func VerifFindConn(ch *Channel, remoteAddr string) *Connection {
	ch.mutable.RLock()
	defer ch.mutable.RUnlock()
	for _, c := range ch.mutable.conns {
		if c.conn.RemoteAddr().String() == remoteAddr {
			return c
		}
	}
	return nil
}

// VerifConnInfo reads the connection state (0 active, 1 startClose, 2 inboundClosed,
// 3 closed), the stoppedExchanges flag and inbound.count().
func VerifConnInfo(c *Connection) (state int, stopped bool, inbound int) {
	return int(c.readState()) - int(connectionActive), c.stoppedExchanges.Load(), c.inbound.count()
}

// VerifInboundHas reports whether the inbound exchange map still holds id.
func VerifInboundHas(c *Connection, id uint32) bool {
	c.inbound.RLock()
	defer c.inbound.RUnlock()
	_, ok := c.inbound.exchanges[id]
	return ok
}

// VerifC10LockRelayItems takes the write lock of one relayItems table of the connection's
// relayer (outbound table = items of calls that ORIGINATE on this connection) and returns the
// function that releases it.  Engine relaywire (C10, strengthening V10) uses it to hold the
// relay's timeout goroutine and a connection reader at the entrance of their critical sections
// (relayItems.Entomb / relayItems.Get), in a chosen order: it stands for the scheduler delaying
// both; nothing of the relay's state is read or written.
func VerifC10LockRelayItems(c *Connection, inboundTable bool) (unlock func()) {
	if c == nil || c.relay == nil {
		return func() {}
	}
	items := c.relay.outbound
	if inboundTable {
		items = c.relay.inbound
	}
	items.Lock()
	return items.Unlock
}
