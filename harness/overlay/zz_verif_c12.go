//go:build verif

// Added to package tchannel at build time through `go build -overlay` (property C12).
// Poisoning of released frames for the ownership-tracking pool of the harness: the
// unexported buffers of a Frame cannot be reached from outside the package.
package tchannel

const (
	verifPoisonByte = 0xDB
	verifPoisonID   = 0xDEADBEEF
	verifPoisonType = 0xEE
)

// VerifPoisonFrame overwrites every byte of a released frame (header fields, header
// buffer, payload buffer) with a recognisable pattern.  The slices are kept, so a late
// read sees the pattern and a late write damages it.
func VerifPoisonFrame(f *Frame) {
	for i := range f.buffer {
		f.buffer[i] = verifPoisonByte
	}
	f.Header = FrameHeader{size: FrameHeaderSize, messageType: messageType(verifPoisonType), reserved1: verifPoisonByte, ID: verifPoisonID}
	for i := range f.Header.reserved {
		f.Header.reserved[i] = verifPoisonByte
	}
}

// VerifFramePoisonIntact reports whether a poisoned frame still carries the pattern
// everywhere, i.e. nobody wrote to it after it was released.  The second result names
// the first damaged part.
func VerifFramePoisonIntact(f *Frame) (bool, string) {
	for i, b := range f.buffer {
		if b != verifPoisonByte {
			if i < FrameHeaderSize {
				return false, "header bytes"
			}
			return false, "payload"
		}
	}
	if f.Header.size != FrameHeaderSize || f.Header.messageType != messageType(verifPoisonType) ||
		f.Header.reserved1 != verifPoisonByte || f.Header.ID != verifPoisonID {
		return false, "Header fields"
	}
	for _, b := range f.Header.reserved {
		if b != verifPoisonByte {
			return false, "Header fields"
		}
	}
	if len(f.Payload) != MaxFramePayloadSize || len(f.buffer) != MaxFramePayloadSize+FrameHeaderSize {
		return false, "slices"
	}
	return true, ""
}

// VerifFrameMsgType returns the message type byte of a frame's header (unexported field).
func VerifFrameMsgType(f *Frame) byte { return byte(f.Header.messageType) }
