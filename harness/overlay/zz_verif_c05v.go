//go:build verif

// Added to package tchannel at build time through `go build -overlay` by /verif (C05, families
// "cancel on a stalled connection" and "connection dies while it is being registered").
// One read-only view: the connection object a channel tracks under a connection id -- the
// schedule controller of engine cutbegin needs it to tell WHOSE registration has arrived at
// peer.addConnection.afterCheck (client and server live in one process) and to close exactly
// that connection locally (the public Connection.Close) while the registration is parked.
package tchannel

// VerifC05VConn returns the connection the channel tracks under connID, or nil.
func VerifC05VConn(ch *Channel, connID uint32) *Connection {
	ch.mutable.RLock()
	c := ch.mutable.conns[connID]
	ch.mutable.RUnlock()
	return c
}
