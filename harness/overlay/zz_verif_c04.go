//go:build verif

// Added to package tchannel at build time through `go build -overlay` by /verif (property C04).
// Exported wrappers around the unexported messageExchangeSet / messageExchange so that the
// correspondence harness can drive the real exchange set with operation scripts (no sockets),
// and around Connection.NextMessageID.  It replaces no source file.
package tchannel

import (
	"encoding/binary"
	"fmt"
	"sort"
	"sync"
	"sync/atomic"

	"golang.org/x/net/context"
)

// VerifStopErr is the error a script hands to stopExchanges; Code >= 10.
type VerifStopErr struct{ Code int }

func (e VerifStopErr) Error() string { return fmt.Sprintf("verif connection error %d", e.Code) }

// VerifMexErrCode maps the errors the exchange set can return to the model's enum.
func VerifMexErrCode(err error) int {
	switch err {
	case nil:
		return 0
	case ErrTimeout:
		return 1
	case ErrRequestCancelled:
		return 2
	case errMexShutdown:
		return 3
	case errUnexpectedFrameType:
		return 4
	case errDuplicateMex:
		return 5
	case errMexSetShutdown:
		return 6
	}
	if se, ok := err.(VerifStopErr); ok {
		return se.Code
	}
	return 99
}

type VerifMexSet struct {
	ms      *messageExchangeSet
	added   int64
	removed int64
}

type VerifMex struct{ m *messageExchange }

func VerifNewMexSet(name string) *VerifMexSet {
	s := &VerifMexSet{ms: newMessageExchangeSet(NullLogger, name)}
	s.ms.onAdded = func() { atomic.AddInt64(&s.added, 1) }
	s.ms.onRemoved = func() { atomic.AddInt64(&s.removed, 1) }
	return s
}

// NewExchange calls the real newExchange.
func (s *VerifMexSet) NewExchange(ctx context.Context, cancel context.CancelFunc, id uint32, bufSize int) (*VerifMex, int) {
	m, err := s.ms.newExchange(ctx, cancel, DefaultFramePool, messageTypeCallReq, id, bufSize)
	if err != nil {
		return nil, VerifMexErrCode(err)
	}
	return &VerifMex{m}, 0
}

// Forward builds a frame with the given id (tag in the first payload bytes) and calls the
// real messageExchangeSet.forwardPeerFrame (which contains the mex.forward.afterLookup point).
func (s *VerifMexSet) Forward(id uint32, tag uint32) int {
	f := NewFrame(16)
	f.Header.ID = id
	f.Header.messageType = messageTypeCallReqContinue
	f.Header.SetPayloadSize(8)
	binary.BigEndian.PutUint32(f.Payload[0:], tag)
	return VerifMexErrCode(s.ms.forwardPeerFrame(f))
}

func (s *VerifMexSet) Remove(id uint32) { s.ms.removeExchange(id) }

// Stop calls stopExchanges; the result tells whether the set had been shut down before.
func (s *VerifMexSet) Stop(err error) int {
	s.ms.RLock()
	was := s.ms.shutdown
	s.ms.RUnlock()
	s.ms.stopExchanges(err)
	if was {
		return 1
	}
	return 0
}

func (s *VerifMexSet) Count() int { return s.ms.count() }

// Snapshot returns the keys of both maps (sorted), the shutdown flag and the callback counts.
func (s *VerifMexSet) Snapshot() (exch, expired []uint32, shutdown bool, added, removed int64) {
	s.ms.RLock()
	for k := range s.ms.exchanges {
		exch = append(exch, k)
	}
	for k := range s.ms.expiredExchanges {
		expired = append(expired, k)
	}
	shutdown = s.ms.shutdown
	s.ms.RUnlock()
	sort.Slice(exch, func(i, j int) bool { return exch[i] < exch[j] })
	sort.Slice(expired, func(i, j int) bool { return expired[i] < expired[j] })
	return exch, expired, shutdown, atomic.LoadInt64(&s.added), atomic.LoadInt64(&s.removed)
}

// Recv calls the real recvPeerFrame: (0, tag) or (error code, 0).
func (m *VerifMex) Recv() (int, uint32) {
	f, err := m.m.recvPeerFrame()
	if err != nil {
		return VerifMexErrCode(err), 0
	}
	return 0, binary.BigEndian.Uint32(f.Payload[0:])
}

// RecvID also reports the id of the frame (for the no-mixing oracle).
func (m *VerifMex) RecvID() (code int, tag uint32, id uint32) {
	f, err := m.m.recvPeerFrame()
	if err != nil {
		return VerifMexErrCode(err), 0, 0
	}
	return 0, binary.BigEndian.Uint32(f.Payload[0:]), f.Header.ID
}

// Shutdown calls mex.shutdown(); the result tells whether this call won the CAS.
func (m *VerifMex) Shutdown() int {
	was := m.m.shutdownAtomic.Load()
	m.m.shutdown()
	if was {
		return 0
	}
	return 1
}

func (m *VerifMex) Expire() { m.m.inboundExpired() }

func (m *VerifMex) ErrCode() int  { return VerifMexErrCode(m.m.errCh.checkErr()) }
func (m *VerifMex) IsShut() bool  { return m.m.shutdownAtomic.Load() }
func (m *VerifMex) QueueLen() int { return len(m.m.recvCh) }

// Drain empties recvCh without blocking and returns the tags in order.
func (m *VerifMex) Drain() []uint32 {
	var tags []uint32
	for {
		select {
		case f := <-m.m.recvCh:
			tags = append(tags, binary.BigEndian.Uint32(f.Payload[0:]))
		default:
			return tags
		}
	}
}

// VerifNextMessageIDs calls the real Connection.NextMessageID n times from g goroutines on a
// connection whose counter starts at start; result per goroutine, in call order.
func VerifNextMessageIDs(start uint32, n, g int) [][]uint32 {
	c := &Connection{}
	c.nextMessageID.Store(start)
	out := make([][]uint32, g)
	var wg sync.WaitGroup
	for i := 0; i < g; i++ {
		cnt := n / g
		if i < n%g {
			cnt++
		}
		wg.Add(1)
		go func(i, cnt int) {
			defer wg.Done()
			for k := 0; k < cnt; k++ {
				out[i] = append(out[i], c.NextMessageID())
			}
		}(i, cnt)
	}
	wg.Wait()
	return out
}

// HandleCancel builds a cancel frame for id and calls the real messageExchangeSet.handleCancel
// (what the connection reader does for every cancel frame when PropagateCancel is set).
func (s *VerifMexSet) HandleCancel(id uint32) {
	f := NewFrame(16)
	f.Header.ID = id
	f.Header.messageType = messageTypeCancel
	f.Header.SetPayloadSize(0)
	s.ms.handleCancel(f)
}

// CountCalls calls the real countCalls (used by the idle sweep and Close).
func (s *VerifMexSet) CountCalls() int { return s.ms.countCalls() }
