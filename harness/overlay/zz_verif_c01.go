//go:build verif

package tchannel

// Fragment writer/reader seam for the C01/C02/C03 correspondence engines.

import (
	"bytes"
	"errors"
	"io"

	"github.com/uber/tchannel-go/typed"
)

type verifSender struct {
	capI, capC int
	frags      [][]byte
	done       bool
}

func (s *verifSender) newFragment(initial bool, checksum Checksum) (*writableFragment, error) {
	c := s.capC
	if initial {
		c = s.capI
	}
	wbuf := typed.NewWriteBuffer(make([]byte, 1+1+checksum.Size()+c))
	f := new(writableFragment)
	f.flagsRef = wbuf.DeferByte()
	wbuf.WriteSingleByte(byte(checksum.TypeCode()))
	f.checksumRef = wbuf.DeferBytes(checksum.Size())
	f.checksum = checksum
	f.contents = wbuf
	return f, wbuf.Err()
}

func (s *verifSender) flushFragment(f *writableFragment) error {
	var b bytes.Buffer
	f.contents.FlushTo(&b)
	s.frags = append(s.frags, append([]byte(nil), b.Bytes()...))
	return nil
}

func (s *verifSender) doneSending() { s.done = true }

// VerifWOp: Kind 0 Begin(Last) 1 Write(Data) 2 Flush 3 Close
type VerifWOp struct {
	Kind int
	Last bool
	Data []byte
}

func verifWErr(err error) int {
	switch err {
	case nil:
		return 0
	case errAlreadyWritingArgument:
		return 1
	case errNotWritingArgument:
		return 2
	case errComplete:
		return 3
	}
	return 99
}

// VerifFragWrite drives a real fragmentingWriter over a capturing sender.
func VerifFragWrite(capI, capC int, ctype byte, ops []VerifWOp) (panicked interface{}, codes []int, state int, done bool, frags [][]byte) {
	s := &verifSender{capI: capI, capC: capC}
	defer func() {
		if r := recover(); r != nil {
			panicked = r
		}
	}()
	// The checksum is wrapped so that Release() immediately does what the pool's next owner
	// would do (Reset + unrelated data): any use of the checksum after its release shows up
	// as a wrong checksum on the wire.
	w := newFragmentingWriter(NullLogger, s, &verifPoisonChecksum{Checksum: ChecksumType(ctype).New()})
	for _, op := range ops {
		var err error
		switch op.Kind {
		case 0:
			err = w.BeginArgument(op.Last)
		case 1:
			_, err = w.Write(op.Data)
		case 2:
			err = w.Flush()
		default:
			err = w.Close()
		}
		codes = append(codes, verifWErr(err))
	}
	return nil, codes, int(w.state), s.done, s.frags
}

type verifCountPool struct{ released int }

func (p *verifCountPool) Get() *Frame      { return NewFrame(MaxFramePayloadSize) }
func (p *verifCountPool) Release(f *Frame) { p.released++ }

type verifReceiver struct {
	payloads [][]byte // continuation-style payloads: flags ctype ck chunks
	pool     *verifCountPool
	finished bool
	got      int
}

var errVerifNoFragment = errors.New("verif: no fragment arrives")

func (r *verifReceiver) recvNextFragment(initial bool) (*readableFragment, error) {
	if r.got >= len(r.payloads) {
		return nil, errVerifNoFragment
	}
	p := r.payloads[r.got]
	r.got++
	f := NewFrame(MaxFramePayloadSize)
	copy(f.Payload, p)
	f.Header.SetPayloadSize(uint16(len(p)))
	return parseInboundFragment(r.pool, f, &callReqContinue{})
}

func (r *verifReceiver) doneReading(err error) { r.finished = true }

func verifRErr(err error) int {
	switch err {
	case nil:
		return 0
	case errAlreadyReadingArgument:
		return 1
	case errNotReadingArgument:
		return 2
	case errComplete:
		return 3
	case errMoreDataInArgument:
		return 4
	case errExpectedMoreArguments:
		return 5
	case errNoMoreFragments:
		return 6
	case errMismatchedChecksumTypes:
		return 7
	case errMismatchedChecksums:
		return 8
	case errVerifNoFragment:
		return 9
	case errChunkExceedsFragmentSize:
		return 10
	case typed.ErrEOF:
		return 11
	case io.EOF:
		return 12
	}
	switch err.Error() {
	case "fragment has no chunks":
		return 13
	case "unknown checksum type":
		return 14
	}
	if len(err.Error()) > 23 && err.Error()[:23] == "found unexpected bytes " {
		return 20
	}
	return 99
}

// VerifROp: Kind 0 Begin(Last) 1 Read(N) 2 Close 3 ArgReadHelper.Read
type VerifROp struct {
	Kind int
	Last bool
	N    int
}

// VerifFragRead drives a real fragmentingReader over the given fragment payloads.
// obs: per op the code, and for reads the bytes (length-prefixed).
func VerifFragRead(payloads [][]byte, ops []VerifROp) (panicked interface{}, obs []int64, state int, released int, finished bool) {
	pool := &verifCountPool{}
	rc := &verifReceiver{payloads: payloads, pool: pool}
	defer func() {
		if r := recover(); r != nil {
			panicked = r
		}
	}()
	rd := newFragmentingReader(NullLogger, rc)
	for _, op := range ops {
		switch op.Kind {
		case 0:
			obs = append(obs, int64(verifRErr(rd.BeginArgument(op.Last))))
		case 1:
			buf := make([]byte, op.N)
			n, err := rd.Read(buf)
			obs = append(obs, int64(verifRErr(err)), int64(n))
			for _, b := range buf[:n] {
				obs = append(obs, int64(b))
			}
		case 2:
			obs = append(obs, int64(verifRErr(rd.Close())))
		default:
			var bs []byte
			err := NewArgReader(rd, nil).Read(&bs)
			obs = append(obs, int64(verifRErr(err)), int64(len(bs)))
			for _, b := range bs {
				obs = append(obs, int64(b))
			}
		}
	}
	return nil, obs, int(rd.state), pool.released, rc.finished
}

// VerifFragParse runs parseInboundFragment for the given message type and then the
// reader's recvAndParseNextFragment on it.  code as verifRErr; on success the chunks.
func VerifFragParse(mt byte, payload []byte) (panicked interface{}, code int, more bool, chunks [][]byte) {
	defer func() {
		if r := recover(); r != nil {
			panicked = r
		}
	}()
	f := NewFrame(MaxFramePayloadSize)
	copy(f.Payload, payload)
	f.Header.SetPayloadSize(uint16(len(payload)))
	var msg message
	switch messageType(mt) {
	case messageTypeCallReq:
		msg = &callReq{}
	case messageTypeCallRes:
		msg = &callRes{}
	default:
		msg = &callReqContinue{}
	}
	pool := &verifCountPool{}
	frag, err := parseInboundFragment(pool, f, msg)
	if err != nil {
		return nil, verifRErr(err), false, nil
	}
	rc := &verifOneReceiver{frag: frag}
	rd := newFragmentingReader(NullLogger, rc)
	if err := rd.recvAndParseNextFragment(true); err != nil {
		return nil, verifRErr(err), false, nil
	}
	chunks = append([][]byte{rd.curChunk}, rd.remainingChunks...)
	return nil, 0, rd.hasMoreFragments, chunks
}

type verifOneReceiver struct{ frag *readableFragment }

func (r *verifOneReceiver) recvNextFragment(initial bool) (*readableFragment, error) {
	return r.frag, nil
}
func (r *verifOneReceiver) doneReading(err error) {}

type verifPoisonChecksum struct{ Checksum }

func (c *verifPoisonChecksum) Release() {
	c.Checksum.Reset()
	c.Checksum.Add([]byte("released: owned by somebody else now"))
}
