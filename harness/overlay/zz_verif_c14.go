//go:build verif

// Added to package tchannel at build time through `go build -overlay` by /verif (property C14).
// Only ADDS exported wrappers around unexported declarations.
package tchannel

import (
	"time"

	"golang.org/x/net/context"
)

// VerifNewIncomingContext runs newIncomingContext, the function handleCallReq uses to build
// the handler's context from the connection's base context and the received time-to-live.
func VerifNewIncomingContext(base context.Context, ttl time.Duration) (context.Context, context.CancelFunc) {
	return newIncomingContext(base, nil, ttl)
}

// VerifRelayMaxTimeout returns the relay maximum in force on the channel
// (validateRelayMaxTimeout applied to ChannelOptions.RelayMaxTimeout by NewChannel).
func VerifRelayMaxTimeout(ch *Channel) time.Duration { return ch.relayMaxTimeout }
