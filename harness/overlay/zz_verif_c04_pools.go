//go:build verif

// Added to package tchannel at build time through `go build -overlay` by /verif (property C04,
// pool discipline).  It only EXPORTS the package-level sync.Pools that calls draw objects from,
// so that the harness can take a census of a pool's content (harness/engine_c04pool.go) and
// count the objects the pool creates.  Nothing of the library is replaced; the frame pool is a
// FramePool implementation chosen by the application (property C12 checks it with its own
// recording pool) and the relay's timer pool is a field of a per-connection object that checks
// its own released flag, so neither is listed here.  The static side (every Put site of every
// sync.Pool, Gen/GenSyncPools.v) covers them as well.
package tchannel

import "sync"

// VerifSyncPools returns the package-level pools by name.
func VerifSyncPools() map[string]*sync.Pool {
	return map[string]*sync.Pool{
		"tchannel.checksumPools[0]": &checksumPools[ChecksumTypeNone],
		"tchannel.checksumPools[1]": &checksumPools[ChecksumTypeCrc32],
		"tchannel.checksumPools[2]": &checksumPools[ChecksumTypeFarmhash],
		"tchannel.checksumPools[3]": &checksumPools[ChecksumTypeCrc32C],
		"tchannel.requestStatePool": &requestStatePool,
	}
}

// VerifCkObjID returns the tracker's identity of a pooled checksum object drawn from a pool
// while VerifCkTrack is on (0 for an untracked object).
func VerifCkObjID(x interface{}) int64 {
	if c, ok := x.(*verifCkObj); ok {
		return c.id
	}
	return 0
}
