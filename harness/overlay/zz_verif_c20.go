//go:build verif

// Added to package tchannel at build time (go build -overlay) by the C20 check.  It only
// ADDS exported wrappers around unexported declarations of the error path; it replaces no
// source file.
package tchannel

import (
	"bytes"
	"time"

	"github.com/uber/tchannel-go/typed"
	"golang.org/x/net/context"
)

// VerifC20PkgErrors returns the package-level error values the error path uses, in the
// order of the model's table (Model/ErrorPath.v run_c20_errfn, fn 6).
func VerifC20PkgErrors() []error {
	return []error{
		ErrServerBusy, ErrRequestCancelled, ErrTimeout, ErrTimeoutRequired, ErrChannelClosed,
		ErrMethodTooLarge, ErrConnectionClosed, errUnexpectedFrameType, errMexShutdown, typed.ErrEOF,
		errRelayMethodFragmented, errFrameNotSent, errBadRelayHost, errInboundRequestAlreadyActive,
	}
}

// VerifC20StateString is connectionState(s).String().
func VerifC20StateString(s int) string { return connectionState(s).String() }

// VerifC20ConnNotActive is errConnNotActive{info, state}.
func VerifC20ConnNotActive(info string, state int) error {
	return errConnNotActive{info: info, state: connectionState(state)}
}

// verifC20Conn builds a Connection value with exactly the fields the error-sending code
// reads: frame pool, logger, close state, send queue with the given number of free slots.
func verifC20Conn(state int, room int) *Connection {
	c := &Connection{
		channelConnectionCommon: channelConnectionCommon{log: NullLogger, timeNow: time.Now},
		state:                   connectionState(state),
		sendCh:                  make(chan *Frame, 1),
	}
	c.opts.FramePool = DefaultFramePool
	if room <= 0 {
		c.sendCh <- NewFrame(0) // occupy the only slot
	}
	return c
}

func verifC20Span(s [4]uint64) Span {
	return Span{spanID: s[0], parentID: s[1], traceID: s[2], flags: byte(s[3])}
}

// drain returns the wire bytes of the frame queued by the call under test (nil when none).
func verifC20Drain(c *Connection, room int) []byte {
	if room <= 0 {
		return nil
	}
	select {
	case f := <-c.sendCh:
		var buf bytes.Buffer
		f.WriteOut(&buf)
		return buf.Bytes()
	default:
		return nil
	}
}

// VerifC20SendSystemError runs the real Connection.SendSystemError on a connection in the
// given close state whose send queue has `room` free slots.  Returns the wire bytes of the
// queued frame (nil when nothing was queued), the returned error, and whether it panicked.
func VerifC20SendSystemError(state, room int, id uint32, span [4]uint64, err error) (wire []byte, sendErr error, panicked bool) {
	c := verifC20Conn(state, room)
	func() {
		defer func() {
			if r := recover(); r != nil {
				panicked = true
			}
		}()
		sendErr = c.SendSystemError(id, verifC20Span(span), err)
	}()
	return verifC20Drain(c, room), sendErr, panicked
}

// VerifC20CallReqOnState runs the real Connection.handleCallReq on a connection in the given
// (non-active) close state with a call req frame read from `wire`.  Returns whether the frame
// was handled by the state check (release = true) and the error frame queued, if any.
func VerifC20CallReqOnState(state, room int, wire []byte) (handled bool, out []byte, panicked bool) {
	c := verifC20Conn(state, room)
	f := NewFrame(MaxFramePayloadSize)
	if err := f.ReadIn(bytes.NewReader(wire)); err != nil {
		return false, nil, true
	}
	func() {
		defer func() {
			if r := recover(); r != nil {
				panicked = true
			}
		}()
		handled = c.handleCallReq(f)
	}()
	return handled, verifC20Drain(c, room), panicked
}

// VerifC20LogConnectionError runs the real Connection.logConnectionError.
func VerifC20LogConnectionError(err error) error {
	c := verifC20Conn(int(connectionActive), 1)
	return c.logConnectionError("verif", err)
}

// VerifC20QFrame is a frame waiting in an exchange's receive channel.
type VerifC20QFrame struct {
	Type    byte
	ID      uint32
	Payload []byte
}

// VerifC20MexRecv builds a message exchange in the given situation -- ctxKind 0 live,
// 2 deadline exceeded, 3 cancelled; `notified` the error a failed connection handed to it
// (nil = none); `frames` waiting in recvCh -- and runs the real
// messageExchange.recvPeerFrameOfType(callRes).
// kind: 0 frame (typ, payload) | 1 errorMessage (code, msg) | 2 other error (err) | 3 blocked.
func VerifC20MexRecv(id uint32, ctxKind int, notified error, frames []VerifC20QFrame) (kind int, typ byte, payload []byte, code byte, msg string, err error) {
	ctx := context.Background()
	var cancel context.CancelFunc = func() {}
	switch ctxKind {
	case 2:
		ctx, cancel = context.WithDeadline(ctx, time.Now().Add(-time.Second))
	case 3:
		ctx, cancel = context.WithCancel(ctx)
		cancel()
	}
	defer cancel()
	mexset := newMessageExchangeSet(NullLogger, messageExchangeSetOutbound)
	mexset.onAdded = func() {}
	mexset.onRemoved = func() {}
	mex, nerr := mexset.newExchange(ctx, nil, DefaultFramePool, messageTypeCallReq, id, len(frames)+1)
	if nerr != nil {
		return 2, 0, nil, 0, "", nerr
	}
	for _, qf := range frames {
		f := NewFrame(MaxFramePayloadSize)
		f.Header.messageType = messageType(qf.Type)
		f.Header.ID = qf.ID
		copy(f.Payload, qf.Payload)
		f.Header.SetPayloadSize(uint16(len(qf.Payload)))
		mex.recvCh <- f
	}
	if notified != nil {
		mex.errChNotified.Store(true)
		mex.errCh.Notify(notified)
	}
	type res struct {
		f   *Frame
		err error
	}
	done := make(chan res, 1)
	go func() {
		f, e := mex.recvPeerFrameOfType(messageTypeCallRes)
		done <- res{f, e}
	}()
	select {
	case r := <-done:
		if r.err != nil {
			if em, ok := r.err.(errorMessage); ok {
				return 1, 0, nil, byte(em.errCode), em.message, nil
			}
			return 2, 0, nil, 0, "", r.err
		}
		return 0, byte(r.f.Header.messageType), append([]byte(nil), r.f.SizedPayload()...), 0, "", nil
	case <-time.After(150 * time.Millisecond):
		// nothing was ready: unblock the goroutine and report "blocked"
		mex.shutdown()
		<-done
		return 3, 0, nil, 0, "", nil
	}
}

// VerifC20ErrorMessageAsSystemError is errorMessage{code, message}.AsSystemError(): what a
// reader turns a received error frame into.
func VerifC20ErrorMessageAsSystemError(code byte, msg string) error {
	return errorMessage{errCode: SystemErrCode(code), message: msg}.AsSystemError()
}

// VerifC20ConnState is the connection's close state (1 active .. 4 closed).
func VerifC20ConnState(c *Connection) int { return int(c.readState()) }

// VerifC20BeginCall runs the real Connection.beginCall on a live connection (optionally after
// forcing its close state) and returns its error; a call that was begun is abandoned.
func VerifC20BeginCall(c *Connection, ctx context.Context, forceState int) error {
	if forceState != 0 {
		c.withStateLock(func() error { c.state = connectionState(forceState); return nil })
		defer c.withStateLock(func() error { c.state = connectionActive; return nil })
	}
	call, err := c.beginCall(ctx, "svc", "m", &CallOptions{})
	if err == nil {
		call.mex.shutdown()
	}
	return err
}

// VerifC20ProtocolError runs the real Connection.protocolError on a connection in the given
// state; returns the error it hands to the exchanges and the error frame it queued.
func VerifC20ProtocolError(state, room int, id uint32, err error) (sysErr error, wire []byte) {
	c := verifC20Conn(state, room)
	c.inbound = newMessageExchangeSet(NullLogger, messageExchangeSetInbound)
	c.outbound = newMessageExchangeSet(NullLogger, messageExchangeSetOutbound)
	c.stopCh = make(chan struct{})
	sysErr = c.protocolError(id, err)
	return sysErr, verifC20Drain(c, room)
}
