//go:build verif

// Added to package tchannel at build time through `go build -overlay` by /verif (property C19,
// relay strengthening).  Read-only accessor: the number of LIVE (non-tombstone) relay items of a
// connection's relayer, i.e. the relayed calls the connection still carries -- independent of
// the counter Relayer.pending that the idle sweep consults.
package tchannel

// VerifC19xRelayLive returns relayItems.Count() of the relayer's two tables (requests read on
// this connection, requests sent on it); ok is false when the connection has no relayer.
func VerifC19xRelayLive(c *Connection) (outbound int, inbound int, ok bool) {
	if c.relay == nil {
		return 0, 0, false
	}
	return c.relay.outbound.Count(), c.relay.inbound.Count(), true
}
