package main

// Engine "ttlappend" (property C14, clause c on the arg2-append path): the time-to-live a relay
// forwards when its RelayHost appends key/value pairs to arg2 (CallFrame.Arg2Append in Start).
// The call req is then not forwarded as it is but re-encoded (Relayer.fragmentingSend /
// relayFragmentSender.newFragment) from the bytes of the received frame.
//   ttl_relay_app  one real relay (chosen RelayMaxTimeout, host appending 0..3 pairs) between a raw
//                  client and a raw server; thrift-format call reqs in one or several frames with
//                  ttl fields below, at and above the maximum; also requests the append path
//                  refuses (fragmented arg2, other arg scheme)
//   ttl_hops_app   chains of 2-3 such relays, every hop with its own appends
//   ttl_e2e_app    oracle only: real client -> appending relays -> real server, handler deadline
// Oracle (from the statement): ttl seen by the destination <= received and <= every maximum.
// Observables are compared with Model/TTLAppend.v.

import (
	"bytes"
	"fmt"
	"math/rand"
	"net"
	"sync"
	"time"

	tchannel "github.com/uber/tchannel-go"
	"github.com/uber/tchannel-go/relay"
)

func init() { engines["ttlappend"] = engineTTLAppend }

// ---- relay host: one destination, appends the pairs set for the current case ----
type c14aRelayHost struct {
	ch   *tchannel.Channel
	dest string
	mu   sync.Mutex
	app  [][2]string
}

func (h *c14aRelayHost) SetChannel(ch *tchannel.Channel) { h.ch = ch }
func (h *c14aRelayHost) setAppends(app [][2]string) {
	h.mu.Lock()
	h.app = app
	h.mu.Unlock()
}
func (h *c14aRelayHost) Start(f relay.CallFrame, c *relay.Conn) (tchannel.RelayCall, error) {
	h.mu.Lock()
	for _, kv := range h.app {
		f.Arg2Append([]byte(kv[0]), []byte(kv[1]))
	}
	h.mu.Unlock()
	return &cpRelayCall{peer: h.ch.RootPeers().GetOrAdd(h.dest)}, nil
}

// ---- raw destination: collects whole calls (all fragments), answers with an error frame ----
type c14aSeen struct {
	service string
	ttl     uint32
	frames  int
	args    [][]byte
}

type c14aCollector struct {
	ln    net.Listener
	seen  chan c14aSeen
	mu    sync.Mutex
	conns []net.Conn
}

func c14aNewCollector() (*c14aCollector, error) {
	ln, err := net.Listen("tcp", "127.0.0.1:0")
	if err != nil {
		return nil, err
	}
	col := &c14aCollector{ln: ln, seen: make(chan c14aSeen, 1024)}
	go func() {
		for {
			conn, err := ln.Accept()
			if err != nil {
				return
			}
			col.mu.Lock()
			col.conns = append(col.conns, conn)
			col.mu.Unlock()
			go col.serve(conn)
		}
	}()
	return col, nil
}

func (col *c14aCollector) serve(conn net.Conn) {
	if _, _, err := rawServerHandshake(conn); err != nil {
		return
	}
	type open struct {
		first *rawCall
		frags []*rawCall
	}
	calls := map[uint32]*open{}
	for {
		f, err := readRawFrame(conn, 120*time.Second)
		if err != nil {
			return
		}
		if f.Type != 0x03 && f.Type != 0x13 {
			continue
		}
		pc, err := parseRawCall(f.Type, f.Payload)
		if err != nil {
			continue
		}
		if f.Type == 0x03 {
			calls[f.ID] = &open{first: pc}
		}
		oc := calls[f.ID]
		if oc == nil {
			continue
		}
		oc.frags = append(oc.frags, pc)
		if pc.Flags&1 != 0 {
			continue
		}
		delete(calls, f.ID)
		col.seen <- c14aSeen{service: oc.first.Service, ttl: oc.first.TTL, frames: len(oc.frags), args: collectArgs(oc.frags)}
		writeRawFrame(conn, 0xff, f.ID, rawErrorPayload(3, oc.first.Tracing, "busy"))
	}
}

func (col *c14aCollector) close() {
	col.ln.Close()
	col.mu.Lock()
	for _, c := range col.conns {
		c.Close()
	}
	col.mu.Unlock()
}

func (col *c14aCollector) wait(service string, d time.Duration) (c14aSeen, bool) {
	deadline := time.After(d)
	for {
		select {
		case s := <-col.seen:
			if s.service == service {
				return s, true
			}
		case <-deadline:
			return c14aSeen{}, false
		}
	}
}

// ---- chain of appending relays between a raw client and the collector ----
type c14aChain struct {
	maxes  []time.Duration
	chans  []*tchannel.Channel
	hosts  []*c14aRelayHost
	conn   net.Conn
	errs   chan *rawFrame
	nextID uint32
}

func c14aNewChain(maxes []time.Duration, dest string) (*c14aChain, error) {
	rc := &c14aChain{maxes: maxes, errs: make(chan *rawFrame, 64), nextID: 10}
	next := dest
	setupCtx, cancel := tchannel.NewContext(5 * time.Second)
	defer cancel()
	for i := len(maxes) - 1; i >= 0; i-- {
		host := &c14aRelayHost{dest: next}
		ch, err := tchannel.NewChannel(fmt.Sprintf("arelay%d", i), &tchannel.ChannelOptions{RelayHost: host, RelayMaxTimeout: maxes[i]})
		if err != nil {
			return nil, err
		}
		rc.chans = append([]*tchannel.Channel{ch}, rc.chans...)
		rc.hosts = append([]*c14aRelayHost{host}, rc.hosts...)
		if err := ch.ListenAndServe("127.0.0.1:0"); err != nil {
			return nil, err
		}
		if _, err := ch.RootPeers().GetOrAdd(next).GetConnection(setupCtx); err != nil {
			return nil, err
		}
		next = ch.PeerInfo().HostPort
	}
	conn, err := net.Dial("tcp", next)
	if err != nil {
		return nil, err
	}
	if _, err := rawClientHandshake(conn); err != nil {
		return nil, err
	}
	rc.conn = conn
	go func() {
		for {
			f, err := readRawFrame(conn, 300*time.Second)
			if err != nil {
				close(rc.errs)
				return
			}
			if f.Type == 0xff {
				rc.errs <- f
			}
		}
	}()
	return rc, nil
}

func (rc *c14aChain) close() {
	if rc.conn != nil {
		rc.conn.Close()
	}
	for _, ch := range rc.chans {
		ch.Close()
	}
}

// one generated request
type c14aReq struct {
	field    uint32
	scheme   string // "as" transport header
	orig     [][2]string
	arg3     []byte
	csum     byte
	split    int // 0 one frame; 1 arg3 continues in further frames; 2 the first frame ends right after arg2
	contSize int // payload bytes of arg3 per continuation frame
}

// frames of the request for the given id and service; the first frame's payload is what the
// first relay parses
func (r *c14aReq) build(id uint32, service string) (frames [][]byte, firstPayload []byte) {
	hdr := rawCallReqHeader(r.field, make([]byte, 25), service, [][2]string{{"as", r.scheme}, {"cn", "verif"}})
	arg2 := kvBuffer(r.orig)
	csz := 0
	if r.csum != 0 {
		csz = 4
	}
	upToArg2 := 1 + len(hdr) + 1 + csz + 2 + 1 + 2 + len(arg2) // flags, header, csumtype, csum, arg1 "m", arg2
	maxPayload := 65519
	switch r.split {
	case 1:
		k := len(r.arg3) / 3
		if k < 1 {
			k = 1
		}
		maxPayload = upToArg2 + 2 + k // arg1, arg2 and the first k bytes of arg3
		if min := 2 + csz + 2 + r.contSize; maxPayload < min {
			maxPayload = min
		}
	case 2:
		maxPayload = upToArg2
	}
	if maxPayload > 65519 {
		maxPayload = 65519
	}
	frames = buildRawCallFrames(true, id, hdr, r.csum, [3][]byte{[]byte("m"), arg2, r.arg3}, maxPayload)
	return frames, frames[0][16:]
}

func c14aPairs(rng *rand.Rand, prefix string, n int, big bool) [][2]string {
	var out [][2]string
	for i := 0; i < n; i++ {
		k := fmt.Sprintf("%s%d", prefix, i) + randBytes(rng, pick(rng, 0, 0, 1, 10))
		v := randBytes(rng, pick(rng, 0, 1, 3, 10, 200))
		if big && i == 0 {
			v = randBytes(rng, pick(rng, 2000, 16000, 40000))
		}
		out = append(out, [2]string{k, v})
	}
	return out
}

func c14aPutPairs(dst []int64, kvs [][2]string) []int64 {
	dst = append(dst, int64(len(kvs)))
	for _, kv := range kvs {
		dst = putBytes(dst, []byte(kv[0]))
		dst = putBytes(dst, []byte(kv[1]))
	}
	return dst
}

func engineTTLAppend(rng *rand.Rand, n int, tier string, o *Out) {
	col, err := c14aNewCollector()
	if err != nil {
		o.Oracle("ttl_relay_app", "setup", false, "setup", "harness: "+err.Error())
		return
	}
	defer col.close()
	dest := col.ln.Addr().String()
	ms := time.Millisecond
	singles := []time.Duration{0, 20*ms + 500*time.Microsecond, 50 * ms, time.Second, (1<<32 - 1) * ms, -5 * time.Second}
	chainsCfg := [][]time.Duration{{time.Second, 50 * ms}, {50 * ms, time.Second}, {300 * ms, 300 * ms, 20 * time.Second}, {0, 30*ms + 700*time.Microsecond}}
	var singleChains, multi []*c14aChain
	for _, m := range singles {
		rc, err := c14aNewChain([]time.Duration{m}, dest)
		if err != nil {
			o.Oracle("ttl_relay_app", "setup", false, "setup", "harness: relay setup: "+err.Error())
			return
		}
		defer rc.close()
		singleChains = append(singleChains, rc)
	}
	for _, mx := range chainsCfg {
		rc, err := c14aNewChain(mx, dest)
		if err != nil {
			o.Oracle("ttl_hops_app", "setup", false, "setup", "harness: relay setup: "+err.Error())
			return
		}
		defer rc.close()
		multi = append(multi, rc)
	}
	effMax := func(rc *c14aChain, i int) time.Duration { return tchannel.VerifRelayMaxTimeout(rc.chans[i]) }

	for i := 0; i < n; i++ {
		multiHop := i%3 == 2
		var rc *c14aChain
		if multiHop {
			rc = multi[(i/3)%len(multi)]
		} else {
			rc = singleChains[i%len(singleChains)]
			if i >= 3*len(singleChains) {
				rc = singleChains[rng.Intn(len(singleChains))]
			}
		}
		// ttl field: below / at / above a maximum of the chain, or anything
		field := ttlFields(rng)
		where := "random"
		if rng.Intn(5) != 0 {
			m := uint32(effMax(rc, rng.Intn(len(rc.maxes))) / ms)
			switch rng.Intn(5) {
			case 0:
				field, where = m-1, "max-1ms"
			case 1:
				field, where = m, "max"
			case 2:
				field, where = m+1, "max+1ms"
			case 3:
				field, where = m/2, "below"
			default:
				field, where = m+uint32(pick(rng, 2, 1000, 60000, 1<<20)), "above"
				if field < m { // wrapped
					field, where = 1<<32-1, "above"
				}
			}
		}
		if field < 15 { // tiny values race with the relay's own timer
			field += 15
		}
		req := &c14aReq{field: field, scheme: "thrift", csum: byte(pick(rng, 0, 1, 3)), contSize: pick(rng, 1, 7, 100)}
		bigOrig := rng.Intn(8) == 0
		req.orig = c14aPairs(rng, "k", pick(rng, 0, 1, 2, 3), bigOrig)
		req.arg3 = []byte(randBytes(rng, pick(rng, 0, 1, 12, 300, 1000)))
		switch rng.Intn(12) {
		case 0, 1, 2, 3:
			if len(req.arg3) >= 2 {
				req.split = 1
			}
		case 4:
			req.split = 2
		case 5:
			req.scheme = "raw"
		}
		overflow := i%11 == 5
		if overflow {
			req.orig = append(c14aPairs(rng, "k", rng.Intn(3), false), [2]string{"big", randBytes(rng, pick(rng, 54000, 60000))})
			req.scheme = "thrift"
			if req.split == 2 {
				req.split = 0
			}
		}
		// appends of every hop: 0..3 pairs; the first two rounds make sure that every relay
		// is used with and without appends
		apps := make([][][2]string, len(rc.maxes))
		anyApp := false
		for h := range apps {
			na := rng.Intn(4)
			if i < 2*len(singleChains)*3/2 && !multiHop {
				na = (i / len(singleChains)) % 2 * (1 + rng.Intn(3))
			}
			apps[h] = c14aPairs(rng, fmt.Sprintf("a%d-", h), na, rng.Intn(10) == 0)
			if overflow && h == 0 { // arg2 + appends no longer fit one frame: 1 -> 2 frames
				na = 1 + rng.Intn(3)
				apps[h] = c14aPairs(rng, fmt.Sprintf("a%d-", h), na, false)
				apps[h][na-1][1] = randBytes(rng, pick(rng, 12000, 30000))
			}
			anyApp = anyApp || na > 0
			rc.hosts[h].setAppends(apps[h])
		}

		var seen c14aSeen
		var arrived, answered bool
		var firstPayload []byte
		for attempt := 0; attempt < 3 && !arrived && !answered; attempt++ {
			service := fmt.Sprintf("q%d-%d", i, attempt)
			rc.nextID++
			var frames [][]byte
			frames, firstPayload = req.build(rc.nextID, service)
			for { // drain stale error frames
				select {
				case <-rc.errs:
					continue
				default:
				}
				break
			}
			rc.conn.SetWriteDeadline(time.Now().Add(3 * time.Second))
			werr := error(nil)
			for _, fr := range frames {
				if _, werr = rc.conn.Write(fr); werr != nil {
					break
				}
			}
			if werr != nil {
				break
			}
			// the destination answers every complete call with an error frame; a relay that
			// cannot forward answers itself: either way an error frame ends the case
			select {
			case ef := <-rc.errs:
				answered = ef != nil
			case <-time.After(3 * time.Second):
			}
			seen, arrived = col.wait(service, 150*time.Millisecond)
			if !arrived && answered {
				// the relay's own timeout error may overtake a slow destination: look again
				seen, arrived = col.wait(service, 300*time.Millisecond)
			}
		}

		sub := "ttl_relay_app"
		var in, obs []int64
		if multiHop {
			sub = "ttl_hops_app"
			in = []int64{int64(len(rc.maxes))}
			for h, m := range rc.maxes {
				in = append(in, int64(m))
				in = c14aPutPairs(in, apps[h])
			}
		} else {
			in = []int64{int64(rc.maxes[0])}
			in = c14aPutPairs(in, apps[0])
		}
		in = putBytes(in, firstPayload)
		verdict := ""
		switch {
		case arrived:
			if multiHop {
				obs = []int64{0, int64(seen.ttl)}
			} else {
				obs = []int64{int64(effMax(rc, 0)), 0, int64(seen.ttl)}
			}
			// statement: never more than received, never more than a configured maximum
			if seen.ttl > field {
				verdict = fmt.Sprintf("relay forwarded ttl %d ms, larger than the %d ms it received (appended pairs per hop: %v)", seen.ttl, field, c14aCounts(apps))
			}
			for k := range rc.maxes {
				if time.Duration(seen.ttl)*ms > effMax(rc, k) {
					verdict = fmt.Sprintf("relay chain forwarded ttl %d ms (received %d ms), more than the configured maximum %v of hop %d (appended pairs per hop: %v, request frames: %d)",
						seen.ttl, field, effMax(rc, k), k, c14aCounts(apps), seen.frames)
				}
			}
			if verdict == "" {
				// the append path was really taken: the destination sees the original pairs
				// followed by the pairs of every hop, arg3 unchanged
				want := append([][2]string{}, req.orig...)
				for _, a := range apps {
					want = append(want, a...)
				}
				var got [][2]string
				okKV := len(seen.args) == 3
				if okKV {
					got, okKV = parseKVBuffer(seen.args[1])
				}
				if !okKV || fmt.Sprint(got) != fmt.Sprint(want) || !bytes.Equal(seen.args[2], req.arg3) {
					verdict = fmt.Sprintf("destination saw %d arg2 pairs (well-formed %v), want the %d original pairs followed by the appended ones %v; arg3 equal: %v",
						len(got), okKV, len(req.orig), c14aCounts(apps), len(seen.args) == 3 && bytes.Equal(seen.args[2], req.arg3))
				}
			}
		case answered:
			if multiHop {
				obs = []int64{1}
			} else {
				obs = []int64{int64(effMax(rc, 0)), 1}
			}
		default:
			obs = []int64{-2}
			verdict = "harness: neither a forwarded call req at the raw server nor an error frame at the client (3 attempts)"
		}
		path := "as-is"
		if anyApp {
			path = "append"
		}
		switch {
		case !arrived:
			o.Hist(fmt.Sprintf("%s:%s:not-forwarded(split=%d,as=%s)", sub, path, req.split, req.scheme))
		default:
			o.Hist(fmt.Sprintf("%s:%s:ttl=%s:clamped=%v:frames=%s", sub, path, where, seen.ttl < field, c14aFrames(req.split, seen.frames)))
		}
		if i == 7 || i == 8 {
			o.Sample(map[string]interface{}{"sub": sub, "configured_max_ns": rc.maxes, "ttl_field": field, "appended_pairs_per_hop": c14aCounts(apps),
				"orig_pairs": len(req.orig), "arg3": len(req.arg3), "split": req.split, "first_frame_payload": len(firstPayload), "obs": obs})
		}
		o.Case(sub, fmt.Sprintf("q%d", i), in, obs, anyApp, verdict)
	}

	// real client -> appending relays -> real server: the handler's deadline
	ne := n/25 + 4
	for i := 0; i < ne; i++ {
		var maxes []time.Duration
		if i%2 == 0 {
			maxes = []time.Duration{time.Duration(pick(rng, 300, 2000)) * ms}
		} else {
			maxes = []time.Duration{time.Duration(pick(rng, 5000, 700)) * ms, time.Duration(pick(rng, 400, 900)) * ms}
		}
		remaining := time.Duration(pick(rng, 150, 4000, 60000, 600000)) * ms
		nApp := make([]int, len(maxes))
		for h := range nApp {
			nApp[h] = rng.Intn(4)
		}
		if i < 2 {
			nApp[len(nApp)-1] = 1 + i
			remaining = 60 * time.Second
		}
		arg3 := pick(rng, 0, 10, 100000, 200000)
		verdict := ""
		for attempt := 0; attempt < 3; attempt++ {
			verdict = c14aE2EOnce(maxes, nApp, remaining, arg3)
			if verdict == "" {
				break
			}
		}
		o.Hist(fmt.Sprintf("ttl_e2e_app:hops=%d:multi-frame=%v", len(maxes), arg3 > 65000))
		o.Oracle("ttl_e2e_app", fmt.Sprintf("ea%d", i), true, fmt.Sprint(maxes, nApp, remaining, arg3), verdict)
	}
}

func c14aCounts(apps [][][2]string) []int {
	var out []int
	for _, a := range apps {
		out = append(out, len(a))
	}
	return out
}

func c14aFrames(split, frames int) string {
	switch {
	case split == 0 && frames == 1:
		return "1"
	case split == 0:
		return "1->n" // one request frame re-fragmented into several
	}
	return "n"
}

func c14aE2EOnce(maxes []time.Duration, nApp []int, remaining time.Duration, arg3Len int) string {
	srv, err := tchannel.NewChannel("svc", nil)
	if err != nil {
		return "harness: " + err.Error()
	}
	defer srv.Close()
	h := &ctxHandler{seen: make(chan ctxSeen, 4)}
	srv.Register(h, "m")
	if err := srv.ListenAndServe("127.0.0.1:0"); err != nil {
		return "harness: " + err.Error()
	}
	next := srv.PeerInfo().HostPort
	setupCtx, setupCancel := tchannel.NewContext(5 * time.Second)
	defer setupCancel()
	for i := len(maxes) - 1; i >= 0; i-- {
		host := &c14aRelayHost{dest: next}
		for k := 0; k < nApp[i]; k++ {
			host.app = append(host.app, [2]string{fmt.Sprintf("hop%d-%d", i, k), "v"})
		}
		rl, err := tchannel.NewChannel(fmt.Sprintf("arelay%d", i), &tchannel.ChannelOptions{RelayHost: host, RelayMaxTimeout: maxes[i]})
		if err != nil {
			return "harness: " + err.Error()
		}
		defer rl.Close()
		if err := rl.ListenAndServe("127.0.0.1:0"); err != nil {
			return "harness: " + err.Error()
		}
		if _, err := rl.RootPeers().GetOrAdd(next).GetConnection(setupCtx); err != nil {
			return "harness: " + err.Error()
		}
		next = rl.PeerInfo().HostPort
	}
	cl, err := tchannel.NewChannel("cl", nil)
	if err != nil {
		return "harness: " + err.Error()
	}
	defer cl.Close()
	if _, err := cl.RootPeers().GetOrAdd(next).GetConnection(setupCtx); err != nil {
		return "harness: " + err.Error()
	}
	ctx, cancel := tchannel.NewContextBuilder(remaining).SetFormat(tchannel.Thrift).Build()
	defer cancel()
	callerDl, _ := ctx.Deadline()
	budget := time.Until(callerDl)
	call, err := cl.BeginCall(ctx, next, "svc", "m", &tchannel.CallOptions{Format: tchannel.Thrift})
	if err != nil {
		return "harness: BeginCall: " + err.Error()
	}
	go func() {
		err := tchannel.NewArgWriter(call.Arg2Writer()).Write(kvBuffer([][2]string{{"k", "v"}}))
		if err == nil {
			err = tchannel.NewArgWriter(call.Arg3Writer()).Write(make([]byte, arg3Len))
		}
		if err == nil {
			call.Response().Arg2Reader()
		}
	}()
	select {
	case s := <-h.seen:
		if !s.ok {
			return "handler context has no deadline"
		}
		given := s.dl.Sub(s.at)
		if given > budget {
			return fmt.Sprintf("handler was given %v, more than the caller's remaining time %v at the start of the call", given, budget)
		}
		for k, m := range maxes {
			if given > m {
				return fmt.Sprintf("handler was given %v, more than the maximum %v of relay %d (pairs appended per hop: %v)", given, m, k, nApp)
			}
		}
		return ""
	case <-time.After(3 * time.Second):
		return "harness: handler not invoked"
	}
}
