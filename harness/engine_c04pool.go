package main

// Engine "poolmux" (property C04): POOL DISCIPLINE under the multiplex scenarios.
//
// Objects that calls draw from a sync.Pool (the running checksum of every message writer and
// reader, the typed.Reader behind thrift.ReadHeaders, the thrift protocol of ReadStruct /
// WriteStruct and of the thrift server, the scratch buffers of typed.Writer and
// argreader.EnsureEmpty, the RequestState of RunWithRetry) are private to one call between
// Get and Put.  A Put site that runs twice for one Get leaves the object in the pool twice; the
// pool then hands it to two calls that are in flight together, and they share state: running
// checksums add into each other (healthy calls are rejected or time out), a typed.Reader is
// re-targeted at another call's argument stream (a call reads ANOTHER call's data).
//
// Observation.
//   census    harness/overlay/**/zz_verif_c04_pools.go export the package-level pools.  A census
//             drains a pool through its own Get until the pool's New function runs (= it was
//             empty) and puts everything back in the order found.  With GOMAXPROCS(1) and the
//             collector off a census is complete and repeatable; with several Ps the private
//             slots of the other Ps stay invisible (the census is then a sound under-approximation:
//             a duplicate that is seen is real).
//   New hook  every pool's New is wrapped: the objects a pool creates are known, with the moment
//             of their creation.
//   tracker   the checksum pools hand out C02's tracking objects (zz_verif_c02.go VerifCkTrack,
//             natural mode: a released object really goes back to the pool): every acquisition
//             and release is an event.
// From these a TRACE of Get / Put events (object, holder) is recorded per scenario: tracker events
// directly, census differences between quiescent points for the pools that cannot be
// intercepted.  The trace is judged by c04Judge here (oracle "no object is in a pool twice / handed
// to two holders") and by the extracted Coq checker Model/PoolTrace.run_pooltrace (sub
// "pooltrace"; Proofs/PoolTraceP.v: a trace the checker accepts keeps every object with at most
// one holder); the two verdicts are the correspondence line.
//
// Scenarios (each with GOMAXPROCS(1), which makes what a pool hands out reproducible, and with
// the machine's Ps):
//   pool-ck       real channels, one connection, tagged echo calls proceeding while other calls
//                 FAIL AT CHOSEN MOMENTS: a handler that finishes its response after the caller's
//                 deadline (the final flush of the response writer fails), a caller whose context
//                 is cancelled / runs out exactly between the last argument write and its Close
//                 (the final flush of the request writer fails), a connection that dies in that
//                 window, failures on a non-final flush and before the first byte (controls).
//                 Afterwards K calls are begun together and completed one after the other.
//                 Oracle from the statement: every call with a generous deadline gets exactly its
//                 own response.
//   pool-hdr      (engine_c04pool_thrift.go) thrift.ReadHeaders / ReadStruct / WriteStruct /
//                 argreader.EnsureEmpty directly: truncated blocks, then overlapping reads on
//                 streams that pause in the middle (an arg2 that continues in the next fragment).
//   pool-thrift   (engine_c04pool_thrift.go) the same through a thrift server and client on one
//                 connection: a raw call with a truncated header block, calls whose header block
//                 spans two fragments, complete calls in between.

import (
	"bytes"
	"fmt"
	"math/rand"
	"os"
	"reflect"
	"runtime"
	"runtime/debug"
	"sort"
	"strings"
	"sync"
	"sync/atomic"
	"time"

	tchannel "github.com/uber/tchannel-go"
	"github.com/uber/tchannel-go/raw"
	"github.com/uber/tchannel-go/thrift"
	"github.com/uber/tchannel-go/typed"
	"golang.org/x/net/context"
)

func init() { engines["poolmux"] = enginePoolMux }

// ---------------------------------------------------------------- pools under census

type c04Pool struct {
	name    string
	p       *sync.Pool
	orig    func() interface{}
	base    int64 // object ids of this pool are base + k
	news    int64 // objects created by the pool (atomic)
	probing int32
	mu      sync.Mutex
	ids     map[uintptr]int64
	keep    []interface{} // keeps every object alive, so that an address identifies it
	created []int64       // ids created since the last step (not by a census probe)
	old     int64         // ids <= old belong to an earlier scenario
	next    int64
}

type c04PoolSet struct {
	pools     []*c04Pool
	installed bool
}

var c04Pools c04PoolSet

// c04InstallPools wraps the New function of every exported pool (once per process).
func c04InstallPools() {
	if c04Pools.installed {
		return
	}
	c04Pools.installed = true
	all := map[string]*sync.Pool{}
	for k, v := range tchannel.VerifSyncPools() {
		all[k] = v
	}
	for k, v := range typed.VerifSyncPools() {
		all[k] = v
	}
	for k, v := range thrift.VerifSyncPools() {
		all[k] = v
	}
	var names []string
	for k := range all {
		names = append(names, k)
	}
	sort.Strings(names)
	for i, name := range names {
		cp := &c04Pool{name: name, p: all[name], base: int64(i+1) * 1000000, ids: map[uintptr]int64{}}
		cp.orig = cp.p.New
		if cp.orig == nil {
			continue // a pool without New cannot be drained to a known end
		}
		cp.p.New = func() interface{} {
			x := cp.orig()
			atomic.AddInt64(&cp.news, 1)
			probe := atomic.LoadInt32(&cp.probing) != 0
			cp.mu.Lock()
			id := cp.idOfLocked(x)
			if !probe && id != 0 {
				cp.created = append(cp.created, id)
			}
			cp.mu.Unlock()
			return x
		}
		c04Pools.pools = append(c04Pools.pools, cp)
	}
}

// idOfLocked: the identity of a pooled object; 0 for an object without identity (a value, such
// as the stateless nullChecksum).  Tracked checksum objects keep the tracker's number (ids below
// 1000000), so that census and tracker events speak about the same objects.
func (cp *c04Pool) idOfLocked(x interface{}) int64 {
	if x == nil {
		return 0
	}
	if id := tchannel.VerifCkObjID(x); id != 0 {
		return id
	}
	v := reflect.ValueOf(x)
	if v.Kind() != reflect.Ptr {
		return 0
	}
	a := v.Pointer()
	if id, ok := cp.ids[a]; ok {
		return id
	}
	cp.next++
	id := cp.base + cp.next
	cp.ids[a] = id
	cp.keep = append(cp.keep, x)
	return id
}

// census returns the identities of the objects in the pool, in the order Get hands them out,
// and leaves the pool as it found it.  drop = the content is thrown away instead.
func (cp *c04Pool) census(drop bool) []int64 {
	var got []interface{}
	for len(got) < 4096 {
		before := atomic.LoadInt64(&cp.news)
		atomic.StoreInt32(&cp.probing, 1)
		x := cp.p.Get()
		atomic.StoreInt32(&cp.probing, 0)
		if atomic.LoadInt64(&cp.news) != before {
			break // the pool was empty: x was made for the probe and is dropped
		}
		got = append(got, x)
	}
	ids := make([]int64, 0, len(got))
	cp.mu.Lock()
	for _, x := range got {
		if id := cp.idOfLocked(x); id != 0 && id > cp.old {
			ids = append(ids, id)
		}
	}
	cp.mu.Unlock()
	if !drop && len(got) > 0 {
		// Get takes the P's private slot first, then the head of its shared list; Put fills the
		// private slot first and then pushes at the head
		cp.p.Put(got[0])
		for i := len(got) - 1; i >= 1; i-- {
			cp.p.Put(got[i])
		}
	}
	return ids
}

func (cp *c04Pool) takeCreated() []int64 {
	cp.mu.Lock()
	c := cp.created
	cp.created = nil
	cp.mu.Unlock()
	return c
}

// ---------------------------------------------------------------- traces and their judge

type c04Ev struct {
	op          int // 0 Get, 1 Put
	obj, holder int64
	what        string
}

var c04CodeText = map[int]string{
	1: "an object is put back into its pool although nobody holds it (put back twice, or never taken): the pool now contains it once too often and will hand it to two calls",
	2: "an object is put back into its pool by somebody who does not hold it, while another holder still uses it",
	3: "the pool handed out an object that another holder still holds: two holders share it",
	4: "an object appears that is neither in the pool nor new (the trace is not a trace of a pool)",
}

// c04Judge is the Go twin of Model/PoolTrace.pt_step.
type c04Judge struct {
	bag  map[int64]int
	held map[int64][]int64
	seen map[int64]bool
}

func newC04Judge() *c04Judge {
	return &c04Judge{bag: map[int64]int{}, held: map[int64][]int64{}, seen: map[int64]bool{}}
}

func (j *c04Judge) step(e c04Ev) int {
	hs := j.held[e.obj]
	if e.op == 0 {
		switch {
		case len(hs) > 0:
			return 3
		case j.bag[e.obj] > 0:
			j.bag[e.obj]--
		case j.seen[e.obj]:
			return 4
		}
		j.seen[e.obj] = true
		j.held[e.obj] = append(hs, e.holder)
		return 0
	}
	for i, h := range hs {
		if h == e.holder {
			j.held[e.obj] = append(append([]int64{}, hs[:i]...), hs[i+1:]...)
			j.bag[e.obj]++
			return 0
		}
	}
	if len(hs) == 0 {
		return 1
	}
	return 2
}

// c04JudgeTrace returns the model input, the observable and the message for the first offence.
func c04JudgeTrace(evs []c04Ev) (in, obs []int64, msg string) {
	in = []int64{int64(len(evs))}
	for _, e := range evs {
		in = append(in, int64(e.op), e.obj, e.holder)
	}
	j := newC04Judge()
	for i, e := range evs {
		if code := j.step(e); code != 0 {
			msg = fmt.Sprintf("pool trace event %d (%s of object #%d, holder %d; %s): %s", i, []string{"Get", "Put"}[e.op], e.obj, e.holder, e.what, c04CodeText[code])
			return in, []int64{0, int64(i), int64(code)}, msg
		}
	}
	nheld, nbag := 0, 0
	for _, hs := range j.held {
		nheld += len(hs)
	}
	for _, c := range j.bag {
		nbag += c
	}
	return in, []int64{1, int64(len(evs)), int64(nheld), int64(nbag)}, ""
}

// c04Recorder assembles the trace of one scenario.
type c04Recorder struct {
	evs     []c04Ev
	holding map[int64]int64 // object -> holder (acquisition holders)
	nextH   int64
	bags    map[string][]int64 // last census per pool
	ckOld   int64              // tracker objects <= ckOld belong to an earlier scenario
	dups    []string
}

// c04Epoch starts a scenario: pools are emptied (a pool is a cache: dropping its content is
// invisible to the library), so that objects of earlier scenarios can only come back through
// holders that outlived their scenario; those are ignored by number.
func c04Epoch() *c04Recorder {
	r := &c04Recorder{holding: map[int64]int64{}, nextH: 1000, bags: map[string][]int64{}}
	for _, cp := range c04Pools.pools {
		cp.census(true)
		cp.takeCreated()
		cp.mu.Lock()
		cp.old = cp.base + cp.next
		cp.mu.Unlock()
	}
	tchannel.VerifCkDrain()
	// watermark of the tracker's numbering: a fresh tracked object, never released
	tchannel.VerifCkNew(byte(tchannel.ChecksumTypeCrc32))
	for _, e := range tchannel.VerifCkDrain() {
		if e.Obj > r.ckOld {
			r.ckOld = e.Obj
		}
	}
	for _, cp := range c04Pools.pools {
		cp.takeCreated()
	}
	return r
}

func c04IsCkPool(name string) bool { return strings.HasPrefix(name, "tchannel.checksumPools") }

// tracker: turns the drained tracker events into Get / Put events with acquisition holders.
func (r *c04Recorder) tracker() {
	for _, e := range tchannel.VerifCkDrain() {
		if e.Obj <= r.ckOld || (e.Op != 0 && e.Op != 3) {
			continue
		}
		what := fmt.Sprintf("checksum type %d, in %s [%s]", e.Type, e.Fn, e.Stack)
		if e.Op == 0 {
			r.nextH++
			r.holding[e.Obj] = r.nextH
			r.evs = append(r.evs, c04Ev{0, e.Obj, r.nextH, what})
		} else {
			h := r.holding[e.Obj]
			delete(r.holding, e.Obj)
			r.evs = append(r.evs, c04Ev{1, e.Obj, h, what})
		}
	}
}

// censusStep takes a census of every pool at a quiescent point.  For the pools without a tracker
// the difference to the previous census becomes events: objects the pool created since and
// objects that left the pool were taken (Get), objects that are in the pool now and were not
// before were put back (Put).  holder > 0: the operation that ran in this step is the holder of
// what it took and the one who puts back; holder 0: acquisition holders (an object is put back
// by whoever took it last).  Duplicates in any pool are recorded.
func (r *c04Recorder) censusStep(holder int64, step string) {
	r.tracker()
	for _, cp := range c04Pools.pools {
		now := cp.census(false)
		created := cp.takeCreated()
		cnt := map[int64]int{}
		for _, id := range now {
			cnt[id]++
		}
		for id, c := range cnt {
			if c > 1 {
				r.dups = append(r.dups, fmt.Sprintf("after %s: %s contains object #%d %d times (census %v)", step, cp.name, id, c, now))
			}
		}
		if c04IsCkPool(cp.name) {
			continue // events come from the tracker
		}
		prev := cnt2(r.bags[cp.name])
		isCreated := map[int64]bool{}
		var gets, puts []int64
		for _, id := range created {
			if id > cp.old && !isCreated[id] {
				isCreated[id] = true
				gets = append(gets, id) // taken at its creation
			}
		}
		ids := map[int64]bool{}
		for id := range prev {
			ids[id] = true
		}
		for id := range cnt {
			ids[id] = true
		}
		var order []int64
		for id := range ids {
			order = append(order, id)
		}
		sort.Slice(order, func(a, b int) bool { return order[a] < order[b] })
		for _, id := range order {
			d := cnt[id] - prev[id] // a created object was not in the pool before
			for ; d < 0; d++ {
				gets = append(gets, id)
			}
			for ; d > 0; d-- {
				puts = append(puts, id)
			}
		}
		what := fmt.Sprintf("%s, %s", cp.name, step)
		for _, id := range gets {
			h := holder
			if h == 0 {
				r.nextH++
				h = r.nextH
			}
			r.holding[id] = h
			r.evs = append(r.evs, c04Ev{0, id, h, what})
		}
		for _, id := range puts {
			h := holder
			if h == 0 {
				h = r.holding[id]
				delete(r.holding, id)
			}
			r.evs = append(r.evs, c04Ev{1, id, h, what})
		}
		r.bags[cp.name] = now
	}
}

// c04PoolDuplicates takes a census of every pool (a sound under-approximation with several Ps)
// and reports an object that is in its pool more than once.  Used by the multiplex scenarios.
func c04PoolDuplicates() string {
	if !c04Pools.installed {
		return ""
	}
	time.Sleep(10 * time.Millisecond)
	for _, cp := range c04Pools.pools {
		now := cp.census(false)
		cp.takeCreated()
		for id, c := range cnt2(now) {
			if c > 1 {
				return fmt.Sprintf("%s contains object #%d %d times: the pool will hand it to two calls in flight together", cp.name, id, c)
			}
		}
	}
	return ""
}

func cnt2(xs []int64) map[int64]int {
	m := map[int64]int{}
	for _, x := range xs {
		m[x]++
	}
	return m
}

// emit records the trace as a case of sub "pooltrace" and returns the pool oracle's verdict.
func (r *c04Recorder) emit(o *Out, id string) string {
	in, obs, msg := c04JudgeTrace(r.evs)
	verdict := msg
	if verdict == "" && len(r.dups) > 0 {
		verdict = "pool census: " + r.dups[0]
	}
	verdict = c04Clean(verdict)
	o.Case("pooltrace", id, in, obs, len(r.evs) > 0, verdict)
	return verdict
}

// ---------------------------------------------------------------- pool-ck: failing writers among healthy calls

type c04Echo struct{}

func (c04Echo) Handle(ctx context.Context, args *raw.Args) (*raw.Res, error) {
	return &raw.Res{Arg2: args.Arg2, Arg3: args.Arg3}, nil
}
func (c04Echo) OnError(ctx context.Context, err error) {}

const c04EchoMethods = 8

type c04CkEnv struct {
	server, client *tchannel.Channel
	proxy          *wireProxy
	addr           string
	lateDone       chan string
	lateGo         chan struct{}
}

func (env *c04CkEnv) close() {
	env.client.Close()
	env.server.Close()
	env.proxy.close()
}

// handler "late": reads the request, writes its response arguments, then waits (arg2 of the
// request says for what) before it closes the last argument:
//
//	'D' the call's deadline / cancellation        'G' a signal of the harness (lateGo)
//	'N' nothing (control)
//	'P' nothing, but instead of closing it reports a system error (SendSystemError in the middle
//	    of a response)             'S' closes, then reports a system error all the same
//
// arg3 of the request is echoed as arg3 of the response (its size decides how many fragments the
// response has).
func (env *c04CkEnv) late(ctx context.Context, call *tchannel.InboundCall) {
	a2, a3, err := raw.ReadArgsV2(call)
	if err != nil {
		env.lateDone <- "read args: " + err.Error()
		return
	}
	resp := call.Response()
	if err := tchannel.NewArgWriter(resp.Arg2Writer()).Write([]byte("late")); err != nil {
		env.lateDone <- "ERR write arg2: " + err.Error()
		return
	}
	w3, err := resp.Arg3Writer()
	if err != nil {
		env.lateDone <- "ERR arg3 writer: " + err.Error()
		return
	}
	if _, err := w3.Write(a3); err != nil {
		env.lateDone <- "ERR write arg3: " + err.Error()
		return
	}
	mode := byte('N')
	if len(a2) > 0 {
		mode = a2[0]
	}
	switch mode {
	case 'D':
		<-ctx.Done()
	case 'G':
		select {
		case <-env.lateGo:
		case <-time.After(5 * time.Second):
		}
	case 'P':
		// gives up in the middle of its response and reports a system error instead
		resp.SendSystemError(tchannel.NewSystemError(tchannel.ErrCodeBusy, "gave up"))
		env.lateDone <- "syserr"
		return
	}
	if err := w3.Close(); err != nil {
		env.lateDone <- "closefailed"
		return
	}
	if mode == 'S' {
		// reports a system error although its response is complete
		resp.SendSystemError(tchannel.NewSystemError(tchannel.ErrCodeBusy, "too late"))
		env.lateDone <- "syserr"
		return
	}
	env.lateDone <- "closed"
}

func newC04CkEnv(rng *rand.Rand) (*c04CkEnv, error) {
	env := &c04CkEnv{lateDone: make(chan string, 16), lateGo: make(chan struct{}, 16)}
	// (farmhash is not implemented by the library: its pool holds the stateless null checksum)
	csums := []tchannel.ChecksumType{tchannel.ChecksumTypeCrc32, tchannel.ChecksumTypeCrc32C}
	cs := csums[rng.Intn(len(csums))]
	opts := func() *tchannel.ChannelOptions {
		return &tchannel.ChannelOptions{Logger: tchannel.NullLogger,
			DefaultConnectionOptions: tchannel.ConnectionOptions{ChecksumType: cs}}
	}
	server, err := tchannel.NewChannel("svc", opts())
	if err != nil {
		return nil, err
	}
	env.server = server
	server.Register(tchannel.HandlerFunc(env.late), "late")
	for i := 0; i < c04EchoMethods; i++ {
		server.Register(raw.Wrap(c04Echo{}), fmt.Sprintf("echo-%d", i))
	}
	server.Register(raw.Wrap(&muxHandler{}), "echo")
	if err := server.ListenAndServe("127.0.0.1:0"); err != nil {
		server.Close()
		return nil, err
	}
	env.proxy, err = newWireProxy(server.PeerInfo().HostPort)
	if err != nil {
		server.Close()
		return nil, err
	}
	env.addr = env.proxy.addr()
	env.client, err = tchannel.NewChannel("cli", opts())
	if err != nil {
		server.Close()
		env.proxy.close()
		return nil, err
	}
	return env, nil
}

func c04WaitLate(env *c04CkEnv, want string) string {
	select {
	case s := <-env.lateDone:
		if s != want {
			return fmt.Sprintf("handler: %s (wanted %s)", s, want)
		}
		return ""
	case <-time.After(6 * time.Second):
		return "handler did not finish"
	}
}

func c04ConnCount(ch *tchannel.Channel) int {
	st := ch.IntrospectState(&tchannel.IntrospectionOptions{})
	n := 0
	for _, p := range st.RootPeers {
		n += len(p.InboundConnections) + len(p.OutboundConnections)
	}
	return n
}

// c04KillConn cuts the proxy's pipes and waits until both channels have noticed.
func c04KillConn(env *c04CkEnv) {
	env.proxy.mu.Lock()
	for _, c := range env.proxy.pipes {
		c.Close()
	}
	env.proxy.pipes = nil
	env.proxy.mu.Unlock()
	for i := 0; i < 400 && (c04ConnCount(env.client) > 0 || c04ConnCount(env.server) > 0); i++ {
		time.Sleep(5 * time.Millisecond)
	}
	time.Sleep(10 * time.Millisecond)
}

// c04FailingCall runs one call that fails at the chosen moment; "" or a harness problem.
// reached reports whether the intended failure happened where it was aimed.
func c04FailingCall(env *c04CkEnv, rng *rand.Rand, kind string) (problem string, reached bool) {
	body := []byte(randBytes(rng, pick(rng, 10, 3000, 70000, 140000)))
	switch kind {
	case "resp-late", "resp-late-ok":
		// the handler finishes its response after the caller's deadline / in time (control)
		mode, limit, want := "D", time.Duration(pick(rng, 40, 60, 90))*time.Millisecond, "closefailed"
		if kind == "resp-late-ok" {
			mode, limit, want = "N", 5*time.Second, "closed"
		}
		ctx, cancel := tchannel.NewContext(limit)
		_, _, _, err := raw.Call(ctx, env.client, env.addr, "svc", "late", []byte(mode), body)
		cancel()
		if p := c04WaitLate(env, want); p != "" {
			return p, false
		}
		return "", (err != nil) == (kind == "resp-late")
	case "resp-partial-syserr", "resp-then-syserr":
		mode := map[string]string{"resp-partial-syserr": "P", "resp-then-syserr": "S"}[kind]
		ctx, cancel := tchannel.NewContext(5 * time.Second)
		if kind == "resp-then-syserr" {
			body = body[:10]
		} else {
			// a large body: the first fragments of the response are on the wire (and read by the
			// caller, whose reader holds its checksum) when the handler gives up
			body = []byte(randBytes(rng, pick(rng, 70000, 140000)))
		}
		_, _, _, err := raw.Call(ctx, env.client, env.addr, "svc", "late", []byte(mode), body)
		cancel()
		if p := c04WaitLate(env, "syserr"); p != "" {
			return p, false
		}
		return "", (err != nil) == (kind == "resp-partial-syserr")
	case "resp-connkill":
		// the connection dies while the handler is between its last write and the Close
		ctx, cancel := tchannel.NewContext(5 * time.Second)
		done := make(chan error, 1)
		go func() {
			_, _, _, err := raw.Call(ctx, env.client, env.addr, "svc", "late", []byte("G"), body[:10])
			done <- err
		}()
		time.Sleep(40 * time.Millisecond)
		c04KillConn(env)
		env.lateGo <- struct{}{}
		p := c04WaitLate(env, "closefailed")
		<-done
		cancel()
		return p, p == ""
	}
	// the request writer
	limit := 5 * time.Second
	if kind == "req-deadline" {
		limit = time.Duration(pick(rng, 30, 50)) * time.Millisecond
	}
	ctx, cancel := tchannel.NewContext(limit)
	defer cancel()
	if kind == "req-early" {
		cancel()
		_, err := env.client.BeginCall(ctx, env.addr, "svc", "echo-0", nil)
		return "", err != nil
	}
	call, err := env.client.BeginCall(ctx, env.addr, "svc", "echo-0", nil)
	if err != nil {
		return "BeginCall: " + err.Error(), false
	}
	if err := tchannel.NewArgWriter(call.Arg2Writer()).Write([]byte("hdr")); err != nil {
		return "arg2: " + err.Error(), false
	}
	w3, err := call.Arg3Writer()
	if err != nil {
		return "arg3 writer: " + err.Error(), false
	}
	if kind == "req-nonfinal" {
		// the failure hits a flush in the middle of a multi-fragment argument (control)
		big := []byte(randBytes(rng, 100000))
		if _, err := w3.Write(big); err != nil {
			return "arg3 write: " + err.Error(), false
		}
		cancel()
		_, err1 := w3.Write(big)
		err2 := w3.Close()
		return "", err1 != nil && err2 != nil
	}
	if _, err := w3.Write(body); err != nil {
		return "arg3 write: " + err.Error(), false
	}
	switch kind {
	case "req-cancel":
		cancel()
	case "req-deadline":
		<-ctx.Done()
	case "req-connkill":
		c04KillConn(env)
	}
	// the last fragment is finished and flushed here: the flush fails
	err = w3.Close()
	return "", err != nil
}

var c04CkKinds = []string{"resp-late", "req-cancel", "req-deadline", "req-connkill", "resp-connkill", "resp-then-syserr", "resp-partial-syserr",
	"req-nonfinal", "req-early", "resp-late-ok", "resp-late", "req-cancel"}

// c04CkScenario: returns the statement oracle's verdict, the pool oracle's verdict, a key.
func c04CkScenario(rng *rand.Rand, o *Out, id string, kinds []string, tagBase uint64) (verdict, poolVerdict, key string) {
	env, err := newC04CkEnv(rng)
	if err != nil {
		return "harness: " + err.Error(), "", ""
	}
	defer env.close()
	// warm-up: establishes the connection every call of the case shares
	{
		w := &muxCall{tag: tagBase, reqLen: 10, respLen: 10}
		st := make(chan struct{})
		close(st)
		w.run(env.client, env.addr, "svc", st)
		if w.verdict != "" || w.err != nil {
			return fmt.Sprintf("harness: warm-up call failed: %v %s", w.err, w.verdict), "", ""
		}
	}
	rec := c04Epoch()

	// healthy calls proceed while the failing calls run
	nbg := pick(rng, 2, 4, 6)
	sizes := []int{0, 100, 1000, 20000, 66000, 140000}
	bg := make([]*muxCall, nbg)
	start := make(chan struct{})
	var wg sync.WaitGroup
	for i := range bg {
		bg[i] = &muxCall{tag: tagBase + 1 + uint64(i), reqLen: sizes[rng.Intn(len(sizes))], respLen: sizes[rng.Intn(len(sizes))], latMs: pick(rng, 0, 5, 20, 60)}
		wg.Add(1)
		go func(mc *muxCall) {
			defer wg.Done()
			mc.run(env.client, env.addr, "svc", start)
		}(bg[i])
	}
	close(start)
	reachedAll := true
	killed := false
	for _, k := range kinds {
		if killed && strings.HasSuffix(k, "connkill") {
			k = "req-cancel"
		}
		if strings.HasSuffix(k, "connkill") {
			// the healthy calls of the background would die with the connection: let them finish first
			wg.Wait()
			killed = true
		}
		p, reached := c04FailingCall(env, rng, k)
		if p != "" {
			wg.Wait()
			return "harness: " + k + ": " + p, "", ""
		}
		if !reached {
			reachedAll = false
			o.Hist("pool-ck:not-reached:" + k)
		}
		o.Hist("pool-ck:fail=" + k)
		key += k + ","
	}
	wg.Wait()
	for _, mc := range bg {
		if mc.verdict != "" && verdict == "" {
			verdict = "while other calls failed at their last flush: " + mc.verdict
		}
	}
	time.Sleep(20 * time.Millisecond)
	rec.tracker()
	_, _, early := c04JudgeTrace(rec.evs)

	// K calls in flight together: each takes its running checksum at BeginCall
	limit := 5 * time.Second
	if early != "" {
		limit = 1200 * time.Millisecond // the pool oracle has spoken: the symptom is corroboration only
	}
	ctx, cancel := tchannel.NewContext(limit)
	calls := make([]*tchannel.OutboundCall, c04EchoMethods)
	for i := range calls {
		call, err := env.client.BeginCall(ctx, env.addr, "svc", fmt.Sprintf("echo-%d", i), nil)
		if err != nil {
			cancel()
			return "harness: BeginCall of the probe: " + err.Error(), "", ""
		}
		calls[i] = call
	}
	for i, call := range calls {
		a2 := []byte(fmt.Sprintf("%s-call-%d-arg2", id, i))
		a3 := []byte(fmt.Sprintf("%s-call-%d-arg3-%s", id, i, randBytes(rng, pick(rng, 0, 50, 2000))))
		g2, g3, _, err := raw.WriteArgs(call, a2, a3)
		if err != nil {
			if verdict == "" {
				verdict = fmt.Sprintf("call %d of %d begun together on one connection (generous deadline, after unrelated calls failed: %s) failed: %v", i, len(calls), key, err)
			}
			break
		}
		if !bytes.Equal(g2, a2) || !bytes.Equal(g3, a3) {
			if verdict == "" {
				verdict = fmt.Sprintf("call %d of %d begun together got a response that is not the echo of its own request (arg2 %q, want %q)", i, len(calls), g2, a2)
			}
			break
		}
	}
	cancel()
	time.Sleep(20 * time.Millisecond)
	rec.tracker()
	rec.censusStep(0, "the calls of the scenario")
	poolVerdict = rec.emit(o, id)
	if !reachedAll {
		key += "partly"
	}
	return verdict, poolVerdict, key
}

// ---------------------------------------------------------------- engine

// c04Clean keeps a verdict on one line of printable ASCII (data read from a foreign stream can
// be anything).
func c04Clean(s string) string {
	b := []byte(s)
	for i, c := range b {
		if c < 0x20 || c > 0x7e {
			b[i] = '?'
		}
	}
	if len(b) > 1500 {
		b = b[:1500]
	}
	return string(b)
}

func c04Report(o *Out, sub, id, key, verdict, poolVerdict string) {
	if strings.HasPrefix(verdict, "harness:") {
		fmt.Fprintln(os.Stderr, sub+":", verdict)
		o.Hist(sub + ":harness-problem")
		verdict = ""
	}
	if verdict != "" && poolVerdict != "" {
		verdict += " || " + poolVerdict
	}
	o.Oracle(sub, id, true, key, c04Clean(verdict))
	if len(o.samples) < 4 && strings.HasSuffix(id, "0") || len(o.samples) < 2 {
		o.Sample(map[string]interface{}{"sub": sub, "case": id, "scenario": key})
	}
}

func enginePoolMux(rng *rand.Rand, n int, tier string, o *Out) {
	tchannel.VerifCkTrack(true, false)
	c04InstallPools()
	{
		// the pools the overlays export, for the model's table of tracked pools (Model/PoolSites.v)
		seen := map[string]bool{}
		var names []string
		for _, cp := range c04Pools.pools {
			name := cp.name
			if i := strings.Index(name, "["); i >= 0 {
				name = name[:i]
			}
			if !seen[name] {
				seen[name] = true
				names = append(names, name)
			}
		}
		sort.Strings(names)
		in := []int64{int64(len(names))}
		for _, name := range names {
			in = putBytes(in, []byte(name))
		}
		o.Case("pooltracked", "t0", in, []int64{1}, true, "")
	}
	// the collector empties sync.Pools: it runs between scenarios only
	defer debug.SetGCPercent(debug.SetGCPercent(-1))
	procs := runtime.GOMAXPROCS(0)
	defer runtime.GOMAXPROCS(procs)
	tagBase := uint64(500000)
	nck := 0
	for c := 0; c < n; c++ {
		oneP := c%3 != 2
		if oneP {
			runtime.GOMAXPROCS(1)
		} else {
			runtime.GOMAXPROCS(procs)
		}
		runtime.GC()
		mode := "P1"
		if !oneP {
			mode = fmt.Sprintf("P%d", procs)
			if procs > 1 {
				mode = "Pn"
			}
		}
		id := fmt.Sprintf("k%d", c)
		switch c % 4 {
		case 0, 1:
			var kinds []string
			if nck < len(c04CkKinds) {
				kinds = []string{c04CkKinds[nck]} // every kind alone first
			} else {
				for k := pick(rng, 1, 2, 3); k > 0; k-- {
					kinds = append(kinds, c04CkKinds[rng.Intn(len(c04CkKinds))])
				}
			}
			nck++
			v, pv, key := c04CkScenario(rng, o, id, kinds, tagBase)
			tagBase += 100
			o.Hist("pool-ck:" + mode)
			c04Report(o, "pool-ck", id, fmt.Sprint(c, key, mode), v, pv)
		case 2:
			v, pv, key := c04HdrScenario(rng, o, id, oneP)
			o.Hist("pool-hdr:" + mode)
			c04Report(o, "pool-hdr", id, fmt.Sprint(c, key, mode), v, pv)
		case 3:
			v, pv, key := c04ThriftScenario(rng, o, id, oneP)
			o.Hist("pool-thrift:" + mode)
			c04Report(o, "pool-thrift", id, fmt.Sprint(c, key, mode), v, pv)
		}
	}
}
