package main

import (
	"bytes"
	"encoding/binary"
	"fmt"
	"math/rand"
	"net"
	"strings"
	"sync"
	"time"

	tchannel "github.com/uber/tchannel-go"
	"golang.org/x/net/context"
)

// relaydiff (C08): the same call made by a real client channel directly to a real server
// and through one and two real relays.  What the handler observes (caller name, service,
// method, format, shard key, routing key/delegate, arguments, deadline) and what the caller
// gets back (arguments, application-error flag, or system error code and message) must be
// what the caller sent / the handler produced on every path; byte taps on the client's and
// the server's sockets give the tracing span and the ttl on the wire at both ends.

func init() { engines["relaydiff"] = engineRelayDiff }

// ---- socket taps: collect the call req frames that pass, keyed by the token in arg2

type tapFrame struct {
	ttl     uint32
	tracing []byte
}

type tap struct {
	mu  sync.Mutex
	got map[uint32]tapFrame
}

func (t *tap) feed(buf *[]byte, b []byte) {
	*buf = append(*buf, b...)
	for len(*buf) >= 16 {
		size := int(binary.BigEndian.Uint16(*buf))
		if size < 16 {
			*buf = nil
			return
		}
		if len(*buf) < size {
			return
		}
		fr := (*buf)[:size]
		if fr[2] == 0x03 {
			if pc, err := parseRawCall(0x03, fr[16:]); err == nil && len(pc.Chunks) >= 2 && len(pc.Chunks[1]) >= 4 {
				t.mu.Lock()
				t.got[binary.BigEndian.Uint32(pc.Chunks[1])] = tapFrame{pc.TTL, append([]byte{}, pc.Tracing...)}
				t.mu.Unlock()
			}
		}
		*buf = append([]byte{}, (*buf)[size:]...)
	}
}

type tapConn struct {
	net.Conn
	t     *tap
	onIn  bool
	inbuf []byte
	obuf  []byte
}

func (c *tapConn) Read(p []byte) (int, error) {
	n, err := c.Conn.Read(p)
	if c.onIn && n > 0 {
		c.t.feed(&c.inbuf, p[:n])
	}
	return n, err
}
func (c *tapConn) Write(p []byte) (int, error) {
	if !c.onIn {
		c.t.feed(&c.obuf, p)
	}
	return c.Conn.Write(p)
}

type tapListener struct {
	net.Listener
	t *tap
}

func (l *tapListener) Accept() (net.Conn, error) {
	c, err := l.Listener.Accept()
	if err != nil {
		return nil, err
	}
	return &tapConn{Conn: c, t: l.t, onIn: true}, nil
}

// ---- topology

type diffPlan struct {
	method, format, shard, rkey, rdel, caller string
	timeout                                   time.Duration
	arg2, arg3                                []byte
	style                                     int
	resKind                                   int // 0 ok, 1 application error, 2 system error
	resArg2, resArg3                          []byte
	errCode                                   tchannel.SystemErrCode
	errMsg                                    string
}

type diffObs struct {
	caller, service, method, format, shard, rkey, rdel string
	arg2, arg3                                         []byte
	remaining                                          time.Duration
	hasDeadline                                        bool
	readErr                                            string
}

type diffTopo struct {
	server, r1, r2, client *tchannel.Channel
	stap, ctap             *tap
	max1, max2             time.Duration
	mu                     sync.Mutex
	plans                  map[uint32]*diffPlan
	obs                    map[uint32]*diffObs
}

func (t *diffTopo) close() {
	for _, ch := range []*tchannel.Channel{t.client, t.r2, t.r1, t.server} {
		if ch != nil {
			ch.Close()
		}
	}
}

func (t *diffTopo) handle(ctx context.Context, call *tchannel.InboundCall) {
	o := &diffObs{caller: call.CallerName(), service: call.ServiceName(), method: call.MethodString(), format: string(call.Format()),
		shard: call.ShardKey(), rkey: call.RoutingKey(), rdel: call.RoutingDelegate()}
	if dl, ok := ctx.Deadline(); ok {
		o.hasDeadline, o.remaining = true, time.Until(dl)
	}
	if err := tchannel.NewArgReader(call.Arg2Reader()).Read(&o.arg2); err != nil {
		o.readErr = "arg2: " + err.Error()
	} else if err := tchannel.NewArgReader(call.Arg3Reader()).Read(&o.arg3); err != nil {
		o.readErr = "arg3: " + err.Error()
	}
	if len(o.arg2) < 4 {
		return
	}
	token := binary.BigEndian.Uint32(o.arg2)
	t.mu.Lock()
	t.obs[token] = o
	p := t.plans[token]
	t.mu.Unlock()
	if p == nil || o.readErr != "" {
		call.Response().SendSystemError(tchannel.NewSystemError(tchannel.ErrCodeBadRequest, "verif: unknown token or unreadable arguments"))
		return
	}
	resp := call.Response()
	switch p.resKind {
	case 2:
		resp.SendSystemError(tchannel.NewSystemError(p.errCode, "%s", p.errMsg))
		return
	case 1:
		resp.SetApplicationError()
	}
	if err := tchannel.NewArgWriter(resp.Arg2Writer()).Write(p.resArg2); err != nil {
		return
	}
	w, err := resp.Arg3Writer()
	if err != nil {
		return
	}
	half := len(p.resArg3) / 2
	w.Write(p.resArg3[:half])
	if p.style%2 == 1 {
		w.Flush()
	}
	w.Write(p.resArg3[half:])
	w.Close()
}

func newDiffTopo(rng *rand.Rand) (*diffTopo, error) {
	t := &diffTopo{stap: &tap{got: map[uint32]tapFrame{}}, ctap: &tap{got: map[uint32]tapFrame{}}, plans: map[uint32]*diffPlan{}, obs: map[uint32]*diffObs{}}
	maxes := []time.Duration{0, 5 * time.Second, 30 * time.Second, 3500 * time.Millisecond}
	t.max1, t.max2 = maxes[rng.Intn(len(maxes))], maxes[rng.Intn(len(maxes))]
	var err error
	if t.server, err = tchannel.NewChannel("target", nil); err != nil {
		return t, err
	}
	t.server.Register(tchannel.HandlerFunc(t.handle), "do")
	ln, err := net.Listen("tcp", "127.0.0.1:0")
	if err != nil {
		return t, err
	}
	if err := t.server.Serve(&tapListener{Listener: ln, t: t.stap}); err != nil {
		return t, err
	}
	h1 := &c08Host{route: map[string]string{"target": t.server.PeerInfo().HostPort}}
	if t.r1, err = tchannel.NewChannel("relay-1", &tchannel.ChannelOptions{RelayHost: h1, RelayMaxTimeout: t.max1}); err != nil {
		return t, err
	}
	if err := t.r1.ListenAndServe("127.0.0.1:0"); err != nil {
		return t, err
	}
	h2 := &c08Host{route: map[string]string{"target": t.r1.PeerInfo().HostPort}}
	if t.r2, err = tchannel.NewChannel("relay-2", &tchannel.ChannelOptions{RelayHost: h2, RelayMaxTimeout: t.max2}); err != nil {
		return t, err
	}
	if err := t.r2.ListenAndServe("127.0.0.1:0"); err != nil {
		return t, err
	}
	csum := []tchannel.ChecksumType{tchannel.ChecksumTypeCrc32, tchannel.ChecksumTypeCrc32C, tchannel.ChecksumTypeNone}[rng.Intn(3)]
	t.client, err = tchannel.NewChannel("the-caller", &tchannel.ChannelOptions{
		DefaultConnectionOptions: tchannel.ConnectionOptions{ChecksumType: csum},
		Dialer: func(ctx context.Context, network, hostPort string) (net.Conn, error) {
			c, err := (&net.Dialer{}).DialContext(ctx, network, hostPort)
			if err != nil {
				return nil, err
			}
			return &tapConn{Conn: c, t: t.ctap}, nil
		},
	})
	return t, err
}

type diffResult struct {
	err     string
	code    int
	appErr  bool
	a2, a3  []byte
	elapsed time.Duration
}

// call with a watchdog: a relay that loses frames makes a call hang until its (long) deadline
func (t *diffTopo) call(hostPort string, token uint32, p *diffPlan) diffResult {
	t.mu.Lock()
	t.plans[token] = p
	t.mu.Unlock()
	ctx, cancel := tchannel.NewContextBuilder(p.timeout).Build()
	defer cancel()
	done := make(chan diffResult, 1)
	go func() { done <- t.callCtx(ctx, hostPort, token, p) }()
	select {
	case r := <-done:
		return r
	case <-time.After(6 * time.Second):
		cancel()
		r := <-done
		r.err, r.code = "no outcome within 6 s (deadline "+p.timeout.String()+"): "+r.err, -2
		return r
	}
}

func (t *diffTopo) callCtx(ctx context.Context, hostPort string, token uint32, p *diffPlan) diffResult {
	var r diffResult
	start := time.Now()
	call, err := t.client.BeginCall(ctx, hostPort, "target", p.method, &tchannel.CallOptions{Format: tchannel.Format(p.format), ShardKey: p.shard, RoutingKey: p.rkey, RoutingDelegate: p.rdel, CallerName: p.caller})
	fail := func(where string, err error) diffResult {
		r.err = where + ": " + err.Error()
		if se, ok := err.(tchannel.SystemError); ok {
			r.err = se.Message()
			r.code = int(se.Code())
		} else {
			r.code = -1
		}
		r.elapsed = time.Since(start)
		return r
	}
	if err != nil {
		return fail("begin", err)
	}
	arg2 := make([]byte, 4, 4+len(p.arg2))
	binary.BigEndian.PutUint32(arg2, token)
	arg2 = append(arg2, p.arg2...)
	if err := tchannel.NewArgWriter(call.Arg2Writer()).Write(arg2); err != nil {
		return fail("arg2", err)
	}
	w, err := call.Arg3Writer()
	if err != nil {
		return fail("arg3 writer", err)
	}
	switch p.style {
	case 0:
		w.Write(p.arg3)
	case 1:
		half := len(p.arg3) / 2
		w.Write(p.arg3[:half])
		w.Flush()
		w.Write(p.arg3[half:])
	case 2:
		w.Write(p.arg3)
		w.Flush()
	default:
		for i := 0; i < len(p.arg3); i += 7000 {
			w.Write(p.arg3[i:imin(i+7000, len(p.arg3))])
		}
	}
	if err := w.Close(); err != nil {
		return fail("arg3 close", err)
	}
	resp := call.Response()
	if err := tchannel.NewArgReader(resp.Arg2Reader()).Read(&r.a2); err != nil {
		return fail("response arg2", err)
	}
	if err := tchannel.NewArgReader(resp.Arg3Reader()).Read(&r.a3); err != nil {
		return fail("response arg3", err)
	}
	r.appErr = resp.ApplicationError()
	r.elapsed = time.Since(start)
	return r
}

func genDiffPlan(rng *rand.Rand) *diffPlan {
	p := &diffPlan{method: "do"}
	p.format = []string{"raw", "json", "thrift", "http", "", "streaming-x"}[rng.Intn(6)]
	if rng.Intn(2) == 0 {
		p.shard = "shard-" + utf8Safe(rng, pick(rng, 0, 5, 200))
	}
	if rng.Intn(2) == 0 {
		p.rkey = "rk-" + utf8Safe(rng, pick(rng, 0, 10))
	}
	if rng.Intn(2) == 0 {
		p.rdel = "rd-" + utf8Safe(rng, pick(rng, 0, 10))
	}
	if rng.Intn(3) == 0 {
		p.caller = "proxied-" + utf8Safe(rng, pick(rng, 1, 20))
	}
	p.timeout = []time.Duration{2 * time.Second, 3 * time.Second, 4 * time.Second, 6 * time.Second, 20 * time.Second, 45 * time.Second, 150 * time.Second}[rng.Intn(7)]
	p.arg2 = []byte(randBytes(rng, pick(rng, 0, 1, 100, 3000, 66000)))
	p.arg3 = []byte(randBytes(rng, pick(rng, 0, 1, 12, 1000, 65000, 70000, 200000)))
	p.style = rng.Intn(4)
	p.resKind = pick(rng, 0, 0, 0, 1, 2)
	p.resArg2 = []byte(randBytes(rng, pick(rng, 0, 5, 500, 66000)))
	p.resArg3 = []byte(randBytes(rng, pick(rng, 0, 1, 300, 66000, 140000)))
	p.errCode = []tchannel.SystemErrCode{tchannel.ErrCodeBusy, tchannel.ErrCodeDeclined, tchannel.ErrCodeUnexpected, tchannel.ErrCodeBadRequest, tchannel.ErrCodeTimeout, tchannel.ErrCodeCancelled}[rng.Intn(6)]
	// no '%' in the message: errorMessage.AsSystemError passes the peer's message to fmt.Sprintf as a
	// format string even on a direct call (a C20 matter, reported there)
	p.errMsg = "handler says: " + strings.ReplaceAll(utf8Safe(rng, pick(rng, 0, 10, 300)), "%", "_")
	return p
}

func minMs(ttl uint32, maxes ...time.Duration) uint32 {
	for _, m := range maxes {
		if mm := c08MaxMs(m); ttl > mm {
			ttl = mm
		}
	}
	return ttl
}

// judge one path of one case; "" = fine
func (t *diffTopo) judge(path int, token uint32, p *diffPlan, r diffResult) string {
	name := []string{"direct", "through one relay", "through two relays"}[path]
	t.mu.Lock()
	o := t.obs[token]
	t.mu.Unlock()
	t.stap.mu.Lock()
	sf, sok := t.stap.got[token]
	t.stap.mu.Unlock()
	t.ctap.mu.Lock()
	cf, cok := t.ctap.got[token]
	t.ctap.mu.Unlock()
	if o == nil {
		return fmt.Sprintf("%s: the call did not reach the handler (caller got code %d %q)", name, r.code, r.err)
	}
	wantCaller := p.caller
	if wantCaller == "" {
		wantCaller = "the-caller"
	}
	wantFormat := p.format
	if wantFormat == "" {
		wantFormat = "raw"
	}
	switch {
	case o.readErr != "":
		return fmt.Sprintf("%s: the handler could not read the arguments: %s", name, o.readErr)
	case o.caller != wantCaller || o.service != "target" || o.method != p.method || o.format != wantFormat:
		return fmt.Sprintf("%s: handler saw caller/service/method/format %q/%q/%q/%q, caller sent %q/target/%q/%q", name, o.caller, o.service, o.method, o.format, wantCaller, p.method, wantFormat)
	case o.shard != p.shard || o.rkey != p.rkey || o.rdel != p.rdel:
		return fmt.Sprintf("%s: handler saw shard key/routing key/routing delegate %q/%q/%q, caller sent %q/%q/%q", name, o.shard, o.rkey, o.rdel, p.shard, p.rkey, p.rdel)
	case !bytes.Equal(o.arg2[4:], p.arg2) || !bytes.Equal(o.arg3, p.arg3):
		return fmt.Sprintf("%s: handler read arg2/arg3 of %d/%d bytes that differ from the %d/%d bytes sent", name, len(o.arg2)-4, len(o.arg3), len(p.arg2), len(p.arg3))
	case !o.hasDeadline || o.remaining <= 0 || o.remaining > p.timeout:
		return fmt.Sprintf("%s: handler's remaining deadline %v is not within (0, %v]", name, o.remaining, p.timeout)
	}
	if !sok || !cok {
		return fmt.Sprintf("%s: harness tap did not see the call req (server %v client %v)", name, sok, cok)
	}
	if !bytes.Equal(sf.tracing, cf.tracing) {
		return fmt.Sprintf("%s: tracing span on the wire at the server %x differs from the caller's %x", name, sf.tracing, cf.tracing)
	}
	var maxes []time.Duration
	if path >= 1 {
		maxes = append(maxes, t.max1)
	}
	if path == 2 {
		maxes = append(maxes, t.max2)
	}
	if want := minMs(cf.ttl, maxes...); sf.ttl != want {
		return fmt.Sprintf("%s: ttl on the wire at the server is %d ms; the caller sent %d ms and the relay maxima are %v (want %d)", name, sf.ttl, cf.ttl, maxes, want)
	}
	if o.remaining > time.Duration(sf.ttl)*time.Millisecond {
		return fmt.Sprintf("%s: handler's remaining deadline %v exceeds the ttl %d ms that arrived", name, o.remaining, sf.ttl)
	}
	switch p.resKind {
	case 2:
		if r.code != int(p.errCode) || r.err != p.errMsg {
			return fmt.Sprintf("%s: handler answered system error %d %q, caller got code %d %q", name, p.errCode, p.errMsg, r.code, r.err)
		}
	default:
		if r.err != "" {
			return fmt.Sprintf("%s: handler answered normally, caller got error code %d %q", name, r.code, r.err)
		}
		if r.appErr != (p.resKind == 1) || !bytes.Equal(r.a2, p.resArg2) || !bytes.Equal(r.a3, p.resArg3) {
			return fmt.Sprintf("%s: caller got application-error=%v and %d/%d response bytes; the handler produced application-error=%v and %d/%d bytes", name, r.appErr, len(r.a2), len(r.a3), p.resKind == 1, len(p.resArg2), len(p.resArg3))
		}
	}
	return ""
}

func engineRelayDiff(rng *rand.Rand, n int, tier string, o *Out) {
	perTopo := 8
	var t *diffTopo
	defer func() {
		if t != nil {
			t.close()
		}
	}()
	token := uint32(0)
	for c := 0; c < n; c++ {
		if o.fails >= 5 {
			break // a broken relay fails everywhere: enough evidence, do not wait out every deadline
		}
		if c%perTopo == 0 {
			if t != nil {
				t.close()
			}
			var err error
			t, err = newDiffTopo(rng)
			if err != nil {
				o.Oracle("relaydiff", fmt.Sprintf("topo%d", c), false, "topo", "harness: cannot build the topology: "+err.Error())
				t.close()
				t = nil
				return
			}
		}
		hps := []string{t.server.PeerInfo().HostPort, t.r1.PeerInfo().HostPort, t.r2.PeerInfo().HostPort}
		if c%perTopo == perTopo-1 {
			// a concurrent batch over the relays: calls must not mix
			k := pick(rng, 3, 6)
			plans := make([]*diffPlan, k)
			res := make([]diffResult, k)
			paths := make([]int, k)
			var wg sync.WaitGroup
			for i := range plans {
				plans[i] = genDiffPlan(rng)
				paths[i] = 1 + rng.Intn(2)
				if len(plans[i].arg3) > 70000 {
					plans[i].arg3 = plans[i].arg3[:70000]
				}
			}
			base := token
			token += uint32(k)
			for i := range plans {
				wg.Add(1)
				go func(i int) {
					defer wg.Done()
					res[i] = t.call(hps[paths[i]], base+uint32(i), plans[i])
				}(i)
			}
			wg.Wait()
			verdict := ""
			for i := range plans {
				if v := t.judge(paths[i], base+uint32(i), plans[i], res[i]); v != "" && verdict == "" {
					verdict = "concurrent batch: " + v
				}
			}
			o.Hist(fmt.Sprintf("concurrent batch of %d", k))
			o.Oracle("relaydiff", fmt.Sprintf("d%d", c), true, fmt.Sprint(c, k, paths), verdict)
			continue
		}
		p := genDiffPlan(rng)
		verdict := ""
		var results [3]diffResult
		for path := 0; path < 3; path++ {
			tk := token
			token++
			results[path] = t.call(hps[path], tk, p)
			if v := t.judge(path, tk, p, results[path]); v != "" && verdict == "" {
				verdict = v
			}
		}
		if verdict == "" {
			for path := 1; path < 3; path++ {
				a, b := results[0], results[path]
				if a.err != b.err || a.code != b.code || a.appErr != b.appErr || !bytes.Equal(a.a2, b.a2) || !bytes.Equal(a.a3, b.a3) {
					verdict = fmt.Sprintf("the caller's outcome through %d relay(s) differs from the direct call's", path)
				}
			}
		}
		o.Hist(fmt.Sprintf("format=%q res=%d", p.format, p.resKind))
		o.Hist(fmt.Sprintf("arg3=%d resArg3=%d", len(p.arg3), len(p.resArg3)))
		if c < 2 {
			o.Sample(map[string]interface{}{"sub": "relaydiff", "format": p.format, "shardKey": p.shard != "", "routingKey": p.rkey, "callerOverride": p.caller != "", "timeout_ms": int64(p.timeout / time.Millisecond),
				"arg2": len(p.arg2), "arg3": len(p.arg3), "response": p.resKind, "relay_max_1_ns": int64(t.max1), "relay_max_2_ns": int64(t.max2)})
		}
		o.Oracle("relaydiff", fmt.Sprintf("d%d", c), true, fmt.Sprint(c, p.format, p.shard, p.rkey, p.rdel, p.caller, p.timeout, len(p.arg2), len(p.arg3), p.style, p.resKind, len(p.resArg2), len(p.resArg3)), verdict)
	}
}
